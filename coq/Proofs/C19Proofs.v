(* C19 — discovery metadata matches what the provider serves and accepts: proofs. *)
From Verif Require Import Base Scope Types Prog Pop Token Authorize System Config Discovery Required Rets ConfigProofs Tactics C11Proofs.
Local Open Scope N_scope.

(* ---- strings ---- *)
Lemma strip_prefix_app p s : strip_prefix p (p ++ s) = Some s.
Proof. induction p as [|a p IH]; simpl; auto. rewrite Ascii.eqb_refl. exact IH. Qed.
Lemma is_empty_app a b : is_empty (a ++ b) = andb (is_empty a) (is_empty b).
Proof. destruct a; simpl; auto. Qed.
Lemma url_nonempty a b s : is_empty s = false -> is_empty (a ++ b ++ s) = false.
Proof. intros H. rewrite !is_empty_app, H, !andb_false_r. reflexivity. Qed.

Lemma serve_rel c m s :
  serve c m (cf_prefix c ++ s) = option_map r_ep (find (fun r => route_matches r m s) (routes c)).
Proof. unfold serve. rewrite strip_prefix_app. reflexivity. Qed.

(* the five feature flags that decide the route table *)
Ltac flags5 c :=
  destruct (cf_introspection c) eqn:?, (cf_revocation c) eqn:?, (cf_par_enabled c) eqn:?,
           (cf_ciba_enabled c) eqn:?, (cf_dcr c) eqn:?.

(* which flag enables an endpoint; None: always there *)
Definition ep_flag (c : config) (e : endpoint) : bool :=
  match e with
  | EpPar => cf_par_enabled c | EpCiba => cf_ciba_enabled c | EpIntrospect => cf_introspection c
  | EpRevoke => cf_revocation c | EpDcr | EpDcrClient => cf_dcr c | _ => true
  end.

Lemma serve_enabled c e m : ep_flag c e = true -> In m (ep_methods e) ->
  match e with EpAuthorizeCb | EpDcrClient => True | _ => serve c m (cf_prefix c ++ ep_path e) = Some e end.
Proof.
  intros Hf Hm. destruct e; try exact I; rewrite serve_rel; unfold routes;
    cbn in Hf; rewrite ?Hf; flags5 c; try discriminate;
    cbn in Hm; repeat (destruct Hm as [<-|Hm]; [reflexivity|]); contradiction.
Qed.

Lemma serve_disabled c e m : ep_flag c e = false -> serve c m (cf_prefix c ++ ep_path e) = None.
Proof.
  intros Hf. rewrite serve_rel. unfold routes.
  destruct e; cbn in Hf; try discriminate; rewrite ?Hf; flags5 c; try discriminate; destruct m; reflexivity.
Qed.

Lemma serve_sub_enabled c e m x : ep_flag c e = true -> In m (ep_methods e) -> is_empty x = false ->
  match e with
  | EpAuthorizeCb | EpDcrClient => serve c m (cf_prefix c ++ ep_path e ++ "/" ++ x) = Some e
  | _ => True end.
Proof.
  intros Hf Hm Hx. destruct e; try exact I; rewrite serve_rel; unfold routes;
    cbn in Hf; rewrite ?Hf; flags5 c; try discriminate;
    cbn in Hm; repeat (destruct Hm as [<-|Hm]; [cbn; rewrite ?Hx; reflexivity|]); contradiction.
Qed.

Section Doc.
  Variables (iss mtls : string) (c : config).
  Notation mv := (member_value iss mtls c).

  Lemma endpoint_member_value m e : member_endpoint m = Some e ->
    mv m = if ep_flag c e then Some (DStr (ep_url iss c e)) else None.
  Proof.
    destruct m; cbn; try discriminate; intros H; injection H as <-; cbn; try reflexivity.
    all: match goal with |- context [if ?b then Some _ else None] => destruct b end; cbn; try reflexivity.
    all: unfold ep_url; cbn; rewrite url_nonempty by reflexivity; reflexivity.
  Qed.

  (* every endpoint URL in the document is issuer ++ prefix ++ path of a route registered for the methods it has to answer *)
  Lemma advertised_served m e url : member_endpoint m = Some e -> mv m = Some (DStr url) ->
    url = iss ++ cf_prefix c ++ ep_path e /\
    forall mt, In mt (ep_methods e) -> serve c mt (cf_prefix c ++ ep_path e) = Some e.
  Proof.
    intros He Hv. rewrite (endpoint_member_value _ _ He) in Hv.
    destruct (ep_flag c e) eqn:Hf; [|discriminate]. injection Hv as <-. split; [reflexivity|].
    intros mt Hm. pose proof (serve_enabled c e mt Hf Hm) as H.
    destruct m; cbn in He; try discriminate; injection He as <-; exact H.
  Qed.

  (* and the aliases: same paths under the mTLS host *)
  Lemma mtls_aliases_served name url : In (name, url) (mtls_aliases mtls c) ->
    exists e, url = mtls ++ cf_prefix c ++ ep_path e /\ forall mt, In mt (ep_methods e) -> serve c mt (cf_prefix c ++ ep_path e) = Some e.
  Proof.
    unfold mtls_aliases. intros H. repeat (apply in_app_or in H; destruct H as [H|H]).
    - cbn in H. destruct H as [H|[H|[]]]; injection H as <- <-.
      + exists EpToken. split; [reflexivity|]. intros mt Hm. exact (serve_enabled c EpToken mt eq_refl Hm).
      + exists EpUserInfo. split; [reflexivity|]. intros mt Hm. exact (serve_enabled c EpUserInfo mt eq_refl Hm).
    - destruct (cf_par_enabled c) eqn:E; [|destruct H]. destruct H as [H|[]]; injection H as <- <-.
      exists EpPar. split; [reflexivity|]. intros mt Hm. exact (serve_enabled c EpPar mt E Hm).
    - destruct (cf_dcr c) eqn:E; [|destruct H]. destruct H as [H|[]]; injection H as <- <-.
      exists EpDcr. split; [reflexivity|]. intros mt Hm. exact (serve_enabled c EpDcr mt E Hm).
    - destruct (cf_introspection c) eqn:E; [|destruct H]. destruct H as [H|[]]; injection H as <- <-.
      exists EpIntrospect. split; [reflexivity|]. intros mt Hm. exact (serve_enabled c EpIntrospect mt E Hm).
    - destruct (cf_revocation c) eqn:E; [|destruct H]. destruct H as [H|[]]; injection H as <- <-.
      exists EpRevoke. split; [reflexivity|]. intros mt Hm. exact (serve_enabled c EpRevoke mt E Hm).
    - destruct (cf_ciba_enabled c) eqn:E; [|destruct H]. destruct H as [H|[]]; injection H as <- <-.
      exists EpCiba. split; [reflexivity|]. intros mt Hm. exact (serve_enabled c EpCiba mt E Hm).
  Qed.

  (* converse: every registered route belongs to an advertised endpoint, or is the document itself,
     or a sub-resource (callback, registered client) of an advertised endpoint *)
  Definition endpoint_member (e : endpoint) : option member :=
    match e with
    | EpJWKS => Some MJwksUri | EpToken => Some MTokenEndpoint | EpAuthorize | EpAuthorizeCb => Some MAuthorizationEndpoint
    | EpUserInfo => Some MUserinfoEndpoint | EpPar => Some MParEndpoint | EpCiba => Some MCibaEndpoint
    | EpIntrospect => Some MIntrospectionEndpoint | EpRevoke => Some MRevocationEndpoint
    | EpDcr | EpDcrClient => Some MRegistrationEndpoint | EpWellKnown => None
    end.

  Lemma route_flag r : In r (routes c) -> ep_flag c (r_ep r) = true.
  Proof.
    unfold routes. intros H. repeat (apply in_app_or in H; destruct H as [H|H]);
      repeat match goal with H : In _ (if ?b then _ else _) |- _ => destruct b eqn:?; [|destruct H] end;
      cbn in H; repeat (destruct H as [<-|H]; [cbn; auto|]); try contradiction.
  Qed.

  Lemma served_advertised r : In r (routes c) ->
    match endpoint_member (r_ep r) with Some m => mv m <> None | None => r_ep r = EpWellKnown end.
  Proof.
    intros H. apply route_flag in H. destruct (r_ep r) eqn:E; cbn [endpoint_member]; try reflexivity;
      (erewrite endpoint_member_value by reflexivity); cbn in H |- *; rewrite ?H; discriminate.
  Qed.
End Doc.

(* ---- which options enable a feature: flag cfg = existsb sets opts ---- *)
Lemma fold_flag_eq (f : config -> bool) (sets : opt -> bool) :
  (forall o c, sets o = false -> f (apply_opt o c) = f c) ->
  (forall o c, sets o = true -> f (apply_opt o c) = true) ->
  forall opts c, f (fold_left (fun c o => apply_opt o c) opts c) = orb (f c) (existsb sets opts).
Proof.
  intros H0 H1 opts. induction opts as [|o r IH]; simpl; intros c; [rewrite orb_false_r; reflexivity|].
  rewrite IH. destruct (sets o) eqn:E; [rewrite H1 by auto|rewrite H0 by auto]; cbn; auto. rewrite orb_true_r. reflexivity.
Qed.
Lemma build_flag_eq (f : config -> bool) (sets : opt -> bool) :
  (forall o c, sets o = false -> f (apply_opt o c) = f c) ->
  (forall o c, sets o = true -> f (apply_opt o c) = true) ->
  (forall c, f (set_defaults c) = f c) -> (forall p, f (base_config p) = false) ->
  forall p opts cfg, build p opts = Some cfg -> f cfg = existsb sets opts.
Proof.
  intros H0 H1 Hd Hb p opts cfg H. apply build_inv in H as [-> _]. rewrite Hd. unfold folded.
  rewrite (fold_flag_eq f sets H0 H1). rewrite Hb. reflexivity.
Qed.

Definition sets_par (o : opt) := match o with WithPAR _ | WithPARRequired _ => true | _ => false end.
Definition sets_ciba (o : opt) := match o with WithCIBAGrant => true | _ => false end.
Definition sets_introspection (o : opt) := match o with WithTokenIntrospection => true | _ => false end.
Definition sets_revocation (o : opt) := match o with WithTokenRevocation => true | _ => false end.
Definition sets_dcr (o : opt) := match o with WithDCR => true | _ => false end.
Definition sets_dpop (o : opt) := match o with WithDPoP | WithDPoPRequired => true | _ => false end.
Definition sets_pkce (o : opt) := match o with WithPKCE _ _ | WithPKCERequired _ _ => true | _ => false end.
Definition sets_jarm (o : opt) := match o with WithJARM => true | _ => false end.

Ltac feq d := intros p opts cfg H; eapply build_flag_eq;
  [ intros o c E; destruct o; try discriminate; reflexivity
  | intros o c E; destruct o; try discriminate; reflexivity
  | exact d | intros; reflexivity | eassumption ].
Lemma par_enabled_eq p opts cfg : build p opts = Some cfg -> cf_par_enabled cfg = existsb sets_par opts.
Proof. revert p opts cfg. feq dflt_par_enabled. Qed.
Lemma ciba_enabled_eq p opts cfg : build p opts = Some cfg -> cf_ciba_enabled cfg = existsb sets_ciba opts.
Proof. revert p opts cfg. feq dflt_ciba_enabled. Qed.
Lemma introspection_eq p opts cfg : build p opts = Some cfg -> cf_introspection cfg = existsb sets_introspection opts.
Proof. revert p opts cfg. feq dflt_introspection. Qed.
Lemma revocation_eq p opts cfg : build p opts = Some cfg -> cf_revocation cfg = existsb sets_revocation opts.
Proof. revert p opts cfg. feq dflt_revocation. Qed.
Lemma dcr_eq p opts cfg : build p opts = Some cfg -> cf_dcr cfg = existsb sets_dcr opts.
Proof. revert p opts cfg. feq dflt_dcr. Qed.
Lemma dpop_enabled_eq p opts cfg : build p opts = Some cfg -> cf_dpop_enabled cfg = existsb sets_dpop opts.
Proof. revert p opts cfg. feq dflt_dpop_enabled. Qed.
Lemma pkce_enabled_eq p opts cfg : build p opts = Some cfg -> cf_pkce_enabled cfg = existsb sets_pkce opts.
Proof. revert p opts cfg. feq dflt_pkce_enabled. Qed.
Lemma jarm_enabled_eq p opts cfg : build p opts = Some cfg -> cf_jarm_enabled cfg = existsb sets_jarm opts.
Proof. revert p opts cfg. feq dflt_jarm_enabled. Qed.

(* ---- optional endpoints: not enabled -> absent, not routed, handler refuses ---- *)
Section Endpoints.
  Variables (iss mtls : string) (c : config) (statics : list client).
  Let w := mkWorld c statics.
  Notation mv := (member_value iss mtls c).

  Lemma par_disabled : cf_par_enabled c = false ->
    mv MParEndpoint = None /\ mv MRequirePar = None /\
    (forall m, serve c m (cf_prefix c ++ ep_path EpPar) = None) /\
    forall n now r st, snd (run_seq (push_auth_g w n now r) st) = OErr EOther.
  Proof.
    intros H. repeat split.
    - cbn. rewrite H. reflexivity.
    - cbn. rewrite H. reflexivity.
    - intros m. apply serve_disabled. exact H.
    - intros. unfold push_auth_g, push_auth. cbn. rewrite H. reflexivity.
  Qed.

  Lemma ciba_disabled : cf_ciba_enabled c = false ->
    mv MCibaEndpoint = None /\ mv MCibaModes = None /\ mv MCibaUserCode = None /\ mv MCibaJarSigAlgs = None /\
    (forall m, serve c m (cf_prefix c ++ ep_path EpCiba) = None) /\
    forall n now r st, snd (run_seq (init_back_auth_g w n now r) st) = OErr EOther.
  Proof.
    intros H. repeat split; try (cbn; rewrite H; reflexivity).
    - intros m. apply serve_disabled. exact H.
    - intros. unfold init_back_auth_g, init_back_auth. cbn. rewrite H. reflexivity.
  Qed.

  Lemma introspection_disabled : cf_introspection c = false ->
    mv MIntrospectionEndpoint = None /\ mv MIntrospectionAuthMethods = None /\
    (forall m, serve c m (cf_prefix c ++ ep_path EpIntrospect) = None) /\
    forall now r st, snd (run_seq (introspect w now r) st) = OErr EOther.
  Proof.
    intros H. repeat split; try (cbn; rewrite H; reflexivity).
    - intros m. apply serve_disabled. exact H.
    - intros. unfold introspect. cbn. rewrite H. reflexivity.
  Qed.

  Lemma revocation_disabled : cf_revocation c = false ->
    mv MRevocationEndpoint = None /\ mv MRevocationAuthMethods = None /\
    (forall m, serve c m (cf_prefix c ++ ep_path EpRevoke) = None) /\
    forall now r st, snd (run_seq (revoke w now r) st) = OErr EOther.
  Proof.
    intros H. repeat split; try (cbn; rewrite H; reflexivity).
    - intros m. apply serve_disabled. exact H.
    - intros. unfold revoke. cbn. rewrite H. reflexivity.
  Qed.

  Lemma dcr_disabled : cf_dcr c = false ->
    mv MRegistrationEndpoint = None /\
    (forall m, serve c m (cf_prefix c ++ ep_path EpDcr) = None) /\
    (forall m x, serve c m (cf_prefix c ++ ep_path EpDcr ++ "/" ++ x) = None).
  Proof.
    intros H. repeat split; try (cbn; rewrite H; reflexivity).
    - intros m. apply serve_disabled. exact H.
    - intros m x. rewrite serve_rel. unfold routes. rewrite H. flags5 c; try discriminate; destruct m; cbn;
        repeat match goal with |- context [Ascii.eqb ?a ?b] => idtac end; try reflexivity.
  Qed.

  (* enabled -> advertised with its URL and routed *)
  Lemma endpoint_enabled m e : member_endpoint m = Some e -> ep_flag c e = true ->
    mv m = Some (DStr (iss ++ cf_prefix c ++ ep_path e)) /\
    forall mt, In mt (ep_methods e) -> serve c mt (cf_prefix c ++ ep_path e) = Some e.
  Proof.
    intros He Hf. rewrite (endpoint_member_value _ _ _ _ _ He), Hf. split; [reflexivity|].
    intros mt Hm. pose proof (serve_enabled c e mt Hf Hm) as H.
    destruct m; cbn in He; try discriminate; injection He as <-; exact H.
  Qed.
End Endpoints.

(* ---- grant types ---- *)
Lemma mem_grant_names g l : mem (grant_name g) (map grant_name l) = has_grant g l.
Proof.
  induction l as [|a r IH]; [reflexivity|]. cbn [map mem has_grant existsb]. unfold has_grant in IH. rewrite IH.
  destruct g, a; reflexivity.
Qed.

Lemma grant_advertised iss mtls c g :
  advertised_in iss mtls c MGrantTypes (grant_name g) = has_grant g (cf_grants c).
Proof.
  unfold advertised_in. cbn. destruct (cf_grants c) as [|a r] eqn:E; [reflexivity|].
  cbn [map omit_empty]. rewrite <- mem_grant_names. reflexivity.
Qed.

Lemma grant_disabled_refused c statics g st n r :
  has_grant g (cf_grants c) = false ->
  snd (step_g (mkWorld c statics) st n (OpToken g r)) = Out (OErr EUnsupportedGrantType).
Proof.
  intros H. rewrite step_g_obs. destruct g; cbn; try reflexivity.
  - unfold cc_grant. cbn. rewrite H. reflexivity.
  - unfold code_grant. cbn. rewrite H. reflexivity.
  - unfold refresh_grant. cbn. rewrite H. reflexivity.
  - unfold jwt_bearer_grant. cbn. rewrite H. reflexivity.
  - unfold ciba_grant. cbn. rewrite H. reflexivity.
Qed.

(* advertised -> accepted, for a client registered for the grant (client_credentials: the one grant that needs no earlier artifact) *)
Lemma cc_advertised_accepted c statics st n now r cl :
  has_grant GClientCredentials (cf_grants c) = true ->
  auth_of (mkWorld c statics) st (t_cred r) = Some cl ->
  has_grant GClientCredentials (c_grants cl) = true ->
  validate_binding c cl (t_bind r) no_opts = None ->
  are_scopes_allowed (c_scopes cl) (cf_scopes c) (t_scope r) = true ->
  validate_resources c (cf_resources c) (t_resources r) = true ->
  validate_details_types c (t_auth_details r) = true -> t_hg r = HgOk ->
  exists t, snd (run_seq (cc_grant (mkWorld c statics) n now r) st) = OTokens t.
Proof.
  intros H1 H2 H3 H4 H5 H7 H8 H6. unfold cc_grant. cbn. rewrite H1. cbn.
  rewrite run_seq_bind, run_authenticated, H2. cbn. rewrite H3, H4, H5, H7, H8, H6. cbn.
  destruct (make_token n cl GClientCredentials) as [tv tid]. cbn. eexists. reflexivity.
Qed.

(* ---- what validateParamsAsOptionals lets through ---- *)
Lemma vo_none cfg p c : validate_optionals cfg p c = None ->
  (is_empty (p_resp_type p) = true \/ mem (p_resp_type p) (c_resp_types c) = true) /\
  (is_empty (p_resp_mode p) = true \/ mem (p_resp_mode p) (cf_resp_modes cfg) = true) /\
  (is_empty (p_method p) = true \/ mem (p_method p) (cf_pkce_methods cfg) = true).
Proof.
  intros H. repeat split.
  - destruct (is_empty (p_resp_type p)) eqn:E1; [left; reflexivity|].
    destruct (mem (p_resp_type p) (c_resp_types c)) eqn:E2; [right; reflexivity|]. exfalso. revert H.
    unfold validate_optionals. rewrite E1, E2. cbn. repeat (break_goal; try discriminate).
  - destruct (is_empty (p_resp_mode p)) eqn:E1; [left; reflexivity|].
    destruct (mem (p_resp_mode p) (cf_resp_modes cfg)) eqn:E2; [right; reflexivity|]. exfalso. revert H.
    unfold validate_optionals. rewrite E1, E2. cbn. repeat (break_goal; try discriminate).
  - destruct (is_empty (p_method p)) eqn:E1; [left; reflexivity|].
    destruct (mem (p_method p) (cf_pkce_methods cfg)) eqn:E2; [right; reflexivity|]. exfalso. revert H.
    unfold validate_optionals. rewrite E1, E2. cbn. repeat (break_goal; try discriminate).
Qed.

Local Transparent validate_params.
Lemma vp_none_vo cfg p c : validate_params cfg p c = None -> validate_optionals cfg p c = None /\ is_empty (p_resp_type p) = false.
Proof.
  unfold validate_params. destruct (is_empty (p_redirect p)); [discriminate|].
  destruct (validate_optionals cfg p c); [discriminate|]. destruct (is_empty (p_resp_type p)); [discriminate|]. auto.
Qed.
Local Opaque validate_params.

(* a client whose registration stays within the server's capabilities (what dcr validation guarantees) *)
Definition client_within (cfg : config) (c : client) : Prop := subset (c_resp_types c) (cf_resp_types cfg) = true.

Lemma resp_type_gate cfg p c : client_within cfg c -> mem (p_resp_type p) (cf_resp_types cfg) = false ->
  validate_params cfg p c <> None.
Proof.
  intros Hw Hm H. apply vp_none_vo in H as [H He]. apply vo_none in H as [[H|H] _]; [congruence|].
  apply mem_In in H. unfold client_within in Hw. rewrite subset_spec in Hw. apply Hw in H. apply mem_In in H. congruence.
Qed.
Lemma resp_mode_gate cfg p c : is_empty (p_resp_mode p) = false -> mem (p_resp_mode p) (cf_resp_modes cfg) = false ->
  validate_params cfg p c <> None.
Proof. intros He Hm H. apply vp_none_vo in H as [H _]. apply vo_none in H as [_ [[H|H] _]]; congruence. Qed.
Lemma pkce_method_gate cfg p c : is_empty (p_method p) = false -> mem (p_method p) (cf_pkce_methods cfg) = false ->
  validate_params cfg p c <> None.
Proof. intros He Hm H. apply vp_none_vo in H as [H _]. apply vo_none in H as [_ [_ [H|H]]]; congruence. Qed.

(* the metadata lists are exactly the lists the gates consult *)
Lemma resp_type_advertised iss mtls c x : advertised_in iss mtls c MResponseTypes x = mem x (cf_resp_types c).
Proof. unfold advertised_in. cbn. destruct (cf_resp_types c); reflexivity. Qed.
Lemma resp_mode_advertised iss mtls c x : advertised_in iss mtls c MResponseModes x = mem x (cf_resp_modes c).
Proof. unfold advertised_in. cbn. destruct (cf_resp_modes c); reflexivity. Qed.

(* PKCE methods: the list is only consulted/advertised when PKCE is on; when it is off the list is empty *)
Lemma fold_inv (I : config -> Prop) : (forall o c, I c -> I (apply_opt o c)) ->
  forall opts c, I c -> I (fold_left (fun c o => apply_opt o c) opts c).
Proof. intros H opts. induction opts as [|o r IH]; simpl; auto. Qed.
Lemma build_pkce_methods p opts cfg : build p opts = Some cfg -> cf_pkce_enabled cfg = false -> cf_pkce_methods cfg = [].
Proof.
  intros H. apply build_inv in H as [-> _].
  assert (forall c, cf_pkce_methods (set_defaults c) = cf_pkce_methods c) as Hd by dflt_tac.
  rewrite Hd, dflt_pkce_enabled. unfold folded.
  apply (fold_inv (fun c => cf_pkce_enabled c = false -> cf_pkce_methods c = [])); [|reflexivity].
  intros o c Hc. destruct o; cbn; auto; discriminate.
Qed.
Lemma pkce_method_advertised iss mtls p opts cfg x : build p opts = Some cfg ->
  advertised_in iss mtls cfg MCodeChallengeMethods x = mem x (cf_pkce_methods cfg).
Proof.
  intros H. unfold advertised_in. cbn. destruct (cf_pkce_enabled cfg) eqn:E.
  - destruct (cf_pkce_methods cfg); reflexivity.
  - rewrite (build_pkce_methods _ _ _ H E). reflexivity.
Qed.

(* ---- not advertised -> refused at the authorization endpoint (direct request) ---- *)
Section NotAdvertised.
  Variables (iss mtls : string) (p : profile) (opts : list opt) (cfg : config) (statics : list client).
  Hypothesis built : build p opts = Some cfg.
  Let w := mkWorld cfg statics.
  Variables (st : state) (n : nat).

  Lemma resp_type_not_advertised_refused r :
    advertised_in iss mtls cfg MResponseTypes (p_resp_type (ar_params r)) = false ->
    (forall c, registered w st c -> c_id c = ar_client r -> client_within cfg c) ->
    p_request_uri (ar_params r) = 0 -> xrefused (snd (step_g w st n (OpAuthorize r))).
  Proof.
    intros Ha Hc Hu. rewrite resp_type_advertised in Ha.
    eapply authorize_blocked with (f := client_within cfg); auto.
    intros c Hw. right; right; left. apply resp_type_gate; auto.
  Qed.

  Lemma resp_mode_not_advertised_refused r :
    is_empty (p_resp_mode (ar_params r)) = false ->
    advertised_in iss mtls cfg MResponseModes (p_resp_mode (ar_params r)) = false ->
    p_request_uri (ar_params r) = 0 -> xrefused (snd (step_g w st n (OpAuthorize r))).
  Proof.
    intros He Ha Hu. rewrite resp_mode_advertised in Ha.
    eapply authorize_blocked with (f := fun _ => True); auto.
    intros c _. right; right; left. apply resp_mode_gate; auto.
  Qed.

  Lemma pkce_method_not_advertised_refused r :
    is_empty (p_method (ar_params r)) = false ->
    advertised_in iss mtls cfg MCodeChallengeMethods (p_method (ar_params r)) = false ->
    p_request_uri (ar_params r) = 0 -> xrefused (snd (step_g w st n (OpAuthorize r))).
  Proof.
    intros He Ha Hu. rewrite (pkce_method_advertised _ _ _ _ _ _ built) in Ha.
    eapply authorize_blocked with (f := fun _ => True); auto.
    intros c _. right; right; left. apply pkce_method_gate; auto.
  Qed.

  (* the derived lists: a response type is advertised iff the grant types it needs are enabled;
     the JWT response modes iff JARM is *)
  Lemma resp_types_follow_grants x :
    advertised_in iss mtls cfg MResponseTypes x =
    mem x ((if has_grant GAuthorizationCode (cf_grants cfg) then ["code"] else []) ++
           (if has_grant GImplicit (cf_grants cfg) then ["token"; "id_token"; "id_token token"] else []) ++
           (if andb (has_grant GAuthorizationCode (cf_grants cfg)) (has_grant GImplicit (cf_grants cfg))
            then ["code id_token"; "code token"; "code id_token token"] else []))%list.
  Proof. rewrite resp_type_advertised, (build_resp_types _ _ _ built). reflexivity. Qed.

  Lemma resp_modes_follow_jarm x :
    advertised_in iss mtls cfg MResponseModes x =
    mem x (["query"; "fragment"; "form_post"] ++
           (if cf_jarm_enabled cfg then ["jwt"; "query.jwt"; "fragment.jwt"; "form_post.jwt"] else []))%list.
  Proof. rewrite resp_mode_advertised, (build_resp_modes _ _ _ built). reflexivity. Qed.
End NotAdvertised.

(* ---- sender-constraining flags in the metadata and at run time ---- *)
Lemma dpop_metadata iss mtls c : advertised iss mtls c MDpopSigAlgs = cf_dpop_enabled c.
Proof. unfold advertised. cbn. destruct (cf_dpop_enabled c); reflexivity. Qed.
Lemma dpop_disabled_ignored c cl b o : cf_dpop_enabled c = false ->
  validate_binding_dpop c cl b o = None /\ set_pop_jkt c b = 0.
Proof. intros H. unfold validate_binding_dpop, set_pop_jkt. rewrite H. split; [reflexivity|]. destruct (b_dpop b); reflexivity. Qed.
Lemma tls_metadata iss mtls c :
  advertised iss mtls c MTlsBoundTokens = andb (cf_mtls_enabled c) (cf_tls_binding_enabled c).
Proof. unfold advertised. cbn. destruct (cf_mtls_enabled c), (cf_tls_binding_enabled c); reflexivity. Qed.
Lemma tls_disabled_ignored c cl b o : cf_tls_binding_enabled c = false ->
  validate_binding_tls c cl b o = None /\ set_pop_x5t c b = 0.
Proof. intros H. unfold validate_binding_tls, set_pop_x5t. rewrite H. split; reflexivity. Qed.
Lemma require_par_metadata iss mtls c :
  advertised iss mtls c MRequirePar = andb (cf_par_enabled c) (cf_par_required c).
Proof. unfold advertised. cbn. destruct (cf_par_enabled c), (cf_par_required c); reflexivity. Qed.
Lemma require_par_enforced iss mtls c statics st n r :
  advertised iss mtls c MRequirePar = true -> p_request_uri (ar_params r) = 0 ->
  xrefused (snd (step_g (mkWorld c statics) st n (OpAuthorize r))).
Proof.
  intros H Hu. rewrite require_par_metadata in H. apply andb_true_iff in H as [H1 H2].
  eapply authorize_blocked with (f := fun _ => True); auto. intros cl _. left.
  unfold should_use_par. cbn. rewrite H1, H2. reflexivity.
Qed.
