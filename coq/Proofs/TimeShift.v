(* TimeShift.v - the model is invariant under translation of time.

   The Go code has no injectable clock, so the harness implements "the clock advances by d" by moving
   every stored timestamp d seconds into the past while the real clock stays where it is; the model
   advances its clock.  This file proves that the two views agree: shifting the clock and every stored
   timestamp by the same amount changes nothing but the absolute expiry an introspection reports. *)
From Coq Require Import List ZArith String NArith Lia Bool.
Import ListNotations.
From RecordUpdate Require Import RecordSet. Import RecordSetNotations.
From Verif Require Import Base Scope Types Prog Pop Token Authorize System.
Local Open Scope Z_scope.

Definition sh_a (d : Z) (s : asession) : asession :=
  mkASession (a_id s) (a_client s) (a_subject s) (a_par s) (a_cb s) (a_ciba s) (a_code s) (a_granted s) (a_jkt s) (a_x5t s)
             (a_expires s + d) (a_steps s) (a_nonce_claim s) (a_params s) (a_granted_res s) (a_granted_details s).
Definition sh_g (d : Z) (g : gsession) : gsession :=
  mkGSession (g_id g) (g_token g) (g_refresh g) (g_last_exp g + d) (g_expires g + d) (g_code g) (g_type g) (g_subject g)
             (g_client g) (g_active g) (g_granted g) (g_jkt g) (g_x5t g) (g_active_res g) (g_granted_res g)
             (g_active_details g) (g_granted_details g).
Definition sh_store (d : Z) (st : store) : store :=
  mkStore (st_clients st) (map (sh_a d) (st_asess st)) (map (sh_g d) (st_gsess st)).
Definition sh_call (d : Z) (c : call) : call :=
  match c with ASave s => ASave (sh_a d s) | GSave g => GSave (sh_g d g) | c => c end.
Definition sh_reply (d : Z) (r : reply) : reply :=
  match r with RASess s => RASess (sh_a d s) | RGSess g => RGSess (sh_g d g) | r => r end.
Definition sh_obj (d : Z) (o : obj) : obj :=
  match o with OA s => OA (sh_a d s) | OG g => OG (sh_g d g) | o => o end.

Lemma find_map_sh {A} (f : A -> A) (p : A -> bool) l :
  (forall x, p (f x) = p x) -> find p (map f l) = option_map f (find p l).
Proof. intros H. induction l as [|x l IH]; cbn; [reflexivity|]. rewrite H. destruct (p x); [reflexivity|exact IH]. Qed.
Lemma filter_map_sh {A} (f : A -> A) (p : A -> bool) l :
  (forall x, p (f x) = p x) -> filter p (map f l) = map f (filter p l).
Proof. intros H. induction l as [|x l IH]; cbn; [reflexivity|]. rewrite H. destruct (p x); cbn; rewrite IH; reflexivity. Qed.

Lemma exec_shift d c st :
  exec (sh_call d c) (sh_store d st) = (sh_store d (fst (exec c st)), sh_reply d (snd (exec c st))).
Proof.
  assert (FA : forall (p : asession -> bool) l, (forall x, p (sh_a d x) = p x) ->
             reply_a (find p (map (sh_a d) l)) = sh_reply d (reply_a (find p l))).
  { intros p l H. rewrite find_map_sh by exact H. destruct (find p l); reflexivity. }
  assert (FG : forall (p : gsession -> bool) l, (forall x, p (sh_g d x) = p x) ->
             reply_g (find p (map (sh_g d) l)) = sh_reply d (reply_g (find p l))).
  { intros p l H. rewrite find_map_sh by exact H. destruct (find p l); reflexivity. }
  destruct c; unfold exec, sh_call, sh_store; cbn [st_clients st_asess st_gsess fst snd].
  - destruct (find_client i (st_clients st)); reflexivity.
  - reflexivity.
  - reflexivity.
  - cbn. unfold put_asess. cbn. rewrite filter_map_sh by (intros []; reflexivity). reflexivity.
  - cbn. f_equal. apply FA. intros []; reflexivity.
  - cbn. f_equal. apply FA. intros []; reflexivity.
  - cbn. f_equal. apply FA. intros []; reflexivity.
  - cbn. f_equal. apply FA. intros []; reflexivity.
  - cbn. unfold del_asess. rewrite filter_map_sh by (intros []; reflexivity). reflexivity.
  - cbn. unfold put_gsess. cbn. rewrite filter_map_sh by (intros []; reflexivity). reflexivity.
  - cbn. f_equal. apply FG. intros []; reflexivity.
  - cbn. f_equal. apply FG. intros []; reflexivity.
  - cbn. unfold del_gsess. rewrite filter_map_sh by (intros []; reflexivity). reflexivity.
  - rewrite find_map_sh by (intros []; reflexivity).
    destruct (find (fun g => ideq (g_code g) i) (st_gsess st)) as [g|]; cbn; [|reflexivity].
    unfold del_gsess. rewrite filter_map_sh by (intros []; reflexivity). reflexivity.
Qed.

(* two programs that perform the same calls up to the shift *)
Inductive prel {A} (d : Z) (shA : A -> A) : prog A -> prog A -> Prop :=
  | PR_ret a a' : a' = shA a -> prel d shA (Ret a) (Ret a')
  | PR_do c c' k k' : c' = sh_call d c -> (forall r, prel d shA (k r) (k' (sh_reply d r))) -> prel d shA (Do c k) (Do c' k')
  | PR_touch o o' p p' : o' = sh_obj d o -> prel d shA p p' -> prel d shA (Touch o p) (Touch o' p').

Lemma run_seq_prel {A} d (shA : A -> A) p p' : prel d shA p p' ->
  forall st, run_seq p' (sh_store d st) = (sh_store d (fst (run_seq p st)), shA (snd (run_seq p st))).
Proof.
  induction 1 as [a a' E|c c' k k' E _ IH|o o' p p' E _ IH]; intros st; cbn.
  - subst; reflexivity.
  - subst. rewrite exec_shift. destruct (exec c st) as [st1 r]; cbn. apply IH.
  - apply IH.
Qed.

Lemma prel_bind {A B} d (shA : A -> A) (shB : B -> B) p p' (f f' : A -> prog B) :
  prel d shA p p' -> (forall a, prel d shB (f a) (f' (shA a))) -> prel d shB (bind p f) (bind p' f').
Proof.
  induction 1 as [a a' E|c c' k k' E _ IH|o o' p p' E _ IH]; intros Hf; cbn.
  - subst. apply Hf.
  - apply PR_do; [exact E|]. intros r. apply IH. exact Hf.
  - apply PR_touch; [exact E|]. apply IH. exact Hf.
Qed.

(* ---- projections of shifted records ---- *)
Lemma geb_shift now d x : geb (now + d) (x + d) = geb now x.
Proof. unfold geb. destruct (Z.leb_spec (x + d) (now + d)), (Z.leb_spec x now); try reflexivity; lia. Qed.

Ltac proj_a := intros d s; destruct s; reflexivity.
Lemma sha_id : forall d s, a_id (sh_a d s) = a_id s. Proof. proj_a. Qed.
Lemma sha_client : forall d s, a_client (sh_a d s) = a_client s. Proof. proj_a. Qed.
Lemma sha_subject : forall d s, a_subject (sh_a d s) = a_subject s. Proof. proj_a. Qed.
Lemma sha_par : forall d s, a_par (sh_a d s) = a_par s. Proof. proj_a. Qed.
Lemma sha_cb : forall d s, a_cb (sh_a d s) = a_cb s. Proof. proj_a. Qed.
Lemma sha_ciba : forall d s, a_ciba (sh_a d s) = a_ciba s. Proof. proj_a. Qed.
Lemma sha_code : forall d s, a_code (sh_a d s) = a_code s. Proof. proj_a. Qed.
Lemma sha_granted : forall d s, a_granted (sh_a d s) = a_granted s. Proof. proj_a. Qed.
Lemma sha_jkt : forall d s, a_jkt (sh_a d s) = a_jkt s. Proof. proj_a. Qed.
Lemma sha_x5t : forall d s, a_x5t (sh_a d s) = a_x5t s. Proof. proj_a. Qed.
Lemma sha_expires : forall d s, a_expires (sh_a d s) = a_expires s + d. Proof. proj_a. Qed.
Lemma sha_steps : forall d s, a_steps (sh_a d s) = a_steps s. Proof. proj_a. Qed.
Lemma sha_nonce : forall d s, a_nonce_claim (sh_a d s) = a_nonce_claim s. Proof. proj_a. Qed.
Lemma sha_params : forall d s, a_params (sh_a d s) = a_params s. Proof. proj_a. Qed.
Lemma sha_gres : forall d s, a_granted_res (sh_a d s) = a_granted_res s. Proof. proj_a. Qed.
Lemma shg_id : forall d s, g_id (sh_g d s) = g_id s. Proof. proj_a. Qed.
Lemma shg_token : forall d s, g_token (sh_g d s) = g_token s. Proof. proj_a. Qed.
Lemma shg_refresh : forall d s, g_refresh (sh_g d s) = g_refresh s. Proof. proj_a. Qed.
Lemma shg_last : forall d s, g_last_exp (sh_g d s) = g_last_exp s + d. Proof. proj_a. Qed.
Lemma shg_expires : forall d s, g_expires (sh_g d s) = g_expires s + d. Proof. proj_a. Qed.
Lemma shg_code : forall d s, g_code (sh_g d s) = g_code s. Proof. proj_a. Qed.
Lemma shg_type : forall d s, g_type (sh_g d s) = g_type s. Proof. proj_a. Qed.
Lemma shg_subject : forall d s, g_subject (sh_g d s) = g_subject s. Proof. proj_a. Qed.
Lemma shg_client : forall d s, g_client (sh_g d s) = g_client s. Proof. proj_a. Qed.
Lemma shg_active : forall d s, g_active (sh_g d s) = g_active s. Proof. proj_a. Qed.
Lemma shg_granted : forall d s, g_granted (sh_g d s) = g_granted s. Proof. proj_a. Qed.
Lemma shg_jkt : forall d s, g_jkt (sh_g d s) = g_jkt s. Proof. proj_a. Qed.
Lemma shg_x5t : forall d s, g_x5t (sh_g d s) = g_x5t s. Proof. proj_a. Qed.
Lemma shg_ares : forall d s, g_active_res (sh_g d s) = g_active_res s. Proof. proj_a. Qed.
Lemma shg_gres : forall d s, g_granted_res (sh_g d s) = g_granted_res s. Proof. proj_a. Qed.
Lemma sha_gdet : forall d s, a_granted_details (sh_a d s) = a_granted_details s. Proof. proj_a. Qed.
Lemma shg_adet : forall d s, g_active_details (sh_g d s) = g_active_details s. Proof. proj_a. Qed.
Lemma shg_gdet : forall d s, g_granted_details (sh_g d s) = g_granted_details s. Proof. proj_a. Qed.
#[export] Hint Rewrite sha_id sha_client sha_subject sha_par sha_cb sha_ciba sha_code sha_granted sha_jkt sha_x5t
  sha_expires sha_steps sha_nonce sha_params sha_gres shg_id shg_token shg_refresh shg_last shg_expires shg_code
  shg_type shg_subject shg_client shg_active shg_granted shg_jkt shg_x5t shg_ares shg_gres sha_gdet shg_adet shg_gdet geb_shift : shdb.

(* what an answer looks like when every timestamp moved by d: only introspection reports one *)
Definition sh_intro (d : Z) (i : intro) : intro :=
  if in_active i
  then mkIntro (in_active i) (in_refresh i) (in_scope i) (in_client i) (in_sub i) (in_exp i + d) (in_jkt i) (in_x5t i) (in_grant i) (in_aud i) (in_details i)
  else i.
Definition sh_out (d : Z) (o : out) : out := match o with OIntro i => OIntro (sh_intro d i) | o => o end.
Definition sh_obs (d : Z) (x : obs) : obs := match x with Out o => Out (sh_out d o) | x => x end.

(* ---- helpers that do not look at time ---- *)
Lemma prel_get_client d w i : prel d (fun x => x) (get_client w i) (get_client w i).
Proof.
  unfold get_client. destruct (find_client i (w_static w)); [apply PR_ret; reflexivity|].
  apply PR_do; [reflexivity|]. intros []; cbn; apply PR_ret; reflexivity.
Qed.
Lemma prel_authenticated d w cr : prel d (fun x => x) (authenticated w cr) (authenticated w cr).
Proof.
  unfold authenticated. destruct (is_nil (cr_id cr)); [apply PR_ret; reflexivity|].
  eapply prel_bind; [apply prel_get_client|]. intros [c|]; [|apply PR_ret; reflexivity].
  destruct (orb (c_public c) (cr_ok cr)); apply PR_ret; reflexivity.
Qed.

Lemma prel_jwt_bearer_client d w cr : prel d (fun x => x) (jwt_bearer_client w cr) (jwt_bearer_client w cr).
Proof.
  unfold jwt_bearer_client. eapply prel_bind; [apply prel_authenticated|]. intros [c|]; [apply PR_ret; reflexivity|].
  destruct (andb _ _); apply PR_ret; reflexivity.
Qed.

(* one step of structural matching of two programs that differ only by the shift *)
Ltac pstep d :=
  match goal with
  | |- prel _ _ (Ret _) (Ret _) => apply PR_ret
  | |- prel _ _ (bind (jwt_bearer_client _ _) _) (bind (jwt_bearer_client _ _) _) =>
      eapply prel_bind; [apply prel_jwt_bearer_client|]; intros [?c|]; autorewrite with shdb
  | |- prel _ _ (bind (authenticated _ _) _) (bind (authenticated _ _) _) =>
      eapply prel_bind; [apply prel_authenticated|]; intros [?c|]; autorewrite with shdb
  | |- prel _ _ (bind (get_client _ _) _) (bind (get_client _ _) _) =>
      eapply prel_bind; [apply prel_get_client|]; intros [?c|]; autorewrite with shdb
  | |- prel _ _ (Do _ _) (Do _ _) =>
      apply PR_do; [|let r := fresh "r" in intros r; destruct r as [?c|?s|?g| | |]; cbn [sh_reply]; autorewrite with shdb]
  | |- prel _ _ (Touch _ _) (Touch _ _) => apply PR_touch
  | |- prel _ _ (if ?c then _ else _) (if ?c then _ else _) => destruct c
  | |- prel _ _ (match ?c with _ => _ end) (match ?c with _ => _ end) => destruct c
  end.

Lemma prel_userinfo d w now r : prel d (sh_out d) (userinfo w now r) (userinfo w (now + d) r).
Proof.
  unfold userinfo. repeat (pstep d; try reflexivity).
Qed.

Lemma shi_active d i : in_active (sh_intro d i) = in_active i. Proof. unfold sh_intro. destruct i as [[] ? ? ? ? ? ? ? ? ?]; reflexivity. Qed.
Lemma shi_refresh d i : in_refresh (sh_intro d i) = in_refresh i. Proof. unfold sh_intro. destruct i as [[] ? ? ? ? ? ? ? ? ?]; reflexivity. Qed.
Lemma shi_client d i : in_client (sh_intro d i) = in_client i. Proof. unfold sh_intro. destruct i as [[] ? ? ? ? ? ? ? ? ?]; reflexivity. Qed.
Lemma shi_grant d i : in_grant (sh_intro d i) = in_grant i. Proof. unfold sh_intro. destruct i as [[] ? ? ? ? ? ? ? ? ?]; reflexivity. Qed.
Lemma shi_jkt d i : in_jkt (sh_intro d i) = in_jkt i. Proof. unfold sh_intro. destruct i as [[] ? ? ? ? ? ? ? ? ?]; reflexivity. Qed.
Lemma shi_x5t d i : in_x5t (sh_intro d i) = in_x5t i. Proof. unfold sh_intro. destruct i as [[] ? ? ? ? ? ? ? ? ?]; reflexivity. Qed.
#[export] Hint Rewrite shi_active shi_refresh shi_client shi_grant shi_jkt shi_x5t : shdb.

Lemma prel_introspection_info d now p :
  prel d (sh_intro d) (introspection_info now p) (introspection_info (now + d) p).
Proof. unfold introspection_info. repeat (pstep d; try reflexivity). Qed.

Ltac pstep2 d :=
  first
  [ pstep d
  | match goal with
    | |- prel _ _ (bind (introspection_info _ _) _) (bind (introspection_info _ _) _) =>
        eapply prel_bind; [apply prel_introspection_info|]; let i := fresh "i" in intros i; autorewrite with shdb
    end ].

Lemma prel_introspect d w now r : prel d (sh_out d) (introspect w now r) (introspect w (now + d) r).
Proof. unfold introspect. repeat (pstep2 d; try reflexivity). Qed.
Lemma prel_revoke d w now r : prel d (sh_out d) (revoke w now r) (revoke w (now + d) r).
Proof. unfold revoke. repeat (pstep2 d; try reflexivity). Qed.
Lemma prel_token_info d now p : prel d (sh_out d) (token_info now p) (token_info (now + d) p).
Proof. unfold token_info. repeat (pstep2 d; try reflexivity). Qed.
Lemma prel_token_info_from_request d now r :
  prel d (sh_out d) (token_info_from_request now r) (token_info_from_request (now + d) r).
Proof.
  unfold token_info_from_request. repeat (pstep2 d; try reflexivity).
Qed.

(* ---- what the handlers build from the clock ---- *)
Lemma new_grant_shift n now d cfg tid gt sub cid a g j x ar gr ad gd :
  new_grant n (now + d) cfg tid gt sub cid a g j x ar gr ad gd = sh_g d (new_grant n now cfg tid gt sub cid a g j x ar gr ad gd).
Proof. unfold new_grant, sh_g. cbn. f_equal; lia. Qed.
Lemma with_refresh_shift n now d cfg c g :
  with_refresh n (now + d) cfg c (sh_g d g) = sh_g d (with_refresh n now cfg c g).
Proof.
  unfold with_refresh. autorewrite with shdb. destruct (should_issue_refresh cfg c (g_type g) (g_active g)); [|reflexivity].
  destruct g; unfold sh_g, set; cbn. f_equal; lia.
Qed.
Lemma tokens_out_shift cfg tv d g rt sc res aud : tokens_out cfg tv (sh_g d g) rt sc res aud = tokens_out cfg tv g rt sc res aud.
Proof. unfold tokens_out. autorewrite with shdb. reflexivity. Qed.
#[export] Hint Rewrite new_grant_shift with_refresh_shift tokens_out_shift : shdb.

Lemma validate_pkce_shift cfg v d s : validate_pkce cfg v (sh_a d s) = validate_pkce cfg v s.
Proof. unfold validate_pkce. autorewrite with shdb. reflexivity. Qed.
Lemma n_indexes_shift d s : n_indexes (sh_a d s) = n_indexes s.
Proof. unfold n_indexes. autorewrite with shdb. reflexivity. Qed.
#[export] Hint Rewrite validate_pkce_shift n_indexes_shift : shdb.


(* setters commute with the shift *)
Ltac setc := intros; match goal with |- context [sh_a _ ?s] => destruct s | |- context [sh_g _ ?g] => destruct g end; unfold sh_a, sh_g, set; cbn; repeat f_equal; lia.
Lemma setg_code d g x : (sh_g d g) <| g_code := x |> = sh_g d (g <| g_code := x |>). Proof. setc. Qed.
Lemma setg_active d g x : (sh_g d g) <| g_active := x |> = sh_g d (g <| g_active := x |>). Proof. setc. Qed.
Lemma seta_steps d s x : (sh_a d s) <| a_steps := x |> = sh_a d (s <| a_steps := x |>). Proof. setc. Qed.
Lemma seta_subject d s x : (sh_a d s) <| a_subject := x |> = sh_a d (s <| a_subject := x |>). Proof. setc. Qed.
Lemma seta_granted d s x : (sh_a d s) <| a_granted := x |> = sh_a d (s <| a_granted := x |>). Proof. setc. Qed.
Lemma seta_gres d s x : (sh_a d s) <| a_granted_res := x |> = sh_a d (s <| a_granted_res := x |>). Proof. setc. Qed.
Lemma seta_gdet d s x : (sh_a d s) <| a_granted_details := x |> = sh_a d (s <| a_granted_details := x |>). Proof. setc. Qed.
Lemma refresh_active_details_shift cfg d g r : refresh_active_details cfg (sh_g d g) r = refresh_active_details cfg g r.
Proof. unfold refresh_active_details. autorewrite with shdb. reflexivity. Qed.
Lemma seta_code d s x : (sh_a d s) <| a_code := x |> = sh_a d (s <| a_code := x |>). Proof. setc. Qed.
Lemma seta_cb d s x : (sh_a d s) <| a_cb := x |> = sh_a d (s <| a_cb := x |>). Proof. setc. Qed.
Lemma seta_par d s x : (sh_a d s) <| a_par := x |> = sh_a d (s <| a_par := x |>). Proof. setc. Qed.
Lemma seta_ciba d s x : (sh_a d s) <| a_ciba := x |> = sh_a d (s <| a_ciba := x |>). Proof. setc. Qed.
Lemma seta_nonce d s x : (sh_a d s) <| a_nonce_claim := x |> = sh_a d (s <| a_nonce_claim := x |>). Proof. setc. Qed.
Lemma seta_params d s x : (sh_a d s) <| a_params := x |> = sh_a d (s <| a_params := x |>). Proof. setc. Qed.
Lemma seta_jkt d s x : (sh_a d s) <| a_jkt := x |> = sh_a d (s <| a_jkt := x |>). Proof. setc. Qed.
Lemma seta_x5t d s x : (sh_a d s) <| a_x5t := x |> = sh_a d (s <| a_x5t := x |>). Proof. setc. Qed.
Lemma seta_expires d s x : (sh_a d s) <| a_expires := x + d |> = sh_a d (s <| a_expires := x |>). Proof. setc. Qed.
#[export] Hint Rewrite setg_code setg_active seta_steps seta_subject seta_granted seta_gres seta_code seta_cb seta_par seta_ciba
  seta_nonce seta_params seta_jkt seta_x5t seta_gdet refresh_active_details_shift : shdb.

Local Opaque mint unknown.
(* side conditions: the record written (or answered) on the shifted side is the shift of the other one *)
Lemma seta_expires_any d s x : s <| a_expires := x + d |> = sh_a d (s <| a_expires := x |>).
Proof. destruct s; unfold sh_a, set; cbn. reflexivity. Qed.
Lemma add_shift_mid now d l : now + d + l = now + l + d. Proof. lia. Qed.

Ltac sc_rw d :=
  cbn [sh_call sh_obj sh_out];
  match goal with
  | |- ASave _ = ASave _ => idtac | |- OA _ = OA _ => idtac | |- _ = sh_a _ _ => idtac
  end;
  rewrite ?(add_shift_mid _ d); rewrite ?(seta_expires_any d); autorewrite with shdb; reflexivity.
Ltac sc_cbn := cbn [sh_call sh_obj sh_out]; autorewrite with shdb; try reflexivity;
  repeat match goal with s : asession |- _ => destruct s | g : gsession |- _ => destruct g end;
  unfold sh_a, sh_g, set; cbn;
  match goal with
  | |- ASave _ = ASave _ => apply f_equal | |- GSave _ = GSave _ => apply f_equal
  | |- OA _ = OA _ => apply f_equal | |- OG _ = OG _ => apply f_equal
  | _ => idtac
  end; f_equal; try reflexivity; lia.
Ltac sc d := first [ solve [sc_rw d] | sc_cbn ].

Lemma refresh_binding_shift cfg c b d g : refresh_binding cfg c b (sh_g d g) = refresh_binding cfg c b g.
Proof. unfold refresh_binding. autorewrite with shdb. reflexivity. Qed.
#[export] Hint Rewrite refresh_binding_shift : shdb.

Lemma prel_save_a {A} d (shA : A -> A) s s' (k k' : reply -> prog A) :
  s' = sh_a d s -> (forall r, prel d shA (k r) (k' (sh_reply d r))) -> prel d shA (save_a s k) (save_a s' k').
Proof.
  intros -> H. unfold save_a. rewrite n_indexes_shift. destruct (Nat.eqb (n_indexes s) 1).
  - apply PR_do; [reflexivity|exact H].
  - apply (H RFail).
Qed.

Ltac pstep3 d :=
  first
  [ match goal with
    | |- prel _ _ (save_a _ _) (save_a _ _) =>
        apply prel_save_a; [|let r := fresh "r" in intros r; destruct r as [?c|?s|?g| | |]; cbn [sh_reply]; autorewrite with shdb]
    end
  | pstep2 d ].
Ltac srefl := match goal with |- ?x = ?x => reflexivity end.
Ltac side d :=
  match goal with
  | |- prel _ _ _ _ => idtac
  | |- _ = _ =>
      first [ srefl
            | solve [cbn [sh_call sh_obj sh_out sh_reply]; autorewrite with shdb; srefl]
            | solve [sc d]
            | reflexivity ]
  end.
Ltac go d := repeat (pstep3 d; side d).

(* ---- the token endpoint and the query endpoints ---- *)
Lemma prel_code_grant d w n now r : prel d (sh_out d) (code_grant w n now r) (code_grant w n (now + d) r).
Proof. unfold code_grant. go d. Qed.
Lemma prel_refresh_grant d w n now r : prel d (sh_out d) (refresh_grant w n now r) (refresh_grant w n (now + d) r).
Proof. unfold refresh_grant. go d. Qed.
Lemma prel_cc_grant d w n now r : prel d (sh_out d) (cc_grant w n now r) (cc_grant w n (now + d) r).
Proof. unfold cc_grant. go d. Qed.
Lemma prel_jwt_bearer_grant d w n now r : prel d (sh_out d) (jwt_bearer_grant w n now r) (jwt_bearer_grant w n (now + d) r).
Proof. unfold jwt_bearer_grant. go d. Qed.
Lemma prel_ciba_grant d w n now r : prel d (sh_out d) (ciba_grant w n now r) (ciba_grant w n (now + d) r).
Proof. unfold ciba_grant. go d. Qed.
Lemma prel_notify_success d w n now a hg :
  prel d (fun x => x) (notify_success w n now a hg) (notify_success w n (now + d) a hg).
Proof. unfold notify_success. go d. Qed.
Lemma prel_notify_failure d w a : prel d (fun x => x) (notify_failure w a) (notify_failure w a).
Proof. unfold notify_failure. go d. Qed.

(* ---- the authorization endpoint ---- *)
Lemma prel_push_auth d w n now r : prel d (sh_out d) (push_auth w n now r) (push_auth w n (now + d) r).
Proof. unfold push_auth. go d. Qed.
Lemma prel_init_back_auth d w n now r : prel d (sh_out d) (init_back_auth w n now r) (init_back_auth w n (now + d) r).
Proof. unfold init_back_auth. go d. Qed.

Definition sh_ares (d : Z) (a : ares) : ares := match a with ADone o => ADone (sh_out d o) | a => a end.
Lemma sh_out_render_aerr d cfg c e : sh_out d (render_aerr cfg c e) = render_aerr cfg c e.
Proof. destruct e; reflexivity. Qed.
Lemma finish_ares_shift d cfg c a : finish_ares cfg c (sh_ares d a) = sh_out d (finish_ares cfg c a).
Proof. destruct a as [o|e]; cbn [sh_ares finish_ares]; [reflexivity|]. symmetry; apply sh_out_render_aerr. Qed.

(* authenticate builds large terms (three tails, shared local functions): here the session is taken apart
   and projections are computed, instead of rewriting with the projection lemmas *)
Section Authenticate.
  Local Arguments make_token : simpl never.
  Local Arguments new_grant : simpl never.
  Local Arguments nav_mode : simpl never.
  Local Arguments rt_contains : simpl never.
  Local Arguments contains_openid : simpl never.
  Local Arguments get_client : simpl never.
  Local Arguments save_a : simpl never.
  Local Arguments is_nil : simpl never.
  Local Arguments Z.add : simpl never.
  Local Arguments N.add : simpl never.
  Local Arguments n_indexes : simpl never.

  Ltac normm := unfold sh_a, sh_g; cbn.
  Ltac eqb d :=
    first [ srefl
          | solve [sc_rw d]
          | solve [cbn [sh_obj sh_call sh_out]; rewrite ?new_grant_shift; srefl]
          | reflexivity ].
  Ltac pB d :=
    match goal with
    | |- prel _ _ (Ret _) (Ret _) => apply PR_ret; eqb d
    | |- prel _ _ (bind (get_client _ _) _) (bind (get_client _ _) _) =>
        eapply prel_bind; [apply prel_get_client|]; intros [?c|]
    | |- prel _ _ (save_a _ _) (save_a _ _) =>
        apply prel_save_a; [eqb d|let r := fresh "r" in intros r; destruct r as [?c|[]|[]| | |]; normm]
    | |- prel _ _ (Do _ _) (Do _ _) =>
        apply PR_do; [eqb d|let r := fresh "r" in intros r; destruct r as [?c|[]|[]| | |]; normm]
    | |- prel _ _ (Touch _ _) (Touch _ _) => apply PR_touch; [eqb d|]
    | |- prel _ _ (if ?c then _ else _) (if ?c then _ else _) => destruct c
    | |- prel _ _ (match ?c with _ => _ end) (match ?c with _ => _ end) => destruct c
    end.

  Lemma prel_authenticate d w n now s pol :
    prel d (sh_ares d) (authenticate w n now s pol) (authenticate w n (now + d) (sh_a d s) pol).
  Proof. destruct s. unfold authenticate. normm. repeat (pB d). Qed.
End Authenticate.

Lemma start_sess_shift X e v1 v2 v3 now d T :
  X <| a_expires := e |> <| a_nonce_claim := v1 |> <| a_cb := v2 |> <| a_par := v3 |> <| a_expires := now + d + T |>
  = sh_a d (X <| a_nonce_claim := v1 |> <| a_cb := v2 |> <| a_par := v3 |> <| a_expires := now + T |>).
Proof. destruct X. cbv -[Z.add]. f_equal. lia. Qed.

(* start_session overwrites the expiry: whatever the session handed in carries there does not matter *)
Lemma prel_start_session d w n now c s e r :
  prel d (sh_ares d) (start_session w n now c s r) (start_session w n (now + d) c (s <| a_expires := e |>) r).
Proof.
  unfold start_session. rewrite start_sess_shift. destruct s. cbn.
  repeat match goal with
  | |- prel _ _ (if ?c then _ else _) (if ?c then _ else _) => destruct c
  | |- prel _ _ (Ret _) (Ret _) => apply PR_ret; reflexivity
  end.
  apply PR_touch; [reflexivity|]. apply prel_authenticate.
Qed.
Lemma prel_start_session' d w n now c s s' r : s' = s <| a_expires := a_expires s' |> ->
  prel d (sh_ares d) (start_session w n now c s r) (start_session w n (now + d) c s' r).
Proof. intros ->. apply prel_start_session. Qed.
Lemma sha_as_set d s : sh_a d s = s <| a_expires := a_expires (sh_a d s) |>.
Proof. destruct s; reflexivity. Qed.

Ltac pC d :=
  first
  [ match goal with
    | |- prel _ _ (bind (start_session _ _ _ _ (if ?c then _ else _) _) _) _ => destruct c
    | |- prel _ _ (bind (start_session _ _ _ _ _ _) _) (bind (start_session _ _ _ _ _ _) _) =>
        eapply prel_bind;
        [apply prel_start_session'; first [apply sha_as_set | reflexivity]
        |let a := fresh "a" in intros a; rewrite ?finish_ares_shift]
    | |- prel _ _ (bind (authenticate _ _ _ _ _) _) (bind (authenticate _ _ _ _ _) _) =>
        eapply prel_bind; [apply prel_authenticate|let a := fresh "a" in intros a; destruct a; cbn [sh_ares]]
    | |- prel _ _ (Ret (render_aerr _ _ _)) (Ret (render_aerr _ _ _)) =>
        apply PR_ret; symmetry; apply sh_out_render_aerr
    end
  | pstep3 d ].
Ltac goC d := repeat (pC d; side d).

Lemma prel_init_auth d w n now r : prel d (sh_out d) (init_auth w n now r) (init_auth w n (now + d) r).
Proof. unfold init_auth. goC d. Qed.
Lemma prel_continue_auth d w n now r : prel d (sh_out d) (continue_auth w n now r) (continue_auth w n (now + d) r).
Proof. unfold continue_auth. goC d. Qed.

