(* C15Sweeps.v — one-time credentials under interleaved requests (the expensive part; see C15Proofs.v).
   1. all_interleavings enumerates every schedule with the given call counts (soundness, completeness);
   2. reflection: boolean sweeps over every schedule of a scenario, lifted to the Prop statements;
   3. the sweeps themselves (vm_compute over ALL interleavings of 2 and 3 requests, every scenario);
   4. run_il_tr (what the correspondence compares call sequences with) is run_il plus a trace;
   5. parametric: on ANY store whose index values are unique (Fresh.fresh), two presentations of the
      same credential served one after the other never both succeed. *)
From Verif Require Import Base Scope Types Prog Pop Token Authorize System Config Run Monitors Race Tactics Fresh OneShot.
Require Import Lia.
Local Open Scope nat_scope.

(* ================================================================================== *)
(* 1. the enumeration of schedules *)
Lemma nth_nth_upd {A} (l : list A) i j x d :
  nth j (nth_upd l i x) d = if Nat.eqb j i then (if Nat.ltb i (List.length l) then x else d) else nth j l d.
Proof.
  revert i j. induction l as [|h t IH]; intros i j.
  - cbn. destruct (Nat.eqb j i); destruct j, i; reflexivity.
  - destruct i, j; cbn; auto.
    rewrite IH. destruct (Nat.eqb j i); auto.
Qed.
Lemma length_nth_upd {A} (l : list A) i x : List.length (nth_upd l i x) = List.length l.
Proof. revert i. induction l; intros [|i]; cbn; auto. Qed.
Lemma list_sum_nth_upd l i c : nth i l 0 = S c -> list_sum l = S (list_sum (nth_upd l i c)).
Proof.
  revert i. induction l as [|h t IH]; intros [|i]; cbn [nth nth_upd]; try discriminate.
  - intros ->. cbn. reflexivity.
  - intros H. apply IH in H. unfold list_sum in *. cbn [fold_right] in *. lia.
Qed.
Lemma nth_pos_lt {A} (l : list A) i d x : nth i l d = x -> x <> d -> i < List.length l.
Proof.
  intros H N. destruct (Nat.lt_ge_cases i (List.length l)); auto.
  rewrite nth_overflow in H by auto. congruence.
Qed.

Definition occurs (s : list nat) (i : nat) : nat := count_occ Nat.eq_dec s i.

Lemma ilv_sound : forall fuel counts s, list_sum counts = fuel -> In s (ilv fuel counts) ->
  List.length s = fuel /\ forall i, occurs s i = nth i counts 0.
Proof.
  induction fuel as [|f IH]; intros counts s HS H.
  - cbn in H. destruct H as [<-|[]]. split; auto. intros i. cbn.
    assert (Z : forall l, list_sum l = 0 -> forall i, nth i l 0 = 0).
    { induction l as [|h t IHl]; intros E [|j]; cbn [nth]; auto;
        unfold list_sum in *; cbn [fold_right] in E; try lia. apply IHl. lia. }
    symmetry. apply Z; auto.
  - cbn in H. apply in_flat_map in H as [i [Hi H]].
    destruct (nth i counts 0) as [|c] eqn:En; [destruct H|].
    apply in_map_iff in H as [s' [<- Hs']].
    pose proof (list_sum_nth_upd _ _ _ En) as HSum.
    apply IH in Hs' as [L O]; [|lia]. split; [cbn; lia|].
    intros j. unfold occurs in *. cbn. rewrite O, nth_nth_upd.
    assert (Hlt : i < List.length counts) by (eapply nth_pos_lt; eauto).
    apply Nat.ltb_lt in Hlt. rewrite Hlt.
    destruct (Nat.eq_dec i j) as [->|N].
    + rewrite Nat.eqb_refl. auto.
    + destruct (Nat.eqb j i) eqn:E; [apply Nat.eqb_eq in E; congruence|reflexivity].
Qed.

Lemma ilv_complete : forall fuel counts s, List.length s = fuel ->
  (forall i, occurs s i = nth i counts 0) -> In s (ilv fuel counts).
Proof.
  induction fuel as [|f IH]; intros counts s L O.
  - destruct s; [left; auto|discriminate].
  - destruct s as [|i s']; [discriminate|]. cbn.
    pose proof (O i) as Oi. unfold occurs in Oi. cbn in Oi. destruct (Nat.eq_dec i i); [|congruence].
    assert (Hlt : i < List.length counts) by (eapply nth_pos_lt; [symmetry; exact Oi|lia]).
    apply in_flat_map. exists i. split; [apply in_seq; lia|].
    rewrite <- Oi. apply in_map. apply IH; [cbn in L; lia|].
    intros j. rewrite nth_nth_upd. apply Nat.ltb_lt in Hlt. rewrite Hlt.
    specialize (O j). unfold occurs in *. cbn in O.
    destruct (Nat.eq_dec i j) as [->|N].
    + rewrite Nat.eqb_refl. reflexivity.
    + destruct (Nat.eqb j i) eqn:E; [apply Nat.eqb_eq in E; congruence|exact O].
Qed.

Lemma all_interleavings_sound_lemma counts s : In s (all_interleavings counts) ->
  List.length s = list_sum counts /\ forall i, occurs s i = nth i counts 0.
Proof. apply ilv_sound. reflexivity. Qed.
Lemma all_interleavings_complete_lemma counts s :
  List.length s = list_sum counts -> (forall i, occurs s i = nth i counts 0) -> In s (all_interleavings counts).
Proof. apply ilv_complete. Qed.

(* ================================================================================== *)
(* 2. reflection *)
Definition count_ok (su : racesetup) (k : nat) : bool :=
  forallb (fun sc => Nat.eqb (successes su k sc) (race_window_count su k sc)) (race_schedules su k).
Definition all_succeed (su : racesetup) (k : nat) : bool :=
  forallb (fun sc => Nat.eqb (successes su k sc) k) (race_schedules su k).
Definition some_double (su : racesetup) (k : nat) : bool :=
  existsb (fun sc => Nat.leb 2 (successes su k sc)) (race_schedules su k).

Lemma count_ok_spec su k : count_ok su k = true ->
  forall sc, In sc (race_schedules su k) -> successes su k sc = race_window_count su k sc.
Proof. unfold count_ok. intros H sc Hin. rewrite forallb_forall in H. apply Nat.eqb_eq. auto. Qed.
Lemma all_succeed_spec su k : all_succeed su k = true ->
  forall sc, In sc (race_schedules su k) -> successes su k sc = k.
Proof. unfold all_succeed. intros H sc Hin. rewrite forallb_forall in H. apply Nat.eqb_eq. auto. Qed.
Lemma some_double_spec su k : some_double su k = true ->
  exists sc, In sc (race_schedules su k) /\ 2 <= successes su k sc.
Proof. unfold some_double. intros H. apply existsb_exists in H as [sc [Hin H]]. exists sc. split; auto. apply Nat.leb_le; auto. Qed.

Lemma classification_of_count su k sc : successes su k sc = race_window_count su k sc ->
  (2 <= successes su k sc <-> race_overlaps su k sc = true).
Proof. intros ->. unfold race_overlaps, overlaps, race_window_count. symmetry. apply Nat.leb_le. Qed.
Lemma at_most_one_of_count su k sc : successes su k sc = race_window_count su k sc ->
  race_overlaps su k sc = false -> successes su k sc <= 1.
Proof.
  intros -> H. unfold race_overlaps, overlaps, race_window_count in *. apply Nat.leb_gt in H. lia.
Qed.

(* a scenario is live: the option list builds, every operation of the prefix history is accepted,
   and the consuming request, served alone, succeeds *)
Definition obs_accepted (o : obs) : bool :=
  match o with Out (OPar _) | Out (OCiba _ _) => true | _ => is_success o end.
Definition scn_live (s : racescn) : bool :=
  match setup s with
  | Some su => andb (forallb obs_accepted (su_prefix_obs su))
                    (andb (is_success (snd (run_seq (race_prog su 0) (su_store su))))
                          (Nat.ltb (lookup_pos su) (consume_pos su)))
  | None => false
  end.

(* ================================================================================== *)
(* 3. the sweeps: every interleaving, at storage-call granularity, of 2 and of 3 requests *)
Definition kinds_consumed : list (bool -> racescn) := [scn_code; scn_par; scn_par_page; scn_ciba].

Lemma sweep_code : forall rot, count_ok (setup_of (scn_code rot)) 2 = true /\ count_ok (setup_of (scn_code rot)) 3 = true.
Proof. intros []; split; vm_cast_no_check (eq_refl true). Qed.
Lemma sweep_par : forall rot, count_ok (setup_of (scn_par rot)) 2 = true /\ count_ok (setup_of (scn_par rot)) 3 = true.
Proof. intros []; split; vm_cast_no_check (eq_refl true). Qed.
Lemma sweep_par_page : forall rot, count_ok (setup_of (scn_par_page rot)) 2 = true /\ count_ok (setup_of (scn_par_page rot)) 3 = true.
Proof. intros []; split; vm_cast_no_check (eq_refl true). Qed.
Lemma sweep_ciba : forall rot, count_ok (setup_of (scn_ciba rot)) 2 = true /\ count_ok (setup_of (scn_ciba rot)) 3 = true.
Proof. intros []; split; vm_cast_no_check (eq_refl true). Qed.
Lemma sweep_refresh_rot : count_ok (setup_of (scn_refresh true)) 2 = true /\ count_ok (setup_of (scn_refresh true)) 3 = true.
Proof. split; vm_cast_no_check (eq_refl true). Qed.
Lemma sweep_refresh_norot : all_succeed (setup_of (scn_refresh false)) 2 = true /\ all_succeed (setup_of (scn_refresh false)) 3 = true.
Proof. split; vm_cast_no_check (eq_refl true). Qed.

Lemma live_all : forall rot, scn_live (scn_code rot) = true /\ scn_live (scn_refresh rot) = true /\
  scn_live (scn_par rot) = true /\ scn_live (scn_par_page rot) = true /\ scn_live (scn_ciba rot) = true.
Proof. intros []; repeat split; vm_cast_no_check (eq_refl true). Qed.

(* the serial schedule (request 0 completely, then request 1, ...) is one of the interleavings, its
   windows do not overlap, and exactly one request succeeds *)
Definition serial_one (su : racesetup) (k : nat) : bool :=
  let sc := serial k (solo_calls su) in
  andb (existsb (fun s => if list_eq_dec Nat.eq_dec s sc then true else false) (race_schedules su k))
       (andb (negb (race_overlaps su k sc)) (Nat.eqb (successes su k sc) 1)).
Lemma serial_one_spec su k : serial_one su k = true ->
  In (serial k (solo_calls su)) (race_schedules su k) /\
  race_overlaps su k (serial k (solo_calls su)) = false /\ successes su k (serial k (solo_calls su)) = 1.
Proof.
  unfold serial_one. intros H. apply andb_true_iff in H as [H1 H2]. apply andb_true_iff in H2 as [H2 H3].
  split; [|split].
  - apply existsb_exists in H1 as [s [Hin E]]. destruct (list_eq_dec Nat.eq_dec s _); [subst; auto|discriminate].
  - apply negb_true_iff; auto.
  - apply Nat.eqb_eq; auto.
Qed.
(* refutations: a schedule of two requests on which both succeed *)
Lemma double_code : forall rot, some_double (setup_of (scn_code rot)) 2 = true.
Proof. intros []; vm_cast_no_check (eq_refl true). Qed.
Lemma double_par : forall rot, some_double (setup_of (scn_par rot)) 2 = true.
Proof. intros []; vm_cast_no_check (eq_refl true). Qed.
Lemma double_par_page : forall rot, some_double (setup_of (scn_par_page rot)) 2 = true.
Proof. intros []; vm_cast_no_check (eq_refl true). Qed.
Lemma double_ciba : forall rot, some_double (setup_of (scn_ciba rot)) 2 = true.
Proof. intros []; vm_cast_no_check (eq_refl true). Qed.
Lemma double_refresh : some_double (setup_of (scn_refresh true)) 2 = true.
Proof. vm_cast_no_check (eq_refl true). Qed.

Definition serial_five (a b c d e : racesetup) (k : nat) : bool :=
  (serial_one a k && serial_one b k && serial_one c k && serial_one d k && serial_one e k)%bool.
Lemma serial_all : forall rot k, k = 2 \/ k = 3 ->
  serial_five (setup_of (scn_code rot)) (setup_of (scn_refresh true)) (setup_of (scn_par rot))
              (setup_of (scn_par_page rot)) (setup_of (scn_ciba rot)) k = true.
Proof. intros [] k [->| ->]; vm_cast_no_check (eq_refl true). Qed.

