(* C12Proofs.v — dynamic client registration: token guard, rotation, truthful responses,
   capabilities, read-back.  All statements are about Model/Dcr.v's executable functions. *)
From Verif Require Import Base Types Dcr.
Local Open Scope N_scope.

(* ------------------------------------------------------------------ handles *)
Lemma ideq_eq a b : ideq a b = true <-> a = b.
Proof. unfold ideq. apply N.eqb_eq. Qed.
Lemma ideq_neq a b : ideq a b = false <-> a <> b.
Proof. unfold ideq. apply N.eqb_neq. Qed.
Lemma ideq_refl a : ideq a a = true.
Proof. apply ideq_eq; reflexivity. Qed.
Lemma is_nil_true a : is_nil a = true <-> a = 0.
Proof. unfold is_nil. apply N.eqb_eq. Qed.
Lemma is_nil_false a : is_nil a = false <-> a <> 0.
Proof. unfold is_nil. apply N.eqb_neq. Qed.

Lemma kind_ix_bounds k : 1 <= kind_ix k < 32.
Proof. destruct k; simpl; lia. Qed.
Lemma mint_inj a b k : mint a k = mint b k -> a = b.
Proof. unfold mint. intros H. pose proof (kind_ix_bounds k). lia. Qed.
Lemma mint_nonzero n k : mint n k <> 0.
Proof. unfold mint. pose proof (kind_ix_bounds k). lia. Qed.
Lemma mint_kind_neq a b k1 k2 : kind_ix k1 <> kind_ix k2 -> mint a k1 <> mint b k2.
Proof.
  unfold mint. intros H E. pose proof (kind_ix_bounds k1). pose proof (kind_ix_bounds k2).
  assert (((N.of_nat a + 1) * 32 + kind_ix k1) mod 32 = ((N.of_nat b + 1) * 32 + kind_ix k2) mod 32) by (rewrite E; reflexivity).
  rewrite !(N.add_comm (_ * 32)), !N.mod_add in H2 by lia.
  rewrite !N.mod_small in H2 by lia. contradiction.
Qed.

(* ------------------------------------------------------------------ documents *)
Lemma dget_dremove_same k d : dget k (dremove k d) = None.
Proof.
  induction d as [|[k' v] r IH]; simpl; auto.
  destruct (seqb k k') eqn:E; auto. simpl. rewrite E. auto.
Qed.
Lemma dget_dremove_other k k' d : k <> k' -> dget k (dremove k' d) = dget k d.
Proof.
  intros N. induction d as [|[k2 v] r IH]; simpl; auto.
  destruct (seqb k' k2) eqn:E.
  - apply seqb_eq in E; subst. destruct (seqb k k2) eqn:E2; auto. apply seqb_eq in E2; congruence.
  - simpl. rewrite IH. reflexivity.
Qed.
Lemma dget_dput_same k v d : dget k (dput k v d) = Some v.
Proof. unfold dput. simpl. rewrite seqb_refl. reflexivity. Qed.
Lemma dget_dput_other k k' v d : k <> k' -> dget k (dput k' v d) = dget k d.
Proof.
  intros N. unfold dput. simpl. destruct (seqb k k') eqn:E.
  - apply seqb_eq in E; congruence.
  - apply dget_dremove_other; auto.
Qed.

Lemma mem_false_neq k l k' : mem k' l = false -> In k l -> k <> k'.
Proof. intros H I E; subst. apply mem_In in I. congruence. Qed.

(* response.MarshalJSON after a8ec639: a reserved member of the response is what the server put there *)
Lemma flatten_reserved : forall custom base k,
  In k reserved_keys -> dget k (flatten base custom) = dget k base.
Proof.
  unfold flatten. induction custom as [|[k' v] r IH]; intros base k I; cbn [fold_left fst snd]; auto.
  destruct (mem k' reserved_keys) eqn:M.
  - apply IH; auto.
  - rewrite IH by auto. apply dget_dput_other. eapply mem_false_neq; eauto.
Qed.

(* two bases that agree on a set of keys closed under nothing in particular still agree after flattening *)
Lemma flatten_agree : forall custom b1 b2 (P : string -> Prop),
  (forall k, P k -> dget k b1 = dget k b2) ->
  forall k, P k -> dget k (flatten b1 custom) = dget k (flatten b2 custom).
Proof.
  unfold flatten. induction custom as [|[k' v] r IH]; intros b1 b2 P H k Pk; cbn [fold_left fst snd]; auto.
  destruct (mem k' reserved_keys).
  - eapply IH; eauto.
  - eapply (IH _ _ P); auto. intros k0 P0.
    destruct (seqb k0 k') eqn:E.
    + apply seqb_eq in E; subst. rewrite !dget_dput_same. reflexivity.
    + apply seqb_neq in E. rewrite !dget_dput_other by auto. auto.
Qed.

Lemma render_fields_keys : forall fs kn k v, dget k (render_fields fs kn) = Some v -> In k (map fst fs).
Proof.
  induction fs as [|[name [t omit]] r IH]; intros kn k v H; simpl in *; [discriminate|].
  assert (G : forall d, dget k ((name, d) :: render_fields r kn) = Some v -> name = k \/ In k (map fst r)).
  { intros d Hd. simpl in Hd. destruct (seqb k name) eqn:E.
    - left. apply seqb_eq in E. auto.
    - right. eapply IH; eauto. }
  destruct t; try (destruct (dget name kn) as [x|];
    [ destruct (andb omit (omitted _ x)); [right; eapply IH; eauto | eapply G; eauto]
    | destruct omit; [right; eapply IH; eauto | eapply G; eauto] ]).
  right. eapply IH; eauto.
Qed.

Lemma reserved_not_known k : In k reserved_keys -> ~ In k known_keys.
Proof.
  intros I K. apply mem_In in K.
  simpl in I. destruct I as [<-|[<-|[<-|[<-|[]]]]]; vm_compute in K; discriminate.
Qed.

Lemma render_no_reserved k kn : In k reserved_keys -> dget k (render_fields fields kn) = None.
Proof.
  intros I. destruct (dget k (render_fields fields kn)) eqn:E; auto.
  apply render_fields_keys in E. exfalso. eapply reserved_not_known; eauto.
Qed.

Local Opaque render_fields.

(* the server's part of a response document, over an arbitrary tail of metadata members *)
Definition base_of (cid secret token : id) (tail : doc) : doc :=
  ([("client_id", JCred cid)] ++ opt_member "client_secret" secret
   ++ opt_member "registration_access_token" token
   ++ [("registration_client_uri", JRegUri cid)] ++ tail)%list.

Lemma base_client_id cid secret token tail : dget "client_id" (base_of cid secret token tail) = Some (JCred cid).
Proof. reflexivity. Qed.
Lemma base_uri cid secret token tail :
  dget "registration_client_uri" (base_of cid secret token tail) = Some (JRegUri cid).
Proof. unfold base_of, opt_member. destruct (is_nil secret), (is_nil token); reflexivity. Qed.
Lemma base_token cid secret token tail : dget "registration_access_token" tail = None ->
  dget "registration_access_token" (base_of cid secret token tail) = if is_nil token then None else Some (JCred token).
Proof. intros H. unfold base_of, opt_member. destruct (is_nil secret), (is_nil token); simpl; auto. Qed.
Lemma base_secret cid secret token tail : dget "client_secret" tail = None ->
  dget "client_secret" (base_of cid secret token tail) = if is_nil secret then None else Some (JCred secret).
Proof. intros H. unfold base_of, opt_member. destruct (is_nil secret), (is_nil token); simpl; auto. Qed.

Definition secret_key (k : string) : Prop := k = "client_secret" \/ k = "registration_access_token".

Lemma base_meta_members cid secret token tail k : ~ secret_key k ->
  dget k (base_of cid secret token tail) = dget k (base_of cid nil_id nil_id tail).
Proof.
  intros NS. unfold base_of, opt_member, nil_id, secret_key in *. simpl (is_nil 0). cbv iota.
  destruct (is_nil secret), (is_nil token); simpl;
    repeat match goal with
    | |- context [seqb k ?s] => let E := fresh "E" in destruct (seqb k s) eqn:E;
        [ apply seqb_eq in E; try (exfalso; apply NS; auto; fail) | ]
    end; try reflexivity.
Qed.

Lemma response_doc_unfold cid secret token m :
  response_doc cid secret token m = flatten (base_of cid secret token (render_fields fields (m_known m))) (m_custom m).
Proof. reflexivity. Qed.

Lemma resp_client_id cid secret token m : dget "client_id" (response_doc cid secret token m) = Some (JCred cid).
Proof. rewrite response_doc_unfold, flatten_reserved by (simpl; auto). apply base_client_id. Qed.

Lemma resp_uri cid secret token m :
  dget "registration_client_uri" (response_doc cid secret token m) = Some (JRegUri cid).
Proof. rewrite response_doc_unfold, flatten_reserved by (simpl; auto 6). apply base_uri. Qed.

Lemma resp_token cid secret token m :
  dget "registration_access_token" (response_doc cid secret token m)
  = if is_nil token then None else Some (JCred token).
Proof.
  rewrite response_doc_unfold, flatten_reserved by (simpl; auto 6).
  apply base_token. apply render_no_reserved; simpl; auto 6.
Qed.

Lemma resp_secret cid secret token m :
  dget "client_secret" (response_doc cid secret token m)
  = if is_nil secret then None else Some (JCred secret).
Proof.
  rewrite response_doc_unfold, flatten_reserved by (simpl; auto 6).
  apply base_secret. apply render_no_reserved; simpl; auto 6.
Qed.

(* the response of a registration/update and the response of a read differ only in the two secrets *)
Lemma resp_meta_members cid secret token m k :
  ~ secret_key k ->
  dget k (response_doc cid secret token m) = dget k (response_doc cid nil_id nil_id m).
Proof.
  intros NS. rewrite !response_doc_unfold.
  apply (flatten_agree _ _ _ (fun k => ~ secret_key k)); auto.
  intros k0 NS0. apply base_meta_members; auto.
Qed.

(* ------------------------------------------------------------------ the store *)
Lemma dfind_In cid s c : dfind cid s = Some c -> In c s /\ dc_id c = cid.
Proof.
  induction s as [|x r IH]; simpl; [discriminate|].
  destruct (ideq cid (dc_id x)) eqn:E.
  - intros H; inversion H; subst. apply ideq_eq in E. auto.
  - intros H. destruct (IH H). auto.
Qed.
Lemma In_ddel x cid s : In x (ddel cid s) -> In x s /\ dc_id x <> cid.
Proof.
  induction s as [|y r IH]; simpl; [tauto|].
  destruct (ideq cid (dc_id y)) eqn:E.
  - intros H. destruct (IH H). auto.
  - intros [H|H].
    + subst. apply ideq_neq in E. auto.
    + destruct (IH H). auto.
Qed.
Lemma In_dsave x c s : In x (dsave c s) -> x = c \/ (In x s /\ dc_id x <> dc_id c).
Proof. unfold dsave. intros [H|H]; [auto|]. right. apply In_ddel; auto. Qed.
Lemma dfind_dsave_same c s : dfind (dc_id c) (dsave c s) = Some c.
Proof. unfold dsave. simpl. rewrite ideq_refl. reflexivity. Qed.
Lemma dfind_ddel_other cid x s : cid <> x -> dfind cid (ddel x s) = dfind cid s.
Proof.
  intros N. induction s as [|y r IH]; simpl; auto.
  destruct (ideq x (dc_id y)) eqn:E.
  - apply ideq_eq in E. destruct (ideq cid (dc_id y)) eqn:E2; auto. apply ideq_eq in E2. congruence.
  - simpl. rewrite IH. reflexivity.
Qed.
Lemma dfind_dsave_other cid c s : cid <> dc_id c -> dfind cid (dsave c s) = dfind cid s.
Proof.
  intros N. unfold dsave. simpl. destruct (ideq cid (dc_id c)) eqn:E.
  - apply ideq_eq in E. congruence.
  - apply dfind_ddel_other; auto.
Qed.

(* ------------------------------------------------------------------ protected *)
Lemma hash_matches_spec a b : hash_matches a b = true <-> a = b /\ a <> 0.
Proof.
  unfold hash_matches. rewrite !andb_true_iff, !negb_true_iff, !is_nil_false, ideq_eq.
  split; intros; intuition congruence.
Qed.

Lemma protected_inl s cid tok c :
  protected s cid tok = inl c -> dfind cid s = Some c /\ dc_htoken c = tok /\ tok <> 0.
Proof.
  unfold protected. destruct (dfind cid s) as [c0|]; [|discriminate].
  unfold isRegistrationAccessTokenValid. destruct (hash_matches (dc_htoken c0) tok) eqn:E; [|discriminate].
  intros H; inversion H; subst. apply hash_matches_spec in E. destruct E as [E1 E2]. subst. auto.
Qed.

(* ------------------------------------------------------------------ what one step does to the store *)
Lemma vetted_inl cfg hk m m' : vetted cfg hk m = inl m' -> validate cfg m' = true.
Proof.
  unfold vetted. destruct (validate cfg m); simpl; [|discriminate].
  destruct (apply_hook hk m) as [m1|]; [|discriminate].
  destruct (validate cfg m1) eqn:E; simpl; [|discriminate].
  intros H; inversion H; subst; auto.
Qed.

Inductive effect (cfg : dcfg) (s : dstate) (n : nat) : dstate -> Prop :=
  | EffNone : effect cfg s n s
  | EffCreate c' : dc_id c' = mint n KClientId -> dc_htoken c' = mint n KRegToken ->
      validate cfg (dc_meta c') = true -> effect cfg s n (dsave c' s)
  | EffUpdate c c' : dfind (dc_id c') s = Some c -> dc_htoken c <> 0 ->
      dc_htoken c' = (if d_rotation cfg then mint n KRegToken else dc_htoken c) ->
      validate cfg (dc_meta c') = true -> effect cfg s n (dsave c' s)
  | EffDelete cid : effect cfg s n (ddel cid s).

Lemma create_effect cfg s n m hk : effect cfg s n (fst (create cfg s n m hk)).
Proof.
  unfold create. destruct (vetted cfg hk m) as [m'|e] eqn:V; simpl; [|constructor].
  apply vetted_inl in V.
  apply EffCreate; simpl; auto.
Qed.

Definition ids_nonzero (s : dstate) : Prop := forall c, In c s -> dc_id c <> 0.

Lemma update_effect cfg s n cid tok m hk :
  ids_nonzero s -> effect cfg s n (fst (update cfg s n cid tok m hk)).
Proof.
  intros NZI. unfold update. destruct (protected s cid tok) as [c|e] eqn:P; simpl; [|constructor].
  apply protected_inl in P. destruct P as [F [T NZ]].
  destruct (vetted cfg hk m) as [m'|e] eqn:V; simpl; [|constructor].
  apply vetted_inl in V. apply dfind_In in F as F'. destruct F' as [I E].
  assert (Z : is_nil (dc_id c) = false) by (apply is_nil_false; auto).
  unfold modify_and_save. simpl. rewrite Z.
  assert (Z2 : is_nil (dc_htoken c) = false) by (apply is_nil_false; congruence).
  rewrite Z2. simpl.
  eapply (EffUpdate cfg s n c); simpl; auto.
  - rewrite E; auto.
  - congruence.
  - destruct (d_rotation cfg); reflexivity.
Qed.

Lemma remove_effect cfg s n cid tok : effect cfg s n (fst (remove s cid tok)).
Proof. unfold remove. destruct (protected s cid tok); simpl; constructor. Qed.

Lemma dstep_effect cfg s n o : ids_nonzero s -> effect cfg s n (fst (dstep cfg s n o)).
Proof.
  intros NZI. destruct o; simpl.
  - destruct (parse_body b); [apply create_effect | constructor].
  - destruct (bearer t); simpl; constructor.
  - destruct (parse_body b); [|constructor]. destruct (bearer t); [apply update_effect; auto | constructor].
  - destruct (bearer t); [apply remove_effect | constructor].
  - constructor.
Qed.

(* ------------------------------------------------------------------ invariant of every reachable state *)
Record inv (cfg : dcfg) (n : nat) (s : dstate) : Prop := mkInv {
  inv_ids : forall c, In c s -> exists i, (i < n)%nat /\ dc_id c = mint i KClientId;
  inv_toks : forall c, In c s -> exists j, (j < n)%nat /\ dc_htoken c = mint j KRegToken;
  inv_uniq : forall c1 c2, In c1 s -> In c2 s -> dc_id c1 = dc_id c2 -> c1 = c2;
  inv_tok_inj : forall c1 c2, In c1 s -> In c2 s -> dc_htoken c1 = dc_htoken c2 -> c1 = c2;
  inv_valid : forall c, In c s -> validate cfg (dc_meta c) = true
}.

Lemma inv_nonzero cfg n s : inv cfg n s -> ids_nonzero s.
Proof. intros I c H. destruct (inv_ids _ _ _ I c H) as [i [_ E]]. rewrite E. apply mint_nonzero. Qed.

Lemma inv_init cfg : inv cfg 0 [].
Proof. constructor; simpl; intros; tauto. Qed.

Lemma inv_effect cfg n s s' : inv cfg n s -> effect cfg s n s' -> inv cfg (S n) s'.
Proof.
  intros I E. destruct E as [|c' Hid Htok Hval|c c' F NZ Htok Hval|cid].
  - destruct I as [I1 I2 I3 I4 I5]. constructor; auto.
    + intros c H. destruct (I1 c H) as [i [L Ei]]. exists i; split; [lia|auto].
    + intros c H. destruct (I2 c H) as [i [L Ei]]. exists i; split; [lia|auto].
  - destruct I as [I1 I2 I3 I4 I5]. constructor.
    + intros c H. apply In_dsave in H. destruct H as [->|[H _]].
      * exists n; split; [lia|auto].
      * destruct (I1 c H) as [i [L Ei]]. exists i; split; [lia|auto].
    + intros c H. apply In_dsave in H. destruct H as [->|[H _]].
      * exists n; split; [lia|auto].
      * destruct (I2 c H) as [i [L Ei]]. exists i; split; [lia|auto].
    + intros c1 c2 H1 H2 E. apply In_dsave in H1. apply In_dsave in H2.
      destruct H1 as [->|[H1 N1]], H2 as [->|[H2 N2]]; auto; try congruence.
    + intros c1 c2 H1 H2 E. apply In_dsave in H1. apply In_dsave in H2.
      destruct H1 as [->|[H1 N1]], H2 as [->|[H2 N2]]; auto.
      * exfalso. destruct (I2 c2 H2) as [j [L Ej]]. rewrite Htok, Ej in E. apply mint_inj in E. lia.
      * exfalso. destruct (I2 c1 H1) as [j [L Ej]]. rewrite Htok, Ej in E. apply mint_inj in E. lia.
    + intros c H. apply In_dsave in H. destruct H as [->|[H _]]; auto.
  - destruct I as [I1 I2 I3 I4 I5]. apply dfind_In in F. destruct F as [Fin Fid].
    assert (TOK : forall x, In x s -> dc_id x <> dc_id c' -> dc_htoken x <> dc_htoken c').
    { intros x Hx Nx Ex. rewrite Htok in Ex. destruct (d_rotation cfg).
      - destruct (I2 x Hx) as [j [L Ej]]. rewrite Ej in Ex. apply mint_inj in Ex. lia.
      - apply Nx. rewrite <- Fid. f_equal. apply I4; auto. }
    constructor.
    + intros x H. apply In_dsave in H. destruct H as [->|[H _]].
      * destruct (I1 c Fin) as [i [L Ei]]. exists i; split; [lia|congruence].
      * destruct (I1 x H) as [i [L Ei]]. exists i; split; [lia|auto].
    + intros x H. apply In_dsave in H. destruct H as [->|[H _]].
      * rewrite Htok. destruct (d_rotation cfg).
        -- exists n; split; [lia|auto].
        -- destruct (I2 c Fin) as [j [L Ej]]. exists j; split; [lia|auto].
      * destruct (I2 x H) as [j [L Ej]]. exists j; split; [lia|auto].
    + intros c1 c2 H1 H2 E. apply In_dsave in H1. apply In_dsave in H2.
      destruct H1 as [->|[H1 N1]], H2 as [->|[H2 N2]]; auto; try congruence.
    + intros c1 c2 H1 H2 E. apply In_dsave in H1. apply In_dsave in H2.
      destruct H1 as [->|[H1 N1]], H2 as [->|[H2 N2]]; auto.
      * exfalso. eapply TOK; eauto.
      * exfalso. eapply TOK; eauto.
    + intros x H. apply In_dsave in H. destruct H as [->|[H _]]; auto.
  - destruct I as [I1 I2 I3 I4 I5]. constructor.
    + intros c H. apply In_ddel in H. destruct H as [H _]. destruct (I1 c H) as [i [L Ei]]. exists i; split; [lia|auto].
    + intros c H. apply In_ddel in H. destruct H as [H _]. destruct (I2 c H) as [i [L Ei]]. exists i; split; [lia|auto].
    + intros c1 c2 H1 H2. apply In_ddel in H1. apply In_ddel in H2. apply I3; tauto.
    + intros c1 c2 H1 H2. apply In_ddel in H1. apply In_ddel in H2. apply I4; tauto.
    + intros c H. apply In_ddel in H. apply I5; tauto.
Qed.

Lemma inv_step cfg n s o : inv cfg n s -> inv cfg (S n) (fst (dstep cfg s n o)).
Proof. intros I. eapply inv_effect; eauto. apply dstep_effect. eapply inv_nonzero; eauto. Qed.

Lemma drun_from_cons cfg s n o r :
  drun_from cfg s n (o :: r) =
  (fst (drun_from cfg (fst (dstep cfg s n o)) (S n) r),
   snd (dstep cfg s n o) :: snd (drun_from cfg (fst (dstep cfg s n o)) (S n) r)).
Proof.
  simpl. destruct (dstep cfg s n o) as [s1 x]. simpl.
  destruct (drun_from cfg s1 (S n) r) as [s2 xs]. reflexivity.
Qed.

Lemma inv_run_from cfg ops : forall n s, inv cfg n s -> inv cfg (n + List.length ops) (fst (drun_from cfg s n ops)).
Proof.
  induction ops as [|o r IH]; intros n s I.
  - simpl. replace (n + 0)%nat with n by lia. auto.
  - rewrite drun_from_cons. cbn [fst]. replace (n + List.length (o :: r))%nat with (S n + List.length r)%nat by (simpl; lia).
    apply IH. apply inv_step; auto.
Qed.

Lemma inv_reachable cfg ops : inv cfg (List.length ops) (fst (drun cfg ops)).
Proof. unfold drun. apply (inv_run_from cfg ops 0 []). apply inv_init. Qed.

Lemma drun_from_app cfg ops1 : forall ops2 s n,
  fst (drun_from cfg s n (ops1 ++ ops2)) =
  fst (drun_from cfg (fst (drun_from cfg s n ops1)) (n + List.length ops1) ops2).
Proof.
  induction ops1 as [|o r IH]; intros ops2 s n.
  - simpl. replace (n + 0)%nat with n by lia. reflexivity.
  - rewrite <- app_comm_cons. rewrite !drun_from_cons. cbn [fst]. rewrite IH.
    replace (S n + List.length r)%nat with (n + List.length (o :: r))%nat by (simpl; lia). reflexivity.
Qed.

(* ------------------------------------------------------------------ C12.1 the token guard *)
Lemma guard_step cfg s n o cid t :
  op_target o = Some (cid, t) -> dcr_accepted (snd (dstep cfg s n o)) = true ->
  exists c, dfind cid s = Some c /\ t = PTok (dc_htoken c) /\ dc_htoken c <> 0.
Proof.
  intros T A. destruct o; simpl in T; inversion T; subst; clear T; simpl in A.
  - destruct t as [| |h]; simpl in A; try discriminate.
    unfold fetch in A. destruct (protected s cid h) as [c|e] eqn:P; simpl in A; [|discriminate].
    apply protected_inl in P. destruct P as [F [E NZ]]. exists c. subst. auto.
  - destruct (parse_body b); simpl in A; [|discriminate].
    destruct t as [| |h]; simpl in A; try discriminate.
    unfold update in A. destruct (protected s cid h) as [c|e] eqn:P; simpl in A; [|discriminate].
    apply protected_inl in P. destruct P as [F [E NZ]]. exists c. subst. auto.
  - destruct t as [| |h]; simpl in A; try discriminate.
    unfold remove in A. destruct (protected s cid h) as [c|e] eqn:P; simpl in A; [|discriminate].
    apply protected_inl in P. destruct P as [F [E NZ]]. exists c. subst. auto.
Qed.

Lemma guard_all_histories cfg ops o cid t :
  let s := fst (drun cfg ops) in
  op_target o = Some (cid, t) ->
  dcr_accepted (snd (dstep cfg s (List.length ops) o)) = true ->
  exists c, dfind cid s = Some c /\ t = PTok (dc_htoken c) /\ dc_htoken c <> 0
            /\ forall c', In c' s -> dc_htoken c' = dc_htoken c -> c' = c.
Proof.
  intros s T A. destruct (guard_step _ _ _ _ _ _ T A) as [c [F [E NZ]]].
  exists c. repeat split; auto. intros c' I' E'.
  pose proof (inv_reachable cfg ops) as I. apply dfind_In in F. destruct F as [Ic _].
  eapply (inv_tok_inj _ _ _ I); eauto.
Qed.

(* and the guard is not vacuous: the stored token opens read and delete *)
Lemma protected_current s c : In c s -> (forall c', In c' s -> dc_id c' = dc_id c -> c' = c) -> dc_htoken c <> 0 ->
  protected s (dc_id c) (dc_htoken c) = inl c.
Proof.
  intros I U NZ. unfold protected.
  destruct (dfind (dc_id c) s) as [c0|] eqn:F.
  - apply dfind_In in F. destruct F as [I0 E0]. assert (c0 = c) by (apply U; auto). subst.
    unfold isRegistrationAccessTokenValid. replace (hash_matches (dc_htoken c) (dc_htoken c)) with true; auto.
    symmetry. apply hash_matches_spec. auto.
  - exfalso. clear U. induction s as [|x r IH]; simpl in *; [tauto|].
    destruct (ideq (dc_id c) (dc_id x)) eqn:E; [discriminate|].
    destruct I as [->|I]; [rewrite ideq_refl in E; discriminate | auto].
Qed.

Lemma current_token_works cfg ops c :
  let s := fst (drun cfg ops) in
  In c s ->
  snd (dstep cfg s (List.length ops) (Read (dc_id c) (PTok (dc_htoken c))))
    = DDoc false (response_doc (dc_id c) nil_id nil_id (dc_meta c))
  /\ snd (dstep cfg s (List.length ops) (Delete (dc_id c) (PTok (dc_htoken c)))) = DDeleted.
Proof.
  intros s I. pose proof (inv_reachable cfg ops) as V.
  assert (P : protected s (dc_id c) (dc_htoken c) = inl c).
  { apply protected_current; auto.
    - intros c' I' E. eapply (inv_uniq _ _ _ V); eauto.
    - destruct (inv_toks _ _ _ V c I) as [j [_ E]]. rewrite E. apply mint_nonzero. }
  simpl. unfold fetch, remove. rewrite P. auto.
Qed.

(* ------------------------------------------------------------------ C12.2 rotation *)
Definition tok_absent (t : id) (s : dstate) : Prop := forall c, In c s -> dc_htoken c <> t.

Lemma absent_effect cfg s n s' t :
  effect cfg s n s' -> tok_absent t s -> t <> mint n KRegToken -> tok_absent t s'.
Proof.
  intros E A N. destruct E as [|c' Hid Htok Hval|c c' F NZ Htok Hval|cid]; auto.
  - intros x H. apply In_dsave in H. destruct H as [->|[H _]]; auto. congruence.
  - intros x H. apply In_dsave in H. destruct H as [->|[H _]]; auto.
    rewrite Htok. destruct (d_rotation cfg); [congruence|]. apply dfind_In in F. apply A. tauto.
  - intros x H. apply In_ddel in H. apply A. tauto.
Qed.

Lemma absent_run_from cfg t ops : forall n s,
  inv cfg n s -> tok_absent t s -> (forall m, (n <= m)%nat -> t <> mint m KRegToken) ->
  tok_absent t (fst (drun_from cfg s n ops)).
Proof.
  induction ops as [|o r IH]; intros n s I A N; [simpl; auto|].
  rewrite drun_from_cons. cbn [fst]. apply IH.
  - apply inv_step; auto.
  - eapply absent_effect; [apply dstep_effect; eapply inv_nonzero; eauto | auto | apply N; lia].
  - intros m L. apply N. lia.
Qed.

Lemma update_accepted cfg s n cid t b hk :
  ids_nonzero s ->
  dcr_accepted (snd (dstep cfg s n (Update cid t b hk))) = true ->
  exists c h m', t = PTok h /\ dfind cid s = Some c /\ dc_htoken c = h /\ h <> 0 /\
    validate cfg m' = true /\
    dstep cfg s n (Update cid t b hk) =
      modify_and_save cfg s n false (mkDClient cid (dc_secret c) (dc_hsecret c) h m').
Proof.
  intros NZI A. simpl in *. destruct (parse_body b) as [m|]; simpl in A; [|discriminate].
  destruct t as [| |h]; simpl in A; try discriminate. simpl.
  unfold update in *. destruct (protected s cid h) as [c|e] eqn:P; simpl in A; [|discriminate].
  apply protected_inl in P. destruct P as [F [E NZ]].
  destruct (vetted cfg hk m) as [m'|e] eqn:V; simpl in A; [|discriminate].
  apply vetted_inl in V. exists c, h, m'. apply dfind_In in F as F'. destruct F' as [_ Eid].
  rewrite Eid, E. repeat split; auto.
Qed.

Lemma update_accepted_tok cfg s n cid h b hk :
  ids_nonzero s ->
  dcr_accepted (snd (dstep cfg s n (Update cid (PTok h) b hk))) = true ->
  exists c m', dfind cid s = Some c /\ dc_htoken c = h /\ h <> 0 /\
    validate cfg m' = true /\
    dstep cfg s n (Update cid (PTok h) b hk) =
      modify_and_save cfg s n false (mkDClient cid (dc_secret c) (dc_hsecret c) h m').
Proof.
  intros NZI A. destruct (update_accepted _ _ _ _ _ _ _ NZI A) as [c [h' [m' [Eh [F [Et [NZ [V Est]]]]]]]].
  assert (E : h' = h) by congruence. destruct E. exists c, m'. repeat split; auto.
Qed.

Lemma mas_spec cfg s n created c :
  let cid := if is_nil (dc_id c) then mint n KClientId else dc_id c in
  let keep := andb (negb (is_nil (dc_htoken c))) (negb (d_rotation cfg)) in
  exists c' secret,
    modify_and_save cfg s n created c
      = (dsave c' s, DDoc created (response_doc cid secret (if keep then nil_id else mint n KRegToken) (dc_meta c))) /\
    dc_id c' = cid /\ dc_htoken c' = (if keep then dc_htoken c else mint n KRegToken) /\ dc_meta c' = dc_meta c /\
    (dc_hsecret c' = 0 \/ dc_hsecret c' = secret) /\ (dc_secret c' = 0 \/ dc_secret c' = secret) /\
    (secret = 0 -> dc_hsecret c' = 0 /\ dc_secret c' = 0) /\
    (secret <> 0 -> secret = mint n KSecret /\ (dc_hsecret c' = secret \/ dc_secret c' = secret)).
Proof.
  intros cid keep. unfold modify_and_save. fold cid. fold keep.
  pose proof (mint_nonzero n KSecret) as NZ.
  destruct (needs_hashed_secret cfg (dc_meta c)), (needs_plain_secret cfg (dc_meta c)); simpl;
    eexists; eexists; (split; [reflexivity|]); simpl;
    (split; [reflexivity|]); (split; [reflexivity|]); (split; [reflexivity|]);
    (split; [auto|]); (split; [auto|]); (split; [intros H; try (exfalso; auto; fail); auto|]);
    intros H; try (exfalso; apply H; reflexivity); auto.
Qed.

Lemma rotation_all_histories cfg ops1 cid t b hk ops2 o cid' :
  d_rotation cfg = true ->
  let s := fst (drun cfg ops1) in
  let n := List.length ops1 in
  dcr_accepted (snd (dstep cfg s n (Update cid (PTok t) b hk))) = true ->
  let s2 := fst (drun cfg (ops1 ++ Update cid (PTok t) b hk :: ops2)) in
  op_target o = Some (cid', PTok t) ->
  dcr_accepted (snd (dstep cfg s2 (S n + List.length ops2) o)) = false.
Proof.
  intros R s n A s2 T.
  pose proof (inv_reachable cfg ops1) as I. fold s in I. fold n in I.
  destruct (update_accepted_tok _ _ _ _ _ _ _ (inv_nonzero _ _ _ I) A) as [c [m' [F [Et [NZ [V Est]]]]]].
  destruct (mas_spec cfg s n false (mkDClient cid (dc_secret c) (dc_hsecret c) t m')) as [c' [sec [Em [Eid [Etok _]]]]].
  simpl in Eid, Etok. rewrite R in Etok. rewrite andb_false_r in Etok.
  assert (S1 : fst (dstep cfg s n (Update cid (PTok t) b hk)) = dsave c' s) by (rewrite Est, Em; reflexivity).
  apply dfind_In in F as Fin. destruct Fin as [Fin Fid].
  destruct (inv_toks _ _ _ I c Fin) as [j [Lj Ej]].
  (* the old token is nowhere in the store right after the update *)
  assert (A1 : tok_absent t (dsave c' s)).
  { intros x H. apply In_dsave in H. destruct H as [->|[H Nx]].
    - rewrite Etok, <- Et, Ej. intros E. apply mint_inj in E. lia.
    - intros E. apply Nx. assert (x = c) by (eapply (inv_tok_inj _ _ _ I); eauto; congruence). subst.
      rewrite Eid. destruct (is_nil (dc_id c)) eqn:Z; [|reflexivity].
      exfalso. apply is_nil_true in Z. eapply (inv_nonzero _ _ _ I); eauto. }
  pose proof (inv_step cfg n s (Update cid (PTok t) b hk) I) as I1. rewrite S1 in I1.
  assert (A2 : tok_absent t s2).
  { unfold s2, drun. rewrite drun_from_app. fold (drun cfg ops1). fold s. simpl (0 + _)%nat. fold n.
    rewrite drun_from_cons. cbn [fst]. rewrite S1.
    apply absent_run_from; auto.
    intros m L. rewrite <- Et, Ej. intros E. apply mint_inj in E. lia. }
  destruct (dcr_accepted (snd (dstep cfg s2 (S n + List.length ops2) o))) eqn:Acc; auto.
  exfalso. destruct (guard_step _ _ _ _ _ _ T Acc) as [x [Fx [Ex NZx]]].
  inversion Ex. apply dfind_In in Fx. destruct Fx as [Ix _]. eapply A2; eauto.
Qed.

(* without rotation the token stays the same across updates *)
Lemma no_rotation_keeps cfg s n cid t b hk :
  ids_nonzero s -> d_rotation cfg = false ->
  dcr_accepted (snd (dstep cfg s n (Update cid (PTok t) b hk))) = true ->
  exists c', dfind cid (fst (dstep cfg s n (Update cid (PTok t) b hk))) = Some c' /\ dc_htoken c' = t.
Proof.
  intros NZI R A.
  destruct (update_accepted_tok _ _ _ _ _ _ _ NZI A) as [c [m' [F [Et [NZ [V Est]]]]]].
  destruct (mas_spec cfg s n false (mkDClient cid (dc_secret c) (dc_hsecret c) t m')) as [c' [sec [Em [Eid [Etok _]]]]].
  simpl in Eid, Etok. rewrite R in Etok.
  assert (Z : is_nil t = false) by (apply is_nil_false; auto). rewrite Z in Etok. simpl in Etok.
  assert (Zc : is_nil cid = false).
  { apply is_nil_false. apply dfind_In in F. destruct F as [Fi <-]. apply NZI; auto. }
  rewrite Zc in Eid.
  exists c'. rewrite Est, Em. simpl. rewrite <- Eid. split; [apply dfind_dsave_same | auto].
Qed.

(* ------------------------------------------------------------------ C12.3 truthful responses *)
(* the four members of a response document d that name credentials, against the stored client c;
   tok_reported: whether this response carries a registration token (creation, rotating update) *)
Definition truthful (d : doc) (c : dclient) (tok_reported : bool) : Prop :=
  dget "client_id" d = Some (JCred (dc_id c)) /\
  dget "registration_client_uri" d = Some (JRegUri (dc_id c)) /\
  dget "registration_access_token" d = (if tok_reported then Some (JCred (dc_htoken c)) else None) /\
  match dget "client_secret" d with
  | None => dc_hsecret c = 0 /\ dc_secret c = 0
  | Some v => exists h, v = JCred h /\ h <> 0 /\ (dc_hsecret c = h \/ dc_secret c = h)
                        /\ (dc_hsecret c = 0 \/ dc_hsecret c = h) /\ (dc_secret c = 0 \/ dc_secret c = h)
  end.

Lemma mas_truthful cfg s n created c s' cr d :
  modify_and_save cfg s n created c = (s', DDoc cr d) ->
  let cid := if is_nil (dc_id c) then mint n KClientId else dc_id c in
  let keep := andb (negb (is_nil (dc_htoken c))) (negb (d_rotation cfg)) in
  exists c' sec, s' = dsave c' s /\ dfind cid s' = Some c' /\ dc_id c' = cid /\ dc_meta c' = dc_meta c /\
             dc_htoken c' = (if keep then dc_htoken c else mint n KRegToken) /\
             d = response_doc cid sec (if keep then nil_id else mint n KRegToken) (dc_meta c) /\
             truthful d c' (negb keep).
Proof.
  intros H cid keep.
  destruct (mas_spec cfg s n created c) as [c' [sec [Em [Eid [Etok [Emeta [Hh [Hp [Hz Hnz]]]]]]]]].
  fold cid in Em, Eid. fold keep in Em, Etok.
  rewrite Em in H. inversion H; subst s' cr d; clear H.
  exists c', sec. split; [reflexivity|]. split; [rewrite <- Eid; apply dfind_dsave_same|].
  split; [auto|]. split; [auto|]. split; [auto|]. split; [reflexivity|].
  unfold truthful. rewrite resp_client_id, resp_uri, resp_token, resp_secret, Eid, Etok.
  split; [reflexivity|]. split; [reflexivity|]. split.
  - destruct keep; simpl; [reflexivity|].
    replace (is_nil (mint n KRegToken)) with false; auto. symmetry. apply is_nil_false, mint_nonzero.
  - destruct (is_nil sec) eqn:Z.
    + apply is_nil_true in Z. auto.
    + apply is_nil_false in Z. destruct (Hnz Z) as [_ Hs]. exists sec. repeat split; auto.
Qed.

Lemma create_truthful cfg s n b hk cr d :
  snd (dstep cfg s n (Create b hk)) = DDoc cr d ->
  exists c, dfind (mint n KClientId) (fst (dstep cfg s n (Create b hk))) = Some c
            /\ truthful d c true /\ dc_htoken c = mint n KRegToken.
Proof.
  unfold dstep. destruct (parse_body b) as [m|]; [|simpl; discriminate].
  unfold create. destruct (vetted cfg hk m) as [m'|e]; [|simpl; discriminate].
  destruct (modify_and_save cfg s n true (mkDClient nil_id nil_id nil_id nil_id m')) as [s' x] eqn:E. cbn [fst snd].
  intros ->. apply mas_truthful in E. simpl in E.
  destruct E as [c' [sec [_ [F [_ [_ [Et [_ T]]]]]]]]. exists c'. auto.
Qed.

Lemma update_truthful cfg s n cid t b hk cr d :
  ids_nonzero s ->
  snd (dstep cfg s n (Update cid t b hk)) = DDoc cr d ->
  exists c0 c, dfind cid s = Some c0 /\
    dfind cid (fst (dstep cfg s n (Update cid t b hk))) = Some c /\
    truthful d c (d_rotation cfg) /\
    dc_htoken c = (if d_rotation cfg then mint n KRegToken else dc_htoken c0).
Proof.
  intros NZI H.
  assert (A : dcr_accepted (snd (dstep cfg s n (Update cid t b hk))) = true) by (rewrite H; reflexivity).
  destruct (update_accepted _ _ _ _ _ _ _ NZI A) as [c0 [h [m' [Eh [F [Et [NZ [V Est]]]]]]]].
  rewrite Est in H |- *.
  destruct (modify_and_save cfg s n false (mkDClient cid (dc_secret c0) (dc_hsecret c0) h m')) as [s' x] eqn:E.
  simpl in H. subst x. apply mas_truthful in E. simpl in E.
  assert (Zc : is_nil cid = false).
  { apply is_nil_false. apply dfind_In in F. destruct F as [Fi <-]. apply NZI; auto. }
  assert (Zh : is_nil h = false) by (apply is_nil_false; auto).
  rewrite Zc, Zh in E. simpl in E.
  destruct E as [c' [sec [_ [F' [_ [_ [Etok [_ T]]]]]]]].
  exists c0, c'. simpl. split; [auto|]. split; [auto|]. split.
  - destruct (d_rotation cfg); simpl in *; auto.
  - rewrite Etok, Et. destruct (d_rotation cfg); reflexivity.
Qed.

(* ------------------------------------------------------------------ C12.4 capabilities *)
Lemma uses_method_head cfg m name :
  uses_method cfg m name = false -> v_is (gstr "token_endpoint_auth_method" m) name = false.
Proof. unfold uses_method, authn_methods. cbn [app existsb]. intros H. apply orb_false_iff in H. tauto. Qed.

Lemma enc_algs_ok_parts m a e ka ca :
  enc_algs_ok m a e ka ca = true -> opt_in (gstr a m) ka = true /\ opt_in (gstr e m) ca = true.
Proof. unfold enc_algs_ok. rewrite !andb_true_iff. tauto. Qed.

Lemma validate_all cfg m : validate cfg m = true -> forall v, In v validators -> v cfg m = true.
Proof. unfold validate. intros H v Iv. rewrite forallb_forall in H. apply (H v Iv). Qed.

Ltac in_validators := unfold validators; repeat (first [left; reflexivity | right]).

Lemma validate_caps cfg m : validate cfg m = true -> caps_ok_b cfg m = true.
Proof.
  intros H. pose proof (validate_all cfg m H) as V. clear H. unfold caps_ok_b.
  repeat (apply andb_true_iff; split).
  - apply (V validateGrantTypes). in_validators.
  - apply (V validateResponseTypes). in_validators.
  - apply (V validateTokenAuthnMethod). in_validators.
  - apply (V validateTokenIntrospection). in_validators.
  - apply (V validateTokenRevocation). in_validators.
  - apply (V validateScopes). in_validators.
  - apply (V validateSubjectIdentifierType). in_validators.
  - assert (H : validateCIBATokenDeliveryModes cfg m = true) by (apply V; in_validators).
    unfold validateCIBATokenDeliveryModes in H. destruct (has_ciba m); cbn [negb] in *; auto.
    apply andb_true_iff in H. tauto.
  - apply (V validateIDTokenSigAlg). in_validators.
  - apply (V validateUserInfoSigAlg). in_validators.
  - assert (H : validateIDTokenEncAlgs cfg m = true) by (apply V; in_validators).
    unfold validateIDTokenEncAlgs in H. destruct (d_idt_enc cfg); cbn [negb] in *; auto.
    apply enc_algs_ok_parts in H. apply andb_true_iff. auto.
  - assert (H : validateUserInfoEncAlgs cfg m = true) by (apply V; in_validators).
    unfold validateUserInfoEncAlgs in H. destruct (d_ui_enc cfg); cbn [negb] in *; auto.
    apply enc_algs_ok_parts in H. apply andb_true_iff. auto.
  - assert (H : validateJARSigAlg cfg m = true) by (apply V; in_validators).
    unfold validateJARSigAlg in H. destruct (d_jar cfg); cbn [negb] in *; auto.
  - assert (H : validateJAREncAlgs cfg m = true) by (apply V; in_validators).
    unfold validateJAREncAlgs in H. destruct (d_jar_enc cfg); cbn [negb] in *; auto.
    apply enc_algs_ok_parts in H. apply andb_true_iff. auto.
  - assert (H1 : validateJARMSigAlg cfg m = true) by (apply V; in_validators).
    assert (H2 : validateJARMEncAlgs cfg m = true) by (apply V; in_validators).
    unfold validateJARMSigAlg in H1. unfold validateJARMEncAlgs in H2. destruct (d_jarm cfg); cbn [negb] in *; auto.
    apply enc_algs_ok_parts in H2. destruct H2 as [H2 H3]. rewrite H1, H2, H3. reflexivity.
  - assert (H : validateCIBAJARAlgs cfg m = true) by (apply V; in_validators).
    unfold validateCIBAJARAlgs in H. destruct (d_ciba_jar cfg); cbn [negb] in *; auto.
  - assert (H : validatePrivateKeyJWT cfg m = true) by (apply V; in_validators).
    unfold validatePrivateKeyJWT in H. destruct (uses_method cfg m "private_key_jwt") eqn:U; cbn [negb] in H.
    + apply andb_true_iff in H. tauto.
    + apply uses_method_head in U. unfold alg_for. rewrite U. reflexivity.
  - assert (H : validateSecretJWT cfg m = true) by (apply V; in_validators).
    unfold validateSecretJWT in H. apply andb_true_iff in H. tauto.
  - assert (H : validateAuthorizationDetailTypes cfg m = true) by (apply V; in_validators).
    unfold validateAuthorizationDetailTypes in H. destruct (d_auth_details cfg); cbn [negb] in *; auto.
Qed.

Lemma capabilities_all_histories cfg ops c :
  In c (fst (drun cfg ops)) -> caps_ok_b cfg (dc_meta c) = true.
Proof.
  intros I. apply validate_caps. eapply (inv_valid _ _ _ (inv_reachable cfg ops)); eauto.
Qed.

(* caps_ok_b read as membership statements (the clauses the property names first) *)
Lemma opt_in_In v l a : opt_in v l = true -> v = JStr a -> a <> "" -> In a l.
Proof.
  intros H -> N. unfold opt_in in H. cbn [v_empty v_in] in H. apply orb_true_iff in H. destruct H as [H|H].
  - apply is_empty_spec in H. contradiction.
  - apply mem_In; auto.
Qed.

Lemma caps_ok_meaning cfg m : caps_ok_b cfg m = true ->
  (forall g, In g (glist "grant_types" m) -> In g (d_grants cfg)) /\
  (forall r, In r (glist "response_types" m) -> In r (d_resp_types cfg)) /\
  (forall a, gstr "token_endpoint_auth_method" m = JStr a -> a <> "" -> In a (d_auth_methods cfg)) /\
  (forall sc, In sc (split_with_spaces (v_str (gstr "scope" m))) -> In sc (d_scopes cfg)) /\
  (forall t, gstr "subject_type" m = JStr t -> t <> "" -> In t (d_sub_types cfg)) /\
  (has_ciba m = true -> exists md, gstr "backchannel_token_delivery_mode" m = JStr md /\ In md (d_ciba_modes cfg)).
Proof.
  unfold caps_ok_b. rewrite !andb_true_iff.
  intros [Hg [Hr [Ha [_ [_ [Hs [Ht [Hc _]]]]]]]].
  split; [|split; [|split; [|split; [|split]]]].
  - intros g I. rewrite forallb_forall in Hg. apply mem_In. auto.
  - intros r I. rewrite forallb_forall in Hr. apply mem_In. auto.
  - intros a E N. eapply opt_in_In; eauto.
  - intros sc I. rewrite forallb_forall in Hs. apply mem_In. auto.
  - intros t E N. eapply opt_in_In; eauto.
  - intros C. rewrite C in Hc. destruct (gstr "backchannel_token_delivery_mode" m); cbn [v_in] in Hc; try discriminate.
    exists s. split; auto. apply mem_In; auto.
Qed.

(* ------------------------------------------------------------------ C12.5 read-back *)
Lemma read_spec cfg s n cid t cr d :
  snd (dstep cfg s n (Read cid t)) = DDoc cr d ->
  exists c, dfind cid s = Some c /\ cr = false /\ d = response_doc cid nil_id nil_id (dc_meta c).
Proof.
  unfold dstep. destruct (bearer t) as [h|]; cbn [snd]; [|discriminate].
  unfold fetch. destruct (protected s cid h) as [c|e] eqn:P; [|discriminate].
  apply protected_inl in P. destruct P as [F _]. intros H. inversion H; subst.
  exists c. apply dfind_In in F as F'. destruct F' as [_ ->]. auto.
Qed.

(* operations that cannot replace or remove the registration cid *)
Definition leaves_alone (cid : id) (o : dcr_op) : bool :=
  match o with
  | Update c _ _ _ | Delete c _ => negb (ideq c cid)
  | _ => true
  end.

Lemma frame_step cfg s n o cid c i :
  (i < n)%nat -> cid = mint i KClientId -> leaves_alone cid o = true ->
  dfind cid s = Some c -> dfind cid (fst (dstep cfg s n o)) = Some c.
Proof.
  intros L E LA F. destruct o; unfold dstep.
  - destruct (parse_body b); cbn [fst]; auto. unfold create.
    destruct (vetted cfg hk m) as [m'|e]; cbn [fst]; auto.
    destruct (mas_spec cfg s n true (mkDClient nil_id nil_id nil_id nil_id m')) as [c' [sec [Em [Eid _]]]].
    rewrite Em. cbn [fst]. simpl in Eid.
    rewrite dfind_dsave_other; auto. rewrite Eid, E. intros X. apply mint_inj in X. lia.
  - destruct (bearer t); cbn [fst]; auto.
  - destruct (parse_body b); cbn [fst]; auto. destruct (bearer t) as [h|]; cbn [fst]; auto.
    unfold update. destruct (protected s cid0 h) as [c0|e] eqn:P; cbn [fst]; auto.
    destruct (vetted cfg hk m) as [m'|e]; cbn [fst]; auto.
    apply protected_inl in P. destruct P as [F0 _]. apply dfind_In in F0. destruct F0 as [I0 E0].
    simpl in LA. apply negb_true_iff, ideq_neq in LA.
    destruct (mas_spec cfg s n false (mkDClient (dc_id c0) (dc_secret c0) (dc_hsecret c0) (dc_htoken c0) m')) as [c' [sec [Em [Eid _]]]].
    rewrite Em. cbn [fst]. simpl in Eid.
    destruct (is_nil (dc_id c0)) eqn:Z.
    + rewrite dfind_dsave_other; auto. rewrite Eid, E. intros X. apply mint_inj in X. lia.
    + rewrite dfind_dsave_other; auto. rewrite Eid. congruence.
  - destruct (bearer t) as [h|]; cbn [fst]; auto. unfold remove. destruct (protected s cid0 h); cbn [fst]; auto.
    simpl in LA. apply negb_true_iff, ideq_neq in LA. rewrite dfind_ddel_other; auto.
  - cbn [fst]. auto.
Qed.

Lemma frame_run cfg cid c i ops : forall n s,
  (i < n)%nat -> cid = mint i KClientId -> forallb (leaves_alone cid) ops = true ->
  dfind cid s = Some c -> dfind cid (fst (drun_from cfg s n ops)) = Some c.
Proof.
  induction ops as [|o r IH]; intros n s L E LA F; [simpl; auto|].
  cbn [forallb] in LA. apply andb_true_iff in LA. destruct LA as [LA1 LA2].
  rewrite drun_from_cons. cbn [fst]. apply IH; auto. eapply frame_step; eauto.
Qed.

(* the operation at index n registers or updates cid *)
Definition writes (n : nat) (o : dcr_op) (cid : id) : Prop :=
  match o with
  | Create _ _ => cid = mint n KClientId
  | Update c _ _ _ => cid = c
  | _ => False
  end.

Lemma write_spec cfg s n o cid cr d :
  ids_nonzero s -> (forall c, In c s -> exists i, (i < n)%nat /\ dc_id c = mint i KClientId) ->
  writes n o cid -> snd (dstep cfg s n o) = DDoc cr d ->
  exists c1 sec tok i, dfind cid (fst (dstep cfg s n o)) = Some c1 /\ (i < S n)%nat /\ cid = mint i KClientId
                       /\ d = response_doc cid sec tok (dc_meta c1).
Proof.
  intros NZI IDS W H. destruct o; simpl in W; try contradiction.
  - subst cid. unfold dstep in *. destruct (parse_body b) as [m|]; [|simpl in H; discriminate].
    unfold create in *. destruct (vetted cfg hk m) as [m'|e]; [|simpl in H; discriminate].
    destruct (modify_and_save cfg s n true (mkDClient nil_id nil_id nil_id nil_id m')) as [s' x] eqn:E.
    cbn [fst snd] in *. subst x. apply mas_truthful in E. simpl in E.
    destruct E as [c' [sec [_ [F [_ [Em [_ [Ed _]]]]]]]].
    exists c', sec. eexists. exists n. split; [exact F|]. split; [lia|]. split; [reflexivity|].
    rewrite Em. exact Ed.
  - subst cid0.
    assert (A : dcr_accepted (snd (dstep cfg s n (Update cid t b hk))) = true) by (rewrite H; reflexivity).
    destruct (update_accepted _ _ _ _ _ _ _ NZI A) as [c0 [h [m' [Eh [F [Et [NZ [V Est]]]]]]]].
    rewrite Est in H |- *.
    destruct (modify_and_save cfg s n false (mkDClient cid (dc_secret c0) (dc_hsecret c0) h m')) as [s' x] eqn:E.
    cbn [fst snd] in *. subst x. apply mas_truthful in E. simpl in E.
    apply dfind_In in F. destruct F as [Fi Fid].
    assert (Zc : is_nil cid = false) by (apply is_nil_false; rewrite <- Fid; apply NZI; auto).
    rewrite Zc in E.
    destruct E as [c' [sec [_ [F' [_ [Em [_ [Ed _]]]]]]]].
    destruct (IDS c0 Fi) as [i [Li Ei]].
    exists c', sec. eexists. exists i. split; [exact F'|]. split; [lia|]. split; [congruence|].
    rewrite Em. exact Ed.
Qed.

Lemma readback_all_histories cfg ops1 o ops2 cid cr d t cr' d' :
  let s := fst (drun cfg ops1) in
  let n := List.length ops1 in
  writes n o cid ->
  snd (dstep cfg s n o) = DDoc cr d ->
  forallb (leaves_alone cid) ops2 = true ->
  let s2 := fst (drun cfg (ops1 ++ o :: ops2)) in
  snd (dstep cfg s2 (S n + List.length ops2) (Read cid t)) = DDoc cr' d' ->
  (forall k, ~ secret_key k -> dget k d' = dget k d) /\
  dget "client_secret" d' = None /\ dget "registration_access_token" d' = None /\
  exists c, dfind cid s2 = Some c /\ validate cfg (dc_meta c) = true
            /\ d' = response_doc cid nil_id nil_id (dc_meta c).
Proof.
  intros s n W H LA s2 R.
  pose proof (inv_reachable cfg ops1) as I. fold s in I. fold n in I.
  destruct (write_spec cfg s n o cid cr d (inv_nonzero _ _ _ I) (inv_ids _ _ _ I) W H)
    as [c1 [sec [tok [i [F1 [Li [Ei Ed]]]]]]].
  assert (F2 : dfind cid s2 = Some c1).
  { unfold s2, drun. rewrite drun_from_app. fold (drun cfg ops1). fold s. simpl (0 + _)%nat. fold n.
    rewrite drun_from_cons. cbn [fst]. eapply frame_run; eauto. }
  apply read_spec in R. destruct R as [c [F [_ Ed']]]. rewrite F2 in F. inversion F; subst c.
  split; [|split; [|split]].
  - intros k NS. rewrite Ed', Ed. symmetry. apply resp_meta_members; auto.
  - rewrite Ed', resp_secret. reflexivity.
  - rewrite Ed', resp_token. reflexivity.
  - exists c1. split; [auto|]. split; [|auto].
    assert (I2 : inv cfg (List.length (ops1 ++ o :: ops2)) s2) by apply inv_reachable.
    apply dfind_In in F2. eapply (inv_valid _ _ _ I2). tauto.
Qed.
