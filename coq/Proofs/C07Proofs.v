(* C07Proofs.v — request objects are authentic, client-bound; JAR requirements are enforced;
   under FAPI the parameters outside the object / pushed request are inert. *)
From Verif Require Import Base Scope Types Prog Pop Token Authorize System Config Jar JarSpec Tactics.
Local Open Scope N_scope.

(* ---- small facts ---- *)
Lemma ideq_eq a b : ideq a b = true <-> a = b.
Proof. unfold ideq. apply N.eqb_eq. Qed.
Lemma alg_eqb_eq a b : alg_eqb a b = true <-> a = b.
Proof. destruct a, b; simpl; split; congruence. Qed.
Lemma negb_false b : negb b = false -> b = true.
Proof. destruct b; simpl; congruence. Qed.

Lemma find_some_in {X} (f : X -> bool) l x : find f l = Some x -> In x l /\ f x = true.
Proof. apply find_some. Qed.

Lemma jwk_matching_in o l j : jwk_matching o l = Some j -> In j l.
Proof.
  unfold jwk_matching, jwk_by_kid, jwk_by_alg. destruct (negb (is_nil (ro_kid o))); intros H; apply find_some in H; tauto.
Qed.

Lemma verifies_signed c o j : In j (jc_keys c) -> verifies o j = true ->
  signed_by_registered c o = true /\ negb (alg_eqb (ro_alg o) ANone) = true.
Proof.
  unfold verifies, signed_by_registered. destruct (ro_sig o); try discriminate.
  intros Hin H. apply andb_true_iff in H as [H1 H2]. split; auto.
  apply existsb_exists. exists j. split; auto. rewrite N.eqb_sym. exact H1.
Qed.

(* the claim checks imply the window predicate and iss / aud *)
Lemma validate_claims_window prof leeway cid o : cid <> 0 ->
  validate_claims prof leeway cid o = None ->
  ideq (ro_iss o) cid = true /\ ro_aud_ok o = true /\ in_window prof leeway o = true.
Proof.
  intros Hc. unfold validate_claims, validate_std_claims, in_window.
  assert (Hn : is_nil cid = false) by (unfold is_nil; apply N.eqb_neq; exact Hc). rewrite Hn. simpl orb.
  destruct (is_fapi prof) eqn:F.
  - destruct (ro_nbf o) as [nbf|]; [|discriminate].
    destruct (Z.ltb nbf (-3600)) eqn:E1; [discriminate|].
    destruct (ro_exp o) as [ex|]; [|discriminate].
    destruct (Z.ltb 3600 ex) eqn:E2; [discriminate|].
    destruct (ideq (ro_iss o) cid); [|discriminate]. destruct (ro_aud_ok o); [|discriminate]. simpl.
    destruct (Z.ltb leeway nbf) eqn:E3; [discriminate|]. destruct (Z.ltb ex (- leeway)) eqn:E4; [discriminate|]. simpl.
    intros H. repeat split; auto.
    apply Z.ltb_ge in E1, E2, E3, E4.
    destruct (ro_iat o) as [ia|].
    + destruct (Z.ltb leeway ia) eqn:E5; [discriminate|]. apply Z.ltb_ge in E5.
      repeat (apply andb_true_iff; split); try apply Z.leb_le; auto.
    + repeat (apply andb_true_iff; split); try apply Z.leb_le; auto.
  - destruct (ideq (ro_iss o) cid); [|discriminate]. destruct (ro_aud_ok o); [|discriminate]. simpl.
    intros H. repeat split; auto.
    destruct (ro_nbf o) as [nbf|]; destruct (ro_exp o) as [ex|]; destruct (ro_iat o) as [ia|]; simpl in *;
      repeat match goal with
             | H : context [Z.ltb ?a ?b] |- _ => let E := fresh "E" in destruct (Z.ltb a b) eqn:E; [discriminate|]; apply Z.ltb_ge in E
             end;
      repeat (apply andb_true_iff; split); try apply Z.leb_le; auto.
Qed.

(* ---- jar_authentic: decision rule for all objects, clients, configurations ---- *)
Lemma resolve_jar_authentic prof jc cid c o j : cid <> 0 ->
  resolve_jar prof jc cid c o = inr j ->
  j = contents o /\ jar_ok prof jc cid c o = true.
Proof.
  intros Hc. unfold resolve_jar.
  destruct (match ro_enc o with EncNone => None | EncOk => if jw_enc jc then None else Some EInvalidRequestObject | EncBad => Some EInvalidRequestObject end);
    [discriminate|].
  unfold jar_ok, authentic, unsigned_enabled.
  destruct (ro_sig o) eqn:S.
  - destruct (negb (mem_alg ANone (jar_algs jc c))) eqn:E1; [discriminate|].
    destruct (negb (alg_eqb (ro_alg o) ANone)) eqn:E2; [discriminate|].
    intros H; inversion H; subst. split; auto.
    apply negb_false in E1. apply negb_false in E2. rewrite E1, E2. simpl. apply orb_true_r.
  - destruct (negb (mem_alg (ro_alg o) (jar_algs jc c))) eqn:E1; [discriminate|].
    destruct (jwk_matching o (jc_keys c)) as [k'|] eqn:E2; [|discriminate].
    destruct (negb (verifies o k')) eqn:E3; [discriminate|].
    destruct (validate_claims prof (jw_leeway jc) cid o) eqn:E4; [discriminate|].
    intros H; inversion H; subst. split; auto.
    apply negb_false in E1. apply negb_false in E3.
    apply jwk_matching_in in E2. destruct (verifies_signed c o k' E2 E3) as [V1 V2].
    destruct (validate_claims_window _ _ _ _ Hc E4) as [W1 [W2 W3]].
    rewrite V1, E1, V2, W1, W2, W3. reflexivity.
  - destruct (negb (mem_alg (ro_alg o) (jar_algs jc c))) eqn:E1; [discriminate|].
    destruct (jwk_matching o (jc_keys c)) as [k'|] eqn:E2; [|discriminate].
    unfold verifies. rewrite S. simpl. discriminate.
Qed.

Lemma resolve_ciba_jar_authentic jc cid c o j : cid <> 0 ->
  resolve_ciba_jar jc cid c o = inr j ->
  j = contents o /\ ciba_jar_ok jc cid c o = true.
Proof.
  intros Hc. unfold resolve_ciba_jar.
  destruct (ro_enc o); try discriminate.
  destruct (negb (mem_alg (ro_alg o) (ciba_jar_algs jc c))) eqn:E1; [discriminate|].
  destruct (is_nil (ro_kid o)) eqn:E0; [discriminate|].
  destruct (jwk_by_kid (ro_kid o) (jc_keys c)) as [k'|] eqn:E2; [|discriminate].
  destruct (negb (verifies o k')) eqn:E3; [discriminate|].
  destruct (ro_iat o) as [ia|] eqn:I; [|discriminate].
  destruct (ro_nbf o) as [nbf|] eqn:Nb; [|discriminate].
  destruct (ro_exp o) as [ex|] eqn:Ex; [|discriminate].
  destruct (Z.ltb nbf (-3600)) eqn:E4; [discriminate|].
  destruct (Z.ltb 3600 ex) eqn:E5; [discriminate|].
  destruct (negb (ro_jti o)) eqn:E6; [discriminate|].
  destruct (validate_std_claims (jw_leeway jc) cid o) eqn:E7; [|discriminate].
  intros H; inversion H; subst. split; auto.
  apply negb_false in E1. apply negb_false in E3. apply negb_false in E6.
  unfold jwk_by_kid in E2. apply find_some in E2 as [E2 _].
  destruct (verifies_signed c o k' E2 E3) as [V1 V2].
  unfold ciba_jar_ok. rewrite V1, E1, V2, E6, I. simpl.
  unfold validate_std_claims in E7. rewrite I, Nb, Ex in E7.
  assert (Hn : is_nil cid = false) by (unfold is_nil; apply N.eqb_neq; exact Hc). rewrite Hn in E7. simpl orb in E7.
  destruct (ideq (ro_iss o) cid); [|discriminate]. destruct (ro_aud_ok o); [|discriminate]. simpl in *.
  unfold in_window. rewrite I, Nb, Ex. simpl.
  destruct (Z.ltb (jw_leeway jc) nbf) eqn:F1; [discriminate|]. destruct (Z.ltb ex (- jw_leeway jc)) eqn:F2; [discriminate|].
  destruct (Z.ltb (jw_leeway jc) ia) eqn:F3; [discriminate|].
  apply Z.ltb_ge in E4, E5, F1, F2, F3.
  repeat (apply andb_true_iff; split); try apply Z.leb_le; auto.
Qed.

Lemma resolve_jar_authentic_or prof jc cid c o j :
  cid <> 0 -> resolve_jar prof jc cid c o = inr j ->
  j = contents o /\ (authentic prof jc cid c o = true \/ unsigned_enabled jc c o = true).
Proof.
  intros H R. destruct (resolve_jar_authentic prof jc cid c o j H R) as [A B].
  split; [exact A|]. unfold jar_ok in B. apply orb_true_iff in B. exact B.
Qed.

(* the Prop reading of the executable predicate *)
Lemma authentic_meaning prof jc cid c o : authentic prof jc cid c o = true ->
  (exists k j, ro_sig o = SigBy k /\ In j (jc_keys c) /\ jk_key j = k) /\
  (match jc_jar_alg c with Some a => ro_alg o = a | None => exists a, In a (jw_algs jc) /\ ro_alg o = a end) /\
  ro_alg o <> ANone /\ ro_iss o = cid /\ ro_aud_ok o = true /\ in_window prof (jw_leeway jc) o = true.
Proof.
  unfold authentic. intros H.
  apply andb_true_iff in H as [H0 H]. apply andb_true_iff in H as [H1 H]. apply andb_true_iff in H as [H2 H].
  apply andb_true_iff in H as [H3 H]. apply andb_true_iff in H as [H4 H5].
  split; [|split; [|split; [|split; [|split]]]]; auto.
  - unfold signed_by_registered in H0. destruct (ro_sig o) as [|k|]; try discriminate.
    apply existsb_exists in H0 as [j [Hj Hk]]. exists k, j. repeat split; auto. apply ideq_eq in Hk. auto.
  - unfold jar_algs, mem_alg in H1. destruct (jc_jar_alg c) as [a|].
    + simpl in H1. rewrite orb_false_r in H1. apply alg_eqb_eq in H1. exact H1.
    + apply existsb_exists in H1 as [a [Ha Hb]]. exists a. split; auto. apply alg_eqb_eq in Hb. exact Hb.
  - intros E. rewrite E in H2. discriminate.
  - apply ideq_eq. exact H3.
Qed.

Lemma unsigned_meaning jc c o : unsigned_enabled jc c o = true ->
  ro_sig o = SigEmpty /\ ro_alg o = ANone /\ mem_alg ANone (jar_algs jc c) = true.
Proof.
  unfold unsigned_enabled. intros H. apply andb_true_iff in H as [H0 H]. apply andb_true_iff in H as [H1 H2].
  destruct (ro_sig o); try discriminate. apply alg_eqb_eq in H1. auto.
Qed.

(* ---- running handlers ---- *)
Lemma run_seq_bind {A B} (p : prog A) (f : A -> prog B) : forall st,
  run_seq (bind p f) st = let '(st', a) := run_seq p st in run_seq (f a) st'.
Proof.
  induction p as [a|c k IH|o p IH]; intros st; simpl; auto.
  destruct (exec c st) as [st' r]. apply IH.
Qed.

Lemma get_client_spec w i st : exists oc, run_seq (get_client w i) st = (st, oc) /\
  forall c, oc = Some c -> c_id c = i /\ (In c (w_static w) \/ In c (st_clients st)).
Proof.
  unfold get_client. destruct (find_client i (w_static w)) as [c|] eqn:E.
  - exists (Some c). split; auto. intros c' H; inversion H; subst. unfold find_client in E. apply find_some in E as [E1 E2].
    apply ideq_eq in E2. auto.
  - simpl. unfold find_client. destruct (find (fun c => ideq (c_id c) i) (st_clients st)) as [c|] eqn:E2.
    + exists (Some c). split; auto. intros c' H; inversion H; subst. apply find_some in E2 as [E3 E4]. apply ideq_eq in E4. auto.
    + exists None. split; auto. intros c' H; discriminate.
Qed.

Lemma authenticated_spec w cr st : exists oc, run_seq (authenticated w cr) st = (st, oc) /\
  forall c, oc = Some c -> c_id c = cr_id cr /\ cr_id cr <> 0 /\ (In c (w_static w) \/ In c (st_clients st)).
Proof.
  unfold authenticated. destruct (is_nil (cr_id cr)) eqn:E.
  - exists None. split; auto. intros c H; discriminate.
  - rewrite run_seq_bind. destruct (get_client_spec w (cr_id cr) st) as [oc [R H]]. rewrite R.
    assert (Hnz : cr_id cr <> 0) by (unfold is_nil in E; apply N.eqb_neq in E; exact E).
    destruct oc as [c|].
    + destruct (c_public c || cr_ok cr)%bool.
      * exists (Some c). split; auto. intros c' H'; inversion H'; subst. destruct (H c' eq_refl). auto.
      * exists None. split; auto. intros c' H'; discriminate.
    + exists None. split; auto. intros c' H'; discriminate.
Qed.

Lemma render_aerr_not_ok cfg c e : out_ok (render_aerr cfg c e) = false.
Proof. destruct e; reflexivity. Qed.

(* ---- the decision functions hand out parameters only for authentic, client-bound objects ---- *)
Definition carries (jin : jar_in) (o : req_object) : Prop := jin = JValue o \/ exists h, jin = JRef h (Some o).

Lemma jar_session_bound cfg c outer jin j p : jar_session cfg c outer jin j = inr p -> jr_client j = c_id c.
Proof.
  unfold jar_session. destruct (negb (ideq (jr_client j) (c_id c))) eqn:E; [discriminate|].
  intros _. apply negb_false in E. apply ideq_eq in E. exact E.
Qed.

Lemma jar_decision_authentic cfg jc c jcl outer jin o p : c_id c <> 0 -> carries jin o ->
  jar_decision cfg jc c jcl outer jin = inr p ->
  jar_ok (cf_profile cfg) jc (c_id c) jcl o = true /\ ro_client_id o = c_id c.
Proof.
  intros Hc Hin. unfold jar_decision, jar_fetch.
  assert (K : forall r, match lift_res r with inl e => inl e | inr j => jar_session cfg c outer jin j end = inr p ->
              r = resolve_jar (cf_profile cfg) jc (c_id c) jcl o ->
              jar_ok (cf_profile cfg) jc (c_id c) jcl o = true /\ ro_client_id o = c_id c).
  { intros r H Hr. destruct r as [e|j]; simpl in H; [discriminate|].
    symmetry in Hr. destruct (resolve_jar_authentic _ _ _ _ _ _ Hc Hr) as [J1 J2]. split; auto.
    apply jar_session_bound in H. subst j. exact H. }
  destruct Hin as [-> | [h ->]].
  - intros H. eapply K; eauto.
  - destruct (cf_jar_by_reference cfg); [|discriminate]. intros H. eapply K; eauto.
Qed.

Lemma par_jar_decision_authentic cfg jc c jcl outer o p : c_id c <> 0 ->
  par_jar_decision cfg jc c jcl outer (Some o) = inr p ->
  jar_ok (cf_profile cfg) jc (c_id c) jcl o = true /\ ro_client_id o = c_id c /\ p = jr_params (contents o).
Proof.
  intros Hc. unfold par_jar_decision.
  destruct (resolve_jar (cf_profile cfg) jc (c_id c) jcl o) as [e|j] eqn:R; [discriminate|].
  destruct (resolve_jar_authentic _ _ _ _ _ _ Hc R) as [J1 J2].
  destruct (negb (is_nil (p_request_uri outer))); [discriminate|].
  destruct (negb (ideq (jr_client j) (c_id c))) eqn:E; [discriminate|].
  destruct (jr_nested_req j || jr_nested_uri j)%bool; [discriminate|].
  intros H; inversion H; subst. apply negb_false in E. apply ideq_eq in E. auto.
Qed.

(* ---- /authorize ---- *)
Lemma should_use_par_no_uri cfg outer c : p_request_uri outer = 0 ->
  should_use_par cfg outer c = true -> forall (A : Type) (a b : A), (if is_nil (p_request_uri outer) then a else b) = a.
Proof. intros H _ A a b. rewrite H. reflexivity. Qed.

Lemma auth_jar_client_authentic w jx n now c q st st' x o :
  cf_jar_enabled (w_cfg w) = true -> c_id c <> 0 -> carries (jq_jar q) o ->
  p_request_uri (ar_params (jq_req q)) = 0 ->
  run_seq (auth_jar_client w jx n now c q) st = (st', x) -> out_ok x = true ->
  jar_ok (cf_profile (w_cfg w)) (jx_cfg jx) (c_id c) (jclient_of (jx_clients jx) (c_id c)) o = true /\ ro_client_id o = c_id c.
Proof.
  intros Hen Hc Hin Huri. unfold auth_jar_client.
  destruct (should_use_par (w_cfg w) (ar_params (jq_req q)) c).
  { rewrite Huri. simpl. intros H; inversion H; subst. discriminate. }
  destruct (should_use_jar (w_cfg w) (ar_params (jq_req q)) c (jq_jar q)) eqn:SJ.
  - destruct (jar_decision (w_cfg w) (jx_cfg jx) c (jclient_of (jx_clients jx) (c_id c)) (ar_params (jq_req q)) (jq_jar q)) as [e|p] eqn:D.
    + simpl. intros H; inversion H; subst. rewrite render_aerr_not_ok. discriminate.
    + intros _ _. eapply jar_decision_authentic; eauto.
  - (* JAR enabled and an object sent, yet JAR not in effect: only a by-reference object with
       by-reference delivery disabled, which the request_uri validator refuses *)
    unfold should_use_jar in SJ. rewrite Hen in SJ. simpl in SJ.
    destruct Hin as [E | [h E]]; rewrite E in *; simpl in SJ.
    + rewrite !orb_true_r in SJ. discriminate.
    + assert (BR : cf_jar_by_reference (w_cfg w) = false).
      { destruct (cf_jar_by_reference (w_cfg w)); auto. simpl in SJ. rewrite !orb_true_r in SJ. discriminate. }
      unfold validate_params_x, validate_optionals_x, ref_check_in, ref_check. rewrite BR. simpl.
      destruct (is_empty (p_redirect (ar_params (jq_req q)))).
      * simpl. intros H; inversion H; subst. discriminate.
      * destruct (negb (redirect_allowed c (p_redirect (ar_params (jq_req q))))); simpl;
          intros H; inversion H; subst; discriminate.
Qed.

Lemma init_auth_jar_authentic w jx n now q st st' x o :
  cf_jar_enabled (w_cfg w) = true -> carries (jq_jar q) o ->
  p_request_uri (ar_params (jq_req q)) = 0 ->
  run_seq (init_auth_jar w jx n now q) st = (st', x) -> out_ok x = true ->
  let cid := ar_client (jq_req q) in
  jar_ok (cf_profile (w_cfg w)) (jx_cfg jx) cid (jclient_of (jx_clients jx) cid) o = true /\ ro_client_id o = cid.
Proof.
  intros Hen Hin Huri. unfold init_auth_jar.
  destruct (is_nil (ar_client (jq_req q))) eqn:Z.
  { simpl. intros H; inversion H; subst. discriminate. }
  rewrite run_seq_bind. destruct (get_client_spec w (ar_client (jq_req q)) st) as [oc [R Hoc]]. rewrite R.
  destruct oc as [c|]; [|simpl; intros H; inversion H; subst; discriminate].
  destruct (Hoc c eq_refl) as [Hid _].
  destruct (negb (has_grant GAuthorizationCode (c_grants c) || has_grant GImplicit (c_grants c))).
  { simpl. intros H; inversion H; subst. discriminate. }
  intros H Hok. simpl. rewrite <- Hid.
  eapply auth_jar_client_authentic; eauto.
  rewrite Hid. unfold is_nil in Z. apply N.eqb_neq in Z. exact Z.
Qed.

(* ---- /par ---- *)
Lemma push_auth_jar_authentic w jx n now r st st' x o :
  cf_jar_enabled (w_cfg w) = true ->
  run_seq (push_auth_jar w jx n now r (Some o)) st = (st', x) -> out_ok x = true ->
  let cid := cr_id (pr_cred r) in
  jar_ok (cf_profile (w_cfg w)) (jx_cfg jx) cid (jclient_of (jx_clients jx) cid) o = true /\ ro_client_id o = cid.
Proof.
  intros Hen. unfold push_auth_jar.
  destruct (negb (cf_par_enabled (w_cfg w))). { simpl. intros H; inversion H; subst. discriminate. }
  rewrite run_seq_bind. destruct (authenticated_spec w (pr_cred r) st) as [oc [R Hoc]]. rewrite R.
  destruct oc as [c|]; [|simpl; intros H; inversion H; subst; discriminate].
  destruct (Hoc c eq_refl) as [Hid [Hnz _]].
  unfold should_use_jar_par. rewrite Hen. cbn [andb]. rewrite !orb_true_r.
  destruct (par_jar_decision (w_cfg w) (jx_cfg jx) c (jclient_of (jx_clients jx) (c_id c)) (pr_params r) (Some o)) as [e|p] eqn:D.
  { simpl. intros H; inversion H; subst. discriminate. }
  intros _ _. simpl. rewrite <- Hid.
  assert (Hc : c_id c <> 0) by (rewrite Hid; exact Hnz).
  destruct (par_jar_decision_authentic _ _ _ _ _ _ _ Hc D) as [A [B _]]. auto.
Qed.

(* ---- /bc-authorize ---- *)
Lemma init_back_auth_jar_authentic w jx n now r st st' x o :
  cf_ciba_jar_enabled (w_cfg w) = true ->
  run_seq (init_back_auth_jar w jx n now r (Some o)) st = (st', x) -> out_ok x = true ->
  let cid := cr_id (br_cred r) in
  ciba_jar_ok (jx_cfg jx) cid (jclient_of (jx_clients jx) cid) o = true.
Proof.
  intros Hen. unfold init_back_auth_jar.
  destruct (negb (cf_ciba_enabled (w_cfg w))). { simpl. intros H; inversion H; subst. discriminate. }
  rewrite run_seq_bind. destruct (authenticated_spec w (br_cred r) st) as [oc [R Hoc]]. rewrite R.
  destruct oc as [c|]; [|simpl; intros H; inversion H; subst; discriminate].
  destruct (Hoc c eq_refl) as [Hid [Hnz _]].
  unfold should_use_jar_ciba. rewrite Hen. cbn [andb]. rewrite !orb_true_r.
  unfold ciba_jar_decision.
  destruct (resolve_ciba_jar (jx_cfg jx) (c_id c) (jclient_of (jx_clients jx) (c_id c)) o) as [e|j] eqn:D.
  { simpl. intros H; inversion H; subst. discriminate. }
  intros _ _. simpl. rewrite <- Hid.
  assert (Hc : c_id c <> 0) by (rewrite Hid; exact Hnz).
  destruct (resolve_ciba_jar_authentic _ _ _ _ _ Hc D) as [_ A]. exact A.
Qed.

(* ---- JAR requirements are enforced ---- *)
Lemma auth_jar_client_required w jx n now c q st :
  cf_jar_enabled (w_cfg w) = true -> (cf_jar_required (w_cfg w) = true \/ c_jar_required c = true) ->
  jq_jar q = JNone -> p_request_uri (ar_params (jq_req q)) = 0 ->
  exists x, run_seq (auth_jar_client w jx n now c q) st = (st, x) /\ out_ok x = false.
Proof.
  intros Hen Hreq Hj Huri. unfold auth_jar_client.
  destruct (should_use_par (w_cfg w) (ar_params (jq_req q)) c).
  { rewrite Huri. simpl. eexists; split; reflexivity. }
  assert (SJ : should_use_jar (w_cfg w) (ar_params (jq_req q)) c (jq_jar q) = true).
  { unfold should_use_jar. rewrite Hen. cbn [andb]. destruct Hreq as [H|H]; rewrite H; [reflexivity|apply orb_true_r]. }
  rewrite SJ. unfold jar_decision, jar_fetch. rewrite Hj. simpl.
  eexists; split; reflexivity.
Qed.

Definition every_registration (w : world) (st : store) (i : id) (P : client -> Prop) : Prop :=
  forall c, c_id c = i -> In c (w_static w) \/ In c (st_clients st) -> P c.

Lemma init_auth_jar_required w jx n now q st :
  cf_jar_enabled (w_cfg w) = true ->
  (cf_jar_required (w_cfg w) = true \/ every_registration w st (ar_client (jq_req q)) (fun c => c_jar_required c = true)) ->
  jq_jar q = JNone -> p_request_uri (ar_params (jq_req q)) = 0 ->
  exists x, run_seq (init_auth_jar w jx n now q) st = (st, x) /\ out_ok x = false.
Proof.
  intros Hen Hreq Hj Huri. unfold init_auth_jar.
  destruct (is_nil (ar_client (jq_req q))). { simpl. eexists; split; reflexivity. }
  rewrite run_seq_bind. destruct (get_client_spec w (ar_client (jq_req q)) st) as [oc [R Hoc]]. rewrite R.
  destruct oc as [c|]; [|simpl; eexists; split; reflexivity].
  destruct (Hoc c eq_refl) as [Hid Hin].
  destruct (negb (has_grant GAuthorizationCode (c_grants c) || has_grant GImplicit (c_grants c))).
  { simpl. eexists; split; reflexivity. }
  apply auth_jar_client_required; auto.
  destruct Hreq as [H|H]; [left; exact H|right; apply H; auto].
Qed.

Lemma push_auth_jar_required w jx n now r st :
  cf_jar_enabled (w_cfg w) = true ->
  (cf_jar_required (w_cfg w) = true \/ every_registration w st (cr_id (pr_cred r)) (fun c => c_jar_required c = true)) ->
  exists x, run_seq (push_auth_jar w jx n now r None) st = (st, x) /\ out_ok x = false.
Proof.
  intros Hen Hreq. unfold push_auth_jar.
  destruct (negb (cf_par_enabled (w_cfg w))). { simpl. eexists; split; reflexivity. }
  rewrite run_seq_bind. destruct (authenticated_spec w (pr_cred r) st) as [oc [R Hoc]]. rewrite R.
  destruct oc as [c|]; [|simpl; eexists; split; reflexivity].
  destruct (Hoc c eq_refl) as [Hid [_ Hin]].
  assert (S : should_use_jar_par (w_cfg w) c false = true).
  { unfold should_use_jar_par. rewrite Hen. cbn [andb]. destruct Hreq as [H|H]; [rewrite H; reflexivity|].
    rewrite (H c Hid Hin). rewrite orb_false_r. apply orb_true_r. }
  rewrite S. simpl. eexists; split; reflexivity.
Qed.

Lemma init_back_auth_jar_required w jx n now r st :
  cf_ciba_jar_enabled (w_cfg w) = true ->
  (cf_ciba_jar_required (w_cfg w) = true \/ jc_ciba_alg (jclient_of (jx_clients jx) (cr_id (br_cred r))) <> None) ->
  exists x, run_seq (init_back_auth_jar w jx n now r None) st = (st, x) /\ out_ok x = false.
Proof.
  intros Hen Hreq. unfold init_back_auth_jar.
  destruct (negb (cf_ciba_enabled (w_cfg w))). { simpl. eexists; split; reflexivity. }
  rewrite run_seq_bind. destruct (authenticated_spec w (br_cred r) st) as [oc [R Hoc]]. rewrite R.
  destruct oc as [c|]; [|simpl; eexists; split; reflexivity].
  destruct (Hoc c eq_refl) as [Hid _].
  assert (S : should_use_jar_ciba (w_cfg w) (jclient_of (jx_clients jx) (c_id c)) false = true).
  { unfold should_use_jar_ciba. rewrite Hen. cbn [andb]. destruct Hreq as [H|H]; [rewrite H; reflexivity|].
    rewrite Hid. destruct (jc_ciba_alg (jclient_of (jx_clients jx) (cr_id (br_cred r)))); [apply orb_true_r|congruence]. }
  rewrite S. simpl. eexists; split; reflexivity.
Qed.

(* ---- under FAPI the parameters outside the object / pushed request are inert ---- *)
Lemma start_session_outer w n now c s r1 r2 :
  ar_policy_available r1 = ar_policy_available r2 -> ar_pol r1 = ar_pol r2 ->
  start_session w n now c s r1 = start_session w n now c s r2.
Proof. intros H1 H2. unfold start_session. rewrite H1, H2. reflexivity. Qed.

Definition same_outside (r1 r2 : areq) : Prop :=
  ar_client r1 = ar_client r2 /\ ar_policy_available r1 = ar_policy_available r2 /\ ar_pol r1 = ar_pol r2 /\
  p_request_uri (ar_params r1) = p_request_uri (ar_params r2).

(* a pushed request or a request object is in effect for the request, whoever the client is *)
Definition inner_in_effect (cfg : config) (q : jareq) : bool :=
  orb (andb (cf_par_enabled cfg) (negb (is_nil (p_request_uri (ar_params (jq_req q))))))
      (andb (cf_jar_enabled cfg) (orb (has_obj (jq_jar q)) (andb (cf_jar_by_reference cfg) (is_ref (jq_jar q))))).

Lemma inner_in_effect_branch cfg q c : inner_in_effect cfg q = true ->
  should_use_par cfg (ar_params (jq_req q)) c = false ->
  should_use_jar cfg (ar_params (jq_req q)) c (jq_jar q) = true.
Proof.
  unfold inner_in_effect, should_use_par, should_use_jar. intros H P.
  destruct (cf_par_enabled cfg); simpl in *.
  - destruct (negb (is_nil (p_request_uri (ar_params (jq_req q))))); simpl in *.
    + rewrite !orb_true_r in P. discriminate.
    + destruct (cf_jar_enabled cfg); simpl in *; [|discriminate].
      destruct (has_obj (jq_jar q)); simpl in *; [rewrite !orb_true_r; reflexivity|].
      destruct (cf_jar_by_reference cfg); simpl in *; [|discriminate]. rewrite H. rewrite !orb_true_r. reflexivity.
  - destruct (cf_jar_enabled cfg); simpl in *; [|discriminate].
    destruct (has_obj (jq_jar q)); simpl in *; [rewrite !orb_true_r; reflexivity|].
    destruct (cf_jar_by_reference cfg); simpl in *; [|discriminate]. rewrite H. rewrite !orb_true_r. reflexivity.
Qed.

Lemma jar_fetch_outer cfg jc c jcl o1 o2 jin : jar_fetch cfg jc c jcl o1 jin = jar_fetch cfg jc c jcl o2 jin.
Proof. destruct jin as [|o|h [o|]]; reflexivity. Qed.

Lemma jar_session_fapi cfg c outer jin j p : is_fapi (cf_profile cfg) = true ->
  jar_session cfg c outer jin j = inr p -> p = jr_params j.
Proof.
  intros F. unfold jar_session. rewrite F.
  destruct (negb (ideq (jr_client j) (c_id c))); [discriminate|].
  destruct (validate_params_x cfg (jr_params j) c _ _); [discriminate|].
  destruct (validate_in_out_x cfg (jr_params j) outer c _ _); [discriminate|].
  destruct (jr_nested_uri j); [discriminate|]. destruct (jr_nested_req j); [discriminate|].
  intros H; inversion H; reflexivity.
Qed.

Lemma jar_decision_fapi_inert cfg jc c jcl o1 o2 jin p1 p2 : is_fapi (cf_profile cfg) = true ->
  jar_decision cfg jc c jcl o1 jin = inr p1 -> jar_decision cfg jc c jcl o2 jin = inr p2 -> p1 = p2.
Proof.
  intros F. unfold jar_decision. rewrite (jar_fetch_outer cfg jc c jcl o1 o2 jin).
  destruct (jar_fetch cfg jc c jcl o2 jin) as [e|j]; [discriminate|].
  intros H1 H2. apply jar_session_fapi in H1; auto. apply jar_session_fapi in H2; auto. congruence.
Qed.

Lemma should_use_par_uri cfg p1 p2 c : p_request_uri p1 = p_request_uri p2 -> should_use_par cfg p1 c = should_use_par cfg p2 c.
Proof. unfold should_use_par. intros ->. reflexivity. Qed.
Lemma should_use_jar_uri cfg p1 p2 c j : p_request_uri p1 = p_request_uri p2 -> should_use_jar cfg p1 c j = should_use_jar cfg p2 c j.
Proof. unfold should_use_jar. intros ->. reflexivity. Qed.

Local Opaque validate_in_out validate_in_out_x validate_params validate_params_x merge_params start_session render_aerr
  jar_decision par_verdict.

Lemma auth_jar_client_inert w jx n now c q1 q2 st s1 x1 s2 x2 :
  is_fapi (cf_profile (w_cfg w)) = true ->
  same_outside (jq_req q1) (jq_req q2) -> jq_jar q1 = jq_jar q2 -> inner_in_effect (w_cfg w) q1 = true ->
  run_seq (auth_jar_client w jx n now c q1) st = (s1, x1) ->
  run_seq (auth_jar_client w jx n now c q2) st = (s2, x2) ->
  out_ok x1 = true -> out_ok x2 = true -> s1 = s2 /\ x1 = x2.
Proof.
  intros F [Hc [Hpa [Hpol Huri]]] Hj Hin. unfold auth_jar_client.
  rewrite <- (should_use_par_uri _ _ _ c Huri), <- (should_use_jar_uri _ _ _ c (jq_jar q2) Huri), <- Hj, <- Huri, <- Hc.
  rewrite F.
  destruct (should_use_par (w_cfg w) (ar_params (jq_req q1)) c) eqn:SP.
  - destruct (is_nil (p_request_uri (ar_params (jq_req q1)))).
    { simpl. intros H1 H2; inversion H1; subst. discriminate. }
    simpl. destruct (find (fun s => ideq (a_par s) (p_request_uri (ar_params (jq_req q1)))) (st_asess st)) as [s|]; simpl.
    + destruct (par_verdict (w_cfg w) now c s (ar_client (jq_req q1)) (ar_params (jq_req q1)) (jq_jar q1)) as [e1|].
      { simpl. intros H1 H2; inversion H1; subst. rewrite render_aerr_not_ok. discriminate. }
      destruct (par_verdict (w_cfg w) now c s (ar_client (jq_req q1)) (ar_params (jq_req q2)) (jq_jar q1)) as [e2|].
      { simpl. intros H1 H2; inversion H2; subst. rewrite render_aerr_not_ok. discriminate. }
      rewrite (start_session_outer w n now c s (jq_req q1) (jq_req q2) Hpa Hpol).
      intros H1 H2 _ _. rewrite H1 in H2. inversion H2; auto.
    + intros H1 H2; inversion H1; subst. discriminate.
  - rewrite (inner_in_effect_branch _ _ _ Hin SP).
    destruct (jar_decision (w_cfg w) (jx_cfg jx) c (jclient_of (jx_clients jx) (c_id c)) (ar_params (jq_req q1)) (jq_jar q1)) as [e1|p1] eqn:D1.
    { simpl. intros H1 H2; inversion H1; subst. rewrite render_aerr_not_ok. discriminate. }
    destruct (jar_decision (w_cfg w) (jx_cfg jx) c (jclient_of (jx_clients jx) (c_id c)) (ar_params (jq_req q2)) (jq_jar q1)) as [e2|p2] eqn:D2.
    { simpl. intros H1 H2; inversion H2; subst. rewrite render_aerr_not_ok. discriminate. }
    rewrite (jar_decision_fapi_inert _ _ _ _ _ _ _ _ _ F D1 D2).
    rewrite (start_session_outer w n now c _ (jq_req q1) (jq_req q2) Hpa Hpol).
    intros H1 H2 _ _. rewrite H1 in H2. inversion H2; auto.
Qed.

Lemma init_auth_jar_inert w jx n now q1 q2 st s1 x1 s2 x2 :
  is_fapi (cf_profile (w_cfg w)) = true ->
  same_outside (jq_req q1) (jq_req q2) -> jq_jar q1 = jq_jar q2 -> inner_in_effect (w_cfg w) q1 = true ->
  run_seq (init_auth_jar w jx n now q1) st = (s1, x1) ->
  run_seq (init_auth_jar w jx n now q2) st = (s2, x2) ->
  out_ok x1 = true -> out_ok x2 = true -> s1 = s2 /\ x1 = x2.
Proof.
  intros F S Hj Hin. unfold init_auth_jar. destruct S as [Hc S'].
  rewrite <- Hc.
  destruct (is_nil (ar_client (jq_req q1))). { simpl. intros H1 H2; inversion H1; subst. discriminate. }
  rewrite !run_seq_bind. destruct (get_client_spec w (ar_client (jq_req q1)) st) as [oc [R _]]. rewrite R.
  destruct oc as [c|]; [|simpl; intros H1 H2; inversion H1; subst; discriminate].
  destruct (negb (has_grant GAuthorizationCode (c_grants c) || has_grant GImplicit (c_grants c))).
  { simpl. intros H1 H2; inversion H1; subst. discriminate. }
  apply auth_jar_client_inert; auto. split; auto.
Qed.

(* the same for the handler of Model/Authorize.v (no request objects): a pushed request *)
Local Opaque validate_in_out.
Lemma init_auth_par_inert w n now r1 r2 st s1 x1 s2 x2 :
  is_fapi (cf_profile (w_cfg w)) = true -> same_outside r1 r2 ->
  cf_par_enabled (w_cfg w) = true -> p_request_uri (ar_params r1) <> 0 ->
  run_seq (init_auth w n now r1) st = (s1, x1) ->
  run_seq (init_auth w n now r2) st = (s2, x2) ->
  out_ok x1 = true -> out_ok x2 = true -> s1 = s2 /\ x1 = x2.
Proof.
  intros F [Hc [Hpa [Hpol Huri]]] Hen Hnz. unfold init_auth.
  rewrite <- Hc.
  destruct (is_nil (ar_client r1)). { simpl. intros H1 H2; inversion H1; subst. discriminate. }
  rewrite !run_seq_bind. destruct (get_client_spec w (ar_client r1) st) as [oc [R _]]. rewrite R.
  destruct oc as [c|]; [|simpl; intros H1 H2; inversion H1; subst; discriminate].
  destruct (negb (has_grant GAuthorizationCode (c_grants c) || has_grant GImplicit (c_grants c))).
  { simpl. intros H1 H2; inversion H1; subst. discriminate. }
  assert (Z : is_nil (p_request_uri (ar_params r1)) = false) by (unfold is_nil; apply N.eqb_neq; exact Hnz).
  assert (SP : should_use_par (w_cfg w) (ar_params r1) c = true).
  { unfold should_use_par. rewrite Hen, Z. simpl. rewrite !orb_true_r. reflexivity. }
  rewrite <- (should_use_par_uri _ _ _ c Huri), SP, <- Huri, Z, F.
  simpl. destruct (find (fun s => ideq (a_par s) (p_request_uri (ar_params r1))) (st_asess st)) as [s|]; simpl.
  - destruct (negb (ideq (a_client s) (ar_client r1))).
    { simpl. intros H1 H2; inversion H1; subst. rewrite render_aerr_not_ok. discriminate. }
    destruct (geb now (a_expires s)).
    { simpl. intros H1 H2; inversion H1; subst. rewrite render_aerr_not_ok. discriminate. }
    destruct (validate_in_out (w_cfg w) (a_params s) (ar_params r1) (client_for_par (w_cfg w) c (p_redirect (a_params s)))).
    { simpl. intros H1 H2; inversion H1; subst. rewrite render_aerr_not_ok. discriminate. }
    destruct (validate_in_out (w_cfg w) (a_params s) (ar_params r2) (client_for_par (w_cfg w) c (p_redirect (a_params s)))).
    { simpl. intros H1 H2; inversion H2; subst. rewrite render_aerr_not_ok. discriminate. }
    rewrite (start_session_outer w n now c s r1 r2 Hpa Hpol).
    intros H1 H2 _ _. rewrite H1 in H2. inversion H2; auto.
  - intros H1 H2; inversion H1; subst. discriminate.
Qed.

(* without request objects and with JAR not in effect the JAR-aware handler is the handler of Authorize.v *)
Lemma validate_optionals_x_plain cfg p c : validate_optionals_x cfg p c None false = validate_optionals cfg p c.
Proof.
Local Transparent validate_params validate_params_x validate_in_out validate_in_out_x.
  unfold validate_optionals_x.
  destruct (negb (is_empty (p_redirect p)) && negb (redirect_allowed c (p_redirect p)))%bool eqn:E.
  - unfold validate_optionals. rewrite E. reflexivity.
  - destruct (validate_optionals cfg p c); reflexivity.
Qed.

(* ---- the hypotheses of the theorems are satisfiable: a concrete FAPI 2.0 world ---- *)
Module C07Example.
  Definition cl1 : client :=
    mkClient 1 false [GAuthorizationCode] ["code"] ["https://c1.example/cb"] "openid email" CibaNone
             false false false false false false false 0 false None.
  Definition cfg : config :=
    match build PFapi2 [WithAuthorizationCodeGrant; WithJAR; WithPAR 60%Z] with Some c => c | None => base_config PFapi2 end.
  Definition w : world := mkWorld cfg [cl1].
  Definition jx : jworld := mkJWorld (mkJCfg [AES256] false [AES256] 0%Z) [(1, mkJClient [mkJwk 611 AES256 511] None None)].
  Definition inner : params := mkParams 0 "https://c1.example/cb" "" "code" "openid" "st-in" "n-in" PkEmpty "" 0 "" 0 "" [] None.
  Definition obj : req_object :=
    mkRO EncNone (SigBy 511) AES256 611 1 true (Some 300%Z) (Some (-10)%Z) (Some (-10)%Z) true 1 false false inner.
  Definition q (outer : params) : jareq := mkJAReq (mkAReq 1 outer true PolInProgress) (JValue obj).
  Definition outer1 : params := empty_params.
  Definition outer2 : params := mkParams 0 "" "" "code" "openid" "st-out" "n-out" PkEmpty "" 0 "" 0 "" [] None.

  Example object_accepted : resolve_jar PFapi2 (jx_cfg jx) 1 (jclient_of (jx_clients jx) 1) obj = inr (contents obj).
  Proof. vm_compute. reflexivity. Qed.
  Example both_accepted_and_equal :
    let r1 := run_seq (init_auth_jar w jx 0 0%Z (q outer1)) empty_store in
    let r2 := run_seq (init_auth_jar w jx 0 0%Z (q outer2)) empty_store in
    out_ok (snd r1) = true /\ out_ok (snd r2) = true /\ r1 = r2 /\ inner_in_effect cfg (q outer1) = true /\
    is_fapi (cf_profile cfg) = true.
  Proof. vm_compute. repeat split; reflexivity. Qed.
  Example stripped_refused :
    exists e, resolve_jar PFapi2 (jx_cfg jx) 1 (jclient_of (jx_clients jx) 1)
                (mkRO EncNone SigEmpty AES256 611 0 false None None None false 1 false false inner) = inl e.
  Proof. eexists. vm_compute. reflexivity. Qed.
End C07Example.

(* ---- with JAR disabled and no object the JAR-aware handler answers exactly like Authorize.init_auth ---- *)
Section Plain.
Local Transparent validate_params validate_params_x validate_in_out validate_in_out_x par_verdict.

Lemma validate_params_x_plain cfg p c : validate_params_x cfg p c None false = validate_params cfg p c.
Proof.
  unfold validate_params_x. rewrite validate_optionals_x_plain. unfold validate_params.
  destruct (is_empty (p_redirect p)); auto.
  destruct (validate_optionals cfg p c); reflexivity.
Qed.

Lemma validate_in_out_x_plain cfg i o c : validate_in_out_x cfg i o c None false = validate_in_out cfg i o c.
Proof.
  unfold validate_in_out_x. rewrite validate_optionals_x_plain. unfold validate_in_out.
  destruct (negb (is_empty (p_redirect o)) && negb (redirect_allowed c (p_redirect o)))%bool; auto.
  destruct (validate_params cfg (merge_params i o) c); auto.
  destruct (validate_optionals cfg o c) as [[e|e p]|]; reflexivity.
Qed.

Lemma init_auth_jar_plain w jx n now r st :
  cf_jar_enabled (w_cfg w) = false ->
  run_seq (init_auth_jar w jx n now (mkJAReq r JNone)) st = run_seq (init_auth w n now r) st.
Proof.
  intros Hen. unfold init_auth_jar, init_auth. cbn [jq_req jq_jar].
  destruct (is_nil (ar_client r)); auto.
  rewrite !run_seq_bind. destruct (get_client_spec w (ar_client r) st) as [oc [R _]]. rewrite R.
  destruct oc as [c|]; auto.
  destruct (negb (has_grant GAuthorizationCode (c_grants c) || has_grant GImplicit (c_grants c))); auto.
  unfold auth_jar_client. cbn [jq_req jq_jar].
  destruct (should_use_par (w_cfg w) (ar_params r) c).
  - destruct (is_nil (p_request_uri (ar_params r))); auto.
    simpl. destruct (find (fun s => ideq (a_par s) (p_request_uri (ar_params r))) (st_asess st)) as [s|]; simpl; auto.
    unfold par_verdict, both_outside. cbn [has_obj is_ref]. rewrite andb_false_r. rewrite validate_in_out_x_plain.
    reflexivity.
  - unfold should_use_jar. rewrite Hen. cbn [andb].
    unfold both_outside, ref_check_in. cbn [has_obj]. rewrite andb_false_r. rewrite validate_params_x_plain. reflexivity.
Qed.
End Plain.

Lemma push_auth_jar_plain w jx n now r st :
  cf_jar_enabled (w_cfg w) = false ->
  run_seq (push_auth_jar w jx n now r None) st = run_seq (push_auth w n now r) st.
Proof.
  intros Hen. unfold push_auth_jar, push_auth.
  destruct (negb (cf_par_enabled (w_cfg w))); auto.
  rewrite !run_seq_bind. destruct (authenticated_spec w (pr_cred r) st) as [oc [R _]]. rewrite R.
  destruct oc as [c|]; auto.
  unfold should_use_jar_par. rewrite Hen. cbn [andb]. reflexivity.
Qed.

Lemma init_back_auth_jar_plain w jx n now r st :
  cf_ciba_jar_enabled (w_cfg w) = false ->
  run_seq (init_back_auth_jar w jx n now r None) st = run_seq (init_back_auth w n now r) st.
Proof.
  intros Hen. unfold init_back_auth_jar, init_back_auth.
  destruct (negb (cf_ciba_enabled (w_cfg w))); auto.
  rewrite !run_seq_bind. destruct (authenticated_spec w (br_cred r) st) as [oc [R _]]. rewrite R.
  destruct oc as [c|]; auto.
  unfold should_use_jar_ciba. rewrite Hen. cbn [andb].
  unfold back_tail. rewrite validate_optionals_x_plain. reflexivity.
Qed.
