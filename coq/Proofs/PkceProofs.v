(* PkceProofs.v — PKCE end to end: the method a recorded challenge is verified under when the
   authorization request left code_challenge_method out (the server's default), that the default is an
   enabled (= advertised) method of every built configuration, and hence that no code exchange completes
   under a method that is not enabled.  Used by Props/C03.v, Props/C11.v and Props/C19.v. *)
From Verif Require Import Base Scope Types Prog Pop Token Authorize System Config Discovery Required Run Monitors
  Hoare Tactics OneShot HistProps ConfigProofs C02Proofs C02Handlers C19Proofs SessInv.
From Verif Require Import ParStored.
From Verif.Corr Require Import C11 C11Eff.
Local Open Scope N_scope.

(* ideal hash: a string is never its own thumbprint - so, under S256, the challenge string itself is
   never an acceptable verifier *)
Lemma pk_eqb_not_hash a : forall b, pk_eqb a b = true -> pk_eqb a (PkHash b) = false.
Proof.
  induction a as [|n l|a IH]; intros b H; cbn; auto.
  destruct b; cbn in H; try discriminate. apply IH. exact H.
Qed.

Lemma pkce_matches_of_validate cfg v s :
  validate_pkce cfg v s = None -> cf_pkce_enabled cfg = true -> pk_is_empty (p_challenge (a_params s)) = false ->
  pkce_matches cfg (a_params s) v = true.
Proof.
  intros H E C. destruct (validate_pkce_sound cfg v s H E C) as [A [B D]].
  unfold pkce_matches, pkce_effective_method. rewrite A, B, D. reflexivity.
Qed.

(* the decision at the token endpoint, for every store and request *)
Lemma code_pkce_effective w n now r st :
  is_tokens (snd (run_seq (code_grant w n now r) st)) = true ->
  exists s, find (fun s => ideq (a_code s) (t_code r)) (st_asess st) = Some s /\
    (cf_pkce_enabled (w_cfg w) = true -> pk_is_empty (p_challenge (a_params s)) = false ->
       pkce_matches (w_cfg w) (a_params s) (t_verifier r) = true /\
       (is_empty (p_method (a_params s)) = true ->
          is_pkce_valid (t_verifier r) (p_challenge (a_params s)) (cf_pkce_default (w_cfg w)) = true /\
          (cf_pkce_default (w_cfg w) = "S256" -> pk_eqb (p_challenge (a_params s)) (t_verifier r) = false))).
Proof.
  intros H. destruct (code_grant_post w n now r st H) as [s [c [_ [EF [_ [_ [_ [_ [_ EV]]]]]]]]].
  exists s. split; [exact EF|]. intros EN EC. split; [apply pkce_matches_of_validate; auto|].
  intros EM. destruct (validate_pkce_sound _ _ _ EV EN EC) as [_ [_ D]]. rewrite EM in D. split; [exact D|].
  intros ES. rewrite ES in D. unfold is_pkce_valid in D. cbn in D.
  destruct (pk_eqb (p_challenge (a_params s)) (t_verifier r)) eqn:E; auto.
  apply pk_eqb_not_hash in E. congruence.
Qed.

(* ---- the default method of a built configuration is one of its enabled methods ---- *)
Lemma mem_append_if_not_in l x : mem x (append_if_not_in l x) = true.
Proof.
  unfold append_if_not_in. destruct (mem x l) eqn:E; [exact E|]. cbn. rewrite seqb_refl. reflexivity.
Qed.
Lemma build_pkce_default_listed p opts cfg : build p opts = Some cfg -> cf_pkce_enabled cfg = true ->
  mem (cf_pkce_default cfg) (cf_pkce_methods cfg) = true.
Proof.
  intros H. apply build_inv in H as [-> _].
  assert (forall c, cf_pkce_methods (set_defaults c) = cf_pkce_methods c) as Hd by dflt_tac.
  assert (forall c, cf_pkce_default (set_defaults c) = cf_pkce_default c) as Hd2 by dflt_tac.
  rewrite Hd, Hd2, dflt_pkce_enabled. unfold folded.
  apply (fold_inv (fun c => cf_pkce_enabled c = true -> mem (cf_pkce_default c) (cf_pkce_methods c) = true)); [|cbn; discriminate].
  intros o c Hc. destruct o; cbn; auto; intros _; apply mem_append_if_not_in.
Qed.

(* the method a stored session is verified under is enabled whenever the session's own method is
   absent or enabled - which the authorization endpoint guarantees for every session it lets through
   (accepted_values_are_listed) *)
Definition method_listed (cfg : config) (p : params) : Prop :=
  is_empty (p_method p) = true \/ mem (p_method p) (cf_pkce_methods cfg) = true.

Lemma effective_method_listed p opts cfg prm : build p opts = Some cfg -> cf_pkce_enabled cfg = true ->
  method_listed cfg prm -> mem (pkce_effective_method cfg prm) (cf_pkce_methods cfg) = true.
Proof.
  intros Hb En [E|M]; unfold pkce_effective_method.
  - rewrite E. eapply build_pkce_default_listed; eauto.
  - destruct (is_empty (p_method prm)) eqn:E; [eapply build_pkce_default_listed; eauto|exact M].
Qed.

Lemma existsb_of_mem (f : string -> bool) m l : mem m l = true -> f m = true -> existsb f l = true.
Proof. intros Hm Hf. apply existsb_exists. exists m. split; [apply mem_In; exact Hm|exact Hf]. Qed.

Section Built.
  Variables (p : profile) (opts : list opt) (cfg : config) (statics : list client).
  Hypothesis built : build p opts = Some cfg.

  (* no code exchange completes under a method that is not enabled: whenever the token endpoint hands
     out tokens for a code whose session recorded a challenge, the verifier matches the challenge under
     an ENABLED method *)
  Lemma exchange_under_enabled_method n now r st :
    is_tokens (snd (run_seq (code_grant (mkWorld cfg statics) n now r) st)) = true ->
    exists s, find (fun s => ideq (a_code s) (t_code r)) (st_asess st) = Some s /\
      (cf_pkce_enabled cfg = true -> pk_is_empty (p_challenge (a_params s)) = false -> method_listed cfg (a_params s) ->
         mem (pkce_effective_method cfg (a_params s)) (cf_pkce_methods cfg) = true /\
         is_pkce_valid (t_verifier r) (p_challenge (a_params s)) (pkce_effective_method cfg (a_params s)) = true /\
         pkce_enabled_match cfg (a_params s) (t_verifier r) = true).
  Proof.
    intros H. destruct (code_pkce_effective _ n now r st H) as [s [EF K]]. exists s. split; [exact EF|].
    cbn in K. intros EN EC ML. destruct (K EN EC) as [PM _].
    pose proof (effective_method_listed _ _ _ _ built EN ML) as L.
    unfold pkce_matches in PM. apply andb_true_iff in PM as [A PM]. apply andb_true_iff in PM as [B D].
    split; [exact L|]. split; [exact D|].
    unfold pkce_enabled_match. rewrite A, B. cbn. eapply existsb_of_mem; eauto.
  Qed.

  (* ... in terms of the discovery document: the method is advertised *)
  Lemma exchange_under_advertised_method iss mtls n now r st :
    is_tokens (snd (run_seq (code_grant (mkWorld cfg statics) n now r) st)) = true ->
    exists s, find (fun s => ideq (a_code s) (t_code r)) (st_asess st) = Some s /\
      (cf_pkce_enabled cfg = true -> pk_is_empty (p_challenge (a_params s)) = false -> method_listed cfg (a_params s) ->
         exists m, advertised_in iss mtls cfg MCodeChallengeMethods m = true /\
                   is_pkce_valid (t_verifier r) (p_challenge (a_params s)) m = true).
  Proof.
    intros H. destruct (exchange_under_enabled_method n now r st H) as [s [EF K]]. exists s. split; [exact EF|].
    intros EN EC ML. destruct (K EN EC ML) as [L [D _]]. exists (pkce_effective_method cfg (a_params s)).
    rewrite (pkce_method_advertised iss mtls _ _ _ _ built). auto.
  Qed.

  (* a method that is not advertised completes no exchange: if the only reading under which the
     verifier fits the challenge is a method outside the advertised list, the request is refused *)
  Lemma unadvertised_method_completes_no_exchange iss mtls n now r st s :
    find (fun s => ideq (a_code s) (t_code r)) (st_asess st) = Some s ->
    cf_pkce_enabled cfg = true -> pk_is_empty (p_challenge (a_params s)) = false -> method_listed cfg (a_params s) ->
    (forall m, advertised_in iss mtls cfg MCodeChallengeMethods m = true ->
               is_pkce_valid (t_verifier r) (p_challenge (a_params s)) m = false) ->
    is_tokens (snd (run_seq (code_grant (mkWorld cfg statics) n now r) st)) = false.
  Proof.
    intros EF EN EC ML NA.
    destruct (is_tokens (snd (run_seq (code_grant (mkWorld cfg statics) n now r) st))) eqn:E; auto.
    destruct (exchange_under_advertised_method iss mtls n now r st E) as [s' [EF' K]].
    rewrite EF in EF'. injection EF' as <-. destruct (K EN EC ML) as [m [A V]]. rewrite (NA m A) in V. discriminate.
  Qed.
End Built.

(* ---- in every reachable state the method recorded in a stored session is absent or enabled ---- *)
Lemma vo_method cfg p c : validate_optionals cfg p c = None -> method_listed cfg p.
Proof. intros H. exact (proj2 (proj2 (vo_none cfg p c H))). Qed.
Lemma vp_method cfg p c : validate_params cfg p c = None -> method_listed cfg p.
Proof. intros H. apply vp_none_vo in H as [H _]. eapply vo_method; eauto. Qed.
Local Transparent validate_in_out.
Lemma vio_method cfg i o c : validate_in_out cfg i o c = None -> method_listed cfg (merge_params i o).
Proof.
  unfold validate_in_out. destruct (andb _ _); [discriminate|].
  destruct (validate_params cfg (merge_params i o) c) eqn:E; [discriminate|]. intros _. eapply vp_method; eauto.
Qed.
Local Opaque validate_in_out.

Section Handlers.
  Variable w : world.
  Definition sess_ok (s : asession) : Prop := method_listed (w_cfg w) (a_params s).
  Notation rgm := (rgP sess_ok).

  Local Opaque contains_all_scopes are_scopes_allowed validate_binding validate_pkce refresh_binding
       validate_params validate_optionals validate_in_out merge_params mint make_token
       validate_jwt set_pop_jkt set_pop_x5t.

  Lemma quiet_rgm {A} (p : prog A) : quiet p -> rgm p.
  Proof.
    induction p as [a|c k IH|o p IH]; cbn; auto. intros [G H]. split; [destruct c; cbn in *; tauto|]. intros r _. apply IH; auto.
  Qed.

  Ltac mcrunch K :=
    repeat (cbn; try match goal with
                | |- True => exact I
                | |- _ /\ _ => split
                | |- forall _, _ => intro
                | |- sess_ok _ => exact K
                | |- method_listed _ _ => exact K
                end; try break_goal).

  Lemma authenticate_rgm n now s pol : sess_ok s -> rgm (authenticate w n now s pol).
  Proof.
    intros OK. unfold authenticate, save_a. unfold sess_ok in *.
    destruct pol; cbn.
    - apply rgP_bind; [apply quiet_rgm, get_client_quiet|]. intros [c|]; [|exact I]. mcrunch OK.
    - mcrunch OK.
    - mcrunch OK.
    - mcrunch OK.
  Qed.
  Lemma start_session_rgm n now c s r : sess_ok s -> rgm (start_session w n now c s r).
  Proof.
    intros OK. unfold start_session. repeat (break_goal; [exact I|]). cbn.
    apply authenticate_rgm. exact OK.
  Qed.
  Lemma init_auth_rgm n now r : rgm (init_auth w n now r).
  Proof.
    unfold init_auth. destruct (is_nil (ar_client r)); [exact I|].
    apply rgP_bind; [apply quiet_rgm, get_client_quiet|]. intros [c|]; [|exact I].
    break_goal; [exact I|]. break_goal.
    - break_goal; [exact I|]. cbn. split; [exact I|]. intros rp Hr. destruct rp; try exact I. cbn in Hr.
      destruct (negb (ideq (a_client s) (ar_client r))); [cbn; split; [exact I|]; intros rd _; destruct rd; exact I|].
      destruct (geb now (a_expires s)); [cbn; split; [exact I|]; intros rd _; destruct rd; exact I|].
      destruct (validate_in_out _ _ _ _) eqn:EV; [cbn; split; [exact I|]; intros rd _; destruct rd; exact I|].
      apply rgP_bind; [|intros; exact I]. apply start_session_rgm.
      destruct (is_fapi (cf_profile (w_cfg w))); [exact Hr|]. unfold sess_ok. cbn. eapply vio_method; eauto.
    - destruct (validate_params _ _ _) eqn:EV; [exact I|].
      apply rgP_bind; [|intros; exact I]. apply start_session_rgm.
      pose proof (vp_method _ _ _ EV) as K. unfold sess_ok, method_listed in *. cbn. exact K.
  Qed.
  Lemma continue_auth_rgm n now r : rgm (continue_auth w n now r).
  Proof.
    unfold continue_auth. destruct (is_nil (cb_id r)); [exact I|].
    cbn. split; [exact I|]. intros rp Hr. destruct rp; try exact I. cbn in Hr.
    destruct (geb now (a_expires s)); [exact I|].
    apply rgP_bind; [apply authenticate_rgm; exact Hr|].
    intros [o|e]; [exact I|]. apply quiet_rgm. apply quiet_bind; [apply get_client_quiet|]. intros [c|]; cbn; auto.
  Qed.
  Lemma push_auth_rgm n now r : rgm (push_auth w n now r).
  Proof.
    unfold push_auth, save_a. destruct (par_stored_eq (pr_params r)) as [sd SE]; rewrite SE; clear SE. destruct (negb _); [exact I|].
    apply rgP_bind; [apply quiet_rgm, authenticated_quiet|]. intros [c|]; [|exact I].
    destruct (negb (is_nil (p_request_uri (pr_params r)))); [exact I|].
    assert (K : match (if is_fapi (cf_profile (w_cfg w)) then validate_params (w_cfg w) (pr_params r) (client_for_par (w_cfg w) c (p_redirect (pr_params r)))
                       else validate_optionals (w_cfg w) (pr_params r) (client_for_par (w_cfg w) c (p_redirect (pr_params r)))) with
                None => method_listed (w_cfg w) (pr_params r) | _ => True end).
    { destruct (is_fapi _).
      - destruct (validate_params _ _ _) eqn:E; [exact I|]. eapply vp_method; eauto.
      - destruct (validate_optionals _ _ _) eqn:E; [exact I|]. eapply vo_method; eauto. }
    destruct (if is_fapi (cf_profile (w_cfg w)) then _ else _) as [[e|e p]|]; try exact I.
    unfold sess_ok. mcrunch K.
  Qed.
  Lemma init_back_auth_rgm n now r : rgm (init_back_auth w n now r).
  Proof.
    unfold init_back_auth, save_a. destruct (negb _); [exact I|].
    apply rgP_bind; [apply quiet_rgm, authenticated_quiet|]. intros [c|]; [|exact I].
    repeat (break_goal; [exact I|]).
    destruct (validate_optionals _ _ _) as [[e|e p]|] eqn:EV; try exact I.
    apply vo_method in EV. unfold sess_ok. mcrunch EV.
  Qed.

  Theorem handler_rgm n now o : rgm (handler w n now o).
  Proof.
    unfold handler. destruct o; try (apply rgP_bind; [|intros; exact I]).
    - apply init_auth_rgm. - apply continue_auth_rgm. - apply push_auth_rgm.
    - destruct g; try exact I; (apply rgP_bind; [|intros; exact I]); apply quiet_rgm.
      + apply cc_grant_quiet. + apply code_grant_quiet. + apply refresh_grant_quiet. + apply jwt_bearer_grant_quiet. + apply ciba_grant_quiet.
    - apply quiet_rgm, introspect_quiet. - apply quiet_rgm, revoke_quiet. - apply quiet_rgm, userinfo_quiet.
    - apply quiet_rgm, token_info_quiet. - apply quiet_rgm, token_info_req_quiet.
    - apply init_back_auth_rgm. - apply quiet_rgm, notify_success_quiet. - apply quiet_rgm, notify_failure_quiet.
    - exact I.
  Qed.

  Definition minv (st : state) : Prop := invP sess_ok (s_store st).
  Lemma step_minv st n o : minv st -> minv (fst (step w st n o)).
  Proof.
    intros H. unfold step, step_with, minv in *.
    assert (G : forall p : prog obs, rgm p ->
                invP sess_ok (s_store (fst (let '(sto, x) := run_seq p (s_store st) in (mkState sto (s_now st), x))))).
    { intros p Hp. pose proof (run_seq_invP sess_ok p (s_store st) Hp H) as R.
      destruct (run_seq p (s_store st)) as [sto x]. exact R. }
    destruct o; try (apply G; exact (handler_rgm _ _ _)).
    cbn. exact H.
  Qed.
  (* in every reachable state of every history the code_challenge_method recorded in a stored session is
     absent or an enabled method *)
  Theorem stored_methods_listed dyn ops s :
    In s (st_asess (s_store (fst (run_from w (init_state dyn) 0 ops)))) -> method_listed (w_cfg w) (a_params s).
  Proof.
    revert s. change (minv (fst (run_from w (init_state dyn) 0 ops))).
    apply run_from_inv; [intros; apply step_minv; auto|]. intros s [].
  Qed.
End Handlers.

(* hence, over ALL histories, with no assumption on the stored session: a code exchange completes only
   under an enabled = advertised method *)
Theorem exchange_under_advertised_method_all iss mtls p opts cfg statics : build p opts = Some cfg ->
  forall dyn ops n now r,
  let st := s_store (fst (run_from (mkWorld cfg statics) (init_state dyn) 0 ops)) in
  is_tokens (snd (run_seq (code_grant (mkWorld cfg statics) n now r) st)) = true ->
  exists s, find (fun s => ideq (a_code s) (t_code r)) (st_asess st) = Some s /\
    (cf_pkce_enabled cfg = true -> pk_is_empty (p_challenge (a_params s)) = false ->
       exists m, advertised_in iss mtls cfg MCodeChallengeMethods m = true /\ mem m (cf_pkce_methods cfg) = true /\
                 is_pkce_valid (t_verifier r) (p_challenge (a_params s)) m = true /\
                 pkce_enabled_match cfg (a_params s) (t_verifier r) = true).
Proof.
  intros built dyn ops n now r st H.
  destruct (exchange_under_enabled_method p opts cfg statics built n now r st H) as [s [EF K]].
  exists s. split; [exact EF|]. intros EN EC.
  assert (ML : method_listed cfg (a_params s)).
  { apply find_some in EF as [IN _]. exact (stored_methods_listed (mkWorld cfg statics) dyn ops s IN). }
  destruct (K EN EC ML) as [L [D M]]. exists (pkce_effective_method cfg (a_params s)).
  rewrite (pkce_method_advertised iss mtls _ _ _ _ built). auto.
Qed.
