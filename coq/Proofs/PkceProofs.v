(* PkceProofs.v — PKCE end to end: the method a recorded challenge is verified under when the
   authorization request left code_challenge_method out (the server's default), that the default is an
   enabled (= advertised) method of every built configuration, and hence that no code exchange completes
   under a method that is not enabled.  Used by Props/C03.v, Props/C11.v and Props/C19.v. *)
From Verif Require Import Base Scope Types Prog Pop Token Authorize System Config Discovery Required Run Monitors
  Hoare Tactics OneShot HistProps ConfigProofs C19Proofs.
From Verif.Corr Require Import C11 C11Eff.
Local Open Scope N_scope.

(* ideal hash: a string is never its own thumbprint - so, under S256, the challenge string itself is
   never an acceptable verifier *)
Lemma pk_eqb_not_hash a : forall b, pk_eqb a b = true -> pk_eqb a (PkHash b) = false.
Proof.
  induction a as [|n l|a IH]; intros b H; cbn; auto.
  destruct b; cbn in H; try discriminate. apply IH. exact H.
Qed.

Lemma pkce_matches_of_validate cfg v s :
  validate_pkce cfg v s = None -> cf_pkce_enabled cfg = true -> pk_is_empty (p_challenge (a_params s)) = false ->
  pkce_matches cfg (a_params s) v = true.
Proof.
  intros H E C. destruct (validate_pkce_sound cfg v s H E C) as [A [B D]].
  unfold pkce_matches, pkce_effective_method. rewrite A, B, D. reflexivity.
Qed.

(* the decision at the token endpoint, for every store and request *)
Lemma code_pkce_effective w n now r st :
  is_tokens (snd (run_seq (code_grant w n now r) st)) = true ->
  exists s, find (fun s => ideq (a_code s) (t_code r)) (st_asess st) = Some s /\
    (cf_pkce_enabled (w_cfg w) = true -> pk_is_empty (p_challenge (a_params s)) = false ->
       pkce_matches (w_cfg w) (a_params s) (t_verifier r) = true /\
       (is_empty (p_method (a_params s)) = true ->
          is_pkce_valid (t_verifier r) (p_challenge (a_params s)) (cf_pkce_default (w_cfg w)) = true /\
          (cf_pkce_default (w_cfg w) = "S256" -> pk_eqb (p_challenge (a_params s)) (t_verifier r) = false))).
Proof.
  intros H. destruct (code_grant_post w n now r st H) as [s [c [_ [EF [_ [_ [_ [_ [_ EV]]]]]]]]].
  exists s. split; [exact EF|]. intros EN EC. split; [apply pkce_matches_of_validate; auto|].
  intros EM. destruct (validate_pkce_sound _ _ _ EV EN EC) as [_ [_ D]]. rewrite EM in D. split; [exact D|].
  intros ES. rewrite ES in D. unfold is_pkce_valid in D. cbn in D.
  destruct (pk_eqb (p_challenge (a_params s)) (t_verifier r)) eqn:E; auto.
  apply pk_eqb_not_hash in E. congruence.
Qed.

(* ---- the default method of a built configuration is one of its enabled methods ---- *)
Lemma mem_append_if_not_in l x : mem x (append_if_not_in l x) = true.
Proof.
  unfold append_if_not_in. destruct (mem x l) eqn:E; [exact E|]. cbn. rewrite seqb_refl. reflexivity.
Qed.
Lemma build_pkce_default_listed p opts cfg : build p opts = Some cfg -> cf_pkce_enabled cfg = true ->
  mem (cf_pkce_default cfg) (cf_pkce_methods cfg) = true.
Proof.
  intros H. apply build_inv in H as [-> _].
  assert (forall c, cf_pkce_methods (set_defaults c) = cf_pkce_methods c) as Hd by dflt_tac.
  assert (forall c, cf_pkce_default (set_defaults c) = cf_pkce_default c) as Hd2 by dflt_tac.
  rewrite Hd, Hd2, dflt_pkce_enabled. unfold folded.
  apply (fold_inv (fun c => cf_pkce_enabled c = true -> mem (cf_pkce_default c) (cf_pkce_methods c) = true)); [|cbn; discriminate].
  intros o c Hc. destruct o; cbn; auto; intros _; apply mem_append_if_not_in.
Qed.

(* the method a stored session is verified under is enabled whenever the session's own method is
   absent or enabled - which the authorization endpoint guarantees for every session it lets through
   (accepted_values_are_listed) *)
Definition method_listed (cfg : config) (p : params) : Prop :=
  is_empty (p_method p) = true \/ mem (p_method p) (cf_pkce_methods cfg) = true.

Lemma effective_method_listed p opts cfg prm : build p opts = Some cfg -> cf_pkce_enabled cfg = true ->
  method_listed cfg prm -> mem (pkce_effective_method cfg prm) (cf_pkce_methods cfg) = true.
Proof.
  intros Hb En [E|M]; unfold pkce_effective_method.
  - rewrite E. eapply build_pkce_default_listed; eauto.
  - destruct (is_empty (p_method prm)) eqn:E; [eapply build_pkce_default_listed; eauto|exact M].
Qed.

Lemma existsb_of_mem (f : string -> bool) m l : mem m l = true -> f m = true -> existsb f l = true.
Proof. intros Hm Hf. apply existsb_exists. exists m. split; [apply mem_In; exact Hm|exact Hf]. Qed.

Section Built.
  Variables (p : profile) (opts : list opt) (cfg : config) (statics : list client).
  Hypothesis built : build p opts = Some cfg.

  (* no code exchange completes under a method that is not enabled: whenever the token endpoint hands
     out tokens for a code whose session recorded a challenge, the verifier matches the challenge under
     an ENABLED method *)
  Lemma exchange_under_enabled_method n now r st :
    is_tokens (snd (run_seq (code_grant (mkWorld cfg statics) n now r) st)) = true ->
    exists s, find (fun s => ideq (a_code s) (t_code r)) (st_asess st) = Some s /\
      (cf_pkce_enabled cfg = true -> pk_is_empty (p_challenge (a_params s)) = false -> method_listed cfg (a_params s) ->
         mem (pkce_effective_method cfg (a_params s)) (cf_pkce_methods cfg) = true /\
         is_pkce_valid (t_verifier r) (p_challenge (a_params s)) (pkce_effective_method cfg (a_params s)) = true /\
         pkce_enabled_match cfg (a_params s) (t_verifier r) = true).
  Proof.
    intros H. destruct (code_pkce_effective _ n now r st H) as [s [EF K]]. exists s. split; [exact EF|].
    cbn in K. intros EN EC ML. destruct (K EN EC) as [PM _].
    pose proof (effective_method_listed _ _ _ _ built EN ML) as L.
    unfold pkce_matches in PM. apply andb_true_iff in PM as [A PM]. apply andb_true_iff in PM as [B D].
    split; [exact L|]. split; [exact D|].
    unfold pkce_enabled_match. rewrite A, B. cbn. eapply existsb_of_mem; eauto.
  Qed.

  (* ... in terms of the discovery document: the method is advertised *)
  Lemma exchange_under_advertised_method iss mtls n now r st :
    is_tokens (snd (run_seq (code_grant (mkWorld cfg statics) n now r) st)) = true ->
    exists s, find (fun s => ideq (a_code s) (t_code r)) (st_asess st) = Some s /\
      (cf_pkce_enabled cfg = true -> pk_is_empty (p_challenge (a_params s)) = false -> method_listed cfg (a_params s) ->
         exists m, advertised_in iss mtls cfg MCodeChallengeMethods m = true /\
                   is_pkce_valid (t_verifier r) (p_challenge (a_params s)) m = true).
  Proof.
    intros H. destruct (exchange_under_enabled_method n now r st H) as [s [EF K]]. exists s. split; [exact EF|].
    intros EN EC ML. destruct (K EN EC ML) as [L [D _]]. exists (pkce_effective_method cfg (a_params s)).
    rewrite (pkce_method_advertised iss mtls _ _ _ _ built). auto.
  Qed.

  (* a method that is not advertised completes no exchange: if the only reading under which the
     verifier fits the challenge is a method outside the advertised list, the request is refused *)
  Lemma unadvertised_method_completes_no_exchange iss mtls n now r st s :
    find (fun s => ideq (a_code s) (t_code r)) (st_asess st) = Some s ->
    cf_pkce_enabled cfg = true -> pk_is_empty (p_challenge (a_params s)) = false -> method_listed cfg (a_params s) ->
    (forall m, advertised_in iss mtls cfg MCodeChallengeMethods m = true ->
               is_pkce_valid (t_verifier r) (p_challenge (a_params s)) m = false) ->
    is_tokens (snd (run_seq (code_grant (mkWorld cfg statics) n now r) st)) = false.
  Proof.
    intros EF EN EC ML NA.
    destruct (is_tokens (snd (run_seq (code_grant (mkWorld cfg statics) n now r) st))) eqn:E; auto.
    destruct (exchange_under_advertised_method iss mtls n now r st E) as [s' [EF' K]].
    rewrite EF in EF'. injection EF' as <-. destruct (K EN EC ML) as [m [A V]]. rewrite (NA m A) in V. discriminate.
  Qed.
End Built.
