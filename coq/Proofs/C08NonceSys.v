(* C08NonceSys.v — the link between Model/C08Nonce.v and the SYSTEM model: the handlers of
   Authorize.v (PAR) and Jar.v (request objects) build the session of an authorization from exactly
   effective_params, and store the nonce of THOSE parameters as the session's nonce claim
   (a_nonce_claim = AdditionalIDTokenClaims["nonce"]), for every store and every request. *)
From Verif Require Import Base Scope Types Prog Pop Token Authorize System Config Run Monitors Hoare Tactics
     Fresh FreshHandlers OneShot Jar C08Nonce C08NonceReq.
Local Open Scope N_scope.

(* ---- JAR: validateRequestWithJAR + authnSessionWithJAR ---- *)
Lemma jar_session_effective cfg c outer jin j p :
  jar_session cfg c outer jin j = inr p -> p = effective_params (cf_profile cfg) FJar (jr_params j) outer.
Proof.
  unfold jar_session, effective_params.
  destruct (negb (ideq (jr_client j) (c_id c))); [discriminate|].
  destruct (if is_fapi (cf_profile cfg) then _ else None); [discriminate|].
  destruct (validate_in_out_x _ _ _ _ _ _); [discriminate|].
  destruct (jr_nested_uri j); [discriminate|]. destruct (jr_nested_req j); [discriminate|].
  intros H; inversion H; reflexivity.
Qed.

(* a flow the model serves through a request object is served with the effective parameters *)
Lemma served_jar_flow cfg c inner outer :
  flow_verdict cfg c FJar inner outer = 0 ->
  jar_session cfg c outer (JValue (nonce_ro c inner)) (contents (nonce_ro c inner)) =
  inr (effective_params (cf_profile cfg) FJar (inner <| p_request_uri := 0 |>) outer).
Proof.
  unfold flow_verdict. destruct (jar_session _ _ _ _ _) as [e|p] eqn:E; [discriminate|]. intros _.
  apply jar_session_effective in E. rewrite E. reflexivity.
Qed.

(* ---- PAR: initAuth on a request_uri ---- *)

(* every session of l' is a session of l other than i, or is the re-saved session i and satisfies P *)
Definition resaved (l l' : list asession) (i : id) (P : asession -> Prop) : Prop :=
  forall x, In x l' -> (In x l /\ a_id x <> i) \/ (a_id x = i /\ P x).
Lemma resaved_put l x i (P : asession -> Prop) : a_id x = i -> P x -> resaved l (put_asess x l) i P.
Proof.
  intros Hi Hp y Hy. apply (in_put _ a_id) in Hy as [->|[Hy Ny]]; [right; auto|left; split; auto; congruence].
Qed.
Lemma resaved_del l i P : resaved l (del_asess i l) i P.
Proof. intros y Hy. apply (in_del _ a_id) in Hy. left; tauto. Qed.

(* what the session of a flow must look like once initAuthnSession has run *)
Definition nonce_session (prof : profile) (pushed outer : params) (x : asession) : Prop :=
  a_params x = effective_params prof FPar pushed outer /\
  a_nonce_claim x = p_nonce (effective_params prof FPar pushed outer).

Local Opaque contains_all_scopes are_scopes_allowed validate_binding validate_pkce refresh_binding
       validate_params validate_optionals validate_in_out merge_params validate_jwt validate_pop
       validate_binding_dpop validate_binding_tls set_pop_jkt set_pop_x5t hg_result
       contains_openid nav_mode rt_contains make_token.

Lemma init_auth_par_nonce w n now r st :
  cf_par_enabled (w_cfg w) = true -> is_nil (p_request_uri (ar_params r)) = false ->
  started (snd (run_seq (init_auth w n now r) st)) = true ->
  exists s, find (fun s => ideq (a_par s) (p_request_uri (ar_params r))) (st_asess st) = Some s /\
            resaved (st_asess st) (st_asess (fst (run_seq (init_auth w n now r) st))) (a_id s)
                    (nonce_session (cf_profile (w_cfg w)) (a_params s) (ar_params r)).
Proof.
  intros EP ER. unfold init_auth.
  destruct (is_nil (ar_client r)); [dead|].
  rewrite run_get_client.
  destruct (snd (run_seq (get_client w (ar_client r)) st)) as [c|] eqn:EC; [|dead].
  destruct (negb _); [dead|].
  unfold should_use_par. rewrite EP, ER. cbn [andb orb negb]. rewrite !orb_true_r. cbn [andb].
  cbn. destruct (find _ (st_asess st)) as [s|] eqn:EF; cbn; [|dead].
  destruct (negb (ideq (a_client s) (ar_client r))) eqn:ECl; [cbn; unfold render_aerr; dead|].
  destruct (geb now (a_expires s)) eqn:EX; [cbn; dead|].
  destruct (validate_in_out _ _ _ _) eqn:EV; [cbn; unfold render_aerr; destruct a; cbn; try discriminate; unfold nav_err; cbn; discriminate|].
  rewrite run_seq_bind.
  match goal with |- context [run_seq (start_session w n now c ?s' r) st] => remember s' as s1 eqn:Es1 end.
  assert (Hid : a_id s1 = a_id s) by (subst s1; destruct (is_fapi _); reflexivity).
  assert (Hp : a_params s1 = effective_params (cf_profile (w_cfg w)) FPar (a_params s) (ar_params r))
    by (subst s1; unfold effective_params; destruct (is_fapi _); reflexivity).
  clear Es1.
  unfold start_session.
  repeat match goal with |- context [if ?b then Ret _ else _] => destruct b; [cbn; unfold finish_ares, render_aerr, nav_err; cbn; try discriminate|] end.
  cbn [run_seq].
  unfold authenticate.
  destruct (ar_pol r); cbn [run_seq]; unfold save_a.
  all: try rewrite run_get_client.
  all: repeat (cbn; try discriminate; break_inner).
  all: cbn; try discriminate.
  all: intros _; exists s; split; auto.
  all: cbn; rewrite <- ?Hid; first [apply resaved_put; [reflexivity|split; cbn; rewrite ?Hp; reflexivity] | apply resaved_del].
Qed.
