(* Fresh.v — the index discipline of the stored objects, for every handler at once.
   Every index field through which the storage can find an object (callback id, request_uri,
   authorization code, auth_req_id of a session; token id and refresh token of a grant) is either
   empty or a handle minted by an earlier operation, and no two stored objects with different ids
   share a non-empty index value.  Proved by a rely/guarantee reading of the handler programs:
   whatever the storage answers, each Save writes indexes that are empty, minted by the current
   operation, or copied from an object the storage returned earlier in the same request (same id). *)
From Verif Require Import Base Scope Types Prog Pop Token Authorize System Config Hoare Tactics.
Local Open Scope N_scope.

(* ---- handles ---- *)
Lemma mint_inj n m k : mint n k = mint m k -> n = m.
Proof. unfold mint. intros H. assert (N.of_nat n = N.of_nat m) by lia. lia. Qed.
Lemma mint_nonzero n k : mint n k <> 0.
Proof. unfold mint. lia. Qed.
Lemma mint_kind_inj n m k1 k2 : mint n k1 = mint m k2 -> kind_ix k1 = kind_ix k2.
Proof.
  unfold mint. intros H.
  assert (A : kind_ix k1 < 32) by (destruct k1; cbn; lia).
  assert (B : kind_ix k2 < 32) by (destruct k2; cbn; lia).
  assert (E : ((N.of_nat n + 1) * 32 + kind_ix k1) mod 32 = ((N.of_nat m + 1) * 32 + kind_ix k2) mod 32) by (rewrite H; reflexivity).
  rewrite !(N.add_comm (_ * 32)), !N.mod_add, !N.mod_small in E by lia. exact E.
Qed.

(* "v is empty or was minted, with kind k, by an operation before n" *)
Definition older (n : nat) (k : kind) (v : id) : Prop := v = 0 \/ exists j, (j < n)%nat /\ v = mint j k.
Lemma older_mono n m k v : (n <= m)%nat -> older n k v -> older m k v.
Proof. intros L [H|[j [Hj E]]]; [left; auto|right; exists j; split; [lia|auto]]. Qed.
Lemma older_not_now n k v : older n k v -> v <> mint n k.
Proof. intros [H|[j [Hj E]]] E'; subst. - symmetry in E'. eapply mint_nonzero; eauto. - apply mint_inj in E'. lia. Qed.

(* the index fields *)
Inductive afield := FCb | FPar | FCode | FCiba.
Definition aget (f : afield) (s : asession) : id :=
  match f with FCb => a_cb s | FPar => a_par s | FCode => a_code s | FCiba => a_ciba s end.
Definition akind (f : afield) : kind :=
  match f with FCb => KCallback | FPar => KParUri | FCode => KCode | FCiba => KAuthReq end.

Inductive gfield := FToken | FRefresh.
Definition gget (f : gfield) (g : gsession) : id := match f with FToken => g_token g | FRefresh => g_refresh g end.
(* a token id is the opaque token itself or the jti of a JWT *)
Definition golder (n : nat) (f : gfield) (v : id) : Prop :=
  match f with FToken => older n KAtOpaque v \/ older n KJti v | FRefresh => older n KRefresh v end.
Definition gnow (n : nat) (f : gfield) (v : id) : Prop :=
  match f with FToken => v = mint n KAtOpaque \/ v = mint n KJti | FRefresh => v = mint n KRefresh end.

Lemma golder_mono n m f v : (n <= m)%nat -> golder n f v -> golder m f v.
Proof. destruct f; cbn; intros L H; [destruct H; [left|right]|]; eapply older_mono; eauto. Qed.
Lemma golder_not_now n f v w : golder n f v -> gnow n f w -> w <> 0 -> v <> w.
Proof.
  destruct f; cbn.
  - intros [H|H] [E|E] _ E'; subst.
    + eapply older_not_now; eauto.
    + destruct H as [H|[j [_ H]]]; [symmetry in H; eapply mint_nonzero; eauto|]. apply mint_kind_inj in H. discriminate.
    + destruct H as [H|[j [_ H]]]; [symmetry in H; eapply mint_nonzero; eauto|]. apply mint_kind_inj in H. discriminate.
    + eapply older_not_now; eauto.
  - intros H E _ E'; subst. eapply older_not_now; eauto.
Qed.

(* ================================================================================== *)
(* A store of objects found through index fields, generically (instantiated twice below) *)
Section Indexed.
  Variables (X F : Type) (xid : X -> id) (get : F -> X -> id).
  Variables (old now_ : nat -> F -> id -> Prop).
  Hypothesis old_mono : forall n m f v, (n <= m)%nat -> old n f v -> old m f v.
  Hypothesis now_old : forall n f v, now_ n f v -> old (S n) f v.
  Hypothesis old_not_now : forall n f v, old n f v -> now_ n f v -> False.
  Hypothesis now_nz : forall n f v, now_ n f v -> v <> 0.

  Definition put (x : X) (l : list X) : list X := x :: filter (fun y => negb (ideq (xid y) (xid x))) l.
  Definition del (i : id) (l : list X) : list X := filter (fun y => negb (ideq (xid y) i)) l.

  Lemma in_put x y l : In y (put x l) -> y = x \/ (In y l /\ xid y <> xid x).
  Proof.
    unfold put. intros [H|H]; [left; auto|right]. apply filter_In in H as [H1 H2]. split; auto.
    intros E. unfold ideq in H2. rewrite E, N.eqb_refl in H2. discriminate.
  Qed.
  Lemma in_del i y l : In y (del i l) -> In y l /\ xid y <> i.
  Proof.
    unfold del. intros H. apply filter_In in H as [H1 H2]. split; auto.
    intros E. unfold ideq in H2. rewrite E, N.eqb_refl in H2. discriminate.
  Qed.

  (* between requests: index values are empty or minted before n; non-empty values identify the object *)
  Record ifresh (n : nat) (l : list X) : Prop := mkIFresh {
    if_old : forall x f, In x l -> get f x = 0 \/ old n f (get f x);
    if_uniq : forall x y f, In x l -> In y l -> get f x = get f y -> get f x <> 0 -> xid x = xid y
  }.

  (* while request n runs: sa = objects the storage handed out, wa = ids saved by the request *)
  (* provenance w.r.t. the store l0 the request started from: an index value is empty, minted by
     this request, or was already carried by an object of l0 *)
  Definition prov (n : nat) (l0 : list X) (x : X) : Prop :=
    forall f, get f x = 0 \/ now_ n f (get f x) \/ exists y, In y l0 /\ get f y = get f x.

  Record iinv (n : nat) (l0 : list X) (sa : list X) (wa : list id) (l : list X) : Prop := mkIInv {
    ii_prov : forall x, In x l -> prov n l0 x;
    ii_s_prov : forall x, In x sa -> prov n l0 x;
    ii_old : forall x f, In x l -> get f x = 0 \/ old (S n) f (get f x);
    ii_uniq : forall x y f, In x l -> In y l -> get f x = get f y -> get f x <> 0 -> xid x = xid y;
    ii_s_old : forall x f, In x sa -> get f x = 0 \/ old (S n) f (get f x);
    ii_s : forall x y f, In x sa -> In y l -> get f x = get f y -> get f x <> 0 -> xid x = xid y;
    ii_ss : forall x y f, In x sa -> In y sa -> get f x = get f y -> get f x <> 0 -> xid x = xid y;
    ii_now : forall x f, In x l -> now_ n f (get f x) -> In (xid x) wa;
    ii_s_now : forall x f, In x sa -> now_ n f (get f x) -> In (xid x) wa
  }.

  Definition field_ok (n : nat) (sa : list X) (x' : X) (f : F) : Prop :=
    get f x' = 0 \/ now_ n f (get f x') \/ exists x, In x sa /\ xid x = xid x' /\ get f x = get f x'.

  Lemma iinv0 n l : ifresh n l -> iinv n l [] [] l.
  Proof.
    intros [O U]. constructor; cbn; try tauto.
    - intros x Hx f. right; right; exists x; auto.
    - intros x f Hx. destruct (O x f Hx); [left; auto|right]. eapply old_mono; [|eauto]. lia.
    - intros x f Hx Hn. destruct (O x f Hx) as [E|E].
      + rewrite E in Hn. apply now_nz in Hn. congruence.
      + eapply old_not_now; eauto.
  Qed.
  Lemma iinv_fresh n l0 sa wa l : iinv n l0 sa wa l -> ifresh (S n) l.
  Proof. intros I. constructor; [apply (ii_old _ _ _ _ _ I)|apply (ii_uniq _ _ _ _ _ I)]. Qed.

  Lemma iinv_sub n l0 sa wa l l' : (forall y, In y l' -> In y l) -> iinv n l0 sa wa l -> iinv n l0 sa wa l'.
  Proof.
    intros S [P1 P2 A B C D E G H]. constructor; intros; eauto.
  Qed.

  Lemma iinv_see n l0 sa wa l x : In x l -> iinv n l0 sa wa l -> iinv n l0 (x :: sa) wa l.
  Proof.
    intros Hx [P1 P2 A B C D E G H]. constructor; auto.
    - intros y [<-|Hy]; auto.
    - intros y f [<-|Hy]; auto.
    - intros y z f [<-|Hy] Hz; eauto.
    - intros y z f [<-|Hy] [<-|Hz] E1 E2.
      + reflexivity.
      + symmetry. apply (D z x f); auto; congruence.
      + eapply D; eauto.
      + eapply E; eauto.
    - intros y f [<-|Hy]; eauto.
  Qed.

  Lemma iinv_put n l0 sa wa l x' :
    (forall i, In i wa -> i = xid x') -> (forall f, field_ok n sa x' f) ->
    iinv n l0 sa wa l -> iinv n l0 sa (xid x' :: wa) (put x' l).
  Proof.
    intros W FO [P1 P2 A B C D E G H].
    assert (K : forall y f, In y l -> xid y <> xid x' -> get f x' = get f y -> get f x' <> 0 -> False).
    { intros y f Hy Hne E1 E2. destruct (FO f) as [Z|[Nw|[x0 [Hx0 [I0 E0]]]]].
      - congruence.
      - apply Hne. apply W. eapply G; eauto. rewrite <- E1. exact Nw.
      - apply Hne. rewrite <- I0. symmetry. apply (D x0 y f); auto; congruence. }
    constructor.
    - intros y Hy. apply in_put in Hy as [->|[Hy _]]; auto.
      intros f. destruct (FO f) as [Z|[Nw|[x0 [Hx0 [I0 E0]]]]]; auto.
      rewrite <- E0. apply P2; auto.
    - auto.
    - intros y f Hy. apply in_put in Hy as [->|[Hy _]]; auto.
      destruct (FO f) as [Z|[Nw|[x0 [Hx0 [I0 E0]]]]]; auto. rewrite <- E0. auto.
    - intros y z f Hy Hz E1 E2.
      apply in_put in Hy as [->|[Hy Ny]]; apply in_put in Hz as [->|[Hz Nz]]; auto.
      + exfalso. eapply K; eauto.
      + exfalso. eapply (K y f); eauto; congruence.
      + eauto.
    - auto.
    - intros y z f Hy Hz E1 E2. apply in_put in Hz as [->|[Hz Nz]]; eauto.
      destruct (FO f) as [Z|[Nw|[x0 [Hx0 [I0 E0]]]]].
      + congruence.
      + apply W. eapply H; eauto. rewrite E1. exact Nw.
      + rewrite <- I0. eapply E; eauto; congruence.
    - auto.
    - intros y f Hy Nw. apply in_put in Hy as [->|[Hy Ny]]; [left; auto|right; eauto].
    - intros y f Hy Nw. right; eauto.
  Qed.
End Indexed.

(* ---- instances ---- *)
Definition aold (n : nat) (f : afield) (v : id) : Prop := exists j, (j < n)%nat /\ v = mint j (akind f).
Definition anow (n : nat) (f : afield) (v : id) : Prop := v = mint n (akind f).
Definition gold (n : nat) (f : gfield) (v : id) : Prop :=
  match f with
  | FToken => exists j, (j < n)%nat /\ (v = mint j KAtOpaque \/ v = mint j KJti)
  | FRefresh => exists j, (j < n)%nat /\ v = mint j KRefresh
  end.

Lemma aold_mono n m f v : (n <= m)%nat -> aold n f v -> aold m f v.
Proof. intros L [j [Hj E]]. exists j; split; [lia|auto]. Qed.
Lemma anow_old n f v : anow n f v -> aold (S n) f v.
Proof. intros ->. exists n; split; auto. Qed.
Lemma aold_not_now n f v : aold n f v -> anow n f v -> False.
Proof. intros [j [Hj E]] E'. rewrite E in E'. apply mint_inj in E'. lia. Qed.
Lemma anow_nz n f v : anow n f v -> v <> 0.
Proof. intros ->. apply mint_nonzero. Qed.

Lemma gold_mono n m f v : (n <= m)%nat -> gold n f v -> gold m f v.
Proof. destruct f; cbn; intros L [j [Hj E]]; exists j; split; auto; lia. Qed.
Lemma gnow_old n f v : gnow n f v -> gold (S n) f v.
Proof. destruct f; cbn; intros H; exists n; split; auto. Qed.
Lemma gold_not_now n f v : gold n f v -> gnow n f v -> False.
Proof.
  destruct f; cbn.
  - intros [j [Hj [E|E]]] [E'|E']; rewrite E in E'.
    + apply mint_inj in E'. lia. + apply mint_kind_inj in E'. discriminate.
    + apply mint_kind_inj in E'. discriminate. + apply mint_inj in E'. lia.
  - intros [j [Hj E]] E'. rewrite E in E'. apply mint_inj in E'. lia.
Qed.
Lemma gnow_nz n f v : gnow n f v -> v <> 0.
Proof. destruct f; cbn; intros H; [destruct H|]; subst; apply mint_nonzero. Qed.

Definition afresh := ifresh asession afield a_id aget aold.
Definition gfresh := ifresh gsession gfield g_id gget gold.
Definition ainv := iinv asession afield a_id aget aold anow.
Definition ginv := iinv gsession gfield g_id gget gold gnow.
Definition aprov := prov asession afield aget anow.
Definition gprov := prov gsession gfield gget gnow.

(* between requests *)
Definition fresh (n : nat) (st : store) : Prop := afresh n (st_asess st) /\ gfresh n (st_gsess st).

(* what the running request has been handed by the storage and the ids it has saved so far *)
Record seen := mkSeen { sn_a : list asession; sn_g : list gsession; sn_wa : list id; sn_wg : list id }.
Definition seen0 : seen := mkSeen [] [] [] [].
Definition see (c : call) (r : reply) (k : seen) : seen :=
  let k := match c with
           | ASave s => mkSeen (sn_a k) (sn_g k) (a_id s :: sn_wa k) (sn_wg k)
           | GSave g => mkSeen (sn_a k) (sn_g k) (sn_wa k) (g_id g :: sn_wg k)
           | _ => k end in
  match r with
  | RASess s => mkSeen (s :: sn_a k) (sn_g k) (sn_wa k) (sn_wg k)
  | RGSess g => mkSeen (sn_a k) (g :: sn_g k) (sn_wa k) (sn_wg k)
  | _ => k
  end.

Definition rinv (n : nat) (st0 : store) (k : seen) (st : store) : Prop :=
  ainv n (st_asess st0) (sn_a k) (sn_wa k) (st_asess st) /\ ginv n (st_gsess st0) (sn_g k) (sn_wg k) (st_gsess st).

(* each Save writes indexes that are empty, minted now, or copied from an object the storage
   returned (same id); a request saves under one session id and one grant id only *)
Definition guar (n : nat) (k : seen) (c : call) : Prop :=
  match c with
  | ASave s' => (forall i, In i (sn_wa k) -> i = a_id s') /\ forall f, field_ok _ _ a_id aget anow n (sn_a k) s' f
  | GSave g' => (forall i, In i (sn_wg k) -> i = g_id g') /\ forall f, field_ok _ _ g_id gget gnow n (sn_g k) g' f
  | _ => True
  end.

Fixpoint disciplined {A} (n : nat) (k : seen) (p : prog A) : Prop :=
  match p with
  | Ret _ => True
  | Do c kont => guar n k c /\ forall r, disciplined n (see c r k) (kont r)
  | Touch _ p' => disciplined n k p'
  end.

Lemma disciplined_bind {A B} n (p : prog A) (f : A -> prog B) : forall k,
  disciplined n k p -> (forall k' a, disciplined n k' (f a)) -> disciplined n k (bind p f).
Proof.
  induction p as [a|c kont IH|o p IH]; cbn; intros k Hp Hf; auto.
  destruct Hp as [Hc Hk]. split; auto.
Qed.

Lemma find_in {X} (f : X -> bool) l x : find f l = Some x -> In x l /\ f x = true.
Proof. intros H. apply find_some in H. exact H. Qed.

Lemma fresh_rinv0 n st : fresh n st -> rinv n st seen0 st.
Proof.
  intros [A G]. split.
  - eapply iinv0; eauto using aold_mono, aold_not_now, anow_nz.
  - eapply iinv0; eauto using gold_mono, gold_not_now, gnow_nz.
Qed.
Lemma rinv_fresh n st0 k st : rinv n st0 k st -> fresh (S n) st.
Proof. intros [A G]. split; eapply iinv_fresh; eauto. Qed.

Definition reply_in (st : store) (r : reply) : Prop :=
  match r with RASess s => In s (st_asess st) | RGSess g => In g (st_gsess st) | _ => True end.

(* one storage call under the guarantee *)
Lemma exec_rinv n st0 k c st :
  guar n k c -> rinv n st0 k st -> rinv n st0 (see c (snd (exec c st)) k) (fst (exec c st)).
Proof.
  intros G [IA IG].
  assert (SA : forall l', (forall y, In y l' -> In y (st_asess st)) -> ainv n (st_asess st0) (sn_a k) (sn_wa k) l')
    by (intros; eapply iinv_sub; eauto).
  assert (SG : forall l', (forall y, In y l' -> In y (st_gsess st)) -> ginv n (st_gsess st0) (sn_g k) (sn_wg k) l')
    by (intros; eapply iinv_sub; eauto).
  destruct c; cbn in *.
  - destruct (find_client i (st_clients st)); split; auto.
  - split; auto.
  - split; auto.
  - (* ASave *) destruct G as [W FO]. split; auto. cbn.
    eapply (iinv_put _ _ a_id aget aold anow); eauto using aold_mono, anow_old, aold_not_now, anow_nz.
  - destruct (find _ _) eqn:E; cbn; split; auto. apply find_in in E as [E _]. eapply iinv_see; eauto.
  - destruct (find _ _) eqn:E; cbn; split; auto. apply find_in in E as [E _]. eapply iinv_see; eauto.
  - destruct (find _ _) eqn:E; cbn; split; auto. apply find_in in E as [E _]. eapply iinv_see; eauto.
  - destruct (find _ _) eqn:E; cbn; split; auto. apply find_in in E as [E _]. eapply iinv_see; eauto.
  - (* ADel *) split; auto. apply SA. intros y Hy. apply (in_del _ a_id) in Hy. tauto.
  - (* GSave *) destruct G as [W FO]. split; auto. cbn.
    eapply (iinv_put _ _ g_id gget gold gnow); eauto using gold_mono, gnow_old, gold_not_now, gnow_nz.
  - destruct (find _ _) eqn:E; cbn; split; auto. apply find_in in E as [E _]. eapply iinv_see; eauto.
  - destruct (find _ _) eqn:E; cbn; split; auto. apply find_in in E as [E _]. eapply iinv_see; eauto.
  - (* GDel *) split; auto. apply SG. intros y Hy. apply (in_del _ g_id) in Hy. tauto.
  - (* GDelByCode *) destruct (find _ _) eqn:E; cbn; split; auto.
    apply SG. intros y Hy. apply (in_del _ g_id) in Hy. tauto.
Qed.

(* a disciplined program keeps the invariant, whatever it does *)
Lemma run_seq_rinv {A} n st0 (p : prog A) : forall k st,
  disciplined n k p -> rinv n st0 k st -> exists k', rinv n st0 k' (fst (run_seq p st)).
Proof.
  induction p as [a|c kont IH|o p IH]; cbn; intros k st D R.
  - exists k; auto.
  - destruct D as [G D]. pose proof (exec_rinv n st0 k c st G R) as R'.
    destruct (exec c st) as [st' r]. cbn in R'. eapply IH; eauto.
  - eauto.
Qed.

Theorem disciplined_fresh {A} n (p : prog A) st :
  disciplined n seen0 p -> fresh n st -> fresh (S n) (fst (run_seq p st)).
Proof.
  intros D F. destruct (run_seq_rinv n st p seen0 st D (fresh_rinv0 _ _ F)) as [k' R].
  eapply rinv_fresh; eauto.
Qed.

(* provenance: after a disciplined request, every index value in the store is empty, minted by this
   request, or was carried by an object of the store the request started from *)
Theorem disciplined_prov {A} n (p : prog A) st :
  disciplined n seen0 p -> fresh n st ->
  (forall s, In s (st_asess (fst (run_seq p st))) -> aprov n (st_asess st) s) /\
  (forall g, In g (st_gsess (fst (run_seq p st))) -> gprov n (st_gsess st) g).
Proof.
  intros D F. destruct (run_seq_rinv n st p seen0 st D (fresh_rinv0 _ _ F)) as [k' [RA RG]].
  split; [apply (ii_prov _ _ _ _ _ _ _ _ _ _ _ RA)|apply (ii_prov _ _ _ _ _ _ _ _ _ _ _ RG)].
Qed.

(* ================================================================================== *)
(* every handler is disciplined *)

(* programs that only read *)
Definition is_readc (c : call) : Prop :=
  match c with ASave _ | GSave _ => False | _ => True end.
Fixpoint nosave {A} (p : prog A) : Prop :=
  match p with
  | Ret _ => True
  | Do c k => is_readc c /\ forall r, nosave (k r)
  | Touch _ p' => nosave p'
  end.
Lemma nosave_bind {A B} (p : prog A) (f : A -> prog B) : nosave p -> (forall a, nosave (f a)) -> nosave (bind p f).
Proof. induction p as [a|c k IH|o p IH]; cbn; intros Hp Hf; auto. destruct Hp; split; auto. Qed.

(* predicates on the request context that calls other than saves do not disturb *)
Definition stable (P : seen -> Prop) : Prop := forall k c r, is_readc c -> P k -> P (see c r k).

Lemma disc_bind_ro {A B} n (p : prog A) (f : A -> prog B) (P : seen -> Prop) :
  stable P -> nosave p -> forall k, P k -> (forall a k', P k' -> disciplined n k' (f a)) -> disciplined n k (bind p f).
Proof.
  intros SP. induction p as [a|c kont IH|o p IH]; cbn; intros NS k Pk Hf; auto.
  destruct NS as [Rc NS]. split.
  - destruct c; cbn in *; tauto.
  - intros r. apply IH; auto.
Qed.
Lemma disc_nosave {A} n (p : prog A) : nosave p -> forall k, disciplined n k p.
Proof.
  induction p as [a|c kont IH|o p IH]; cbn; intros NS k; auto.
  destruct NS as [Rc NS]. split; auto. destruct c; cbn in *; tauto.
Qed.

Definition asess_ok n (k : seen) (s : asession) : Prop := forall f, field_ok _ _ a_id aget anow n (sn_a k) s f.
Definition gsess_ok n (k : seen) (g : gsession) : Prop := forall f, field_ok _ _ g_id gget gnow n (sn_g k) g f.
Definition nowrites (k : seen) : Prop := sn_wa k = [] /\ sn_wg k = [].

Lemma see_read_wa c r k : is_readc c -> sn_wa (see c r k) = sn_wa k /\ sn_wg (see c r k) = sn_wg k.
Proof. destruct c; cbn; try tauto; intros _; destruct r; cbn; auto. Qed.
Lemma see_sa_incl c r k x : In x (sn_a k) -> In x (sn_a (see c r k)).
Proof. destruct c, r; cbn; auto. Qed.
Lemma see_sg_incl c r k x : In x (sn_g k) -> In x (sn_g (see c r k)).
Proof. destruct c, r; cbn; auto. Qed.

Lemma stable_nowrites : stable nowrites.
Proof. intros k c r Rc [A B]. destruct (see_read_wa c r k Rc) as [E1 E2]. split; congruence. Qed.
Lemma stable_asess_ok n s : stable (fun k => asess_ok n k s).
Proof.
  intros k c r _ H f. destruct (H f) as [Z|[Nw|[x [Hx Hr]]]]; [left; auto|right; left; auto|right; right].
  exists x; split; auto. apply see_sa_incl; auto.
Qed.
Lemma stable_gsess_ok n g : stable (fun k => gsess_ok n k g).
Proof.
  intros k c r _ H f. destruct (H f) as [Z|[Nw|[x [Hx Hr]]]]; [left; auto|right; left; auto|right; right].
  exists x; split; auto. apply see_sg_incl; auto.
Qed.
Lemma stable_and P Q : stable P -> stable Q -> stable (fun k => P k /\ Q k).
Proof. intros HP HQ k c r Rc [A B]. split; auto. Qed.
Lemma stable_true : stable (fun _ => True).
Proof. intros k c r _ _. exact I. Qed.

Lemma get_client_nosave w i : nosave (get_client w i).
Proof. unfold get_client. destruct (find_client i (w_static w)); cbn; auto. split; auto. intros r; destruct r; cbn; auto. Qed.
Lemma authenticated_nosave w cr : nosave (authenticated w cr).
Proof.
  unfold authenticated. destruct (is_nil (cr_id cr)); cbn; auto.
  apply nosave_bind; [apply get_client_nosave|]. intros [c|]; cbn; auto.
  destruct (c_public c || cr_ok cr)%bool; cbn; auto.
Qed.
Lemma jwt_bearer_client_nosave w cr : nosave (jwt_bearer_client w cr).
Proof.
  unfold jwt_bearer_client. apply nosave_bind; [apply authenticated_nosave|]. intros [c|]; cbn; auto.
  destruct (_ && _)%bool; cbn; auto.
Qed.
Lemma introspection_info_nosave now p : nosave (introspection_info now p).
Proof.
  unfold introspection_info. destruct (classify p); cbn; auto; (split; auto; intros r; destruct r; cbn; auto);
    match goal with |- context [if ?b then _ else _] => destruct b end; cbn; auto.
Qed.

Lemma make_token_now n c gt : gnow n FToken (snd (make_token n c gt)).
Proof. unfold make_token. destruct (token_is_jwt c gt); cbn; auto. Qed.

#[global] Opaque mint.
Arguments mint : simpl never.

(* a session just returned by the storage may be written back *)
Lemma asess_ok_seen n k s : In s (sn_a k) -> asess_ok n k s.
Proof. intros H f. right; right. exists s; auto. Qed.
Lemma gsess_ok_seen n k g : In g (sn_g k) -> gsess_ok n k g.
Proof. intros H f. right; right. exists g; auto. Qed.
