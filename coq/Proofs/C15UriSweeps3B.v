(* C15UriSweeps3B.v — the pushed request_uri, every response type: THREE racing requests, rotation = false.
   Four-call flows (no `token` in the response type): EVERY interleaving (34650 each).
   Five-call flows: the 34650 interleavings that follow the three read-only client lookups (756756 in all). *)
From Verif Require Import Base Scope Types Prog Pop Token Authorize System Config Run Monitors Race RaceUri Tactics C15Sweeps C15UriDefs.
Local Open Scope nat_scope.
Local Open Scope string_scope.

Lemma sweep_uri_3_plain_false : forallb (fun rt => uri_ok rt (setup_of (scn_uri rt false)) 3) ru_plain_resp_types = true.
Proof. vm_cast_no_check (eq_refl true). Qed.

Lemma sweep_uri_3_token_false :
  forallb (fun rt => let su := setup_of (scn_uri rt false) in uri_ok_on rt su 3 (schedules_after_first_call su 3)) ru_token_resp_types = true.
Proof. vm_cast_no_check (eq_refl true). Qed.
