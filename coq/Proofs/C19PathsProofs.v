(* C19 — endpoint path overrides: the route table and the endpoint members of the document under
   every list of options (feature options, With…Endpoint options, WithPathPrefix).  Proofs. *)
From Verif Require Import Base Scope Types Prog Pop Token Authorize System Config Discovery Required Rets ConfigProofs Tactics C11Proofs C19Proofs.
From Verif Require Import Routes.
Local Open Scope N_scope.

(* ---- strings ---- *)
Lemma strip_prefix_some p s rel : strip_prefix p s = Some rel -> s = (p ++ rel)%string.
Proof.
  revert s. induction p as [|a p IH]; intros s H; simpl in *.
  - injection H as <-. reflexivity.
  - destruct s as [|b s]; [discriminate|]. destruct (Ascii.eqb a b) eqn:E; [|discriminate].
    apply Ascii.eqb_eq in E. subst b. rewrite (IH s H). reflexivity.
Qed.
Lemma non_zero_path_nonempty s d : is_empty d = false -> is_empty (non_zero_path s d) = false.
Proof. unfold non_zero_path. destruct (is_empty s) eqn:E; auto. Qed.

(* ---- the flag side of build3 is Config.build on the Config.v options of the list ---- *)
Lemma fold3_cfg opts : forall pc,
  pc_cfg (fold_left (fun pc o => apply_popt o pc) opts pc) =
  fold_left (fun c o => apply_opt o c) (base_opts opts) (pc_cfg pc).
Proof.
  induction opts as [|o r IH]; intros pc; simpl; [reflexivity|].
  rewrite IH. destruct o; simpl; reflexivity.
Qed.
Lemma folded3_cfg p opts : pc_cfg (folded3 p opts) = folded p (base_opts opts).
Proof. unfold folded3, folded. rewrite fold3_cfg. reflexivity. Qed.

Lemma build3_inv p opts pc : build3 p opts = Some pc ->
  pc_cfg pc = set_defaults (folded p (base_opts opts)) /\ valid_config (pc_cfg pc) = true /\
  pc_paths pc = set_default_paths (pc_cfg pc) (pc_paths (folded3 p opts)).
Proof.
  unfold build3. rewrite folded3_cfg. intros H.
  destruct (valid_config (set_defaults (folded p (base_opts opts)))) eqn:E; [|discriminate].
  injection H as <-. simpl. auto.
Qed.
Lemma build3_build p opts pc : build3 p opts = Some pc -> build p (base_opts opts) = Some (pc_cfg pc).
Proof.
  intros H. apply build3_inv in H as (Hc & Hv & _). unfold build. fold (folded p (base_opts opts)).
  rewrite <- Hc, Hv. reflexivity.
Qed.

(* ---- the path side: the last option that writes the field, then setDefaults ---- *)
Lemma fold3_path e opts : forall pc,
  path3 (pc_paths (fold_left (fun pc o => apply_popt o pc) opts pc)) e =
  fold_left (fun acc o => match writes_path e o with Some s => s | None => acc end) opts (path3 (pc_paths pc) e).
Proof.
  induction opts as [|o r IH]; intros pc; simpl; [reflexivity|].
  rewrite IH. f_equal. destruct o, e; reflexivity.
Qed.
Lemma folded3_path p opts e : path3 (pc_paths (folded3 p opts)) e = last_override e opts.
Proof. unfold folded3, last_override. rewrite fold3_path. destruct e; reflexivity. Qed.
Lemma last_override_wellknown opts : last_override EpWellKnown opts = ""%string.
Proof.
  unfold last_override. generalize ""%string as acc. induction opts as [|o r IH]; intros acc; simpl; [reflexivity|].
  destruct o; apply IH.
Qed.

Lemma default_paths_path c ps e :
  path3 (set_default_paths c ps) e =
  if ep_guard c e then non_zero_path (path3 ps e) (ep_path e) else path3 ps e.
Proof. destruct e; simpl; try reflexivity; match goal with |- context [if ?b then _ else _] => destruct b end; reflexivity. Qed.

Lemma build3_path p opts pc e : build3 p opts = Some pc ->
  path3 (pc_paths pc) e =
  if ep_guard (pc_cfg pc) e then non_zero_path (last_override e opts) (ep_path e) else last_override e opts.
Proof.
  intros H. apply build3_inv in H as (_ & _ & Hp). rewrite Hp, default_paths_path, folded3_path. reflexivity.
Qed.
Lemma ep_path_nonempty e : is_empty (ep_path e) = false.
Proof. destruct e; reflexivity. Qed.
Lemma build3_path_nonempty p opts pc e : build3 p opts = Some pc -> ep_guard (pc_cfg pc) e = true ->
  is_empty (path3 (pc_paths pc) e) = false.
Proof. intros H G. rewrite (build3_path _ _ _ _ H), G. apply non_zero_path_nonempty, ep_path_nonempty. Qed.

(* ---- which options enable an endpoint: never a path option ---- *)
Definition enables_ep (e : endpoint) (o : popt) : bool :=
  match o with
  | PO b => match e with
            | EpPar => sets_par b | EpCiba => sets_ciba b | EpIntrospect => sets_introspection b
            | EpRevoke => sets_revocation b | EpDcr | EpDcrClient => sets_dcr b | _ => false end
  | _ => false
  end.
Definition optional_ep (e : endpoint) : bool :=
  match e with EpPar | EpCiba | EpIntrospect | EpRevoke | EpDcr | EpDcrClient => true | _ => false end.

Lemma existsb_base (f : opt -> bool) opts :
  existsb f (base_opts opts) = existsb (fun o => match o with PO b => f b | _ => false end) opts.
Proof. induction opts as [|o r IH]; simpl; [reflexivity|]. destruct o; simpl; rewrite ?IH; reflexivity. Qed.

Lemma guard_from_options p opts pc e : build3 p opts = Some pc ->
  ep_guard (pc_cfg pc) e = if optional_ep e then existsb (enables_ep e) opts else true.
Proof.
  intros H. apply build3_build in H. destruct e; simpl; try reflexivity.
  - rewrite (par_enabled_eq _ _ _ H), existsb_base. reflexivity.
  - rewrite (ciba_enabled_eq _ _ _ H), existsb_base. reflexivity.
  - rewrite (introspection_eq _ _ _ H), existsb_base. reflexivity.
  - rewrite (revocation_eq _ _ _ H), existsb_base. reflexivity.
  - rewrite (dcr_eq _ _ _ H), existsb_base. reflexivity.
  - rewrite (dcr_eq _ _ _ H), existsb_base. reflexivity.
Qed.

(* ---- the route table ---- *)
Ltac flags5p pc :=
  destruct (cf_introspection (pc_cfg pc)) eqn:?, (cf_revocation (pc_cfg pc)) eqn:?, (cf_par_enabled (pc_cfg pc)) eqn:?,
           (cf_ciba_enabled (pc_cfg pc)) eqn:?, (cf_dcr (pc_cfg pc)) eqn:?.

(* every registered route: its flag is set, its pattern is built from the field of its endpoint *)
Lemma route3_inv pc r : In r (routes3 pc) ->
  ep_guard (pc_cfg pc) (r_ep r) = true /\ r_path r = path3 (pc_paths pc) (r_ep r) /\ r_sub r = is_sub (r_ep r).
Proof.
  unfold routes3. intros H. repeat (apply in_app_or in H; destruct H as [H|H]);
    repeat match goal with H : In _ (if ?b then _ else _) |- _ => destruct b eqn:?; [|destruct H] end;
    cbn in H; repeat (destruct H as [<-|H]; [cbn; auto|]); try contradiction.
Qed.

(* a route with the handler of e is registered iff the flag of e is set *)
Lemma route3_exists pc e : existsb (fun r => ep_eqb (r_ep r) e) (routes3 pc) = ep_guard (pc_cfg pc) e.
Proof. unfold routes3. flags5p pc; destruct e; cbn; rewrite ?Heqb, ?Heqb0, ?Heqb1, ?Heqb2, ?Heqb3; reflexivity. Qed.

(* ... and then under every method the endpoint has to answer, at the configured path *)
Lemma route3_present pc e mt : ep_guard (pc_cfg pc) e = true -> In mt (ep_methods e) ->
  In (mkRoute mt (path3 (pc_paths pc) e) (is_sub e) e) (routes3 pc).
Proof.
  intros G Hm. unfold routes3, rt3. rewrite !in_app_iff. destruct e; cbn in G; rewrite ?G; cbn in Hm;
    repeat (destruct Hm as [<-|Hm]; [cbn; tauto|]); try contradiction.
Qed.

(* ---- dispatch ---- *)
Lemma ep_eqb_eq a b : ep_eqb a b = true -> a = b.
Proof. destruct a, b; simpl; intros H; try discriminate; reflexivity. Qed.
Lemma ep_eqb_refl a : ep_eqb a a = true.
Proof. destruct a; reflexivity. Qed.
Lemma meth_eqb_eq a b : meth_eqb a b = true -> a = b.
Proof. destruct a, b; simpl; intros H; try discriminate; reflexivity. Qed.
Lemma meth_eqb_refl a : meth_eqb a a = true.
Proof. destruct a; reflexivity. Qed.

Lemma serve3_rel pc m s :
  serve3 pc m (cf_prefix (pc_cfg pc) ++ s) = option_map r_ep (find (fun r => route_matches r m s) (routes3 pc)).
Proof. unfold serve3. rewrite strip_prefix_app. reflexivity. Qed.

(* what a dispatch to the handler of e means: e is enabled, a route of e is registered under that
   method, and the request path is prefix ++ its configured path (++ "/" ++ a non-empty rest for
   the two sub-resource endpoints) — nothing else reaches that handler *)
Lemma serve3_some pc m path e : serve3 pc m path = Some e ->
  ep_guard (pc_cfg pc) e = true /\
  In (mkRoute m (path3 (pc_paths pc) e) (is_sub e) e) (routes3 pc) /\
  exists rel, path = (cf_prefix (pc_cfg pc) ++ rel)%string /\
    if is_sub e then exists rest, rel = ((path3 (pc_paths pc) e ++ "/") ++ rest)%string /\ is_empty rest = false
    else rel = path3 (pc_paths pc) e.
Proof.
  unfold serve3. destruct (strip_prefix (cf_prefix (pc_cfg pc)) path) as [rel|] eqn:S; [|discriminate].
  apply strip_prefix_some in S.
  destruct (find (fun r => route_matches r m rel) (routes3 pc)) as [r|] eqn:F; [|discriminate].
  simpl. intros [= <-]. apply find_some in F as [Hin Hm].
  destruct (route3_inv _ _ Hin) as (G & P & Sb).
  unfold route_matches in Hm. apply andb_true_iff in Hm as [Hme Hp]. apply meth_eqb_eq in Hme.
  split; [exact G|]. split.
  - rewrite <- Hme, <- P, <- Sb. destruct r; exact Hin.
  - exists rel. split; [exact S|]. rewrite Sb, P in Hp. destruct (is_sub (r_ep r)).
    + destruct (strip_prefix (path3 (pc_paths pc) (r_ep r) ++ "/") rel) as [rest|] eqn:S2; [|discriminate].
      apply strip_prefix_some in S2. exists rest. split; [exact S2|]. apply negb_true_iff. exact Hp.
    + apply seqb_eq in Hp. symmetry. exact Hp.
Qed.

Lemma serve3_never pc m path e : ep_guard (pc_cfg pc) e = false -> serve3 pc m path <> Some e.
Proof. intros G H. apply serve3_some in H as (G' & _). rewrite G in G'. discriminate. Qed.

(* the patterns of different endpoints do not overlap -> every registered (non sub-resource) route
   answers at prefix ++ its path *)
Lemma serve3_ok pc r : routes_ok pc = true -> In r (routes3 pc) -> r_sub r = false ->
  serve3 pc (r_meth r) (cf_prefix (pc_cfg pc) ++ r_path r) = Some (r_ep r).
Proof.
  intros Hok Hin Hs. rewrite serve3_rel.
  destruct (find (fun r0 => route_matches r0 (r_meth r) (r_path r)) (routes3 pc)) as [r0|] eqn:F.
  - apply find_some in F as [Hin0 Hm]. simpl. f_equal.
    unfold routes_ok in Hok. rewrite forallb_forall in Hok. specialize (Hok r Hin). rewrite Hs in Hok. cbn [orb] in Hok.
    rewrite forallb_forall in Hok. specialize (Hok r0 Hin0). rewrite Hm in Hok. cbn [implb] in Hok.
    apply ep_eqb_eq in Hok. symmetry. exact Hok.
  - exfalso. pose proof (find_none _ _ F r Hin) as H. unfold route_matches in H.
    rewrite meth_eqb_refl, Hs, seqb_refl in H. discriminate.
Qed.

Lemma serve3_enabled pc e mt : routes_ok pc = true -> ep_guard (pc_cfg pc) e = true -> is_sub e = false ->
  In mt (ep_methods e) -> serve3 pc mt (cf_prefix (pc_cfg pc) ++ path3 (pc_paths pc) e) = Some e.
Proof.
  intros Hok G Hs Hm. pose proof (route3_present pc e mt G Hm) as Hin.
  exact (serve3_ok pc _ Hok Hin Hs).
Qed.

(* a disabled endpoint: a path that collides with no other endpoint's pattern is not served at all *)
Lemma serve3_none pc e m rel : ep_guard (pc_cfg pc) e = false -> free_of_others pc e m rel = true ->
  serve3 pc m (cf_prefix (pc_cfg pc) ++ rel) = None.
Proof.
  intros G Hf. rewrite serve3_rel.
  destruct (find (fun r => route_matches r m rel) (routes3 pc)) as [r|] eqn:F; [|reflexivity].
  exfalso. apply find_some in F as [Hin Hm]. unfold free_of_others in Hf. rewrite forallb_forall in Hf.
  specialize (Hf r Hin). rewrite Hm in Hf. cbn [negb] in Hf. rewrite orb_false_r in Hf. apply ep_eqb_eq in Hf.
  destruct (route3_inv _ _ Hin) as (G' & _). rewrite Hf, G in G'. discriminate.
Qed.

(* ---- the document ---- *)
Section Doc3.
  Variables (iss mtls : string) (pc : pcfg).
  Notation mv3 := (member3 iss mtls pc).

  Lemma endpoint_member3 m e : member_endpoint m = Some e ->
    mv3 m = if ep_guard (pc_cfg pc) e
            then (if orb (always_written m) (negb (is_empty (ep_url3 iss pc e))) then Some (DStr (ep_url3 iss pc e)) else None)
            else None.
  Proof.
    destruct m; cbn; try discriminate; intros H; injection H as <-; cbn; try reflexivity.
    all: flags5p pc; cbn; try reflexivity.
    all: match goal with |- context [is_empty ?s] => destruct (is_empty s) end; reflexivity.
  Qed.

  Lemma endpoint_member3_enabled m e : member_endpoint m = Some e -> ep_guard (pc_cfg pc) e = true ->
    is_empty (path3 (pc_paths pc) e) = false -> mv3 m = Some (DStr (ep_url3 iss pc e)).
  Proof.
    intros He G Hp. rewrite (endpoint_member3 _ _ He), G. unfold ep_url3.
    rewrite url_nonempty by exact Hp. rewrite orb_true_r. reflexivity.
  Qed.

  Lemma endpoint_member3_disabled m e : member_endpoint m = Some e -> ep_guard (pc_cfg pc) e = false -> mv3 m = None.
  Proof. intros He G. rewrite (endpoint_member3 _ _ He), G. reflexivity. Qed.

  Lemma endpoint_member3_inv m e url : member_endpoint m = Some e -> mv3 m = Some (DStr url) ->
    ep_guard (pc_cfg pc) e = true /\ url = ep_url3 iss pc e.
  Proof.
    intros He Hv. rewrite (endpoint_member3 _ _ He) in Hv. destruct (ep_guard (pc_cfg pc) e); [|discriminate].
    destruct (orb _ _); [|discriminate]. injection Hv as <-. auto.
  Qed.

  (* the aliases: same fields under the mTLS host, same guards *)
  Lemma mtls_aliases3_inv name url : In (name, url) (mtls_aliases3 mtls pc) ->
    exists m e, name = member_name m /\ member_endpoint m = Some e /\ ep_guard (pc_cfg pc) e = true /\
                url = ep_mtls_url3 mtls pc e.
  Proof.
    unfold mtls_aliases3. intros H. repeat (apply in_app_or in H; destruct H as [H|H]).
    - cbn in H. destruct H as [H|[H|[]]]; injection H as <- <-.
      + exists MTokenEndpoint, EpToken. auto.
      + exists MUserinfoEndpoint, EpUserInfo. auto.
    - destruct (cf_par_enabled (pc_cfg pc)) eqn:E; [|destruct H]. destruct H as [H|[]]; injection H as <- <-.
      exists MParEndpoint, EpPar. auto.
    - destruct (cf_dcr (pc_cfg pc)) eqn:E; [|destruct H]. destruct H as [H|[]]; injection H as <- <-.
      exists MRegistrationEndpoint, EpDcr. auto.
    - destruct (cf_introspection (pc_cfg pc)) eqn:E; [|destruct H]. destruct H as [H|[]]; injection H as <- <-.
      exists MIntrospectionEndpoint, EpIntrospect. auto.
    - destruct (cf_revocation (pc_cfg pc)) eqn:E; [|destruct H]. destruct H as [H|[]]; injection H as <- <-.
      exists MRevocationEndpoint, EpRevoke. auto.
    - destruct (cf_ciba_enabled (pc_cfg pc)) eqn:E; [|destruct H]. destruct H as [H|[]]; injection H as <- <-.
      exists MCibaEndpoint, EpCiba. auto.
  Qed.
End Doc3.

Lemma sapp_assoc (a b c : string) : ((a ++ b) ++ c = a ++ b ++ c)%string.
Proof. induction a as [|x a IH]; simpl; [reflexivity|]. rewrite IH. reflexivity. Qed.

Lemma member_endpoint_not_sub m e : member_endpoint m = Some e -> is_sub e = false.
Proof. destruct m; cbn; try discriminate; intros H; injection H as <-; reflexivity. Qed.

(* ==== the statements of Props/C19.v ==== *)

(* (1) a route with the handler of e is registered iff the flag of e is set, and the flag is set iff
       one of the ENABLING options is in the list: a With…Endpoint option never enables_ep anything *)
Lemma route_served_iff_feature_enabled p opts pc : build3 p opts = Some pc -> forall e,
  existsb (fun r => ep_eqb (r_ep r) e) (routes3 pc) = ep_guard (pc_cfg pc) e /\
  ep_guard (pc_cfg pc) e = (if optional_ep e then existsb (enables_ep e) opts else true).
Proof. intros H e. split; [apply route3_exists|exact (guard_from_options _ _ _ e H)]. Qed.

Lemma path_options_enable_nothing e o : (forall b, o <> PO b) -> enables_ep e o = false.
Proof. intros H. destruct o; try reflexivity. exfalso. exact (H o eq_refl). Qed.

(* (2) enabled: advertised at issuer ++ prefix ++ (the last override, the default when there is none
       or it is empty), routed there under every method of the endpoint, and its handler answers
       nowhere else (not at the default path once it is overridden) *)
Lemma enabled_at_override iss mtls p opts pc m e : build3 p opts = Some pc ->
  member_endpoint m = Some e -> ep_guard (pc_cfg pc) e = true ->
  let path := non_zero_path (last_override e opts) (ep_path e) in
  member3 iss mtls pc m = Some (DStr (iss ++ cf_prefix (pc_cfg pc) ++ path)) /\
  (forall mt, In mt (ep_methods e) -> In (mkRoute mt path false e) (routes3 pc)) /\
  (routes_ok pc = true -> forall mt, In mt (ep_methods e) -> serve3 pc mt (cf_prefix (pc_cfg pc) ++ path) = Some e) /\
  (forall mt x, serve3 pc mt x = Some e -> x = (cf_prefix (pc_cfg pc) ++ path)%string).
Proof.
  intros H He G path. pose proof (build3_path _ _ _ e H) as Hp. rewrite G in Hp. fold path in Hp.
  pose proof (member_endpoint_not_sub _ _ He) as Hs.
  pose proof (build3_path_nonempty _ _ _ e H G) as Hne.
  repeat split.
  - rewrite (endpoint_member3_enabled iss mtls pc m e He G Hne). unfold ep_url3. rewrite Hp. reflexivity.
  - intros mt Hm. pose proof (route3_present pc e mt G Hm) as Hin. rewrite Hs, Hp in Hin. exact Hin.
  - intros Hok mt Hm. rewrite <- Hp. exact (serve3_enabled pc e mt Hok G Hs Hm).
  - intros mt x Hx. apply serve3_some in Hx as (_ & _ & rel & -> & Hrel). rewrite Hs in Hrel. rewrite Hrel, Hp. reflexivity.
Qed.

(* (2') not enabled: the member is absent, no route has that handler, no request reaches it, and a
        path that collides with no OTHER endpoint's pattern (the overridden path, the default path)
        is answered by the mux's own 404 — whatever the With…Endpoint options say *)
Lemma disabled_absent_and_not_routed iss mtls pc e : ep_guard (pc_cfg pc) e = false ->
  (forall m, member_endpoint m = Some e -> member3 iss mtls pc m = None) /\
  (forall r, In r (routes3 pc) -> r_ep r <> e) /\
  (forall mt x, serve3 pc mt x <> Some e) /\
  (forall mt rel, free_of_others pc e mt rel = true -> serve3 pc mt (cf_prefix (pc_cfg pc) ++ rel) = None).
Proof.
  intros G. repeat split.
  - intros m He. exact (endpoint_member3_disabled iss mtls pc m e He G).
  - intros r Hin Hr. destruct (route3_inv _ _ Hin) as (G' & _). rewrite Hr, G in G'. discriminate.
  - intros mt x. exact (serve3_never pc mt x e G).
  - intros mt rel Hf. exact (serve3_none pc e mt rel G Hf).
Qed.

(* (3) advertised -> served, for every pcfg *)
Lemma advertised_served3 iss mtls pc m e url : member_endpoint m = Some e -> member3 iss mtls pc m = Some (DStr url) ->
  url = (iss ++ cf_prefix (pc_cfg pc) ++ path3 (pc_paths pc) e)%string /\
  (forall mt, In mt (ep_methods e) -> In (mkRoute mt (path3 (pc_paths pc) e) false e) (routes3 pc)) /\
  (routes_ok pc = true -> forall mt, In mt (ep_methods e) ->
     serve3 pc mt (cf_prefix (pc_cfg pc) ++ path3 (pc_paths pc) e) = Some e).
Proof.
  intros He Hv. destruct (endpoint_member3_inv iss mtls pc m e url He Hv) as (G & ->).
  pose proof (member_endpoint_not_sub _ _ He) as Hs. repeat split.
  - intros mt Hm. pose proof (route3_present pc e mt G Hm) as Hin. rewrite Hs in Hin. exact Hin.
  - intros Hok mt Hm. exact (serve3_enabled pc e mt Hok G Hs Hm).
Qed.

Lemma mtls_aliases_served3 mtls pc name url : In (name, url) (mtls_aliases3 mtls pc) ->
  exists m e, name = member_name m /\ member_endpoint m = Some e /\ ep_guard (pc_cfg pc) e = true /\
    url = (mtls ++ cf_prefix (pc_cfg pc) ++ path3 (pc_paths pc) e)%string /\
    (forall mt, In mt (ep_methods e) -> In (mkRoute mt (path3 (pc_paths pc) e) false e) (routes3 pc)).
Proof.
  intros H. destruct (mtls_aliases3_inv mtls pc name url H) as (m & e & Hn & He & G & Hu).
  exists m, e. repeat split; auto. intros mt Hm. pose proof (route3_present pc e mt G Hm) as Hin.
  rewrite (member_endpoint_not_sub _ _ He) in Hin. exact Hin.
Qed.

(* served -> advertised: every registered route is the document itself or (a sub-resource of) an
   endpoint whose member carries exactly issuer ++ prefix ++ the path of that route *)
Lemma served_advertised3 iss mtls p opts pc r : build3 p opts = Some pc -> In r (routes3 pc) ->
  match endpoint_member (r_ep r) with
  | Some m => member3 iss mtls pc m = Some (DStr (iss ++ cf_prefix (pc_cfg pc) ++ r_path r))
  | None => r_ep r = EpWellKnown end.
Proof.
  intros H Hin. destruct (route3_inv _ _ Hin) as (G & P & _). rewrite P.
  pose proof (build3_path_nonempty _ _ _ (r_ep r) H G) as Hne.
  destruct (r_ep r) eqn:E; cbn [endpoint_member]; try reflexivity.
  all: match goal with |- member3 _ _ _ ?m = _ =>
         match goal with
         | |- context [path3 _ EpAuthorizeCb] => exact (endpoint_member3_enabled iss mtls pc m EpAuthorize eq_refl G Hne)
         | |- context [path3 _ EpDcrClient] => exact (endpoint_member3_enabled iss mtls pc m EpDcr eq_refl G Hne)
         | |- context [path3 _ ?e] => exact (endpoint_member3_enabled iss mtls pc m e eq_refl G Hne)
         end end.
Qed.

(* the same at the level of requests: whatever a request is dispatched to is advertised at that URL
   (the two sub-resource handlers: below the advertised URL) *)
Lemma dispatched_is_advertised iss mtls p opts pc mt x e : build3 p opts = Some pc -> serve3 pc mt x = Some e ->
  match endpoint_member e with
  | Some m => exists url, member3 iss mtls pc m = Some (DStr url) /\
                if is_sub e then exists rest, (iss ++ x = (url ++ "/") ++ rest)%string /\ is_empty rest = false
                else (iss ++ x)%string = url
  | None => e = EpWellKnown end.
Proof.
  intros H Hx. apply serve3_some in Hx as (G & Hin & rel & -> & Hrel).
  pose proof (served_advertised3 iss mtls p opts pc _ H Hin) as Ha. cbn [r_ep r_path] in Ha.
  destruct (endpoint_member e) as [m|] eqn:Em; [|exact Ha].
  eexists. split; [exact Ha|]. destruct (is_sub e).
  - destruct Hrel as (rest & -> & Hr). exists rest. split; [|exact Hr]. rewrite !sapp_assoc. reflexivity.
  - rewrite Hrel. reflexivity.
Qed.

(* ==== examples: the hypotheses are satisfiable, the demonstration configurations ==== *)
Definition ex3 {A} (opts : list popt) (f : pcfg -> A) : option A := option_map f (build3 POpenID opts).

(* WithPAREndpoint without WithPAR: no member, no route, nothing served at the overridden or the
   default path (with and without a path prefix); both paths collide with nothing *)
Example override_without_par_enables_nothing :
  ex3 [PO WithAuthorizationCodeGrant; WithPAREndpoint "/custom/par"]
      (fun pc => (member3 "https://as.example" "" pc MParEndpoint,
                  existsb (fun r => ep_eqb (r_ep r) EpPar) (routes3 pc),
                  serve3 pc MPost "/custom/par", serve3 pc MPost "/par",
                  free_of_others pc EpPar MPost "/custom/par", free_of_others pc EpPar MPost "/par", routes_ok pc))
    = Some (None, false, None, None, true, true, true) /\
  ex3 [PO (WithPathPrefix "/auth"); WithPAREndpoint "/custom/par"]
      (fun pc => (member3 "https://as.example" "" pc MParEndpoint,
                  serve3 pc MPost "/auth/custom/par", serve3 pc MPost "/auth/par", serve3 pc MPost "/custom/par"))
    = Some (None, None, None, None).
Proof. vm_compute. split; reflexivity. Qed.

(* enabled, in both orders: advertised and served at the override, not at the default; the last
   override wins and an empty one gives the default back *)
Example override_with_par :
  ex3 [PO (WithPAR 60); WithPAREndpoint "/custom/par"; PO (WithPathPrefix "/auth")]
      (fun pc => (member3 "https://as.example" "" pc MParEndpoint,
                  serve3 pc MPost "/auth/custom/par", serve3 pc MPost "/auth/par", serve3 pc MGet "/auth/custom/par", routes_ok pc))
    = Some (Some (DStr "https://as.example/auth/custom/par"), Some EpPar, None, None, true) /\
  ex3 [WithPAREndpoint "/custom/par"; PO (WithPAR 60)]
      (fun pc => (member3 "https://as.example" "" pc MParEndpoint, serve3 pc MPost "/custom/par", serve3 pc MPost "/par"))
    = Some (Some (DStr "https://as.example/custom/par"), Some EpPar, None) /\
  ex3 [WithPAREndpoint "/first"; PO (WithPAR 60); WithPAREndpoint ""]
      (fun pc => (member3 "https://as.example" "" pc MParEndpoint, serve3 pc MPost "/first", serve3 pc MPost "/par"))
    = Some (Some (DStr "https://as.example/par"), None, Some EpPar).
Proof. vm_compute. repeat split; reflexivity. Qed.

(* every endpoint overridden at once, every feature on, mTLS: the distinctness hypothesis holds *)
Example all_overrides_distinct :
  ex3 [PO (WithPAR 60); PO WithCIBAGrant; PO WithTokenIntrospection; PO WithTokenRevocation; PO WithDCR; PO WithMTLS;
       WithJWKSEndpoint "/c/jwks"; WithTokenEndpoint "/c/token"; WithAuthorizeEndpoint "/c/authorize";
       WithPAREndpoint "/c/par"; WithDCREndpoint "/c/register"; WithUserInfoEndpoint "/c/userinfo";
       WithTokenIntrospectionEndpoint "/c/introspect"; WithTokenRevocationEndpoint "/c/revoke"; WithCIBAEndpoint "/c/bc"]
      (fun pc => (routes_ok pc, serve3 pc MPost "/c/token", serve3 pc MPost "/token", serve3 pc MGet "/c/authorize/cb1",
                  serve3 pc MDelete "/c/register/c1", serve3 pc MGet "/authorize",
                  member3 "https://as.example" "https://mtls.as.example" pc MCibaEndpoint))
    = Some (true, Some EpToken, None, Some EpAuthorizeCb, Some EpDcrClient, None, Some (DStr "https://as.example/c/bc")).
Proof. vm_compute. reflexivity. Qed.
