(* C15UriThree.v — THREE racing authorization requests presenting one pushed request_uri (statements and proofs;
   kept out of the dependencies of Props/C15.v, see there).  Rotation off (the authorization endpoint never reads
   the flag).  Bound: the hybrid response type code id_token (four-call flow): EVERY interleaving (34650);
   code token (five-call flow, 756756 interleavings): the 34650 interleavings in which the three read-only client
   lookups (each request's first call) come first and the remaining calls are interleaved in every way - PARTIAL:
   the lemma that a leading client lookup commutes with the other requests' calls is not proved. *)
From Verif Require Import Base Scope Types Prog Pop Token Authorize System Config Run Monitors Race RaceUri Tactics
  C15Sweeps C15UriDefs C15UriSweeps3.
Local Open Scope nat_scope.
Local Open Scope string_scope.
Local Opaque setup_of scn_uri setup scn_live solo_log consume_pos grant_save_pos solo_calls lookup_pos race_schedules successes
  tokens_obtained grants_written race_overlaps serial outcomes schedules_after_first_call.

Theorem race_request_uri_three_hybrid : forall sched,
  let su := setup_of (scn_uri "code id_token" false) in
  In sched (race_schedules su 3) ->
  successes su 3 sched = race_window_count su 3 sched /\
  codes_obtained su 3 sched = successes su 3 sched /\ idts_obtained su 3 sched = successes su 3 sched /\
  tokens_obtained su 3 sched = 0 /\ grants_written su 3 sched = 0 /\
  (2 <= successes su 3 sched <-> race_overlaps su 3 sched = true) /\
  (forall i j, i < 3 -> j < 3 -> occ_pos i (consume_pos su) sched 0 < occ_pos j (lookup_pos su) sched 0 ->
     nth j (outcomes su 3 sched) false = false).
Proof.
  intros sched su Hin.
  destruct (uri_ok_spec "code id_token" (setup_of (scn_uri "code id_token" false)) 3 sweep_uri_3_hybrid sched Hin) as [A B C D E F G].
  split; [exact A|]. split; [exact E|]. split; [exact F|]. split; [exact B|]. split; [exact C|].
  split; [exact (classification_of_count _ _ _ A)|exact G].
Qed.
Print Assumptions race_request_uri_three_hybrid.

Theorem race_request_uri_three_code_token_partial : forall sched,
  let su := setup_of (scn_uri "code token" false) in
  In sched (schedules_after_first_call su 3) ->
  successes su 3 sched = race_window_count su 3 sched /\
  tokens_obtained su 3 sched = successes su 3 sched /\ grants_written su 3 sched = successes su 3 sched /\
  nodup_ids (token_values su 3 sched) = true /\
  (2 <= successes su 3 sched <-> race_overlaps su 3 sched = true) /\
  (forall i j, i < 3 -> j < 3 -> occ_pos i (consume_pos su) sched 0 < occ_pos j (lookup_pos su) sched 0 ->
     nth j (outcomes su 3 sched) false = false).
Proof.
  intros sched su Hin.
  destruct (uri_ok_on_spec "code token" (setup_of (scn_uri "code token" false)) 3 _ sweep_uri_3_code_token sched Hin) as [A B C D E F G].
  split; [exact A|]. split; [exact B|]. split; [exact C|]. split; [exact D|].
  split; [exact (classification_of_count _ _ _ A)|exact G].
Qed.
Print Assumptions race_request_uri_three_code_token_partial.
