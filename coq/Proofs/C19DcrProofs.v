(* C19DcrProofs.v — the gate of dynamic client registration (Model/DcrGate.v) against the lists the
   discovery document publishes (Model/Discovery2.v), over config2 / for all option lists.
     separable                        setting member m of an otherwise valid registration only adds m's
                                      own list check (`gate`) to the verdict of validation.go `validate`
     accepted_iff_expected            = dcr_expected: accepted whatever the value where the validator's
                                      guard is off, accepted iff ADVERTISED where the document publishes
                                      the list, accepted iff in the configured list otherwise
     unpublished_acceptance           for all option lists the last case accepts something only for the
                                      JAR encryption members without WithJAR and the CIBA request-object
                                      algorithm without WithCIBAGrant
     listed_value_accepted            grant_types / response_types / scope
   plus Examples: the hypotheses are satisfiable, and the seeded validator (userinfo algorithm checked
   against the ID token list) differs. *)
From Verif Require Import Base Scope Types Config Discovery Config2 Discovery2 DcrGate ConfigProofs C19Proofs C19ListsProofs.
Local Open Scope N_scope.

Ltac split_valid H :=
  repeat (let H1 := fresh "V" in apply andb_prop in H; destruct H as [H H1]).

Ltac unfold_validators :=
  unfold dcr_validate, validateTokenAuthnMethod, validateTokenIntrospection, validateTokenRevocation,
    validateScopes, validatePrivateKeyJWT, validateSecretJWT, validateSelfSignedTLSAuthn, validateTLSAuthn,
    validateGrantTypes, validateClientCredentialsGrantType, validateRedirectURIS, validateRequestURIS,
    validateResponseTypes, validateImplicitResponseTypes, validateResponseTypeCode, validateOpenIDScopeIfRequired,
    validateIDTokenSigAlg, validateIDTokenEncAlgs, validateUserInfoSigAlg, validateUserInfoEncAlgs,
    validateJARSigAlg, validateJAREncAlgs, validateJARMSigAlg, validateJARMEncAlgs, validatePublicJWKS,
    validatePublicJWKSURI, validateAuthorizationDetailTypes, validateSubjectIdentifierType,
    validateSubIdentifierPairwise, validateSectorIdentifierURI, validateCIBAGrant, validateCIBATokenDeliveryModes,
    validateCIBATokenNotificationEndpoint, validateCIBAUserCodeParam, validateCIBAJARAlgs,
    authn_methods, has_ciba, uses_front_channel, jwks_given, opt_in, alg_refused, enc_algs_ok in *.

(* what setting member m to v adds to the verdict: m's own list check, under the validator's guard *)
Definition gate (c2 : config2) (m : dmember) (r : reg) (v : string) : bool :=
  let ls := c2_lists c2 in let c := c2_base c2 in
  match m with
  | DMethod e => mem v (l_value c2 (aep_methods e))
  | DAuthAlg e =>
      let meth := get_member (DMethod e) r in
      if seqb meth "private_key_jwt"
      then (if mem "private_key_jwt" (authn_methods c2 r) then mem v (l_pkjwt_algs ls) else true)
      else if seqb meth "client_secret_jwt" then mem v (l_secretjwt_algs ls) else true
  | DIdtSig => mem v (l_idt_sig_algs ls)
  | DUiSig => mem v (l_ui_sig_algs ls)
  | DIdtKey => if l_idt_enc ls then mem v (l_idt_key_algs ls) else true
  | DIdtCenc => if l_idt_enc ls then mem v (l_idt_content_algs ls) else true
  | DUiKey => if l_ui_enc ls then mem v (l_ui_key_algs ls) else true
  | DUiCenc => if l_ui_enc ls then mem v (l_ui_content_algs ls) else true
  | DJarSig => if cf_jar_enabled c then mem v (l_jar_sig_algs ls) else true
  | DJarKey => if l_jar_enc ls then mem v (l_jar_key_algs ls) else true
  | DJarCenc => if l_jar_enc ls then mem v (l_jar_content_algs ls) else true
  | DJarmSig => if cf_jarm_enabled c then mem v (l_jarm_sig_algs ls) else true
  | DJarmKey => if cf_jarm_enabled c then mem v (l_jarm_key_algs ls) else true
  | DJarmCenc => if cf_jarm_enabled c then mem v (l_jarm_content_algs ls) else true
  | DCibaJarSig => if cf_ciba_jar_enabled c then mem v (l_ciba_jar_sig_algs ls) else true
  | DSubjectType => mem v sub_types
  | DCibaMode => if has_ciba r then mem v (ciba_modes c2) else true
  end.

Ltac simp := cbn [negb andb orb]; rewrite ?andb_true_r, ?andb_false_r, ?orb_true_r, ?orb_false_r; cbn [negb andb orb].
Ltac side_facts Hs :=
  repeat match type of Hs with
  | _ && _ = true => let S := fresh "S" in apply andb_prop in Hs; destruct Hs as [S Hs]; side_facts S
  | negb _ = true => apply negb_true_iff in Hs
  end.
Ltac use_sides :=
  repeat match goal with
  | S : true = true |- _ => clear S
  | S : ?x = ?b |- _ => match goal with |- context[x] => rewrite S | V : context[x] |- _ => (constr_eq V S; fail 1) || rewrite S in V end
  end.
Ltac finish :=
  repeat match goal with V : _ = true |- _ => revert V end;
  simp;
  repeat (match goal with |- context[if ?b then _ else _] => destruct b eqn:? end; simp);
  intros; try reflexivity; try discriminate.
Ltac closer := intros;
  repeat match goal with
  | H : _ && _ = true |- _ => apply andb_prop in H; destruct H
  | H : _ && _ = false |- _ => apply andb_false_iff in H; destruct H
  | H : negb _ = true |- _ => apply negb_true_iff in H
  | H : negb _ = false |- _ => apply negb_false_iff in H
  | H : seqb _ _ = true |- _ => apply seqb_eq in H
  end; subst; try congruence; try discriminate.
(* a validator that does not read the member that changed: its verdict on the valid registration is
   (convertible with) its verdict on the probed one *)
Ltac frame :=
  repeat match goal with Hx : ?g ?r0 = true |- context[?g ?r1] =>
    let E := fresh in assert (E : g r1 = true) by exact Hx; rewrite E; clear E Hx end.

Lemma separable c2 m v r : is_empty v = false -> side_ok m r = true ->
  dcr_validate c2 (set_member m "" r) = true ->
  dcr_validate c2 (set_member m v r) = gate c2 m r v.
Proof.
  intros Hv Hs H. destruct r. destruct m as [e|e| | | | | | | | | | | | | | |]; try destruct e.
  all: unfold dcr_validate in *; split_valid H.
  all: frame.
  all: unfold gate, side_ok, get_member in *; unfold_validators.
  all: cbn -[seqb mem forallb N.eqb rt_is_implicit rt_contains] in *.
  all: rewrite ?Hv; cbn [negb andb orb].
  all: side_facts Hs; use_sides.
  all: finish.
  all: closer.
Qed.

Lemma base_methods c2 r : dcr_validate c2 r = true ->
  opt_in (r_token_method r) (l_token_methods (c2_lists c2)) = true /\
  opt_in (r_intro_method r) (l_intro_methods (c2_lists c2)) = true /\
  opt_in (r_revoc_method r) (l_revoc_methods (c2_lists c2)) = true.
Proof.
  intros H. unfold dcr_validate in H. split_valid H. repeat split; assumption.
Qed.

Lemma mem_single x y : mem x [y] = seqb x y.
Proof. cbn. destruct (seqb x y); reflexivity. Qed.

Ltac dflags := repeat (match goal with
    | |- context[if negb ?b then _ else _] => destruct b eqn:?
    | |- context[if ?a && _ then _ else _] => destruct a eqn:?
    | |- context[if ?b then _ else _] => destruct b eqn:? end; cbn [negb andb orb]).

Lemma authn_alg_case (ls : lists) meth v (fl inl : bool) (l : list string) (guard : bool) :
  opt_in meth l = true ->
  (if seqb meth "private_key_jwt"
   then if guard then mem v (l_pkjwt_algs ls) else true
   else if seqb meth "client_secret_jwt" then mem v (l_secretjwt_algs ls) else true) =
  (if negb (if seqb meth "private_key_jwt" then guard else seqb meth "client_secret_jwt") then true
   else if fl then fl && mem meth l && mem v (client_authn_sig_algs ls [meth])
        else mem v (client_authn_sig_algs ls [meth])).
Proof.
  intros Hm. unfold client_authn_sig_algs. rewrite !mem_single.
  destruct (seqb meth "private_key_jwt") eqn:E1.
  - apply seqb_eq in E1. subst meth. cbn in Hm. rewrite Hm.
    change (seqb "private_key_jwt" "private_key_jwt") with true.
    change (seqb "client_secret_jwt" "private_key_jwt") with false.
    rewrite app_nil_r. destruct guard, fl; reflexivity.
  - destruct (seqb meth "client_secret_jwt") eqn:E2; [|reflexivity].
    apply seqb_eq in E2. subst meth. cbn in Hm. rewrite Hm.
    change (seqb "private_key_jwt" "client_secret_jwt") with false.
    change (seqb "client_secret_jwt" "client_secret_jwt") with true.
    destruct fl; reflexivity.
Qed.

Lemma gate_expected c2 m v r : is_empty v = false ->
  dcr_validate c2 (set_member m "" r) = true -> gate c2 m r v = dcr_expected c2 m r v.
Proof.
  intros Hv H. apply base_methods in H. destruct H as [Ht [Hi Hr]].
  unfold dcr_expected, dcr_checked, doc_publishes, dcr_advertised, dcr_configured, gate.
  destruct m as [e|e| | | | | | | | | | | | | | |]; try destruct e;
    cbn [dmember_source aep_methods aep_sig_algs get_member l_flag l_value]; rewrite ?l_advertised_in_eq;
    cbn [l_flag l_value negb].
  4: { destruct r; cbn in Ht. apply (authn_alg_case _ _ _ true true); exact Ht. }
  4: { destruct r; cbn in Hi. apply (authn_alg_case _ _ _ _ true); exact Hi. }
  4: { destruct r; cbn in Hr. apply (authn_alg_case _ _ _ _ true); exact Hr. }
  all: try solve [dflags; reflexivity].
  unfold advertised_in, member_value, ciba_modes. cbn [always_written member_raw].
  destruct (has_ciba r); cbn [negb]; [|reflexivity]. destruct (cf_ciba_enabled (c2_base c2)); reflexivity.
Qed.

(* the theorem: for EVERY config2 *)
Lemma accepted_iff_expected c2 m v r : is_empty v = false -> side_ok m r = true ->
  dcr_validate c2 (set_member m "" r) = true ->
  dcr_validate c2 (set_member m v r) = dcr_expected c2 m r v.
Proof. intros Hv Hs H. rewrite (separable c2 m v r Hv Hs H). apply gate_expected; assumption. Qed.

(* the three cases one by one *)
Lemma published_accepted_iff_advertised c2 m v r : is_empty v = false -> side_ok m r = true ->
  dcr_validate c2 (set_member m "" r) = true -> dcr_checked c2 m r = true -> doc_publishes c2 m = true ->
  dcr_validate c2 (set_member m v r) = dcr_advertised c2 m r v.
Proof. intros Hv Hs H Hc Hp. rewrite (accepted_iff_expected c2 m v r Hv Hs H). unfold dcr_expected. rewrite Hc, Hp. reflexivity. Qed.
Lemma unchecked_accepted c2 m v r : is_empty v = false -> side_ok m r = true ->
  dcr_validate c2 (set_member m "" r) = true -> dcr_checked c2 m r = false ->
  dcr_validate c2 (set_member m v r) = true.
Proof. intros Hv Hs H Hc. rewrite (accepted_iff_expected c2 m v r Hv Hs H). unfold dcr_expected. rewrite Hc. reflexivity. Qed.
(* the members whose validator has no guard and whose list the document always publishes (under
   omitempty): the two signing algorithms of the seeded regression and the token endpoint method *)
Lemma unguarded_accepted_iff_advertised c2 v r : is_empty v = false ->
  (dcr_validate c2 (set_member DIdtSig "" r) = true ->
   dcr_validate c2 (set_member DIdtSig v r) = l_advertised_in c2 LIdtSig v) /\
  (dcr_validate c2 (set_member DUiSig "" r) = true ->
   dcr_validate c2 (set_member DUiSig v r) = l_advertised_in c2 LUiSig v) /\
  (side_ok (DMethod AToken) r = true -> dcr_validate c2 (set_member (DMethod AToken) "" r) = true ->
   dcr_validate c2 (set_member (DMethod AToken) v r) = l_advertised_in c2 LTokenMethods v).
Proof.
  intros Hv. repeat split; intros.
  - apply (published_accepted_iff_advertised c2 DIdtSig); auto.
  - apply (published_accepted_iff_advertised c2 DUiSig); auto.
  - apply (published_accepted_iff_advertised c2 (DMethod AToken)); auto.
Qed.

(* ---- for all option lists: where the document is silent although the validator is active ---- *)
Lemma is_nil_eq {A} (l : list A) : is_nil l = true -> l = [].
Proof. destruct l; [reflexivity|discriminate]. Qed.

Section BuiltDcr.
  Variables (p : profile) (opts : list opt2) (c2 : config2).
  Hypothesis Hb : build2 p opts = Some c2.

  Lemma intro_off_empty : cf_introspection (c2_base c2) = false -> l_intro_methods (c2_lists c2) = [].
  Proof.
    intros Hf. pose proof (stable_field_nonempty p opts c2 Hb FIntroMethods eq_refl) as Hn.
    rewrite <- (existsb_ext _ _ opts ew_intro), <- (introspection2_eq p opts c2 Hb), Hf in Hn.
    apply negb_false_iff in Hn. exact (is_nil_eq _ Hn).
  Qed.
  Lemma revoc_off_empty : cf_revocation (c2_base c2) = false -> l_revoc_methods (c2_lists c2) = [].
  Proof.
    intros Hf. pose proof (stable_field_nonempty p opts c2 Hb FRevocMethods eq_refl) as Hn.
    rewrite <- (existsb_ext _ _ opts ew_revoc), <- (revocation2_eq p opts c2 Hb), Hf in Hn.
    apply negb_false_iff in Hn. exact (is_nil_eq _ Hn).
  Qed.
  Lemma jarm_enc_off_empty : l_jarm_enc (c2_lists c2) = false -> l_jarm_key_algs (c2_lists c2) = [].
  Proof.
    intros Hf. pose proof (stable_field_nonempty p opts c2 Hb (key_field EJarm) eq_refl) as Hn.
    rewrite (existsb_ext _ _ opts (sets_enc_writes_key EJarm)), <- (enc_flag_eq p opts c2 Hb EJarm) in Hn.
    cbn [eflag_get] in Hn. rewrite Hf in Hn. apply negb_false_iff in Hn. exact (is_nil_eq _ Hn).
  Qed.
End BuiltDcr.

Lemma base_jarm_enc c2 r : dcr_validate c2 r = true -> validateJARMEncAlgs c2 r = true.
Proof. intros H. unfold dcr_validate in H. split_valid H. assumption. Qed.

Lemma unpublished_acceptance p opts c2 m v r : build2 p opts = Some c2 ->
  is_empty v = false -> side_ok m r = true -> dcr_validate c2 (set_member m "" r) = true ->
  dcr_checked c2 m r = true -> doc_publishes c2 m = false ->
  dcr_validate c2 (set_member m v r) = true ->
  ((m = DJarKey \/ m = DJarCenc) /\ cf_jar_enabled (c2_base c2) = false /\ l_jar_enc (c2_lists c2) = true) \/
  (m = DCibaJarSig /\ cf_ciba_enabled (c2_base c2) = false /\ cf_ciba_jar_enabled (c2_base c2) = true).
Proof.
  intros Hb Hv Hs H Hc Hp Ha. rewrite (separable c2 m v r Hv Hs H) in Ha.
  pose proof (base_methods _ _ H) as [Ht [Hi Hr]]. pose proof (base_jarm_enc _ _ H) as Hj.
  destruct r.
  destruct m as [e|e| | | | | | | | | | | | | | |]; try destruct e; unfold doc_publishes, dcr_checked, gate, side_ok in *;
    cbn [dmember_source aep_methods aep_sig_algs get_member l_flag l_value set_member] in *;
    try discriminate Hp; try congruence.
  - rewrite (intro_off_empty p opts c2 Hb Hp) in Ha. discriminate.
  - rewrite (revoc_off_empty p opts c2 Hb Hp) in Ha. discriminate.
  - cbn in Hi. rewrite (intro_off_empty p opts c2 Hb Hp) in Hi. unfold opt_in in Hi. cbn [mem] in Hi. rewrite orb_false_r in Hi.
    apply is_empty_spec in Hi. subst. cbn in Hc. discriminate.
  - cbn in Hr. rewrite (revoc_off_empty p opts c2 Hb Hp) in Hr. unfold opt_in in Hr. cbn [mem] in Hr. rewrite orb_false_r in Hr.
    apply is_empty_spec in Hr. subst. cbn in Hc. discriminate.
  - left. rewrite Hc in Hp. rewrite andb_true_r in Hp. auto.
  - left. rewrite Hc in Hp. rewrite andb_true_r in Hp. auto.
  - rewrite Hc in Hp, Ha. cbn [andb] in Hp. rewrite (jarm_enc_off_empty p opts c2 Hb Hp) in Ha. discriminate.
  - rewrite Hc in Hp. cbn [andb] in Hp. unfold validateJARMEncAlgs, enc_algs_ok in Hj. cbn in Hj.
    rewrite Hc, (jarm_enc_off_empty p opts c2 Hb Hp) in Hj. cbn in Hj, Hs. rewrite Hs in Hj. discriminate.
  - right. rewrite Hc in Hp. rewrite andb_true_r in Hp. auto.
Qed.

(* ---- list-valued members: grant_types, response_types, scope ---- *)
Lemma forallb_snoc {A} (f : A -> bool) l x : forallb f (l ++ [x]) = forallb f l && f x.
Proof. rewrite forallb_app. cbn. rewrite andb_true_r. reflexivity. Qed.

Lemma mem_snoc x l v : mem x (l ++ [v]) = mem x l || seqb x v.
Proof. rewrite mem_app_b. cbn. destruct (seqb x v); reflexivity. Qed.
Lemma adv_set_mem v (L : list string) :
  match (match L with [] => None | _ :: _ => Some (DSet L) end) with Some (DSet l) => mem v l | _ => false end = mem v L.
Proof. destruct L; reflexivity. Qed.
Lemma seqb_sym a b : seqb a b = seqb b a.
Proof. apply String.eqb_sym. Qed.

Ltac closer2 := closer;
  repeat match goal with
  | H : true = true |- _ => clear H
  | H : ?x = ?b |- context[?x] => rewrite H; clear H end; repeat (progress simp); try reflexivity.

Lemma listed_value_accepted c2 l v r : dcr_validate c2 r = true -> lside_ok l v r = true ->
  dcr_validate c2 (add_value l v r) = dlist_advertised c2 l v.
Proof.
  intros H Hs. destruct r. destruct l.
  all: unfold dcr_validate in *; split_valid H.
  all: frame.
  all: unfold dlist_advertised, dlist_source, lside_ok, advertised_in, member_value in *; unfold_validators.
  all: cbn -[seqb mem forallb N.eqb rt_is_implicit rt_contains map] in *.
  all: rewrite ?adv_set_mem, ?forallb_snoc, ?mem_snoc.
  - side_facts Hs. rewrite (seqb_sym ciba_grant v). unfold default_sub_pairwise in *. use_sides. finish; closer2.
  - side_facts Hs. use_sides. finish; closer2.
  - finish; closer2.
Qed.

(* ---- the hypotheses are satisfiable; the seeded validator differs ---- *)
(* ID token {RS256, PS256}, userinfo {RS256, ES256}, JARM {RS256, PS384}: every list has a value of its own *)
Definition ex_dcr_opts : list opt2 :=
  [WithIDTokenSignatureAlgs "ES256" []; WithTokenAuthnMethods "client_secret_post" ["none"];
   O (WithScopes [ScExact "openid"; ScExact "email"]); O WithAuthorizationCodeGrant; O WithImplicitGrant; O WithDCR;
   WithIDTokenSignatureAlgs "RS256" ["PS256"]; WithUserInfoSignatureAlgs "RS256" ["ES256"]; WithJARMAlgs "RS256" ["PS384"]].
(* the minimal registration of suite c19dcr *)
Definition ex_base : reg :=
  mkReg "none" "" "" "" "" "" ["openid"; "email"] ["authorization_code"; "implicit"] ["code"; "id_token token"]
        true 1 true true true false 1 "" "" "" "" "" "" "" "" "" "" "" "" "" "" false "" true true false.

Example ex_dcr_userinfo_alg :
  match build2 POpenID ex_dcr_opts with
  | Some c2 =>
      dcr_validate c2 (set_member DUiSig "" ex_base) = true /\ side_ok DUiSig ex_base = true /\
      (* advertised for userinfo only: accepted; advertised for the ID token only: refused *)
      l_advertised_in c2 LUiSig "ES256" = true /\ dcr_validate c2 (set_member DUiSig "ES256" ex_base) = true /\
      l_advertised_in c2 LUiSig "PS256" = false /\ l_advertised_in c2 LIdtSig "PS256" = true /\
      dcr_validate c2 (set_member DUiSig "PS256" ex_base) = false /\
      dcr_validate c2 (set_member DIdtSig "PS256" ex_base) = true /\
      dcr_validate c2 (set_member DJarmSig "PS384" ex_base) = true /\
      dcr_validate c2 (set_member DJarmSig "PS256" ex_base) = false /\
      (* the seeded validator (userinfo algorithm looked up in the ID token list) answers the opposite on both *)
      validateUserInfoSigAlg_seeded c2 (set_member DUiSig "PS256" ex_base) = true /\
      dcr_expected c2 DUiSig ex_base "PS256" = false /\
      validateUserInfoSigAlg_seeded c2 (set_member DUiSig "ES256" ex_base) = false /\
      dcr_expected c2 DUiSig ex_base "ES256" = true
  | None => False end.
Proof. vm_compute. repeat split. Qed.

(* the two configurations of `unpublished_acceptance`: WithJAREncryption without WithJAR - the key
   algorithm is checked against a list the document does not publish *)
Definition ex_jar_enc_without_jar : list opt2 :=
  [WithIDTokenSignatureAlgs "ES256" []; WithTokenAuthnMethods "client_secret_post" ["none"];
   O (WithScopes [ScExact "openid"; ScExact "email"]); O WithAuthorizationCodeGrant; O WithImplicitGrant; O WithDCR;
   WithJAREncryption "RSA-OAEP" ["RSA1_5"]].
Example ex_jar_enc_without_jar_builds :
  match build2 POpenID ex_jar_enc_without_jar with
  | Some c2 =>
      dcr_validate c2 ex_base = true /\ dcr_checked c2 DJarKey ex_base = true /\ doc_publishes c2 DJarKey = false /\
      l_advertised c2 LJarKeyEnc = false /\
      dcr_validate c2 (set_member DJarKey "RSA1_5" ex_base) = true /\
      dcr_validate c2 (set_member DJarKey "RSA-OAEP-256" ex_base) = false /\
      (* a disabled feature: the validator returns nil whatever the value *)
      dcr_checked c2 DIdtKey ex_base = false /\ dcr_validate c2 (set_member DIdtKey "anything" ex_base) = true
  | None => False end.
Proof. vm_compute. repeat split. Qed.
