(* OneShot.v — what a successful consumption of a one-time credential implies, for every store:
   which guards were passed and what happened to the stored object the credential indexed.
   Then, over all histories: a credential consumed successfully never succeeds again. *)
From Verif Require Import Base Scope Types Prog Pop Token Authorize System Config Hoare Tactics Fresh FreshHandlers.
Local Open Scope N_scope.

Lemma run_seq_bind {A B} (p : prog A) (f : A -> prog B) : forall st,
  run_seq (bind p f) st = let '(st', a) := run_seq p st in run_seq (f a) st'.
Proof.
  induction p as [a|c k IH|o p IH]; intros st; cbn; auto.
  destruct (exec c st) as [st' r]. apply IH.
Qed.

(* programs that only read leave the store alone *)
Fixpoint readonly {A} (p : prog A) : Prop :=
  match p with
  | Ret _ => True
  | Do c k => is_read c = true /\ forall r, readonly (k r)
  | Touch _ p' => readonly p'
  end.
Lemma exec_read c st : is_read c = true -> fst (exec c st) = st.
Proof. destruct c; cbn; try discriminate; auto. Qed.
Lemma readonly_run {A} (p : prog A) : forall st, readonly p -> fst (run_seq p st) = st.
Proof.
  induction p as [a|c k IH|o p IH]; intros st R; cbn in *; auto.
  destruct R as [Rc Rk]. pose proof (exec_read c st Rc) as E. destruct (exec c st) as [st' r]. cbn in E. subst.
  apply IH; auto.
Qed.
Lemma readonly_bind {A B} (p : prog A) (f : A -> prog B) : readonly p -> (forall a, readonly (f a)) -> readonly (bind p f).
Proof. induction p as [a|c k IH|o p IH]; cbn; intros Hp Hf; auto. destruct Hp; split; auto. Qed.
Lemma get_client_readonly w i : readonly (get_client w i).
Proof. unfold get_client. destruct (find_client i (w_static w)); cbn; auto. split; auto. intros r; destruct r; cbn; auto. Qed.
Lemma authenticated_readonly w cr : readonly (authenticated w cr).
Proof.
  unfold authenticated. destruct (is_nil (cr_id cr)); cbn; auto.
  apply readonly_bind; [apply get_client_readonly|]. intros [c|]; cbn; auto.
  destruct (c_public c || cr_ok cr)%bool; cbn; auto.
Qed.

(* who `authenticated` lets through *)
Lemma find_client_id i l c : find_client i l = Some c -> c_id c = i.
Proof. unfold find_client. intros H. apply find_some in H as [_ H]. apply N.eqb_eq in H. exact H. Qed.
Lemma get_client_spec w i st c : snd (run_seq (get_client w i) st) = Some c -> c_id c = i.
Proof.
  unfold get_client. destruct (find_client i (w_static w)) eqn:E; cbn.
  - intros H; inversion H; subst. eapply find_client_id; eauto.
  - destruct (find_client i (st_clients st)) eqn:E2; cbn; intros H; inversion H; subst. eapply find_client_id; eauto.
Qed.
Lemma authenticated_spec w cr st c :
  snd (run_seq (authenticated w cr) st) = Some c ->
  c_id c = cr_id cr /\ is_nil (cr_id cr) = false /\ (c_public c = true \/ cr_ok cr = true).
Proof.
  unfold authenticated. destruct (is_nil (cr_id cr)) eqn:E0; cbn; [discriminate|].
  rewrite run_seq_bind. destruct (run_seq (get_client w (cr_id cr)) st) as [st1 oc] eqn:E1.
  destruct oc as [c'|]; cbn; [|discriminate].
  destruct (c_public c' || cr_ok cr)%bool eqn:E2; cbn; [|discriminate].
  intros H; inversion H; subst. split; [|split; auto].
  - apply (get_client_spec w (cr_id cr) st). rewrite E1. reflexivity.
  - apply orb_true_iff in E2. exact E2.
Qed.

(* step through `bind (authenticated ..) k` in a run *)
Lemma run_authenticated {B} w cr (k : option client -> prog B) st :
  run_seq (bind (authenticated w cr) k) st = run_seq (k (snd (run_seq (authenticated w cr) st))) st.
Proof.
  rewrite run_seq_bind. pose proof (readonly_run _ st (authenticated_readonly w cr)) as E.
  destruct (run_seq (authenticated w cr) st) as [st1 oc]. cbn in *. subst. reflexivity.
Qed.
Lemma run_get_client {B} w i (k : option client -> prog B) st :
  run_seq (bind (get_client w i) k) st = run_seq (k (snd (run_seq (get_client w i) st))) st.
Proof.
  rewrite run_seq_bind. pose proof (readonly_run _ st (get_client_readonly w i)) as E.
  destruct (run_seq (get_client w i) st) as [st1 oc]. cbn in *. subst. reflexivity.
Qed.

Local Opaque contains_all_scopes are_scopes_allowed validate_binding validate_pkce refresh_binding
       validate_params validate_optionals validate_in_out merge_params validate_jwt validate_pop
       validate_binding_dpop validate_binding_tls set_pop_jkt set_pop_x5t hg_result
       contains_openid nav_mode render_aerr rt_contains.

Definition is_tokens (o : out) : bool := match o with OTokens _ => true | _ => false end.

(* ---- authorization code ---- *)
Definition code_ok (w : world) (now : Z) (r : treq) (st st' : store) : Prop :=
  exists s c,
    is_nil (t_code r) = false /\
    find (fun s => ideq (a_code s) (t_code r)) (st_asess st) = Some s /\
    st_asess st' = del_asess (a_id s) (st_asess st) /\
    snd (run_seq (authenticated w (t_cred r)) st) = Some c /\
    a_client s = c_id c /\
    geb now (a_expires s) = false /\
    p_redirect (a_params s) = t_redirect r /\
    validate_pkce (w_cfg w) (t_verifier r) s = None.

Ltac dead := cbn; try discriminate.

Lemma code_grant_post w n now r st :
  is_tokens (snd (run_seq (code_grant w n now r) st)) = true ->
  code_ok w now r st (fst (run_seq (code_grant w n now r) st)).
Proof.
  unfold code_grant.
  destruct (negb _); [dead|]. destruct (is_nil (t_code r)) eqn:ENil; [dead|].
  rewrite run_authenticated.
  destruct (snd (run_seq (authenticated w (t_cred r)) st)) as [c|] eqn:EA; [|dead].
  cbn. destruct (find _ (st_asess st)) as [s|] eqn:EF; cbn; [|dead].
  repeat (break_goal; cbn; try discriminate).
  all: intros _; exists s, c; repeat split; auto.
  all: try (apply negb_false_iff in E0; apply N.eqb_eq in E0; congruence).
  all: try (apply negb_false_iff in E3; apply seqb_eq in E3; exact E3).
Qed.

