(* OneShot.v — what a successful consumption of a one-time credential implies, for every store:
   which guards were passed and what happened to the stored object the credential indexed.
   Then, over all histories: a credential consumed successfully never succeeds again. *)
From Verif Require Import Base Scope Types Prog Pop Token Authorize System Config Run Monitors Hoare Tactics Fresh FreshHandlers.
Local Open Scope N_scope.

Lemma run_seq_bind {A B} (p : prog A) (f : A -> prog B) : forall st,
  run_seq (bind p f) st = let '(st', a) := run_seq p st in run_seq (f a) st'.
Proof.
  induction p as [a|c k IH|o p IH]; intros st; cbn; auto.
  destruct (exec c st) as [st' r]. apply IH.
Qed.

(* programs that only read leave the store alone *)
Fixpoint readonly {A} (p : prog A) : Prop :=
  match p with
  | Ret _ => True
  | Do c k => is_read c = true /\ forall r, readonly (k r)
  | Touch _ p' => readonly p'
  end.
Lemma exec_read c st : is_read c = true -> fst (exec c st) = st.
Proof. destruct c; cbn; try discriminate; auto. Qed.
Lemma readonly_run {A} (p : prog A) : forall st, readonly p -> fst (run_seq p st) = st.
Proof.
  induction p as [a|c k IH|o p IH]; intros st R; cbn in *; auto.
  destruct R as [Rc Rk]. pose proof (exec_read c st Rc) as E. destruct (exec c st) as [st' r]. cbn in E. subst.
  apply IH; auto.
Qed.
Lemma readonly_bind {A B} (p : prog A) (f : A -> prog B) : readonly p -> (forall a, readonly (f a)) -> readonly (bind p f).
Proof. induction p as [a|c k IH|o p IH]; cbn; intros Hp Hf; auto. destruct Hp; split; auto. Qed.
Lemma get_client_readonly w i : readonly (get_client w i).
Proof. unfold get_client. destruct (find_client i (w_static w)); cbn; auto. split; auto. intros r; destruct r; cbn; auto. Qed.
Lemma authenticated_readonly w cr : readonly (authenticated w cr).
Proof.
  unfold authenticated. destruct (is_nil (cr_id cr)); cbn; auto.
  apply readonly_bind; [apply get_client_readonly|]. intros [c|]; cbn; auto.
  destruct (c_public c || cr_ok cr)%bool; cbn; auto.
Qed.

Lemma jwt_bearer_client_readonly w cr : readonly (jwt_bearer_client w cr).
Proof.
  unfold jwt_bearer_client. apply readonly_bind; [apply authenticated_readonly|]. intros [c|]; cbn; auto.
  destruct (_ && _)%bool; cbn; auto.
Qed.

(* who `authenticated` lets through *)
Lemma find_client_id i l c : find_client i l = Some c -> c_id c = i.
Proof. unfold find_client. intros H. apply find_some in H as [_ H]. apply N.eqb_eq in H. exact H. Qed.
Lemma get_client_spec w i st c : snd (run_seq (get_client w i) st) = Some c -> c_id c = i.
Proof.
  unfold get_client. destruct (find_client i (w_static w)) eqn:E; cbn.
  - intros H; inversion H; subst. eapply find_client_id; eauto.
  - destruct (find_client i (st_clients st)) eqn:E2; cbn; intros H; inversion H; subst. eapply find_client_id; eauto.
Qed.
Lemma authenticated_spec w cr st c :
  snd (run_seq (authenticated w cr) st) = Some c ->
  c_id c = cr_id cr /\ is_nil (cr_id cr) = false /\ (c_public c = true \/ cr_ok cr = true).
Proof.
  unfold authenticated. destruct (is_nil (cr_id cr)) eqn:E0; cbn; [discriminate|].
  rewrite run_seq_bind. destruct (run_seq (get_client w (cr_id cr)) st) as [st1 oc] eqn:E1.
  destruct oc as [c'|]; cbn; [|discriminate].
  destruct (c_public c' || cr_ok cr)%bool eqn:E2; cbn; [|discriminate].
  intros H; inversion H; subst. split; [|split; auto].
  - apply (get_client_spec w (cr_id cr) st). rewrite E1. reflexivity.
  - apply orb_true_iff in E2. exact E2.
Qed.

(* step through `bind (authenticated ..) k` in a run *)
Lemma run_authenticated {B} w cr (k : option client -> prog B) st :
  run_seq (bind (authenticated w cr) k) st = run_seq (k (snd (run_seq (authenticated w cr) st))) st.
Proof.
  rewrite run_seq_bind. pose proof (readonly_run _ st (authenticated_readonly w cr)) as E.
  destruct (run_seq (authenticated w cr) st) as [st1 oc]. cbn in *. subst. reflexivity.
Qed.
Lemma run_jwt_bearer_client_k {B} w cr (k : option client -> prog B) st :
  run_seq (bind (jwt_bearer_client w cr) k) st = run_seq (k (snd (run_seq (jwt_bearer_client w cr) st))) st.
Proof.
  rewrite run_seq_bind. pose proof (readonly_run _ st (jwt_bearer_client_readonly w cr)) as E.
  destruct (run_seq (jwt_bearer_client w cr) st) as [st1 oc]. cbn in *. subst. reflexivity.
Qed.
(* the client a jwt-bearer request is served for: the authenticated one, or the anonymous client - the
   latter only for a request that names nobody, where client authentication is not required *)
Lemma jwt_bearer_client_spec w cr st c :
  snd (run_seq (jwt_bearer_client w cr) st) = Some c ->
  snd (run_seq (authenticated w cr) st) = Some c \/
  (snd (run_seq (authenticated w cr) st) = None /\ c = anonymous_client (w_cfg w) /\
   is_nil (cr_id cr) = true /\ cf_jwt_bearer_authn_required (w_cfg w) = false).
Proof.
  unfold jwt_bearer_client. rewrite run_authenticated.
  destruct (snd (run_seq (authenticated w cr) st)) as [c'|]; cbn; [intros H; left; exact H|].
  destruct (is_nil (cr_id cr)) eqn:E1; cbn; [|discriminate].
  destruct (cf_jwt_bearer_authn_required (w_cfg w)) eqn:E2; cbn; [discriminate|].
  intros H; inversion H; subst. right. auto.
Qed.
Lemma run_get_client {B} w i (k : option client -> prog B) st :
  run_seq (bind (get_client w i) k) st = run_seq (k (snd (run_seq (get_client w i) st))) st.
Proof.
  rewrite run_seq_bind. pose proof (readonly_run _ st (get_client_readonly w i)) as E.
  destruct (run_seq (get_client w i) st) as [st1 oc]. cbn in *. subst. reflexivity.
Qed.

Local Opaque contains_all_scopes are_scopes_allowed validate_binding validate_pkce refresh_binding
       validate_params validate_optionals validate_in_out merge_params validate_jwt validate_pop
       validate_binding_dpop validate_binding_tls set_pop_jkt set_pop_x5t hg_result
       contains_openid nav_mode render_aerr rt_contains.


(* ---- authorization code ---- *)
Definition code_ok (w : world) (now : Z) (r : treq) (st st' : store) : Prop :=
  exists s c,
    is_nil (t_code r) = false /\
    find (fun s => ideq (a_code s) (t_code r)) (st_asess st) = Some s /\
    st_asess st' = del_asess (a_id s) (st_asess st) /\
    snd (run_seq (authenticated w (t_cred r)) st) = Some c /\
    a_client s = c_id c /\
    geb now (a_expires s) = false /\
    p_redirect (a_params s) = t_redirect r /\
    validate_pkce (w_cfg w) (t_verifier r) s = None.

Ltac dead := cbn; try discriminate.
Ltac break_inner :=
  match goal with
  | |- context [run_seq (if ?b then _ else _) _] => let E := fresh "E" in destruct b eqn:E
  | |- context [run_seq (match ?x with _ => _ end) _] =>
      first [ is_var x; destruct x | let E := fresh "E" in destruct x eqn:E ]
  end.
Ltac client_eq :=
  match goal with H : negb (ideq (c_id _) _) = false |- _ =>
    apply negb_false_iff in H; apply N.eqb_eq in H; congruence end.

Lemma code_grant_post w n now r st :
  is_tokens (snd (run_seq (code_grant w n now r) st)) = true ->
  code_ok w now r st (fst (run_seq (code_grant w n now r) st)).
Proof.
  unfold code_grant.
  destruct (negb _); [dead|]. destruct (is_nil (t_code r)) eqn:ENil; [dead|].
  rewrite run_authenticated.
  destruct (snd (run_seq (authenticated w (t_cred r)) st)) as [c|] eqn:EA; [|dead].
  cbn. destruct (find _ (st_asess st)) as [s|] eqn:EF; cbn; [|destruct (find _ (st_gsess st)); cbn; discriminate].
  repeat (break_goal; cbn; try discriminate).
  all: intros _; match goal with s0 : asession, c0 : client |- _ => exists s0, c0 end; repeat split; auto.
  all: try client_eq.
  all: try (apply negb_false_iff in E3; apply seqb_eq in E3; exact E3).
Qed.


(* ================================================================================== *)
(* the step function in terms of the handler's run *)
Lemma step_handler w st n o :
  (forall d, o <> OpTick d) ->
  step w st n o = (mkState (fst (run_seq (handler w n (s_now st) o) (s_store st))) (s_now st),
                   snd (run_seq (handler w n (s_now st) o) (s_store st))).
Proof.
  intros NT. unfold step, step_with. destruct o; try (destruct (run_seq _ _); reflexivity).
  exfalso. eapply NT; eauto.
Qed.
Lemma run_lift {A B} (p : prog A) (g : A -> B) st :
  run_seq (bind p (fun x => Ret (g x))) st = (fst (run_seq p st), g (snd (run_seq p st))).
Proof. rewrite run_seq_bind. destruct (run_seq p st); reflexivity. Qed.

(* provenance of index values across one step *)
Lemma step_prov w st n o : sfresh n st ->
  (forall s, In s (st_asess (s_store (fst (step w st n o)))) -> aprov n (st_asess (s_store st)) s) /\
  (forall g, In g (st_gsess (s_store (fst (step w st n o)))) -> gprov n (st_gsess (s_store st)) g).
Proof.
  intros F. destruct o;
    try (rewrite step_handler by (intros d; discriminate); cbn [fst s_store];
         apply disciplined_prov; [apply handler_disciplined|exact F]).
  cbn. split; intros x Hx f; right; right; exists x; auto.
Qed.

(* ---- "a consumed credential is dead", generically for the four session indexes ---- *)
Section OnceSession.
  Variable f : afield.
  Variable cons : config -> op -> obs -> option id.     (* the credential value a successful operation consumed *)
  Variable wfop : op -> Prop.
  (* what a successful consumption means on the stored sessions *)
  Hypothesis cons_spec : forall w st n o v, sfresh n st -> wfop o ->
    cons (w_cfg w) o (snd (step w st n o)) = Some v ->
    v <> 0 /\ (exists s, In s (st_asess (s_store st)) /\ aget f s = v) /\
    (forall s', In s' (st_asess (s_store (fst (step w st n o)))) -> aget f s' <> v).

  (* acc: the operation was ACCEPTED on presentation of credential v (a superset of cons) *)
  Variable acc : config -> op -> obs -> option id.
  Hypothesis acc_spec : forall w st n o v, sfresh n st -> wfop o ->
    acc (w_cfg w) o (snd (step w st n o)) = Some v -> v <> 0 ->
    exists s, In s (st_asess (s_store st)) /\ aget f s = v.


  Definition dead (used : list id) (n : nat) (st : state) : Prop :=
    forall v, In v used -> v <> 0 /\ aold n f v /\ forall s, In s (st_asess (s_store st)) -> aget f s <> v.

  Lemma dead_step w used st n o :
    sfresh n st -> dead used n st -> dead used (S n) (fst (step w st n o)).
  Proof.
    intros F D v Hv. destruct (D v Hv) as [NZ [Old NoS]]. split; [auto|split].
    - eapply aold_mono; [|eauto]. lia.
    - intros s' Hs' E. destruct (step_prov w st n o F) as [PA _].
      destruct (PA s' Hs' f) as [Z|[Nw|[y [Hy Ey]]]].
      + congruence.
      + eapply aold_not_now; [exact Old|]. rewrite <- E. exact Nw.
      + eapply NoS; eauto. congruence.
  Qed.

  Lemma once_sound w : forall ops used st n,
    Forall wfop ops -> sfresh n st -> dead used n st ->
    once_from cons acc (w_cfg w) used n ops (snd (run_from w st n ops)) = 0.
  Proof.
    induction ops as [|o ops IH]; intros used st n WF F D; cbn; auto.
    inversion WF as [|? ? WFo WFr]; subst.
    unfold run_from in *. cbn.
    pose proof (step_fresh w st n o F) as F1.
    pose proof (dead_step w used st n o F D) as D1.
    pose proof (cons_spec w st n o) as CS.
    unfold step in *.
    destruct (step_with (@run_seq obs) w st n o) as [st' x] eqn:E. cbn in *.
    destruct (run_from_with (@run_seq obs) w st' (S n) ops) as [st'' tr] eqn:E2. cbn.
    specialize (IH used st' (S n) WFr F1) as IHu. rewrite E2 in IHu. cbn in IHu.
    pose proof (acc_spec w st n o) as AS. rewrite E in AS. cbn in AS.
    destruct (acc (w_cfg w) o x) as [a|] eqn:EA.
    - destruct (memN a used && negb (is_nil a))%bool eqn:EM.
      + apply andb_true_iff in EM as [EM1 EM2]. apply memN_In in EM1. destruct (D a EM1) as [NZ [_ NoS]].
        destruct (AS a F WFo eq_refl NZ) as [s [Hs Es]]. exfalso. eapply NoS; eauto.
      + clear EM AS. revert IHu IH. generalize EA. clear EA. intros _ IHu IH.
        destruct (cons (w_cfg w) o x) as [v|] eqn:EC; [|apply IHu; auto].
        destruct (CS v F WFo eq_refl) as [NZ [[s [Hs Es]] Gone]].
        specialize (IH (v :: used) st' (S n) WFr F1). rewrite E2 in IH. cbn in IH. apply IH.
        intros v' [<-|Hv']; [|apply D1; auto].
        split; [auto|split; [|auto]].
        destruct F as [[FO _] _]. destruct (FO s f Hs) as [Z|Old]; [congruence|].
        rewrite Es in Old. eapply aold_mono; [|eauto]. lia.
    - clear AS.
      destruct (cons (w_cfg w) o x) as [v|] eqn:EC; [|apply IHu; auto].
      destruct (CS v F WFo eq_refl) as [NZ [[s [Hs Es]] Gone]].
      specialize (IH (v :: used) st' (S n) WFr F1). rewrite E2 in IH. cbn in IH. apply IH.
      intros v' [<-|Hv']; [|apply D1; auto].
      split; [auto|split; [|auto]].
      destruct F as [[FO _] _]. destruct (FO s f Hs) as [Z|Old]; [congruence|].
      rewrite Es in Old. eapply aold_mono; [|eauto]. lia.
  Qed.

  Theorem once_all_histories w dyn ops :
    Forall wfop ops -> once_from cons acc (w_cfg w) [] 0 ops (run w dyn ops) = 0.
  Proof.
    intros WF. unfold run. apply once_sound; auto.
    - apply fresh_init.
    - intros v [].
  Qed.
End OnceSession.

(* ---- instance: authorization codes ---- *)

Lemma find_code_in c l s : find (fun s => ideq (a_code s) c) l = Some s -> In s l /\ a_code s = c.
Proof. intros H. apply find_some in H as [H1 H2]. apply N.eqb_eq in H2. auto. Qed.

Lemma cons_code_spec w st n o v : sfresh n st -> True ->
  cons_code (w_cfg w) o (snd (step w st n o)) = Some v ->
  v <> 0 /\ (exists s, In s (st_asess (s_store st)) /\ aget FCode s = v) /\
  (forall s', In s' (st_asess (s_store (fst (step w st n o)))) -> aget FCode s' <> v).
Proof.
  intros F _ H. destruct o; try discriminate. destruct g; try discriminate.
  rewrite step_handler in * by (intros d; discriminate). cbn [handler fst snd s_store] in *.
  rewrite run_lift in *. cbn [fst snd] in *.
  destruct (snd (run_seq (code_grant w n (s_now st) r) (s_store st))) eqn:EO; try discriminate.
  cbn in H. inversion H; subst v. clear H.
  pose proof (code_grant_post w n (s_now st) r (s_store st)) as P. rewrite EO in P. specialize (P eq_refl).
  destruct P as [s [c [NN [EF [ED _]]]]]. apply find_code_in in EF as [Hs Ec].
  split; [|split].
  - intros Z. rewrite Z in NN. discriminate.
  - exists s; auto.
  - intros s' Hs' E. rewrite ED in Hs'. apply (in_del _ a_id) in Hs' as [Hs'1 Hs'2].
    apply Hs'2. destruct F as [[_ FU] _]. apply (FU s' s FCode); auto; cbn in *; [congruence|].
    rewrite E. intros Z. rewrite Z in NN. discriminate.
Qed.

Theorem code_at_most_once_all w dyn ops : once_from cons_code cons_code (w_cfg w) [] 0 ops (run w dyn ops) = 0.
Proof.
  apply (once_all_histories FCode cons_code (fun _ => True)).
  - intros; eapply cons_code_spec; eauto.
  - intros w0 st n o v F W H _. eapply cons_code_spec; eauto.
  - apply Forall_forall; auto.
Qed.

(* ---- instance: CIBA auth_req_id (polling and push delivery) ---- *)
Definition ciba_ok (w : world) (now : Z) (r : treq) (st st' : store) : Prop :=
  exists s c,
    is_nil (t_auth_req r) = false /\
    find (fun s => ideq (a_ciba s) (t_auth_req r)) (st_asess st) = Some s /\
    st_asess st' = del_asess (a_id s) (st_asess st) /\
    snd (run_seq (authenticated w (t_cred r)) st) = Some c /\
    a_client s = c_id c /\
    geb now (a_expires s) = false /\
    ba_approves (t_ba r) = true /\
    c_ciba_mode c <> CibaPush.

Lemma ciba_grant_post w n now r st :
  is_tokens (snd (run_seq (ciba_grant w n now r) st)) = true ->
  ciba_ok w now r st (fst (run_seq (ciba_grant w n now r) st)).
Proof.
  unfold ciba_grant.
  destruct (negb _); [dead|].
  rewrite run_authenticated.
  destruct (snd (run_seq (authenticated w (t_cred r)) st)) as [c|] eqn:EA; [|dead].
  destruct (is_nil (t_auth_req r)) eqn:ENil; [dead|].
  cbn. destruct (find _ (st_asess st)) as [s|] eqn:EF; cbn; [|dead].
  repeat (break_goal; cbn; try discriminate).
  all: intros _; match goal with s0 : asession, c0 : client |- _ => exists s0, c0 end; repeat split; auto.
  all: try client_eq.
  all: try congruence.
  all: match goal with E : t_ba _ = _ |- ba_approves _ = true => rewrite E; reflexivity end.
Qed.


Lemma notify_success_post w n now a hg st :
  has_tokens_notif (snd (snd (run_seq (notify_success w n now a hg) st))) = true ->
  exists s, find (fun s => ideq (a_ciba s) a) (st_asess st) = Some s /\
            st_asess (fst (run_seq (notify_success w n now a hg) st)) = del_asess (a_id s) (st_asess st) /\
            geb now (a_expires s) = false.
Proof.
  unfold notify_success. cbn. destruct (find _ (st_asess st)) as [s|] eqn:EF; cbn; [|dead].
  rewrite run_get_client.
  destruct (snd (run_seq (get_client w (a_client s)) st)) as [c|] eqn:EA; [|dead].
  repeat (break_goal; cbn; try discriminate).
  all: intros _; exists s; repeat split; auto.
Qed.

Lemma find_ciba_in c l s : find (fun s => ideq (a_ciba s) c) l = Some s -> In s l /\ a_ciba s = c.
Proof. intros H. apply find_some in H as [H1 H2]. apply N.eqb_eq in H2. auto. Qed.

Local Opaque notify_success ciba_grant code_grant.
Lemma cons_ciba_spec w st n o v : sfresh n st -> wf_op o ->
  cons_ciba (w_cfg w) o (snd (step w st n o)) = Some v ->
  v <> 0 /\ (exists s, In s (st_asess (s_store st)) /\ aget FCiba s = v) /\
  (forall s', In s' (st_asess (s_store (fst (step w st n o)))) -> aget FCiba s' <> v).
Proof.
  intros F WF H. destruct o; try discriminate.
  - destruct g; try discriminate.
    rewrite step_handler in * by (intros d; discriminate). cbn [handler fst snd s_store] in *.
    rewrite run_lift in *. cbn [fst snd] in *.
    destruct (snd (run_seq (ciba_grant w n (s_now st) r) (s_store st))) eqn:EO; try discriminate.
    cbn in H. inversion H; subst v. clear H.
    pose proof (ciba_grant_post w n (s_now st) r (s_store st)) as P. rewrite EO in P. specialize (P eq_refl).
    destruct P as [s [c [NN [EF [ED _]]]]]. apply find_ciba_in in EF as [Hs Ec].
    split; [|split].
    + intros Z. rewrite Z in NN. discriminate.
    + exists s; auto.
    + intros s' Hs' E. rewrite ED in Hs'. apply (in_del _ a_id) in Hs' as [Hs'1 Hs'2].
      apply Hs'2. destruct F as [[_ FU] _]. apply (FU s' s FCiba); auto; cbn in *; [congruence|].
      rewrite E. intros Z. rewrite Z in NN. discriminate.
  - rewrite step_handler in * by (intros d; discriminate). cbn [handler fst snd s_store] in *.
    rewrite run_seq_bind in *.
    destruct (run_seq (notify_success w n (s_now st) a hg) (s_store st)) as [st1 [ok ns]] eqn:ER. cbn in *.
    destruct ok; try discriminate. destruct (has_tokens_notif ns) eqn:EH; [|unfold has_tokens_notif in EH; rewrite EH in H; discriminate].
    unfold has_tokens_notif in EH. rewrite EH in H. injection H as <-. fold (has_tokens_notif ns) in EH.
    pose proof (notify_success_post w n (s_now st) a hg (s_store st)) as P. rewrite ER in P. cbn in P.
    destruct (P EH) as [s [EF [ED _]]]. apply find_ciba_in in EF as [Hs Ec].
    split; [auto|split].
    + exists s; auto.
    + intros s' Hs' E. rewrite ED in Hs'. apply (in_del _ a_id) in Hs' as [Hs'1 Hs'2].
      apply Hs'2. destruct F as [[_ FU] _]. apply (FU s' s FCiba); auto; cbn in *; congruence.
Qed.

Theorem ciba_once_all w dyn ops : Forall wf_op ops -> once_from cons_ciba cons_ciba (w_cfg w) [] 0 ops (run w dyn ops) = 0.
Proof.
  apply (once_all_histories FCiba cons_ciba wf_op).
  - intros; eapply cons_ciba_spec; eauto.
  - intros w0 st n o v F W H _. eapply cons_ciba_spec; eauto.
Qed.

(* ---- request_uri and callback id: the session is re-saved without the index, or deleted ---- *)
Definition replaced (l l' : list asession) (i : id) (f : afield) : Prop :=
  forall x, In x l' -> (In x l /\ a_id x <> i) \/ (a_id x = i /\ aget f x = 0).
Lemma replaced_put l x i f : a_id x = i -> aget f x = 0 -> replaced l (put_asess x l) i f.
Proof.
  intros Hi Hf y Hy. apply (in_put _ a_id) in Hy as [->|[Hy Ny]]; [right; auto|left; split; auto; congruence].
Qed.
Lemma replaced_del l i f : replaced l (del_asess i l) i f.
Proof. intros y Hy. apply (in_del _ a_id) in Hy. left; tauto. Qed.

Lemma replaced_gone n st l' s f v :
  fresh n st -> In s (st_asess st) -> aget f s = v -> v <> 0 -> replaced (st_asess st) l' (a_id s) f ->
  forall s', In s' l' -> aget f s' <> v.
Proof.
  intros [[_ FU] _] Hs Ev NZ R s' Hs' E. destruct (R s' Hs') as [[Hin Hne]|[_ Z]]; [|congruence].
  apply Hne. apply (FU s' s f); auto; congruence.
Qed.


Local Transparent notify_success ciba_grant code_grant render_aerr.
Local Opaque make_token.

Lemma init_auth_par_post w n now r st :
  cf_par_enabled (w_cfg w) = true -> is_nil (p_request_uri (ar_params r)) = false ->
  started (snd (run_seq (init_auth w n now r) st)) = true ->
  exists s, find (fun s => ideq (a_par s) (p_request_uri (ar_params r))) (st_asess st) = Some s /\
            a_client s = ar_client r /\ geb now (a_expires s) = false /\
            replaced (st_asess st) (st_asess (fst (run_seq (init_auth w n now r) st))) (a_id s) FPar.
Proof.
  intros EP ER. unfold init_auth.
  destruct (is_nil (ar_client r)); [dead|].
  rewrite run_get_client.
  destruct (snd (run_seq (get_client w (ar_client r)) st)) as [c|] eqn:EC; [|dead].
  destruct (negb _); [dead|].
  unfold should_use_par. rewrite EP, ER. cbn [andb orb negb]. rewrite !orb_true_r. cbn [andb].
  cbn. destruct (find _ (st_asess st)) as [s|] eqn:EF; cbn; [|dead].
  destruct (negb (ideq (a_client s) (ar_client r))) eqn:ECl; [cbn; unfold render_aerr; dead|].
  destruct (geb now (a_expires s)) eqn:EX; [cbn; dead|].
  destruct (validate_in_out _ _ _ _) eqn:EV; [cbn; unfold render_aerr; destruct a; cbn; try discriminate; unfold nav_err; cbn; discriminate|].
  rewrite run_seq_bind.
  match goal with |- context [run_seq (start_session w n now c ?s' r) st] => remember s' as s1 eqn:Es1 end.
  assert (Hid : a_id s1 = a_id s) by (subst s1; destruct (is_fapi _); reflexivity).
  clear Es1.
  unfold start_session.
  repeat match goal with |- context [if ?b then Ret _ else _] => destruct b; [cbn; unfold finish_ares, render_aerr, nav_err; cbn; try discriminate|] end.
  cbn [run_seq].
  unfold authenticate.
  destruct (ar_pol r); cbn [run_seq]; unfold save_a.
  all: try rewrite run_get_client.
  all: repeat (cbn; try discriminate; break_inner).
  all: cbn; try discriminate.
  all: intros _; exists s; repeat split; auto.
  all: try (apply negb_false_iff in ECl; apply N.eqb_eq in ECl; exact ECl).
  all: cbn; rewrite <- ?Hid; first [apply replaced_put; reflexivity | apply replaced_del].
Qed.



Lemma find_par_in c l s : find (fun s => ideq (a_par s) c) l = Some s -> In s l /\ a_par s = c.
Proof. intros H. apply find_some in H as [H1 H2]. apply N.eqb_eq in H2. auto. Qed.

Local Opaque init_auth.
Lemma cons_par_spec w st n o v : sfresh n st -> True ->
  cons_par (w_cfg w) o (snd (step w st n o)) = Some v ->
  v <> 0 /\ (exists s, In s (st_asess (s_store st)) /\ aget FPar s = v) /\
  (forall s', In s' (st_asess (s_store (fst (step w st n o)))) -> aget FPar s' <> v).
Proof.
  intros F _ H. destruct o; try discriminate.
  rewrite step_handler in * by (intros d; discriminate). cbn [handler fst snd s_store] in *.
  rewrite run_lift in *. cbn [fst snd cons_par] in *.
  destruct (cf_par_enabled (w_cfg w)) eqn:EP; [|discriminate].
  destruct (is_nil (p_request_uri (ar_params r))) eqn:ER; [discriminate|].
  destruct (started _) eqn:ES; [|discriminate]. cbn in H. injection H as <-.
  destruct (init_auth_par_post w n (s_now st) r (s_store st) EP ER ES) as [s [EF [_ [_ RP]]]].
  apply find_par_in in EF as [Hs Ec].
  assert (NZ : p_request_uri (ar_params r) <> 0) by (intros Z; rewrite Z in ER; discriminate).
  split; [auto|split].
  - exists s; auto.
  - eapply replaced_gone; eauto.
Qed.
Local Transparent init_auth.

Theorem request_uri_once_all w dyn ops : once_from cons_par cons_par (w_cfg w) [] 0 ops (run w dyn ops) = 0.
Proof.
  apply (once_all_histories FPar cons_par (fun _ => True)).
  - intros; eapply cons_par_spec; eauto.
  - intros w0 st n o v F W H _. eapply cons_par_spec; eauto.
  - apply Forall_forall; auto.
Qed.

(* ---- callback ids: dead once the interaction has finished (navigated away) ---- *)

Lemma continue_auth_acc w n now r st :
  orb (is_nav (snd (run_seq (continue_auth w n now r) st))) (is_page (snd (run_seq (continue_auth w n now r) st))) = true ->
  exists s, is_nil (cb_id r) = false /\
            find (fun s => ideq (a_cb s) (cb_id r)) (st_asess st) = Some s /\ geb now (a_expires s) = false.
Proof.
  unfold continue_auth. destruct (is_nil (cb_id r)) eqn:EN; [dead|].
  cbn. destruct (find _ (st_asess st)) as [s|] eqn:EF; cbn; [|dead].
  destruct (geb now (a_expires s)) eqn:EX; [dead|].
  intros _. exists s; auto.
Qed.

Lemma continue_auth_post w n now r st :
  is_nav (snd (run_seq (continue_auth w n now r) st)) = true ->
  exists s, is_nil (cb_id r) = false /\
            find (fun s => ideq (a_cb s) (cb_id r)) (st_asess st) = Some s /\ geb now (a_expires s) = false /\
            replaced (st_asess st) (st_asess (fst (run_seq (continue_auth w n now r) st))) (a_id s) FCb.
Proof.
  unfold continue_auth. destruct (is_nil (cb_id r)) eqn:EN; [dead|].
  cbn. destruct (find _ (st_asess st)) as [s|] eqn:EF; cbn; [|dead].
  destruct (geb now (a_expires s)) eqn:EX; [dead|].
  rewrite run_seq_bind. unfold authenticate, save_a.
  destruct (cb_pol r); cbn [run_seq].
  all: try rewrite run_get_client.
  all: repeat (cbn; try discriminate; try rewrite run_get_client; break_inner).
  all: cbn; try discriminate.
  all: intros _; exists s; repeat split; auto.
  all: cbn; first [apply replaced_put; reflexivity | apply replaced_del].
Qed.

Lemma find_cb_in c l s : find (fun s => ideq (a_cb s) c) l = Some s -> In s l /\ a_cb s = c.
Proof. intros H. apply find_some in H as [H1 H2]. apply N.eqb_eq in H2. auto. Qed.

Local Opaque continue_auth.
Lemma cons_cb_spec w st n o v : sfresh n st -> True ->
  cons_cb (w_cfg w) o (snd (step w st n o)) = Some v ->
  v <> 0 /\ (exists s, In s (st_asess (s_store st)) /\ aget FCb s = v) /\
  (forall s', In s' (st_asess (s_store (fst (step w st n o)))) -> aget FCb s' <> v).
Proof.
  intros F _ H. destruct o; try discriminate.
  rewrite step_handler in * by (intros d; discriminate). cbn [handler fst snd s_store] in *.
  rewrite run_lift in *. cbn [fst snd cons_cb] in *.
  destruct (is_nav _) eqn:ES; [|discriminate]. injection H as <-.
  destruct (continue_auth_post w n (s_now st) r (s_store st) ES) as [s [EN [EF [_ RP]]]].
  apply find_cb_in in EF as [Hs Ec].
  assert (NZ : cb_id r <> 0) by (intros Z; rewrite Z in EN; discriminate).
  split; [auto|split].
  - exists s; auto.
  - eapply replaced_gone; eauto.
Qed.
Local Transparent continue_auth.

Local Opaque continue_auth.
Lemma acc_cb_spec w st n o v : sfresh n st -> True ->
  acc_cb (w_cfg w) o (snd (step w st n o)) = Some v -> v <> 0 ->
  exists s, In s (st_asess (s_store st)) /\ aget FCb s = v.
Proof.
  intros F _ H _. destruct o; try discriminate.
  rewrite step_handler in * by (intros d; discriminate). cbn [handler fst snd s_store] in *.
  rewrite run_lift in *. cbn [fst snd acc_cb] in *.
  destruct (orb _ _) eqn:ES; [|discriminate]. injection H as <-.
  destruct (continue_auth_acc w n (s_now st) r (s_store st) ES) as [s [EN [EF _]]].
  apply find_cb_in in EF as [Hs Ec]. exists s; auto.
Qed.
Local Transparent continue_auth.

(* a callback id through which an interaction finished (navigated away, successfully or not) is
   never accepted again, neither to continue nor to finish *)
Theorem callback_dead_after_finish_all w dyn ops : once_from cons_cb acc_cb (w_cfg w) [] 0 ops (run w dyn ops) = 0.
Proof.
  apply (once_all_histories FCb cons_cb (fun _ => True)).
  - intros; eapply cons_cb_spec; eauto.
  - intros; eapply acc_cb_spec; eauto.
  - apply Forall_forall; auto.
Qed.


(* ---- the same, for the two grant indexes (token id, refresh token) ---- *)
Section OnceGrant.
  Variable f : gfield.
  Variable cons : config -> op -> obs -> option id.     (* the credential value a successful operation consumed *)
  Variable wfop : op -> Prop.
  (* what a successful consumption means on the stored sessions *)
  Hypothesis cons_spec : forall w st n o v, sfresh n st -> wfop o ->
    cons (w_cfg w) o (snd (step w st n o)) = Some v ->
    v <> 0 /\ (exists s, In s (st_gsess (s_store st)) /\ gget f s = v) /\
    (forall s', In s' (st_gsess (s_store (fst (step w st n o)))) -> gget f s' <> v).

  (* acc: the operation was ACCEPTED on presentation of credential v (a superset of cons) *)
  Variable acc : config -> op -> obs -> option id.
  Hypothesis acc_spec : forall w st n o v, sfresh n st -> wfop o ->
    acc (w_cfg w) o (snd (step w st n o)) = Some v -> v <> 0 ->
    exists s, In s (st_gsess (s_store st)) /\ gget f s = v.


  Definition gdead (used : list id) (n : nat) (st : state) : Prop :=
    forall v, In v used -> v <> 0 /\ gold n f v /\ forall s, In s (st_gsess (s_store st)) -> gget f s <> v.

  Lemma gdead_step w used st n o :
    sfresh n st -> gdead used n st -> gdead used (S n) (fst (step w st n o)).
  Proof.
    intros F D v Hv. destruct (D v Hv) as [NZ [Old NoS]]. split; [auto|split].
    - eapply gold_mono; [|eauto]. lia.
    - intros s' Hs' E. destruct (step_prov w st n o F) as [_ PA].
      destruct (PA s' Hs' f) as [Z|[Nw|[y [Hy Ey]]]].
      + congruence.
      + eapply gold_not_now; [exact Old|]. rewrite <- E. exact Nw.
      + eapply NoS; eauto. congruence.
  Qed.

  Lemma gonce_sound w : forall ops used st n,
    Forall wfop ops -> sfresh n st -> gdead used n st ->
    once_from cons acc (w_cfg w) used n ops (snd (run_from w st n ops)) = 0.
  Proof.
    induction ops as [|o ops IH]; intros used st n WF F D; cbn; auto.
    inversion WF as [|? ? WFo WFr]; subst.
    unfold run_from in *. cbn.
    pose proof (step_fresh w st n o F) as F1.
    pose proof (gdead_step w used st n o F D) as D1.
    pose proof (cons_spec w st n o) as CS.
    unfold step in *.
    destruct (step_with (@run_seq obs) w st n o) as [st' x] eqn:E. cbn in *.
    destruct (run_from_with (@run_seq obs) w st' (S n) ops) as [st'' tr] eqn:E2. cbn.
    specialize (IH used st' (S n) WFr F1) as IHu. rewrite E2 in IHu. cbn in IHu.
    pose proof (acc_spec w st n o) as AS. rewrite E in AS. cbn in AS.
    destruct (acc (w_cfg w) o x) as [a|] eqn:EA.
    - destruct (memN a used && negb (is_nil a))%bool eqn:EM.
      + apply andb_true_iff in EM as [EM1 EM2]. apply memN_In in EM1. destruct (D a EM1) as [NZ [_ NoS]].
        destruct (AS a F WFo eq_refl NZ) as [s [Hs Es]]. exfalso. eapply NoS; eauto.
      + clear EM AS. revert IHu IH. generalize EA. clear EA. intros _ IHu IH.
        destruct (cons (w_cfg w) o x) as [v|] eqn:EC; [|apply IHu; auto].
        destruct (CS v F WFo eq_refl) as [NZ [[s [Hs Es]] Gone]].
        specialize (IH (v :: used) st' (S n) WFr F1). rewrite E2 in IH. cbn in IH. apply IH.
        intros v' [<-|Hv']; [|apply D1; auto].
        split; [auto|split; [|auto]].
        destruct F as [_ [FO _]]. destruct (FO s f Hs) as [Z|Old]; [congruence|].
        rewrite Es in Old. eapply gold_mono; [|eauto]. lia.
    - clear AS.
      destruct (cons (w_cfg w) o x) as [v|] eqn:EC; [|apply IHu; auto].
      destruct (CS v F WFo eq_refl) as [NZ [[s [Hs Es]] Gone]].
      specialize (IH (v :: used) st' (S n) WFr F1). rewrite E2 in IH. cbn in IH. apply IH.
      intros v' [<-|Hv']; [|apply D1; auto].
      split; [auto|split; [|auto]].
      destruct F as [_ [FO _]]. destruct (FO s f Hs) as [Z|Old]; [congruence|].
      rewrite Es in Old. eapply gold_mono; [|eauto]. lia.
  Qed.

  Theorem gonce_all_histories w dyn ops :
    Forall wfop ops -> once_from cons acc (w_cfg w) [] 0 ops (run w dyn ops) = 0.
  Proof.
    intros WF. unfold run. apply gonce_sound; auto.
    - apply fresh_init.
    - intros v [].
  Qed.
End OnceGrant.

(* ---- refresh tokens ---- *)
Definition refresh_ok (w : world) (n : nat) (now : Z) (r : treq) (st st' : store) (t : tresp) : Prop :=
  exists g c g',
    is_nil (t_refresh r) = false /\
    find (fun g => ideq (g_refresh g) (t_refresh r)) (st_gsess st) = Some g /\
    snd (run_seq (authenticated w (t_cred r)) st) = Some c /\
    g_client g = c_id c /\
    geb now (g_expires g) = false /\
    contains_all_scopes (g_granted g) (t_scope r) = true /\
    st_gsess st' = put_gsess g' (st_gsess st) /\ st_asess st' = st_asess st /\
    g_id g' = g_id g /\ g_expires g' = g_expires g /\ g_granted g' = g_granted g /\
    g_client g' = g_client g /\ g_subject g' = g_subject g /\
    g_refresh g' = (if cf_refresh_rotation (w_cfg w) then mint n KRefresh else g_refresh g) /\
    tr_rt t = (if cf_refresh_rotation (w_cfg w) then mint n KRefresh else 0) /\
    (* resource indicators: the requested resources are among the granted ones, which stay as they were;
       the refreshed token is for the requested resources, or for all granted ones when none is named *)
    validate_resources (w_cfg w) (g_granted_res g) (t_resources r) = true /\
    g_granted_res g' = g_granted_res g /\
    g_active_res g' = (if cf_resource_enabled (w_cfg w)
                       then (if no_res (t_resources r) then g_granted_res g else t_resources r)
                       else g_active_res g).

Local Transparent make_token.
Local Opaque validate_resources.
Lemma refresh_grant_post w n now r st t :
  snd (run_seq (refresh_grant w n now r) st) = OTokens t ->
  refresh_ok w n now r st (fst (run_seq (refresh_grant w n now r) st)) t.
Proof.
  unfold refresh_grant.
  destruct (negb _); [dead|]. destruct (is_nil (t_refresh r)) eqn:ENil; [dead|].
  rewrite run_authenticated.
  destruct (snd (run_seq (authenticated w (t_cred r)) st)) as [c|] eqn:EA; [|dead].
  cbn. destruct (find _ (st_gsess st)) as [g|] eqn:EF; cbn; [|dead].
  unfold tokens_out. destruct (cf_refresh_rotation (w_cfg w)) eqn:ERot.
  all: repeat (cbn; try discriminate; break_inner).
  all: cbn; try discriminate.
  all: intros H; injection H; clear H; intros <-.
  all: match goal with g0 : gsession, c0 : client |- _ => exists g0, c0 end; eexists; repeat split; auto.
  all: try client_eq.
  all: try (match goal with H : negb (contains_all_scopes _ _) = false |- _ => apply negb_false_iff in H; exact H end).
  all: try (match goal with H : negb (validate_resources _ _ _) = false |- _ => apply negb_false_iff in H; exact H end).
  all: try (cbn; rewrite ?ERot; reflexivity).
Qed.

Lemma find_rt_in c l g : find (fun g => ideq (g_refresh g) c) l = Some g -> In g l /\ g_refresh g = c.
Proof. intros H. apply find_some in H as [H1 H2]. apply N.eqb_eq in H2. auto. Qed.

Local Opaque refresh_grant.
Lemma acc_rt_spec w st n o v : sfresh n st -> True ->
  acc_rt (w_cfg w) o (snd (step w st n o)) = Some v -> v <> 0 ->
  exists g, In g (st_gsess (s_store st)) /\ gget FRefresh g = v.
Proof.
  intros F _ H _. destruct o; try discriminate. destruct g; try discriminate.
  rewrite step_handler in * by (intros d; discriminate). cbn [handler fst snd s_store] in *.
  rewrite run_lift in *. cbn [fst snd] in *.
  destruct (snd (run_seq (refresh_grant w n (s_now st) r) (s_store st))) eqn:EO; try discriminate.
  cbn in H. injection H as <-.
  destruct (refresh_grant_post w n (s_now st) r (s_store st) _ EO) as (g & c & g' & NN & EF & _).
  apply find_rt_in in EF as [Hg Ec]. exists g; auto.
Qed.
Lemma cons_rt_spec w st n o v : sfresh n st -> True ->
  cons_rt (w_cfg w) o (snd (step w st n o)) = Some v ->
  v <> 0 /\ (exists g, In g (st_gsess (s_store st)) /\ gget FRefresh g = v) /\
  (forall g', In g' (st_gsess (s_store (fst (step w st n o)))) -> gget FRefresh g' <> v).
Proof.
  intros F _ H. destruct o; try discriminate. destruct g; try discriminate.
  rewrite step_handler in * by (intros d; discriminate). cbn [handler fst snd s_store] in *.
  rewrite run_lift in *. cbn [fst snd] in *.
  destruct (snd (run_seq (refresh_grant w n (s_now st) r) (s_store st))) eqn:EO; try discriminate.
  cbn in H. destruct (cf_refresh_rotation (w_cfg w)) eqn:ERot; [|discriminate]. injection H as <-.
  destruct (refresh_grant_post w n (s_now st) r (s_store st) _ EO) as (g & c & g' & NN & EF & _ & _ & _ & _ & EP & _ & Eid & _ & _ & _ & _ & ER & _).
  rewrite ERot in ER.
  apply find_rt_in in EF as [Hg Ec].
  assert (NZ : t_refresh r <> 0) by (intros Z; rewrite Z in NN; discriminate).
  split; [auto|split].
  - exists g; auto.
  - intros g2 Hg2 E. rewrite EP in Hg2. apply (in_put _ g_id) in Hg2 as [->|[Hg2 Ne]].
    + cbn in E. rewrite ER in E. destruct F as [_ [FO _]]. destruct (FO g FRefresh Hg) as [Z|Old]; cbn in *; [congruence|].
      eapply (gold_not_now n FRefresh (mint n KRefresh)); [|reflexivity]. rewrite E, <- Ec. exact Old.
    + apply Ne. rewrite Eid. destruct F as [_ [_ FU]]. apply (FU g2 g FRefresh); auto; cbn in *; congruence.
Qed.
Local Transparent refresh_grant.

(* with rotation, a refresh token that produced tokens is never accepted again *)
Theorem rotation_one_shot_all w dyn ops : once_from cons_rt acc_rt (w_cfg w) [] 0 ops (run w dyn ops) = 0.
Proof.
  apply (gonce_all_histories FRefresh cons_rt (fun _ => True)).
  - intros; eapply cons_rt_spec; eauto.
  - intros; eapply acc_rt_spec; eauto.
  - apply Forall_forall; auto.
Qed.

(* The refresh handler never consults the embedder's ShouldIssueRefreshTokenFunc: whatever function is
   installed (constant or depending on the grant type / active scopes of the refreshed grant info), the
   program it runs is the same - in particular rotation does not depend on it. *)
Lemma refresh_ignores_issue_policy w f n now r :
  refresh_grant (mkWorld (w_cfg w <| cf_issue_refresh := f |>) (w_static w)) n now r = refresh_grant w n now r.
Proof. destruct w as [cfg st]. destruct cfg. reflexivity. Qed.
