(* C09DcrProofs.v — a registration READ discloses nothing of what the store holds, in particular not
   the secret kept in clear for client_secret_jwt (Model/Disclosure.v). *)
From Verif Require Import Base Scope Types Disclosure C09Proofs.
Local Open Scope N_scope.

(* after a registration or update of a client one of whose methods is client_secret_jwt the stored
   object holds the secret in clear *)
Lemma jwt_registration_keeps_plain_secret o n rot c :
  (o = DCreate \/ o = DUpdate) -> dc_jwt_method c = true ->
  let c' := fst (dcr_handle o n rot true c) in
  dc_secret c' = mint n KSecret /\ In (SPlain (mint n KSecret)) (stored_atoms c') /\
  dc_jwt_method c' = true /\
  (dc_hashed_methods c = true -> dc_hsecret c' = mint n KSecret).
Proof.
  intros O J.
  assert (Z : is_nil (mint n KSecret) = false).
  { unfold is_nil, mint. apply N.eqb_neq. lia. }
  assert (E : fst (dcr_handle o n rot true c) = fst (modify_and_save n rot true c)).
  { destruct O as [-> | ->]; unfold dcr_handle; destruct (modify_and_save n rot true c); reflexivity. }
  cbv zeta. rewrite E. clear E O.
  unfold modify_and_save, set_registration_token, set_secret, set_id.
  destruct (is_nil (dc_id c)); cbn;
    destruct (negb (is_nil (dc_hreg c)) && negb rot); cbn; rewrite ?J; cbn;
    destruct (dc_hashed_methods c); cbn; rewrite ?J; cbn; rewrite ?Z; cbn;
    unfold stored_atoms; cbn; rewrite ?Z; cbn; repeat split; auto; try discriminate;
    try (apply in_or_app; left; left; reflexivity); try (left; reflexivity).
Qed.

(* whatever the stored client holds, its read answers with no secret atom at all *)
Lemma read_body_no_atoms n rot ok c : body_atoms (snd (dcr_handle DRead n rot ok c)) = [] /\ fst (dcr_handle DRead n rot ok c) = c.
Proof. split; reflexivity. Qed.

Lemma read_discloses_nothing_stored n rot ok c a :
  In a (stored_atoms c) -> ~ In a (body_atoms (snd (dcr_handle DRead n rot ok c))).
Proof. intros _ H. exact H. Qed.
