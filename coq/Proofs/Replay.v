(* Replay.v — a later presentation of a redeemed code fails and removes the grant obtained from it. *)
From Verif Require Import Base Scope Types Prog Pop Token Authorize System Config Run Monitors Hoare Tactics Fresh FreshHandlers OneShot.
Local Open Scope N_scope.

Definition gcode_unique (st : store) : Prop :=
  forall g1 g2, In g1 (st_gsess st) -> In g2 (st_gsess st) -> g_code g1 = g_code g2 -> g_code g1 <> 0 -> g_id g1 = g_id g2.

Local Opaque contains_all_scopes validate_binding validate_pkce hg_result make_token.

(* the code indexes no session (it was redeemed, or never existed): an authenticated presentation is
   refused with invalid_grant and no stored grant carries the code afterwards - both the access and the
   refresh token obtained from it are gone with their grant *)
Lemma code_replay_revokes w n now r st c :
  has_grant GAuthorizationCode (cf_grants (w_cfg w)) = true -> is_nil (t_code r) = false ->
  snd (run_seq (authenticated w (t_cred r)) st) = Some c ->
  find (fun s => ideq (a_code s) (t_code r)) (st_asess st) = None ->
  gcode_unique st ->
  snd (run_seq (code_grant w n now r) st) = OErr EInvalidGrant /\
  st_asess (fst (run_seq (code_grant w n now r) st)) = st_asess st /\
  (forall g, In g (st_gsess (fst (run_seq (code_grant w n now r) st))) -> In g (st_gsess st) /\ g_code g <> t_code r).
Proof.
  intros HG NN EA EF U. unfold code_grant. rewrite HG, NN. cbn [negb].
  rewrite run_authenticated, EA. cbn. rewrite EF. cbn.
  destruct (find (fun g => ideq (g_code g) (t_code r)) (st_gsess st)) as [g0|] eqn:EG; cbn.
  - repeat split; auto.
    + apply (in_del _ g_id) in H. tauto.
    + intros E. apply (in_del _ g_id) in H as [H1 H2]. apply find_some in EG as [G1 G2]. apply N.eqb_eq in G2.
      apply H2. apply U; auto; try congruence. rewrite E. intros Z. rewrite Z in NN. discriminate.
  - repeat split; auto. intros E.
    pose proof (find_none _ _ EG g H) as Hn. cbn in Hn. rewrite E in Hn. unfold ideq in Hn. rewrite N.eqb_refl in Hn. discriminate.
Qed.

(* ================================================================================== *)
(* which grants a request can add, by their authorization code *)
Definition gcode0 (g : gsession) : Prop := g_code g = 0.
Definition anyA2 (s : asession) : Prop := True.

Lemma exec_new_grants c st g :
  match c with GSave g' => g_code g' = 0 | _ => True end ->
  In g (st_gsess (fst (exec c st))) -> In g (st_gsess st) \/ g_code g = 0.
Proof.
  intros Sc H. destruct c; cbn in *; auto.
  - destruct H as [<-|H]; [right; exact Sc|left]. apply filter_In in H. tauto.
  - left. apply filter_In in H. tauto.
  - destruct (find (fun g0 => ideq (g_code g0) i) (st_gsess st)); cbn in *; auto.
    left. apply filter_In in H. tauto.
Qed.
Lemma saves_new_grants {A} (p : prog A) : forall st,
  saves_ok gcode0 anyA2 p ->
  forall g, In g (st_gsess (fst (run_seq p st))) -> In g (st_gsess st) \/ g_code g = 0.
Proof.
  induction p as [a|c k IH|o p IH]; intros st S g Hg; cbn in *; auto.
  destruct S as [Sc Sk].
  pose proof (exec_new_grants c st g) as X.
  destruct (exec c st) as [st' r] eqn:E. cbn in X.
  destruct (IH r st' (Sk r) g Hg) as [H|H]; [|right; exact H].
  apply X; [destruct c; auto|exact H].
Qed.

Local Opaque contains_all_scopes are_scopes_allowed validate_binding validate_pkce refresh_binding
       validate_params validate_optionals validate_in_out merge_params mint make_token n_indexes
       validate_jwt set_pop_jkt set_pop_x5t.
Ltac crunch1 :=
  repeat (cbn in *;
          try match goal with
              | |- True => exact I
              | |- _ /\ _ => split
              | |- forall _, _ => intro
              | |- anyA2 _ => exact I
              | |- gcode0 _ => unfold gcode0, with_refresh, new_grant; cbn;
                               try match goal with |- context [if ?b then _ else _] => destruct b end; reflexivity
              end;
          try break_goal).
Lemma sv_bind {A B} (p : prog A) (f : A -> prog B) :
  saves_ok gcode0 anyA2 p -> (forall a, saves_ok gcode0 anyA2 (f a)) -> saves_ok gcode0 anyA2 (bind p f).
Proof. apply saves_ok_bind. Qed.

Lemma get_client_gc w i : saves_ok gcode0 anyA2 (get_client w i).
Proof. unfold get_client. crunch1. Qed.
Lemma authenticated_gc w cr : saves_ok gcode0 anyA2 (authenticated w cr).
Proof.
  unfold authenticated. destruct (is_nil (cr_id cr)); [exact I|].
  apply sv_bind; [apply get_client_gc|]. intros [c|]; crunch1.
Qed.
Ltac auth_gc := apply sv_bind; [apply authenticated_gc|]; intros [?c|]; [|exact I].

Lemma cc_grant_gc w n now r : saves_ok gcode0 anyA2 (cc_grant w n now r).
Proof. unfold cc_grant. break_goal; [exact I|]. auth_gc. crunch1. Qed.
Lemma jwt_bearer_client_gc w cr : saves_ok gcode0 anyA2 (jwt_bearer_client w cr).
Proof.
  unfold jwt_bearer_client. apply sv_bind; [apply authenticated_gc|]. intros [c|]; [exact I|]. destruct (_ && _)%bool; exact I.
Qed.
Lemma jwt_bearer_grant_gc w n now r : saves_ok gcode0 anyA2 (jwt_bearer_grant w n now r).
Proof.
  unfold jwt_bearer_grant. break_goal; [exact I|].
  apply sv_bind; [apply jwt_bearer_client_gc|]; intros [c|]; [|exact I]. crunch1.
Qed.
Lemma ciba_grant_gc w n now r : saves_ok gcode0 anyA2 (ciba_grant w n now r).
Proof. unfold ciba_grant. break_goal; [exact I|]. auth_gc. crunch1. Qed.

Lemma authenticate_gc w n now s pol : saves_ok gcode0 anyA2 (authenticate w n now s pol).
Proof.
  unfold authenticate, save_a. destruct pol; cbn.
  - apply sv_bind; [apply get_client_gc|]. intros [c|]; [|exact I]. crunch1.
  - crunch1.
  - crunch1.
  - crunch1.
Qed.
Lemma start_session_gc w n now c s r : saves_ok gcode0 anyA2 (start_session w n now c s r).
Proof. unfold start_session. repeat (break_goal; [exact I|]). cbn. apply authenticate_gc. Qed.
Lemma init_auth_gc w n now r : saves_ok gcode0 anyA2 (init_auth w n now r).
Proof.
  unfold init_auth. destruct (is_nil (ar_client r)); [exact I|].
  apply sv_bind; [apply get_client_gc|]. intros [c|]; [|exact I].
  break_goal; [exact I|]. break_goal.
  - break_goal; [exact I|]. cbn. split; [exact I|]. intros rp. destruct rp; try exact I.
    match goal with |- saves_ok _ _ (match ?v with _ => _ end) => destruct v end.
    + crunch1.
    + apply sv_bind; [apply start_session_gc|]. intros; exact I.
  - match goal with |- saves_ok _ _ (match ?v with _ => _ end) => destruct v end; [exact I|].
    apply sv_bind; [apply start_session_gc|]. intros; exact I.
Qed.
Lemma continue_auth_gc w n now r : saves_ok gcode0 anyA2 (continue_auth w n now r).
Proof.
  unfold continue_auth. break_goal; [exact I|]. cbn. split; [exact I|]. intros rp; destruct rp; try exact I.
  break_goal; [exact I|]. apply sv_bind; [apply authenticate_gc|].
  intros [o|e]; [exact I|]. apply sv_bind; [apply get_client_gc|]. intros [c|]; cbn; auto.
Qed.
Lemma push_auth_gc w n now r : saves_ok gcode0 anyA2 (push_auth w n now r).
Proof. unfold push_auth, save_a. break_goal; [exact I|]. auth_gc. crunch1. Qed.
Lemma init_back_auth_gc w n now r : saves_ok gcode0 anyA2 (init_back_auth w n now r).
Proof. unfold init_back_auth, save_a. break_goal; [exact I|]. auth_gc. crunch1. Qed.
Lemma notify_success_gc w n now a hg : saves_ok gcode0 anyA2 (notify_success w n now a hg).
Proof.
  unfold notify_success. cbn. split; [exact I|]. intros rp; destruct rp; try exact I.
  apply sv_bind; [apply get_client_gc|]. intros [c|]; [|exact I]. crunch1.
Qed.
Lemma notify_failure_gc w a : saves_ok gcode0 anyA2 (notify_failure w a).
Proof.
  unfold notify_failure. cbn. split; [exact I|]. intros rp; destruct rp; try exact I.
  apply sv_bind; [apply get_client_gc|]. intros [c|]; [|exact I]. crunch1.
Qed.
Lemma introspection_info_gc now p : saves_ok gcode0 anyA2 (introspection_info now p).
Proof. unfold introspection_info. crunch1. Qed.
Lemma introspect_gc w now r : saves_ok gcode0 anyA2 (introspect w now r).
Proof.
  unfold introspect. break_goal; [exact I|]. auth_gc.
  break_goal; [exact I|]. break_goal; try exact I; (apply sv_bind; [apply introspection_info_gc|]; intros; exact I).
Qed.
Lemma revoke_gc w now r : saves_ok gcode0 anyA2 (revoke w now r).
Proof.
  unfold revoke. break_goal; [exact I|]. auth_gc.
  break_goal; [exact I|]. apply sv_bind; [apply introspection_info_gc|]. intros i. crunch1.
Qed.
Lemma userinfo_gc w now r : saves_ok gcode0 anyA2 (userinfo w now r).
Proof.
  unfold userinfo. break_goal; [exact I|]. break_goal; [|exact I].
  cbn. split; [exact I|]. intros rp; destruct rp; try exact I.
  repeat (break_goal; try exact I).
  apply sv_bind; [apply get_client_gc|]. intros [c|]; exact I.
Qed.
Lemma token_info_gc now p : saves_ok gcode0 anyA2 (token_info now p).
Proof. unfold token_info. apply sv_bind; [apply introspection_info_gc|]. intros; exact I. Qed.
Lemma token_info_req_gc now r : saves_ok gcode0 anyA2 (token_info_from_request now r).
Proof.
  unfold token_info_from_request. break_goal; [exact I|].
  apply sv_bind; [apply introspection_info_gc|]. intros i. crunch1.
Qed.


(* ---- the two handlers that write a grant carrying a code ---- *)
Local Transparent make_token.
Local Opaque make_token.
Lemma code_grant_effect w n now r st g' :
  In g' (st_gsess (fst (run_seq (code_grant w n now r) st))) ->
  In g' (st_gsess st) \/ (is_tokens (snd (run_seq (code_grant w n now r) st)) = true /\ g_code g' = t_code r /\ g_id g' = mint n KGrantId).
Proof.
  unfold code_grant.
  destruct (negb _); [cbn; auto|]. destruct (is_nil (t_code r)); [cbn; auto|].
  rewrite run_authenticated.
  destruct (snd (run_seq (authenticated w (t_cred r)) st)) as [c|]; [|cbn; auto].
  cbn. destruct (find _ (st_asess st)) as [s|] eqn:EF; cbn.
  - apply find_some in EF as [_ EC]. apply N.eqb_eq in EC.
    unfold with_refresh, new_grant.
    repeat (cbn; auto; break_inner).
    all: cbn; auto.
    all: intros [<-|H]; [right; cbn; repeat split; auto; destruct (should_issue_refresh _ _ _ _); cbn; auto|left; apply filter_In in H; tauto].
  - destruct (find _ (st_gsess st)); cbn; auto. intros H. left. apply filter_In in H. tauto.
Qed.

Lemma refresh_grant_effect w n now r st g' :
  In g' (st_gsess (fst (run_seq (refresh_grant w n now r) st))) ->
  In g' (st_gsess st) \/ exists g, In g (st_gsess st) /\ g_id g = g_id g' /\ g_code g = g_code g'.
Proof.
  unfold refresh_grant.
  destruct (negb _); [cbn; auto|]. destruct (is_nil (t_refresh r)); [cbn; auto|].
  rewrite run_authenticated.
  destruct (snd (run_seq (authenticated w (t_cred r)) st)) as [c|]; [|cbn; auto].
  cbn. destruct (find _ (st_gsess st)) as [g|] eqn:EF; cbn; auto.
  apply find_some in EF as [Hg _].
  repeat (cbn; auto; break_inner).
  all: cbn; auto.
  all: try (intros H; left; apply filter_In in H; tauto).
  all: intros [<-|H]; [right; exists g; cbn; auto|left; apply filter_In in H; tauto].
Qed.

(* ---- one step: where the grants of the new store come from ---- *)
Definition tokens_obs (x : obs) : bool := match x with Out o => is_tokens o | _ => false end.
Lemma step_gspec w st n o g' :
  In g' (st_gsess (s_store (fst (step w st n o)))) ->
  In g' (st_gsess (s_store st)) \/ g_code g' = 0 \/
  (exists g, In g (st_gsess (s_store st)) /\ g_id g = g_id g' /\ g_code g = g_code g') \/
  (exists r, o = OpToken GAuthorizationCode r /\ tokens_obs (snd (step w st n o)) = true /\
             g_code g' = t_code r /\ g_id g' = mint n KGrantId).
Proof.
  assert (Q : forall (p : prog out), saves_ok gcode0 anyA2 p ->
              In g' (st_gsess (fst (run_seq (bind p (fun x => Ret (Out x))) (s_store st)))) ->
              In g' (st_gsess (s_store st)) \/ g_code g' = 0).
  { intros p S H. rewrite run_lift in H. cbn in H. eapply saves_new_grants; eauto. }
  destruct o; try (rewrite step_handler by (intros d; discriminate); cbn [fst snd s_store handler]).
  - intros H. destruct (Q _ (init_auth_gc w n (s_now st) r) H); auto.
  - intros H. destruct (Q _ (continue_auth_gc w n (s_now st) r) H); auto.
  - intros H. destruct (Q _ (push_auth_gc w n (s_now st) r) H); auto.
  - destruct g.
    + intros H. destruct (Q _ (cc_grant_gc w n (s_now st) r) H); auto.
    + rewrite !run_lift. cbn [fst snd]. intros H.
      destruct (code_grant_effect w n (s_now st) r (s_store st) g' H) as [X|[T [C I]]]; auto.
      right; right; right. exists r. cbn. auto.
    + rewrite !run_lift. cbn [fst snd]. intros H.
      destruct (refresh_grant_effect w n (s_now st) r (s_store st) g' H) as [X|X]; auto.
    + cbn. auto.
    + intros H. destruct (Q _ (jwt_bearer_grant_gc w n (s_now st) r) H); auto.
    + intros H. destruct (Q _ (ciba_grant_gc w n (s_now st) r) H); auto.
  - intros H. destruct (Q _ (introspect_gc w (s_now st) r) H); auto.
  - intros H. destruct (Q _ (revoke_gc w (s_now st) r) H); auto.
  - intros H. destruct (Q _ (userinfo_gc w (s_now st) r) H); auto.
  - intros H. destruct (Q _ (token_info_gc (s_now st) p) H); auto.
  - intros H. destruct (Q _ (token_info_req_gc (s_now st) r) H); auto.
  - intros H. destruct (Q _ (init_back_auth_gc w n (s_now st) r) H); auto.
  - intros H. rewrite run_seq_bind in H.
    pose proof (saves_new_grants (notify_success w n (s_now st) a hg) (s_store st) (notify_success_gc w n (s_now st) a hg) g') as X.
    destruct (run_seq (notify_success w n (s_now st) a hg) (s_store st)) as [st1 x]. cbn in *. destruct (X H); auto.
  - intros H. rewrite run_seq_bind in H.
    pose proof (saves_new_grants (notify_failure w a) (s_store st) (notify_failure_gc w a) g') as X.
    destruct (run_seq (notify_failure w a) (s_store st)) as [st1 x]. cbn in *. destruct (X H); auto.
  - cbn. auto.
Qed.

(* ---- the invariant: a code is carried by at most one grant, and by no grant while a session
        still holds it ---- *)
Record cinv (n : nat) (st : store) : Prop := mkCinv {
  ci_old : forall g, In g (st_gsess st) -> g_code g = 0 \/ aold n FCode (g_code g);
  ci_uniq : gcode_unique st;
  ci_sep : forall s g, In s (st_asess st) -> In g (st_gsess st) -> a_code s <> 0 -> g_code g <> a_code s
}.

Local Opaque code_grant.
Lemma step_cinv w st n o : sfresh n st -> cinv n (s_store st) -> cinv (S n) (s_store (fst (step w st n o))).
Proof.
  intros F [CO CU CS].
  pose proof (step_gspec w st n o) as GS.
  destruct (step_prov w st n o F) as [PA _].
  pose proof (step_fresh w st n o F) as F'.
  (* facts about a successful code redemption in this very step *)
  assert (CR : forall r, o = OpToken GAuthorizationCode r -> tokens_obs (snd (step w st n o)) = true ->
               exists s, In s (st_asess (s_store st)) /\ a_code s = t_code r /\ t_code r <> 0 /\
                         st_asess (s_store (fst (step w st n o))) = del_asess (a_id s) (st_asess (s_store st))).
  { intros r -> T. rewrite step_handler in * by (intros d; discriminate). cbn [handler fst snd s_store] in *.
    rewrite run_lift in *. cbn [fst snd tokens_obs] in *.
    destruct (code_grant_post w n (s_now st) r (s_store st) T) as (s & c & NN & EF & ED & _).
    apply find_code_in in EF as [Hs Ec]. exists s. repeat split; auto. intros Z. rewrite Z in NN. discriminate. }
  assert (OLD : forall g', In g' (st_gsess (s_store (fst (step w st n o)))) -> g_code g' = 0 \/ aold n FCode (g_code g')).
  { intros g' Hg'. destruct (GS g' Hg') as [H|[H|[[g [Hg [_ E]]]|[r [Eo [T [C _]]]]]]]; auto.
    - rewrite <- E. auto.
    - destruct (CR r Eo T) as [s [Hs [Ec [NZ _]]]]. right. rewrite C, <- Ec.
      destruct F as [[FO _] _]. destruct (FO s FCode Hs) as [Z|O]; [cbn in Z; congruence|exact O]. }
  constructor.
  - intros g' Hg'. destruct (OLD g' Hg') as [Z|O]; [left; auto|right]. eapply aold_mono; [|eauto]. lia.
  - (* uniqueness *)
    intros g1 g2 H1 H2 E NZ.
    (* each of g1, g2: (a) old or derived from an old grant with the same id and code, or (b) new from this step's redemption *)
    assert (CL : forall g', In g' (st_gsess (s_store (fst (step w st n o)))) -> g_code g' <> 0 ->
              (exists g, In g (st_gsess (s_store st)) /\ g_id g = g_id g' /\ g_code g = g_code g') \/
              (exists r, o = OpToken GAuthorizationCode r /\ tokens_obs (snd (step w st n o)) = true /\ g_code g' = t_code r /\ g_id g' = mint n KGrantId)).
    { intros g' Hg' NZ'. destruct (GS g' Hg') as [H|[H|[H|H]]]; auto; [left; exists g'; auto|congruence]. }
    destruct (CL g1 H1 NZ) as [[a [Ha [Ia Ea]]]|[r1 [Eo1 [T1 [C1 I1]]]]];
    destruct (CL g2 H2 ltac:(congruence)) as [[b [Hb [Ib Eb]]]|[r2 [Eo2 [T2 [C2 I2]]]]].
    + rewrite <- Ia, <- Ib. apply CU; auto; congruence.
    + exfalso. destruct (CR r2 Eo2 T2) as [s [Hs [Ec [NZ2 _]]]].
      apply (CS s a Hs Ha); congruence.
    + exfalso. destruct (CR r1 Eo1 T1) as [s [Hs [Ec [NZ1 _]]]].
      apply (CS s b Hs Hb); congruence.
    + congruence.
  - (* separation *)
    intros s' g' Hs' Hg' NZ E.
    destruct (PA s' Hs' FCode) as [Z|[Nw|[y [Hy Ey]]]]; cbn in *.
    + congruence.
    + destruct (OLD g' Hg') as [Z|O]; [congruence|]. eapply aold_not_now; [exact O|]. rewrite E. exact Nw.
    + destruct (GS g' Hg') as [H|[H|[[g [Hg [_ Eg]]]|[r [Eo [T [C _]]]]]]].
      * apply (CS y g' Hy H); congruence.
      * congruence.
      * apply (CS y g Hy Hg); congruence.
      * destruct (CR r Eo T) as [s [Hs [Ec [NZr ED]]]].
        rewrite ED in Hs'. apply (in_del _ a_id) in Hs' as [Hs'1 Hs'2].
        apply Hs'2. destruct F as [[_ FU] _]. apply (FU s' s FCode); auto; cbn; congruence.
Qed.
Local Transparent code_grant.

Lemma cinv_init dyn : cinv 0 (s_store (init_state dyn)).
Proof. constructor; cbn; intros; try contradiction. intros g1 g2 []. Qed.

Lemma run_from_cinv w : forall (ops : list op) st n, sfresh n st -> cinv n (s_store st) ->
  cinv (n + List.length ops) (s_store (fst (run_from w st n ops))).
Proof.
  induction ops as [|o ops IH]; intros st n F C; cbn.
  - replace (n + 0)%nat with n by lia. exact C.
  - unfold run_from in *. cbn.
    pose proof (step_fresh w st n o F) as F1. pose proof (step_cinv w st n o F C) as C1. unfold step in *.
    destruct (step_with (@run_seq obs) w st n o) as [st' x] eqn:E. cbn in *.
    specialize (IH st' (S n) F1 C1).
    destruct (run_from_with (@run_seq obs) w st' (S n) ops) as [st'' tr] eqn:E2. cbn in *.
    replace (n + S (List.length ops))%nat with (S n + List.length ops)%nat by lia. exact IH.
Qed.

Theorem cinv_all_histories w dyn (ops : list op) :
  cinv (List.length ops) (s_store (fst (run_from w (init_state dyn) 0 ops))).
Proof. apply (run_from_cinv w ops (init_state dyn) 0%nat); [apply fresh_init|apply cinv_init]. Qed.
