(* C11 for requests that carry a request object (Model/RequiredJar.v): proofs.

   The chain: resolve_jar hands out exactly the object's contents; jar_session accepts only if the
   parameter set `session_source` (the object's alone under FAPI, the merge otherwise) passes
   validate_params, and returns exactly that set; auth_jar_client builds the session from it.  Hence
   every `..._enforced` rule of validate_params (PKCE, openid scope, the profiles' response-type /
   response-mode / nonce rules) holds for requests with objects, read on the OBJECT under FAPI. *)
From Verif Require Import Base Scope Types Prog Pop Token Authorize System Config Required Jar RequiredJar
     Rets ConfigProofs C11Proofs Tactics.
From Verif Require C07Proofs.
Local Open Scope N_scope.

Definition carries := C07Proofs.carries.

(* ---- decision level ---- *)
Lemma resolve_jar_contents prof jc cid c o j : resolve_jar prof jc cid c o = inr j -> j = contents o.
Proof.
  unfold resolve_jar.
  destruct (match ro_enc o with EncNone => None | EncOk => if jw_enc jc then None else Some EInvalidRequestObject | EncBad => Some EInvalidRequestObject end);
    [discriminate|].
  destruct (ro_sig o).
  - destruct (negb (mem_alg ANone (jar_algs jc c))); [discriminate|].
    destruct (negb (alg_eqb (ro_alg o) ANone)); [discriminate|]. intros H; inversion H; reflexivity.
  - destruct (negb (mem_alg (ro_alg o) (jar_algs jc c))); [discriminate|].
    destruct (jwk_matching o (jc_keys c)); [|discriminate].
    destruct (negb (verifies o j0)); [discriminate|].
    destruct (validate_claims prof (jw_leeway jc) cid o); [discriminate|]. intros H; inversion H; reflexivity.
  - destruct (negb (mem_alg (ro_alg o) (jar_algs jc c))); [discriminate|].
    destruct (jwk_matching o (jc_keys c)); [|discriminate].
    destruct (negb (verifies o j0)); [discriminate|].
    destruct (validate_claims prof (jw_leeway jc) cid o); [discriminate|]. intros H; inversion H; reflexivity.
Qed.

Lemma validate_params_x_none cfg p c rc both :
  validate_params_x cfg p c rc both = None -> validate_params cfg p c = None.
Proof.
  unfold validate_params_x. destruct (is_empty (p_redirect p)); [discriminate|].
  destruct (validate_optionals_x cfg p c rc both); [discriminate|]. auto.
Qed.

Lemma validate_in_out_x_none cfg i o c rc both :
  validate_in_out_x cfg i o c rc both = None -> validate_params cfg (merge_params i o) c = None.
Proof.
  unfold validate_in_out_x. destruct (andb _ _); [discriminate|].
  destruct (validate_params cfg (merge_params i o) c); [discriminate|]. auto.
Qed.

(* the parameters jar_session returns are session_source, and they passed validate_params *)
Lemma jar_session_source cfg c outer jin j p :
  jar_session cfg c outer jin j = inr p ->
  p = session_source cfg outer j /\ validate_params cfg p c = None.
Proof.
  unfold jar_session, session_source.
  destruct (negb (ideq (jr_client j) (c_id c))); [discriminate|].
  destruct (is_fapi (cf_profile cfg)) eqn:F.
  - destruct (validate_params_x cfg (jr_params j) c _ _) eqn:V; [discriminate|].
    destruct (validate_in_out_x cfg (jr_params j) outer c _ _); [discriminate|].
    destruct (jr_nested_uri j); [discriminate|]. destruct (jr_nested_req j); [discriminate|].
    intros H; inversion H; subst. split; [reflexivity|]. eapply validate_params_x_none; eauto.
  - destruct (validate_in_out_x cfg (jr_params j) outer c _ _) eqn:V; [discriminate|].
    destruct (jr_nested_uri j); [discriminate|]. destruct (jr_nested_req j); [discriminate|].
    intros H; inversion H; subst. split; [reflexivity|]. eapply validate_in_out_x_none; eauto.
Qed.

Lemma jar_decision_source cfg jc c jcl outer jin o p :
  carries jin o -> jar_decision cfg jc c jcl outer jin = inr p ->
  p = session_source cfg outer (contents o) /\ validate_params cfg p c = None.
Proof.
  intros Hin. unfold jar_decision, jar_fetch.
  assert (K : forall r, r = resolve_jar (cf_profile cfg) jc (c_id c) jcl o ->
              match lift_res r with inl e => inl e | inr j => jar_session cfg c outer jin j end = inr p ->
              p = session_source cfg outer (contents o) /\ validate_params cfg p c = None).
  { intros r Hr. destruct r as [e|j]; simpl; [discriminate|]. intros S.
    symmetry in Hr. apply resolve_jar_contents in Hr. subst j. eapply jar_session_source; eauto. }
  destruct Hin as [E | [h E]]; subst jin.
  - apply K. reflexivity.
  - destruct (cf_jar_by_reference cfg); [|discriminate]. apply K. reflexivity.
Qed.

(* under a FAPI profile the session's parameters are the object's: nothing outside reaches them *)
Lemma fapi_source_is_object cfg outer o :
  is_fapi (cf_profile cfg) = true -> session_source cfg outer (contents o) = inside o.
Proof. intros F. unfold session_source. rewrite F. reflexivity. Qed.

Lemma inside_fields o :
  p_challenge (inside o) = p_challenge (ro_params o) /\ p_nonce (inside o) = p_nonce (ro_params o) /\
  p_scopes (inside o) = p_scopes (ro_params o) /\ p_resp_type (inside o) = p_resp_type (ro_params o) /\
  p_resp_mode (inside o) = p_resp_mode (ro_params o) /\ p_dpop_jkt (inside o) = p_dpop_jkt (ro_params o).
Proof. unfold inside, contents. destruct (ro_params o). cbn. repeat split. Qed.

Lemma merged_challenge i o :
  pk_is_empty (p_challenge i) = true -> pk_is_empty (p_challenge o) = true ->
  pk_is_empty (p_challenge (merge_params i o)) = true.
Proof. intros H1 H2. unfold merge_params. cbn. rewrite H1. exact H2. Qed.

(* the monitor's reading of "required mechanism missing" is implied by validate_params refusing *)
Local Transparent validate_params.
Lemma mech_missing_sound cfg c p : validate_params cfg p c = None -> mech_missing cfg c p = 0.
Proof.
  unfold validate_params, mech_missing.
  destruct (is_empty (p_redirect p)); [discriminate|].
  destruct (validate_optionals cfg p c); [discriminate|].
  destruct (is_empty (p_resp_type p)); [discriminate|].
  destruct (andb (cf_resource_required cfg) (no_res (p_resources p))); [discriminate|].
  destruct (andb (cf_openid_required cfg) (negb (contains_openid (p_scopes p)))); [discriminate|].
  destruct (andb (rt_contains (p_resp_type p) "id_token") (negb (contains_openid (p_scopes p)))); [discriminate|].
  destruct (andb (rt_contains (p_resp_type p) "id_token") (is_empty (p_nonce p))); [discriminate|].
  destruct (cf_pkce_enabled cfg), (c_public c), (pk_is_empty (p_challenge p)), (cf_pkce_required cfg); cbn; try discriminate;
    destruct (cf_profile cfg); repeat (break_goal; try discriminate); reflexivity.
Qed.
Local Opaque validate_params.

(* ---- /authorize: handler level (sequential interpretation, as step_gj runs it) ---- *)
Lemma obtains_render_aerr cfg c e : obtains (render_aerr cfg c e) = false.
Proof. apply render_aerr_refused. Qed.

(* the program auth_jar_client runs when the object is in effect and accepted: the session is
   new_session of the parameters jar_decision returned *)
Lemma auth_jar_client_session w jx n now c q p :
  should_use_par (w_cfg w) (ar_params (jq_req q)) c = false ->
  should_use_jar (w_cfg w) (ar_params (jq_req q)) c (jq_jar q) = true ->
  jar_decision (w_cfg w) (jx_cfg jx) c (jclient_of (jx_clients jx) (c_id c)) (ar_params (jq_req q)) (jq_jar q) = inr p ->
  auth_jar_client w jx n now c q =
  bind (start_session w n now c (new_session n c p) (jq_req q)) (fun a => Ret (finish_ares (w_cfg w) c a)).
Proof. intros H1 H2 H3. unfold auth_jar_client. rewrite H1, H2, H3. reflexivity. Qed.

Lemma auth_jar_client_validated w jx n now c q st st' x o :
  cf_jar_enabled (w_cfg w) = true -> carries (jq_jar q) o ->
  p_request_uri (ar_params (jq_req q)) = 0 ->
  run_seq (auth_jar_client w jx n now c q) st = (st', x) -> obtains x = true ->
  validate_params (w_cfg w) (session_source (w_cfg w) (ar_params (jq_req q)) (contents o)) c = None.
Proof.
  intros Hen Hin Huri. unfold auth_jar_client.
  destruct (should_use_par (w_cfg w) (ar_params (jq_req q)) c).
  { rewrite Huri. simpl. intros H; inversion H; subst. discriminate. }
  destruct (should_use_jar (w_cfg w) (ar_params (jq_req q)) c (jq_jar q)) eqn:SJ.
  - destruct (jar_decision (w_cfg w) (jx_cfg jx) c (jclient_of (jx_clients jx) (c_id c)) (ar_params (jq_req q)) (jq_jar q)) as [e|p] eqn:D.
    + simpl. intros H; inversion H; subst. rewrite obtains_render_aerr. discriminate.
    + intros _ _. destruct (jar_decision_source _ _ _ _ _ _ _ _ Hin D) as [E V]. rewrite <- E. exact V.
  - unfold should_use_jar in SJ. rewrite Hen in SJ. simpl in SJ.
    destruct Hin as [E | [h E]]; rewrite E in *; simpl in SJ.
    + rewrite !orb_true_r in SJ. discriminate.
    + assert (BR : cf_jar_by_reference (w_cfg w) = false).
      { destruct (cf_jar_by_reference (w_cfg w)); auto. simpl in SJ. rewrite !orb_true_r in SJ. discriminate. }
      unfold validate_params_x, validate_optionals_x, ref_check_in, ref_check. rewrite BR. simpl.
      destruct (is_empty (p_redirect (ar_params (jq_req q)))).
      * simpl. intros H; inversion H; subst. discriminate.
      * destruct (negb (redirect_allowed c (p_redirect (ar_params (jq_req q))))); simpl;
          intros H; inversion H; subst; discriminate.
Qed.

Lemma init_auth_jar_validated w jx n now q st st' x o :
  cf_jar_enabled (w_cfg w) = true -> carries (jq_jar q) o ->
  p_request_uri (ar_params (jq_req q)) = 0 ->
  run_seq (init_auth_jar w jx n now q) st = (st', x) -> obtains x = true ->
  exists c, (In c (w_static w) \/ In c (st_clients st)) /\ c_id c = ar_client (jq_req q) /\
    validate_params (w_cfg w) (session_source (w_cfg w) (ar_params (jq_req q)) (contents o)) c = None.
Proof.
  intros Hen Hin Huri. unfold init_auth_jar.
  destruct (is_nil (ar_client (jq_req q))) eqn:Z.
  { simpl. intros H; inversion H; subst. discriminate. }
  rewrite C07Proofs.run_seq_bind. destruct (C07Proofs.get_client_spec w (ar_client (jq_req q)) st) as [oc [R Hoc]]. rewrite R.
  destruct oc as [c|]; [|simpl; intros H; inversion H; subst; discriminate].
  destruct (Hoc c eq_refl) as [Hid Hreg].
  destruct (negb (has_grant GAuthorizationCode (c_grants c) || has_grant GImplicit (c_grants c))).
  { simpl. intros H; inversion H; subst. discriminate. }
  intros H Hok. exists c. split; [exact Hreg|]. split; [exact Hid|].
  eapply auth_jar_client_validated; eauto.
Qed.

(* ---- /par ---- *)
Lemma par_jar_decision_source cfg jc c jcl outer o p :
  par_jar_decision cfg jc c jcl outer (Some o) = inr p -> p = pushed_source (contents o).
Proof.
  unfold par_jar_decision.
  destruct (resolve_jar (cf_profile cfg) jc (c_id c) jcl o) as [e|j] eqn:R; [discriminate|].
  apply resolve_jar_contents in R. subst j.
  destruct (negb (is_nil (p_request_uri outer))); [discriminate|].
  destruct (negb (ideq (jr_client (contents o)) (c_id c))); [discriminate|].
  destruct (orb _ _); [discriminate|]. intros H; inversion H; reflexivity.
Qed.

(* what push_tail refuses: under a FAPI profile everything validate_params refuses *)
Lemma push_tail_validated w n now c p b st st' x :
  is_fapi (cf_profile (w_cfg w)) = true ->
  run_seq (push_tail w n now c p b) st = (st', x) -> obtains x = true ->
  validate_params (w_cfg w) p (client_for_par (w_cfg w) c (p_redirect p)) = None.
Proof.
  intros F. unfold push_tail. rewrite F.
  destruct (negb (is_nil (p_request_uri p))). { simpl. intros H; inversion H; subst. discriminate. }
  destruct (validate_params (w_cfg w) p (client_for_par (w_cfg w) c (p_redirect p))) as [[e|e p']|]; auto;
    simpl; intros H; inversion H; subst; discriminate.
Qed.

Lemma push_auth_jar_validated w jx n now r st st' x o :
  is_fapi (cf_profile (w_cfg w)) = true -> cf_jar_enabled (w_cfg w) = true ->
  run_seq (push_auth_jar w jx n now r (Some o)) st = (st', x) -> obtains x = true ->
  exists c, (In c (w_static w) \/ In c (st_clients st)) /\ c_id c = cr_id (pr_cred r) /\
    validate_params (w_cfg w) (inside o) (client_for_par (w_cfg w) c (p_redirect (inside o))) = None.
Proof.
  intros F Hen. unfold push_auth_jar.
  destruct (negb (cf_par_enabled (w_cfg w))). { simpl. intros H; inversion H; subst. discriminate. }
  rewrite C07Proofs.run_seq_bind. destruct (C07Proofs.authenticated_spec w (pr_cred r) st) as [oc [R Hoc]]. rewrite R.
  destruct oc as [c|]; [|simpl; intros H; inversion H; subst; discriminate].
  destruct (Hoc c eq_refl) as [Hid [Hnz Hreg]].
  unfold should_use_jar_par. rewrite Hen. cbn [andb]. rewrite !orb_true_r.
  destruct (par_jar_decision (w_cfg w) (jx_cfg jx) c (jclient_of (jx_clients jx) (c_id c)) (pr_params r) (Some o)) as [e|p] eqn:D.
  { simpl. intros H; inversion H; subst. discriminate. }
  apply par_jar_decision_source in D. subst p. intros H Hok.
  exists c. split; [exact Hreg|]. split; [exact Hid|].
  eapply push_tail_validated; eauto.
Qed.

(* ---- step level ---- *)
Lemma step_gj_authorize w jx st n q :
  snd (step_gj w jx st n (GAuthorize q)) = Out (snd (run_seq (init_auth_jar w jx n (s_now st) q) (s_store st))).
Proof.
  unfold step_gj, handler_gj. rewrite C07Proofs.run_seq_bind.
  destruct (run_seq (init_auth_jar w jx n (s_now st) q) (s_store st)). reflexivity.
Qed.
Lemma step_gj_par w jx st n r ob :
  snd (step_gj w jx st n (GPar r ob)) = Out (snd (run_seq (push_auth_jar w jx n (s_now st) r ob) (s_store st))).
Proof.
  unfold step_gj, handler_gj. rewrite C07Proofs.run_seq_bind.
  destruct (run_seq (push_auth_jar w jx n (s_now st) r ob) (s_store st)). reflexivity.
Qed.

(* a request served through a request object: the parameter set the session is built from passed
   validate_params for the registered client *)
Lemma authorize_object_validated w jx st n q o :
  cf_jar_enabled (w_cfg w) = true -> carries (jq_jar q) o -> p_request_uri (ar_params (jq_req q)) = 0 ->
  obs_obtains (snd (step_gj w jx st n (GAuthorize q))) = true ->
  exists c, registered w st c /\ c_id c = ar_client (jq_req q) /\
    validate_params (w_cfg w) (session_source (w_cfg w) (ar_params (jq_req q)) (contents o)) c = None.
Proof.
  intros Hen Hin Huri. rewrite step_gj_authorize. cbn [obs_obtains].
  destruct (run_seq (init_auth_jar w jx n (s_now st) q) (s_store st)) as [st' x] eqn:R. cbn [snd]. intros Hok.
  eapply init_auth_jar_validated in R; eauto.
Qed.

Lemma par_object_validated w jx st n r o :
  is_fapi (cf_profile (w_cfg w)) = true -> cf_jar_enabled (w_cfg w) = true ->
  obs_obtains (snd (step_gj w jx st n (GPar r (Some o)))) = true ->
  exists c, registered w st c /\ c_id c = cr_id (pr_cred r) /\
    validate_params (w_cfg w) (inside o) (client_for_par (w_cfg w) c (p_redirect (inside o))) = None.
Proof.
  intros F Hen. rewrite step_gj_par. cbn [obs_obtains].
  destruct (run_seq (push_auth_jar w jx n (s_now st) r (Some o)) (s_store st)) as [st' x] eqn:R. cbn [snd]. intros Hok.
  eapply push_auth_jar_validated in R; eauto.
Qed.

(* from "validate_params refuses the source" to "the request is refused" *)
Lemma authorize_object_blocked w jx st n q o :
  cf_jar_enabled (w_cfg w) = true -> carries (jq_jar q) o -> p_request_uri (ar_params (jq_req q)) = 0 ->
  (forall c, validate_params (w_cfg w) (session_source (w_cfg w) (ar_params (jq_req q)) (contents o)) c <> None) ->
  xrefused (snd (step_gj w jx st n (GAuthorize q))).
Proof.
  intros Hen Hin Huri Hv. unfold xrefused.
  destruct (obs_obtains (snd (step_gj w jx st n (GAuthorize q)))) eqn:E; [|reflexivity].
  destruct (authorize_object_validated _ _ _ _ _ _ Hen Hin Huri E) as [c [_ [_ V]]]. exfalso. eapply Hv; eauto.
Qed.

Lemma par_object_blocked w jx st n r o :
  is_fapi (cf_profile (w_cfg w)) = true -> cf_jar_enabled (w_cfg w) = true ->
  (forall c, validate_params (w_cfg w) (inside o) c <> None) ->
  xrefused (snd (step_gj w jx st n (GPar r (Some o)))).
Proof.
  intros F Hen Hv. unfold xrefused.
  destruct (obs_obtains (snd (step_gj w jx st n (GPar r (Some o))))) eqn:E; [|reflexivity].
  destruct (par_object_validated _ _ _ _ _ _ F Hen E) as [c [_ [_ V]]]. exfalso. eapply Hv; eauto.
Qed.

(* ---- the switches, for configurations built by the option API ---- *)
Ltac flagj m d :=
  match goal with Hi : In ?o _, Hb : build _ _ = Some _ |- _ =>
    apply (build_flag _ m d o (fun c => eq_refl) _ _ _ Hi Hb) end.

Lemma build_profile p opts cfg : build p opts = Some cfg -> cf_profile cfg = p.
Proof. intros H. destruct (all_required_flags p opts cfg H) as (_&_&_&_&_&_&_&_&_&_&E). exact E. Qed.

Lemma pkce_required_flag p opts cfg d ms :
  build p opts = Some cfg -> In (WithPKCERequired d ms) opts -> cf_pkce_required cfg = true.
Proof.
  intros H Hi. destruct (all_required_flags p opts cfg H) as (_&_&_&K&_). destruct (K d ms Hi). assumption.
Qed.
Lemma openid_required_flag p opts cfg :
  build p opts = Some cfg -> In WithOpenIDScopeRequired opts -> cf_openid_required cfg = true.
Proof.
  intros H Hi. destruct (all_required_flags p opts cfg H) as (_&_&_&_&_&_&_&K&_). auto.
Qed.

(* PKCE required: the challenge must be in the parameter set the session is built from - inside
   the object under FAPI (whatever is sent outside), inside or outside under the OpenID profile *)
Lemma pkce_required_enforced_jar p opts cfg statics :
  build p opts = Some cfg -> forall jx st n d ms q o, In (WithPKCERequired d ms) opts ->
  cf_jar_enabled cfg = true -> carries (jq_jar q) o -> p_request_uri (ar_params (jq_req q)) = 0 ->
  pk_is_empty (p_challenge (ro_params o)) = true ->
  (is_fapi p = true \/ pk_is_empty (p_challenge (ar_params (jq_req q))) = true) ->
  xrefused (snd (step_gj (mkWorld cfg statics) jx st n (GAuthorize q))).
Proof.
  intros Hb jx st n d ms q o Hi Hen Hin Huri Hobj Hcase.
  apply authorize_object_blocked with (o := o); auto. intros c. cbn [w_cfg].
  apply vp_pkce_required; [eapply pkce_required_flag; eauto|].
  unfold session_source. rewrite (build_profile _ _ _ Hb).
  destruct (inside_fields o) as [Ec _].
  destruct Hcase as [F|Ho].
  - rewrite F. fold (inside o). rewrite Ec. exact Hobj.
  - destruct (is_fapi p).
    + fold (inside o). rewrite Ec. exact Hobj.
    + apply merged_challenge; [fold (inside o); rewrite Ec; exact Hobj|exact Ho].
Qed.

Lemma pkce_required_enforced_par_jar p opts cfg statics :
  build p opts = Some cfg -> forall jx st n d ms r o, In (WithPKCERequired d ms) opts ->
  is_fapi p = true -> cf_jar_enabled cfg = true -> pk_is_empty (p_challenge (ro_params o)) = true ->
  xrefused (snd (step_gj (mkWorld cfg statics) jx st n (GPar r (Some o)))).
Proof.
  intros Hb jx st n d ms r o Hi F Hen Hobj.
  apply par_object_blocked; cbn [w_cfg]; auto.
  - rewrite (build_profile _ _ _ Hb). exact F.
  - intros c. apply vp_pkce_required; [eapply pkce_required_flag; eauto|].
    destruct (inside_fields o) as [Ec _]. rewrite Ec. exact Hobj.
Qed.

Lemma openid_required_enforced_jar p opts cfg statics :
  build p opts = Some cfg -> forall jx st n q o, In WithOpenIDScopeRequired opts ->
  is_fapi p = true -> cf_jar_enabled cfg = true -> carries (jq_jar q) o -> p_request_uri (ar_params (jq_req q)) = 0 ->
  contains_openid (p_scopes (ro_params o)) = false ->
  xrefused (snd (step_gj (mkWorld cfg statics) jx st n (GAuthorize q))).
Proof.
  intros Hb jx st n q o Hi F Hen Hin Huri Hobj.
  apply authorize_object_blocked with (o := o); auto. intros c. cbn [w_cfg].
  rewrite fapi_source_is_object by (rewrite (build_profile _ _ _ Hb); exact F).
  apply vp_openid_required; [eapply openid_required_flag; eauto|].
  destruct (inside_fields o) as (_&_&Es&_). rewrite Es. exact Hobj.
Qed.

Lemma fapi1_enforced_jar p opts cfg statics :
  build p opts = Some cfg -> forall jx st n q o, p = PFapi1 ->
  cf_jar_enabled cfg = true -> carries (jq_jar q) o -> p_request_uri (ar_params (jq_req q)) = 0 ->
  (seqb (p_resp_type (ro_params o)) "code" = false /\ seqb (p_resp_type (ro_params o)) "code id_token" = false) \/
  (seqb (p_resp_type (ro_params o)) "code" = true /\ seqb (p_resp_mode (ro_params o)) "jwt" = false) \/
  (contains_openid (p_scopes (ro_params o)) = true /\ is_empty (p_nonce (ro_params o)) = true) ->
  xrefused (snd (step_gj (mkWorld cfg statics) jx st n (GAuthorize q))).
Proof.
  intros Hb jx st n q o Hp Hen Hin Huri Hobj.
  assert (Hprof : cf_profile cfg = PFapi1) by (rewrite (build_profile _ _ _ Hb); exact Hp).
  apply authorize_object_blocked with (o := o); auto. intros c. cbn [w_cfg].
  rewrite fapi_source_is_object by (rewrite Hprof; reflexivity).
  destruct (inside_fields o) as (_&En&Es&Et&Em&_).
  destruct Hobj as [[H1 H2]|[[H1 H2]|[H1 H2]]].
  - apply vp_fapi1_resp_type; [exact Hprof | rewrite Et; exact H1 | rewrite Et; exact H2].
  - apply vp_fapi1_code_needs_jwt; [exact Hprof | rewrite Et; exact H1 | rewrite Em; exact H2].
  - apply vp_fapi1_nonce; [exact Hprof | rewrite Es; exact H1 | rewrite En; exact H2].
Qed.

Lemma fapi2_enforced_jar p opts cfg statics :
  build p opts = Some cfg -> forall jx st n q o, p = PFapi2 ->
  cf_jar_enabled cfg = true -> carries (jq_jar q) o -> p_request_uri (ar_params (jq_req q)) = 0 ->
  seqb (p_resp_type (ro_params o)) "code" = false ->
  xrefused (snd (step_gj (mkWorld cfg statics) jx st n (GAuthorize q))).
Proof.
  intros Hb jx st n q o Hp Hen Hin Huri Hobj.
  assert (Hprof : cf_profile cfg = PFapi2) by (rewrite (build_profile _ _ _ Hb); exact Hp).
  apply authorize_object_blocked with (o := o); auto. intros c. cbn [w_cfg].
  rewrite fapi_source_is_object by (rewrite Hprof; reflexivity).
  destruct (inside_fields o) as (_&_&_&Et&_). apply vp_fapi2_code_only; [exact Hprof | rewrite Et; exact Hobj].
Qed.

(* the session itself: under FAPI, accepted through an object => the stored parameters are the
   object's; its code_challenge and nonce are the object's, whatever the outer request says *)
Lemma fapi_session_from_object cfg jc c jcl outer jin o p :
  is_fapi (cf_profile cfg) = true -> carries jin o ->
  jar_decision cfg jc c jcl outer jin = inr p ->
  p = inside o /\ p_challenge p = p_challenge (ro_params o) /\ p_nonce p = p_nonce (ro_params o) /\
  validate_params cfg (inside o) c = None.
Proof.
  intros F Hin D. destruct (jar_decision_source _ _ _ _ _ _ _ _ Hin D) as [E V].
  rewrite fapi_source_is_object in E by exact F. subst p.
  destruct (inside_fields o) as (Ec&En&_). repeat split; auto.
Qed.

(* what the monitor of Corr/C11Jar.v flags (clause 11) cannot happen in the model: under FAPI a
   request served through an object has every required mechanism INSIDE the object *)
Lemma fapi_object_carries_mechanisms w jx st n q o :
  is_fapi (cf_profile (w_cfg w)) = true ->
  cf_jar_enabled (w_cfg w) = true -> carries (jq_jar q) o -> p_request_uri (ar_params (jq_req q)) = 0 ->
  obs_obtains (snd (step_gj w jx st n (GAuthorize q))) = true ->
  exists c, registered w st c /\ c_id c = ar_client (jq_req q) /\ mech_missing (w_cfg w) c (inside o) = 0.
Proof.
  intros F Hen Hin Huri Hok.
  destruct (authorize_object_validated _ _ _ _ _ _ Hen Hin Huri Hok) as [c [H1 [H2 V]]].
  exists c. repeat split; auto. apply mech_missing_sound.
  rewrite fapi_source_is_object in V by exact F. exact V.
Qed.
