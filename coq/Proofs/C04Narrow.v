(* C04Narrow.v — the grant is fixed when the user approves: a CIBA poll whose validation callback approved and
   narrowed the session (BaNarrow) yields tokens only for scopes inside the NARROWED grant, and the grant it
   stores has the narrowed scopes as its granted scopes. *)
From Verif Require Import Base Scope Types Prog Pop Token Authorize System Config Hoare Tactics OneShot C04Proofs.

Lemma ciba_narrowed_request_within w n now r st st' t :
  t_ba r = BaNarrow ->
  run_seq (ciba_grant w n now r) st = (st', OTokens t) ->
  contains_all_scopes narrowed_scopes (t_scope r) = true /\
  exists g, In g (st_gsess st') /\ g_granted g = narrowed_scopes /\
            g_active g = (if is_empty (t_scope r) then narrowed_scopes else t_scope r).
Proof.
  intros HB. unfold ciba_grant. intros H.
  destruct (negb (has_grant GCiba (cf_grants (w_cfg w)))); [discriminate|].
  rewrite run_authenticated in H.
  destruct (snd (run_seq (authenticated w (t_cred r)) st)) as [c|] eqn:Ea; [|discriminate].
  destruct (is_nil (t_auth_req r)); [discriminate|].
  cbn in H. destruct (find (fun s => ideq (a_ciba s) (t_auth_req r)) (st_asess st)) as [s|] eqn:Ef; cbn in H; [|discriminate].
  destruct (negb (has_grant GCiba (c_grants c))); [discriminate|].
  destruct (c_ciba_mode c) eqn:Em; try discriminate;
  (destruct (negb (ideq (c_id c) (a_client s))); [discriminate|];
   destruct (geb now (a_expires s)); [discriminate|];
   destruct (validate_binding (w_cfg w) c (t_bind r) no_opts) eqn:Ev; [discriminate|];
   rewrite HB in H; cbn in H;
   destruct (negb (validate_resources (w_cfg w) _ (t_resources r))); [discriminate|];
   destruct (negb (validate_details (w_cfg w) _ (t_auth_details r))); [discriminate|];
   destruct (contains_all_scopes narrowed_scopes (t_scope r)) eqn:ES; cbn in H; [|discriminate];
   destruct (hg_result (t_hg r)); [discriminate|];
   destruct (make_token n c GCiba) as [tv tid];
   cbn in H; inversion H; subst st' t; clear H;
   split; [reflexivity|]; eexists; split; [left; reflexivity|]; split;
   [rewrite with_refresh_granted; reflexivity|rewrite with_refresh_active; reflexivity]).
Qed.

(* the hypotheses are satisfiable, and the narrowing is what refuses the dropped scope: three backchannel
   requests for `openid email` (all granted by the owner at /bc-authorize), polled with
   (narrow, scope email) / (narrow, no scope) / (approve, scope email) *)
From Verif Require Import Required.
Local Open Scope N_scope.
Definition nx_c5 : client :=
  mkClient 5 false [GCiba] [] [] "openid email" CibaPoll false false false false false false false 0 false None.
Definition nx_bc : op :=
  OpBcAuthorize (mkBReq (mkCred 5 true) (mkParams 0 "" "" "" "openid email" "" "" PkEmpty "" 0 "alice" 0 "" [] None)
                        no_bind true "alice" "openid email" [] []).
Definition nx_poll (a : id) (sc : string) (v : ba_reply) : op :=
  OpToken GCiba (mkTReq (mkCred 5 true) no_bind sc 0 "" 0 PkEmpty a HgOk v [] AsNone None).
Definition nx_run : option (list bool) :=
  option_map (fun cfg => map obs_obtains (run_g (mkWorld cfg [nx_c5]) []
     [nx_bc; nx_poll (mint 0 KAuthReq) "email" BaNarrow;
      nx_bc; nx_poll (mint 2 KAuthReq) "" BaNarrow;
      nx_bc; nx_poll (mint 4 KAuthReq) "email" BaApprove]))
    (build POpenID [WithScopes [ScExact "email"]; WithCIBAGrant]).
Example narrowing_refuses_the_dropped_scope : nx_run = Some [true; false; true; true; true; true].
Proof. vm_compute. reflexivity. Qed.
