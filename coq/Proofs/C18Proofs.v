(* C18Proofs.v — the aliasing store and the copying store are indistinguishable.
   1. generic: a program without Touch runs the same under run_alias and run_seq;
   2. a simulation for programs with Touch: `wp` (Model/Alias.v) follows one run and demands that every
      in-place write is written through (Save of the same id, or its deletion) before the answer and
      before the table is looked up again; `wp_sound` turns that into run_alias = run_seq;
   3. every handler of System.handler satisfies the discipline from every store whose sessions have
      exactly one index (C17's invariant, needed because ctx.SaveAuthnSession refuses anything else);
   4. induction over histories. *)
From Verif Require Import Base Scope Types Prog Pop Token Authorize System Config Hoare Tactics C17Proofs Alias.
Local Open Scope N_scope.

(* ================= 1. no Touch, no difference ================= *)
Lemma no_touch_run {A} (p : prog A) : forall st, no_touch p -> run_alias p st = run_seq p st.
Proof.
  induction p as [a|c k IH|o p IH]; intros st H; cbn in *; auto; [|contradiction].
  destruct (exec c st) as [st' r]. apply IH, H.
Qed.

Lemma no_touch_bind {A B} (p : prog A) (f : A -> prog B) :
  no_touch p -> (forall a, no_touch (f a)) -> no_touch (bind p f).
Proof. induction p as [a|c k IH|o p IH]; cbn; intros Hp Hf; auto. Qed.

(* ================= 2. the simulation ================= *)
Notation keep_a i := (fun s' : asession => negb (ideq (a_id s') i)).
Notation keep_g i := (fun g' : gsession => negb (ideq (g_id g') i)).

(* the aliased store (left) against the copying store (right): equal except for the dirty id *)
Definition sim (D : dirty) (sa ss : store) : Prop :=
  st_clients sa = st_clients ss /\
  match D with
  | Clean => st_asess sa = st_asess ss /\ st_gsess sa = st_gsess ss
  | DirtyA i => filter (keep_a i) (st_asess sa) = filter (keep_a i) (st_asess ss) /\ st_gsess sa = st_gsess ss
  | DirtyG i => st_asess sa = st_asess ss /\ filter (keep_g i) (st_gsess sa) = filter (keep_g i) (st_gsess ss)
  end.

Lemma sim_clean_eq sa ss : sim Clean sa ss -> sa = ss.
Proof. destruct sa, ss; cbn. intros (H1 & H2 & H3); cbn in *; subst; reflexivity. Qed.
Lemma sim_refl st : sim Clean st st.
Proof. repeat split. Qed.

Lemma filter_touch_a s l :
  filter (keep_a (a_id s)) (map (fun s' => if ideq (a_id s') (a_id s) then s else s') l) = filter (keep_a (a_id s)) l.
Proof.
  induction l as [|x l IH]; cbn; auto.
  destruct (ideq (a_id x) (a_id s)) eqn:E; cbn.
  - unfold ideq at 1. rewrite N.eqb_refl. cbn. exact IH.
  - rewrite E. cbn. f_equal. exact IH.
Qed.
Lemma filter_touch_g g l :
  filter (keep_g (g_id g)) (map (fun g' => if ideq (g_id g') (g_id g) then g else g') l) = filter (keep_g (g_id g)) l.
Proof.
  induction l as [|x l IH]; cbn; auto.
  destruct (ideq (g_id x) (g_id g)) eqn:E; cbn.
  - unfold ideq at 1. rewrite N.eqb_refl. cbn. exact IH.
  - rewrite E. cbn. f_equal. exact IH.
Qed.

Lemma touch_a_sim s sa ss :
  filter (keep_a (a_id s)) (st_asess sa) = filter (keep_a (a_id s)) (st_asess ss) ->
  st_clients sa = st_clients ss -> st_gsess sa = st_gsess ss ->
  sim (DirtyA (a_id s)) (touch (OA s) sa) ss.
Proof.
  intros HA HC HG. unfold touch. destruct (existsb _ _); unfold sim; cbn; repeat split; auto.
  rewrite filter_touch_a. exact HA.
Qed.
Lemma touch_g_sim g sa ss :
  filter (keep_g (g_id g)) (st_gsess sa) = filter (keep_g (g_id g)) (st_gsess ss) ->
  st_clients sa = st_clients ss -> st_asess sa = st_asess ss ->
  sim (DirtyG (g_id g)) (touch (OG g) sa) ss.
Proof.
  intros HG HC HA. unfold touch. destruct (existsb _ _); unfold sim; cbn; repeat split; auto.
  rewrite filter_touch_g. exact HG.
Qed.

Lemma touch_sim D o D' sa ss : touch_d D o = Some D' -> sim D sa ss -> sim D' (touch o sa) ss.
Proof.
  intros H [SC S]. destruct D, o; cbn in H; try discriminate.
  - inversion H; subst. destruct S as [SA SG]. apply touch_a_sim; auto. rewrite SA. reflexivity.
  - inversion H; subst. destruct S as [SA SG]. apply touch_g_sim; auto. rewrite SG. reflexivity.
  - destruct (ideq (a_id s) i) eqn:E; [|discriminate]. inversion H; subst. apply N.eqb_eq in E. subst i.
    destruct S as [SA SG]. apply touch_a_sim; auto.
  - destruct (ideq (g_id g) i) eqn:E; [|discriminate]. inversion H; subst. apply N.eqb_eq in E. subst i.
    destruct S as [SA SG]. apply touch_g_sim; auto.
Qed.

Lemma exec_sim D c D' sa ss : call_d D c = Some D' -> sim D sa ss ->
  snd (exec c sa) = snd (exec c ss) /\ sim D' (fst (exec c sa)) (fst (exec c ss)).
Proof.
  intros H [SC S].
  destruct c, D; cbn in H; try discriminate;
    try (match type of H with context [ideq ?a ?b] => destruct (ideq a b) eqn:E; [|discriminate]; apply N.eqb_eq in E end);
    inversion H; subst; clear H; destruct S as [SA SG]; unfold sim; cbn;
    try rewrite SC; try rewrite SA; try rewrite SG; try (repeat split; auto; fail).
  (* GDelByCode: the grant table is equal on both sides *)
  all: try (destruct (find _ (st_gsess ss)); unfold sim; cbn; rewrite ?SC, ?SA, ?SG; repeat split; auto; fail).
  (* ASave / GSave of the dirty id: put drops every entry with that id *)
  all: unfold put_asess, put_gsess; try rewrite SA; try rewrite SG; repeat split; auto.
Qed.

Lemma wp_sound {A} (p : prog A) : forall D sa ss Q, wp D p ss Q -> sim D sa ss ->
  exists D', sim D' (fst (run_alias p sa)) (fst (run_seq p ss)) /\
             snd (run_alias p sa) = snd (run_seq p ss) /\
             Q D' (fst (run_seq p ss)) (snd (run_seq p ss)).
Proof.
  induction p as [a|c k IH|o p IH]; intros D sa ss Q W S; cbn in *.
  - exists D; auto.
  - destruct (call_d D c) as [D1|] eqn:E; [|contradiction].
    destruct (exec_sim _ _ _ _ _ E S) as [R S'].
    destruct (exec c sa) as [sa' ra], (exec c ss) as [ss' rs]; cbn in *; subst. eapply IH; eauto.
  - destruct (touch_d D o) as [D1|] eqn:E; [|contradiction].
    eapply IH; eauto using touch_sim.
Qed.

Lemma written_through_sound {A} (p : prog A) st : written_through p st -> run_alias p st = run_seq p st.
Proof.
  intros W. destruct (wp_sound p Clean st st _ W (sim_refl st)) as (D' & S & R & ->).
  apply sim_clean_eq in S. rewrite (surjective_pairing (run_alias p st)), (surjective_pairing (run_seq p st)).
  f_equal; assumption.
Qed.

(* ---- the calculus ---- *)
Lemma wp_mono {A} (p : prog A) : forall D st (Q Q' : dirty -> store -> A -> Prop),
  (forall D' st' a, Q D' st' a -> Q' D' st' a) -> wp D p st Q -> wp D p st Q'.
Proof.
  induction p as [a|c k IH|o p IH]; intros D st Q Q' HQ W; cbn in *; auto.
  - destruct (call_d D c); [|contradiction]. eapply IH; eauto.
  - destruct (touch_d D o); [|contradiction]. eapply IH; eauto.
Qed.
Lemma wp_bind {A B} (p : prog A) (f : A -> prog B) : forall D st Q,
  wp D p st (fun D' st' a => wp D' (f a) st' Q) -> wp D (bind p f) st Q.
Proof.
  induction p as [a|c k IH|o p IH]; intros D st Q W; cbn in *; auto.
  - destruct (call_d D c); [|contradiction]. apply IH, W.
  - destruct (touch_d D o); [|contradiction]. apply IH, W.
Qed.
Lemma call_d_clean c : call_d Clean c = Some Clean.
Proof. destruct c; reflexivity. Qed.
Lemma no_touch_wp {A} (p : prog A) : forall st (Q : dirty -> store -> A -> Prop),
  no_touch p -> (forall st' a, Q Clean st' a) -> wp Clean p st Q.
Proof.
  induction p as [a|c k IH|o p IH]; intros st Q N HQ; cbn in *; auto; [|contradiction].
  rewrite call_d_clean. apply IH; auto.
Qed.
Lemma no_touch_wt {A} (p : prog A) st : no_touch p -> written_through p st.
Proof. intros N. apply no_touch_wp; auto. Qed.
Lemma wt_lift {A B} (p : prog A) (g : A -> B) st :
  written_through p st -> written_through (bind p (fun x => Ret (g x))) st.
Proof. intros W. apply wp_bind. eapply wp_mono; [|exact W]. cbn. auto. Qed.

(* the client a handler gets for an id: the static one, else the stored one *)
Definition client_of (w : world) (st : store) (i : id) : option client :=
  match find_client i (w_static w) with Some c => Some c | None => find_client i (st_clients st) end.
Lemma wp_get_client w i D st (Q : dirty -> store -> option client -> Prop) :
  Q D st (client_of w st i) -> wp D (get_client w i) st Q.
Proof.
  unfold get_client, client_of. destruct (find_client i (w_static w)); cbn; auto.
  destruct (find_client i (st_clients st)); cbn; auto.
Qed.
Lemma wp_authenticated w cr D st (Q : dirty -> store -> option client -> Prop) :
  (forall oc, Q D st oc) -> wp D (authenticated w cr) st Q.
Proof.
  intros H. unfold authenticated. destruct (is_nil (cr_id cr)); cbn; auto.
  apply wp_bind, wp_get_client. destruct (client_of w st (cr_id cr)) as [c|]; cbn; auto.
  destruct (c_public c || cr_ok cr)%bool; cbn; auto.
Qed.
Lemma client_of_id w st i c : client_of w st i = Some c -> c_id c = i.
Proof.
  unfold client_of, find_client. destruct (find _ (w_static w)) eqn:E.
  - intros H; inversion H; subst. apply find_some in E as [_ E]. apply N.eqb_eq in E. exact E.
  - intros H. apply find_some in H as [_ H]. apply N.eqb_eq in H. exact H.
Qed.

(* ================= 3. the handlers ================= *)
Local Opaque contains_all_scopes are_scopes_allowed validate_binding validate_pkce refresh_binding
       validate_params validate_optionals validate_in_out merge_params mint make_token
       validate_jwt validate_pop set_pop_jkt set_pop_x5t nav_mode render_aerr rt_contains contains_openid
       hg_result new_grant with_refresh client_for_par should_use_par classify extract_id.

(* ---- 3a. handlers without Touch ---- *)
Ltac nt :=
  repeat (cbn;
          try match goal with
              | |- True => exact I
              | |- forall _, _ => intro
              end;
          try break_goal).
Lemma get_client_nt w i : no_touch (get_client w i).
Proof. unfold get_client. nt. Qed.
Lemma authenticated_nt w cr : no_touch (authenticated w cr).
Proof.
  unfold authenticated. destruct (is_nil (cr_id cr)); [exact I|].
  apply no_touch_bind; [apply get_client_nt|]. intros [c|]; nt.
Qed.
Ltac auth_nt := apply no_touch_bind; [apply authenticated_nt|]; intros [?c|]; [|exact I].

Lemma code_grant_nt w n now r : no_touch (code_grant w n now r).
Proof. unfold code_grant. do 2 (break_goal; [exact I|]). auth_nt. nt. Qed.
Lemma cc_grant_nt w n now r : no_touch (cc_grant w n now r).
Proof. unfold cc_grant. break_goal; [exact I|]. auth_nt. nt. Qed.
Lemma jwt_bearer_grant_nt w n now r : no_touch (jwt_bearer_grant w n now r).
Proof.
  unfold jwt_bearer_grant, jwt_bearer_client. break_goal; [exact I|].
  apply no_touch_bind; [apply no_touch_bind; [apply authenticated_nt|]; intros [c|]; nt|]. intros [c|]; [|exact I]. nt.
Qed.
Lemma ciba_grant_nt w n now r : no_touch (ciba_grant w n now r).
Proof. unfold ciba_grant. break_goal; [exact I|]. auth_nt. nt. Qed.
Lemma push_auth_nt w n now r : no_touch (push_auth w n now r).
Proof. unfold push_auth, save_a. break_goal; [exact I|]. auth_nt. nt. Qed.
Lemma init_back_auth_nt w n now r : no_touch (init_back_auth w n now r).
Proof. unfold init_back_auth, save_a. break_goal; [exact I|]. auth_nt. nt. Qed.
Lemma notify_success_nt w n now a hg : no_touch (notify_success w n now a hg).
Proof.
  unfold notify_success. cbn. intros rp; destruct rp; try exact I.
  apply no_touch_bind; [apply get_client_nt|]. intros [c|]; [|exact I]. nt.
Qed.
Lemma notify_failure_nt w a : no_touch (notify_failure w a).
Proof.
  unfold notify_failure. cbn. intros rp; destruct rp; try exact I.
  apply no_touch_bind; [apply get_client_nt|]. intros [c|]; [|exact I]. nt.
Qed.
Lemma introspection_info_nt now p : no_touch (introspection_info now p).
Proof. unfold introspection_info. nt. Qed.
Lemma introspect_nt w now r : no_touch (introspect w now r).
Proof.
  unfold introspect. break_goal; [exact I|]. auth_nt.
  break_goal; [exact I|]. break_goal; try exact I; (apply no_touch_bind; [apply introspection_info_nt|]; intros; exact I).
Qed.
Lemma revoke_nt w now r : no_touch (revoke w now r).
Proof.
  unfold revoke. break_goal; [exact I|]. auth_nt.
  break_goal; [exact I|]. apply no_touch_bind; [apply introspection_info_nt|]. intros i. nt.
Qed.
Lemma userinfo_nt w now r : no_touch (userinfo w now r).
Proof.
  unfold userinfo. break_goal; [exact I|]. break_goal; [|exact I].
  cbn. intros rp; destruct rp; try exact I.
  repeat (break_goal; try exact I).
  apply no_touch_bind; [apply get_client_nt|]. intros [c|]; exact I.
Qed.
Lemma token_info_nt now p : no_touch (token_info now p).
Proof. unfold token_info. apply no_touch_bind; [apply introspection_info_nt|]. intros; exact I. Qed.
Lemma token_info_req_nt now r : no_touch (token_info_from_request now r).
Proof.
  unfold token_info_from_request. break_goal; [exact I|].
  apply no_touch_bind; [apply introspection_info_nt|]. intros i. nt.
Qed.

(* ---- 3b. the refresh grant: Touch of the loaded grant, then GSave of the same grant ---- *)
Ltac wt_step := cbn; rewrite ?N.eqb_refl; try reflexivity.
Lemma refresh_grant_wt w n now r st : written_through (refresh_grant w n now r) st.
Proof.
  unfold written_through, refresh_grant.
  do 2 (break_goal; [reflexivity|]).
  apply wp_bind, wp_authenticated. intros [c|]; [|reflexivity].
  cbn. destruct (find _ (st_gsess st)) as [g|]; cbn; [|reflexivity].
  repeat (break_goal; wt_step).
Qed.

(* ---- 3c. the authorization endpoint and its callback ---- *)
Definition sess_ready (s : asession) : Prop := a_par s = 0 /\ a_ciba s = 0 /\ a_code s = 0 /\ a_cb s <> 0.

Lemma mint_not_nil n k : is_nil (mint n k) = false.
Proof.
  Local Transparent mint. unfold is_nil, mint. apply N.eqb_neq. destruct k; cbn; lia. Local Opaque mint.
Qed.
Lemma is_nil_false x : x <> 0 -> is_nil x = false.
Proof. intros H. apply N.eqb_neq. exact H. Qed.
Lemma ideq_refl x : ideq x x = true.
Proof. apply N.eqb_refl. Qed.

Lemma touch_d_a D (s' : asession) i :
  D = Clean \/ D = DirtyA i -> a_id s' = i -> touch_d D (OA s') = Some (DirtyA i).
Proof. intros [->| ->] E; cbn; rewrite E; auto. rewrite ideq_refl. reflexivity. Qed.
Lemma wp_touch_a {A} D (s' : asession) i (p : prog A) st Q :
  D = Clean \/ D = DirtyA i -> a_id s' = i -> wp (DirtyA i) p st Q -> wp D (Touch (OA s') p) st Q.
Proof. intros HD E W. cbn. rewrite (touch_d_a D s' i HD E). exact W. Qed.

(* the implicit-flow tail and the final navigation never touch anything *)
Lemma authenticate_wp w n now s pol st D (Q : dirty -> store -> ares -> Prop) :
  sess_ready s ->
  D = Clean \/ D = DirtyA (a_id s) ->
  (forall st' a, st_clients st' = st_clients st -> Q Clean st' a) ->
  (forall e, client_of w st (a_client s) = None -> Q (DirtyA (a_id s)) st (AFail e)) ->
  wp D (authenticate w n now s pol) st Q.
Proof.
  intros (Hpar & Hciba & Hcode & Hcb) HD HQ HQd.
  unfold authenticate. destruct pol as [sub granted gres gdet| | |e0].
  - (* success *)
    apply (wp_touch_a D _ (a_id s)); [exact HD|reflexivity|].
    apply wp_bind, wp_get_client.
    change (a_client (s <| a_subject := sub |> <| a_granted := granted |> <| a_granted_res := gres |> <| a_granted_details := gdet |>)) with (a_client s).
    destruct (client_of w st (a_client s)) as [c|] eqn:EC.
    2:{ cbn. apply HQd. reflexivity. }
    destruct (negb (rt_contains _ "code")) eqn:ERT.
    + (* no code: the session is deleted *)
      cbn. rewrite ideq_refl. cbn.
      break_goal.
      * destruct (make_token n c GImplicit) as [tv tid]. cbn. apply HQ. reflexivity.
      * cbn. apply HQ. reflexivity.
    + (* code: touched again, then saved *)
      apply (wp_touch_a _ _ (a_id s)); [right; reflexivity|reflexivity|].
      unfold save_a, n_indexes. cbn. rewrite Hpar, Hciba, mint_not_nil. cbn.
      rewrite ideq_refl. cbn.
      break_goal.
      * destruct (make_token n c GImplicit) as [tv tid]. cbn. apply HQ. reflexivity.
      * cbn. apply HQ. reflexivity.
  - (* in progress: touched, then saved *)
    apply (wp_touch_a D _ (a_id s)); [exact HD|reflexivity|].
    unfold save_a, n_indexes. cbn. rewrite Hpar, Hciba, Hcode, (is_nil_false _ Hcb). cbn.
    rewrite ideq_refl. cbn. apply HQ. reflexivity.
  - (* failure: deleted *)
    destruct HD as [->| ->]; cbn; rewrite ?ideq_refl; cbn; apply HQ; reflexivity.
  - destruct HD as [->| ->]; cbn; rewrite ?ideq_refl; cbn; apply HQ; reflexivity.
Qed.

Lemma start_session_wp w n now c s r st (Q : dirty -> store -> ares -> Prop) :
  a_ciba s = 0 -> a_code s = 0 ->
  client_of w st (a_client s) <> None ->
  (forall st' a, st_clients st' = st_clients st -> Q Clean st' a) ->
  wp Clean (start_session w n now c s r) st Q.
Proof.
  intros Hciba Hcode HC HQ. unfold start_session.
  break_goal; [cbn; apply HQ; reflexivity|].
  break_goal; [cbn; apply HQ; reflexivity|].
  match goal with |- wp _ (Touch (OA ?s1) _) _ _ => set (s' := s1) end.
  apply (wp_touch_a Clean s' (a_id s')); [left; reflexivity|reflexivity|].
  apply authenticate_wp.
  - unfold sess_ready, s'. cbn. repeat split; auto. apply N.eqb_neq. apply mint_not_nil.
  - right. reflexivity.
  - exact HQ.
  - intros e EC. exfalso. apply HC. exact EC.
Qed.

Definition asess_one_idx (st : store) : Prop := forall s, In s (st_asess st) -> n_indexes s = 1%nat.

Lemma one_idx_par s : n_indexes s = 1%nat -> is_nil (a_par s) = false ->
  a_cb s = 0 /\ a_code s = 0 /\ a_ciba s = 0.
Proof.
  unfold n_indexes, is_nil. intros H E. rewrite E in H.
  destruct (a_cb s =? 0) eqn:E1, (a_code s =? 0) eqn:E2, (a_ciba s =? 0) eqn:E3; cbn in H; try discriminate.
  apply N.eqb_eq in E1, E2, E3. auto.
Qed.
Lemma one_idx_cb s : n_indexes s = 1%nat -> is_nil (a_cb s) = false ->
  a_par s = 0 /\ a_code s = 0 /\ a_ciba s = 0.
Proof.
  unfold n_indexes, is_nil. intros H E. rewrite E in H.
  destruct (a_par s =? 0) eqn:E1, (a_code s =? 0) eqn:E2, (a_ciba s =? 0) eqn:E3; cbn in H; try discriminate.
  apply N.eqb_eq in E1, E2, E3. auto.
Qed.

Lemma init_auth_wt w n now r st : asess_one_idx st -> written_through (init_auth w n now r) st.
Proof.
  intros Inv. unfold written_through, init_auth.
  destruct (is_nil (ar_client r)); [reflexivity|].
  apply wp_bind, wp_get_client.
  destruct (client_of w st (ar_client r)) as [c|] eqn:EC; [|reflexivity].
  break_goal; [reflexivity|].
  destruct (should_use_par _ _ _).
  - (* through a pushed request *)
    destruct (is_nil (p_request_uri (ar_params r))) eqn:EU; [reflexivity|].
    cbn. destruct (find _ (st_asess st)) as [s|] eqn:EF; cbn; [|reflexivity].
    apply find_some in EF as [HIn Hpar].
    assert (Hnn : is_nil (a_par s) = false).
    { apply N.eqb_eq in Hpar. unfold is_nil. rewrite Hpar. exact EU. }
    destruct (one_idx_par s (Inv s HIn) Hnn) as (Hcb & Hcode & Hciba).
    destruct (ideq (a_client s) (ar_client r)) eqn:ECl; cbn.
    2:{ reflexivity. }
    apply N.eqb_eq in ECl.
    match goal with |- wp _ (match ?v with _ => _ end) _ _ => destruct v end.
    + reflexivity.
    + apply wp_bind. apply start_session_wp.
      * destruct (is_fapi _); cbn; auto.
      * destruct (is_fapi _); cbn; auto.
      * replace (a_client (if is_fapi (cf_profile (w_cfg w)) then s else s <| a_params := merge_params (a_params s) (ar_params r) |>))
          with (ar_client r) by (destruct (is_fapi _); cbn; auto).
        rewrite EC. discriminate.
      * intros; reflexivity.
  - (* a plain request: the session is new *)
    break_goal; [reflexivity|].
    apply wp_bind. apply start_session_wp; cbn; auto.
    rewrite (client_of_id _ _ _ _ EC), EC. discriminate.
Qed.

Lemma continue_auth_wt w n now r st : asess_one_idx st -> written_through (continue_auth w n now r) st.
Proof.
  intros Inv. unfold written_through, continue_auth.
  destruct (is_nil (cb_id r)) eqn:EU; [reflexivity|].
  cbn. destruct (find _ (st_asess st)) as [s|] eqn:EF; cbn; [|reflexivity].
  apply find_some in EF as [HIn Hcb].
  assert (Hnn : is_nil (a_cb s) = false).
  { apply N.eqb_eq in Hcb. unfold is_nil. rewrite Hcb. exact EU. }
  destruct (one_idx_cb s (Inv s HIn) Hnn) as (Hpar & Hcode & Hciba).
  break_goal; [reflexivity|].
  apply wp_bind. apply authenticate_wp.
  - repeat split; auto. apply N.eqb_neq. exact Hnn.
  - left; reflexivity.
  - intros st' [o|e] _; [reflexivity|].
    apply wp_bind, wp_get_client. destruct (client_of w st' (a_client s)); cbn; reflexivity.
  - intros e EC. apply wp_bind, wp_get_client. rewrite EC. cbn. rewrite ideq_refl. reflexivity.
Qed.

(* ---- every handler ---- *)
Theorem handler_wt w n now o st : asess_one_idx st -> written_through (handler w n now o) st.
Proof.
  intros Inv. unfold handler.
  destruct o; try (apply wt_lift).
  - apply init_auth_wt, Inv.
  - apply continue_auth_wt, Inv.
  - apply no_touch_wt, push_auth_nt.
  - destruct g; try (apply no_touch_wt; exact I); apply wt_lift.
    + apply no_touch_wt, cc_grant_nt.
    + apply no_touch_wt, code_grant_nt.
    + apply refresh_grant_wt.
    + apply no_touch_wt, jwt_bearer_grant_nt.
    + apply no_touch_wt, ciba_grant_nt.
  - apply no_touch_wt, introspect_nt.
  - apply no_touch_wt, revoke_nt.
  - apply no_touch_wt, userinfo_nt.
  - apply no_touch_wt, token_info_nt.
  - apply no_touch_wt, token_info_req_nt.
  - apply no_touch_wt, init_back_auth_nt.
  - apply no_touch_wt, notify_success_nt.
  - apply no_touch_wt, notify_failure_nt.
  - apply no_touch_wt. exact I.
Qed.

(* ================= 4. histories ================= *)
Lemma step_alias_eq w st n o : asess_one_idx (s_store st) -> step_alias w st n o = step w st n o.
Proof.
  intros Inv. unfold step_alias, step, step_with.
  destruct o; try reflexivity; rewrite written_through_sound; try reflexivity; apply handler_wt, Inv.
Qed.

Lemma all_one_index_asess st : all_one_index st -> asess_one_idx (s_store st).
Proof. intros [_ H]. exact H. Qed.

Lemma run_from_alias_eq w : forall ops st n, all_one_index st -> run_from_alias w st n ops = run_from w st n ops.
Proof.
  induction ops as [|o ops IH]; intros st n Inv; [reflexivity|].
  unfold run_from_alias, run_from in *. cbn [run_from_with].
  pose proof (step_alias_eq w st n o (all_one_index_asess st Inv)) as E. unfold step_alias, step in E. rewrite E.
  pose proof (step_one_index w st n o Inv) as Inv'. unfold step in Inv'.
  destruct (step_with (@run_seq obs) w st n o) as [st' x]. cbn in Inv'.
  rewrite (IH st' (S n) Inv'). reflexivity.
Qed.

Lemma init_one_index dyn : all_one_index (init_state dyn).
Proof. split; intros ? []. Qed.

Theorem alias_copy_equiv_all w dyn ops :
  run_from_alias w (init_state dyn) 0 ops = run_from w (init_state dyn) 0 ops.
Proof. apply run_from_alias_eq, init_one_index. Qed.

(* ---- instances ---- *)
Lemma run_from_inst_eq interp (inst : nat -> world) w : (forall k, inst k = w) ->
  forall ops st n, run_from_inst interp inst st n ops = run_from_with interp w st n ops.
Proof.
  intros H. induction ops as [|o ops IH]; intros st n; cbn; [reflexivity|].
  rewrite H. destruct (step_with interp w st n o) as [st' x]. rewrite IH. reflexivity.
Qed.

(* a history can be cut anywhere and continued by whoever holds the state *)
Lemma run_from_app interp w : forall ops1 ops2 st n,
  run_from_with interp w st n (ops1 ++ ops2) =
  let '(st1, tr1) := run_from_with interp w st n ops1 in
  let '(st2, tr2) := run_from_with interp w st1 (n + List.length ops1) ops2 in
  (st2, (tr1 ++ tr2)%list).
Proof.
  induction ops1 as [|o ops1 IH]; intros ops2 st n; cbn.
  - rewrite Nat.add_0_r. destruct (run_from_with interp w st n ops2); reflexivity.
  - destruct (step_with interp w st n o) as [st' x]. rewrite IH.
    destruct (run_from_with interp w st' (S n) ops1) as [st1 tr1].
    replace (n + S (List.length ops1))%nat with (S n + List.length ops1)%nat by lia.
    destruct (run_from_with interp w st1 (S n + List.length ops1) ops2); reflexivity.
Qed.

(* ---- the interpreters do differ on programs that do not write through ---- *)
Definition c18_g0 : gsession := mkGSession 40 33 0 100%Z 100%Z 0 GAuthorizationCode "alice" 1 "openid email" "openid email" 0 0 [] [] [] [].
Definition c18_bad : prog unit := Touch (OG (c18_g0 <| g_active := "openid" |>)) (Ret tt).
Lemma alias_differs_without_write_through :
  fst (run_alias c18_bad (mkStore [] [] [c18_g0])) <> fst (run_seq c18_bad (mkStore [] [] [c18_g0])).
Proof. vm_compute. discriminate. Qed.
