(* C15MixedSweeps.v — the sweeps (vm_compute over EVERY interleaving) for Model/RaceMixed.v: racing CIBA polls
   with mixed embedder verdicts (at most one approve among them) + an approved follow-up poll: at most ONE token
   response per auth_req_id on every schedule, lenient and strict storage; the polls told to wait (pending /
   slow_down) perform CGet AGet - a lookup and no write - on every schedule. *)
From Verif Require Import Base Scope Types Prog Pop Token Authorize System Config Run Monitors Race RaceUri RaceStrict RaceMixed Tactics.
Require Import Lia.
Local Open Scope nat_scope.
Local Open Scope string_scope.

Definition mx_sched_ok (su : racesetup) (vs : list ba_reply) (sc : list nat) : bool :=
  forallb (fun strict => let ex := sem_of strict in
     andb (Nat.leb (mx_tokens ex su vs sc) 1) (wait_logs_ok vs (mx_logs ex su vs sc))) [false; true].
Definition mx_ok (su : racesetup) (vs : list ba_reply) : bool := forallb (mx_sched_ok su vs) (mx_schedules su vs).
Definition mx_all_ok (su : racesetup) (k : nat) : bool := forallb (mx_ok su) (mx_cases k).

Lemma mx_all_ok_spec su k : mx_all_ok su k = true ->
  forall vs, In vs (mx_cases k) -> forall sc, In sc (mx_schedules su vs) -> forall strict,
    mx_tokens (sem_of strict) su vs sc <= 1 /\ wait_logs_ok vs (mx_logs (sem_of strict) su vs sc) = true.
Proof.
  unfold mx_all_ok, mx_ok. intros H vs Hvs sc Hsc strict.
  rewrite forallb_forall in H. specialize (H vs Hvs). rewrite forallb_forall in H. specialize (H sc Hsc).
  unfold mx_sched_ok in H. cbn [forallb] in H. cbv beta zeta in H.
  apply andb_true_iff in H as [Hf Ht]. apply andb_true_iff in Ht as [Ht _].
  apply andb_true_iff in Hf as [Hf1 Hf2]. apply andb_true_iff in Ht as [Ht1 Ht2].
  destruct strict; split; try assumption; apply Nat.leb_le; assumption.
Qed.

(* the exact count, for the record: one token response unless a deny consumed the session first *)
Definition mx_exact_ok (su : racesetup) (vs : list ba_reply) : bool :=
  forallb (fun sc => forallb (fun strict =>
     let n := mx_tokens (sem_of strict) su vs sc in
     if existsb (fun v => match v with BaDeny => true | _ => false end) vs then Nat.leb n 1 else Nat.eqb n 1) [false; true])
    (mx_schedules su vs).

Lemma sweep_mixed_2 : forall rot, mx_all_ok (setup_of (scn_ciba rot)) 2 = true.
Proof. intros []; vm_cast_no_check (eq_refl true). Qed.
Lemma sweep_mixed_3 : forall rot, mx_all_ok (setup_of (scn_ciba rot)) 3 = true.
Proof. intros []; vm_cast_no_check (eq_refl true). Qed.
Lemma sweep_mixed_exact_2 : forall rot, forallb (mx_exact_ok (setup_of (scn_ciba rot))) (mx_cases 2) = true.
Proof. intros []; vm_cast_no_check (eq_refl true). Qed.

(* the unchanged flow's storage calls, per verdict, one poll served alone *)
Lemma sweep_mixed_solo : forall rot, let su := setup_of (scn_ciba rot) in
  mx_solo_log su BaApprove = [KCGet; KAGet; KADel; KGSave] /\
  mx_solo_log su BaPending = [KCGet; KAGet] /\
  mx_solo_log su BaSlowDown = [KCGet; KAGet] /\
  mx_solo_log su BaDeny = [KCGet; KAGet; KADel].
Proof. intros []; vm_compute; repeat split. Qed.

Lemma mixed_two_lemma : forall rotation vs sched strict, In vs (mx_cases 2) ->
  let su := setup_of (scn_ciba rotation) in
  In sched (mx_schedules su vs) ->
  mx_tokens (sem_of strict) su vs sched <= 1 /\ wait_logs_ok vs (mx_logs (sem_of strict) su vs sched) = true.
Proof. intros rot vs sc strict Hvs su Hsc. exact (mx_all_ok_spec _ _ (sweep_mixed_2 rot) vs Hvs sc Hsc strict). Qed.

Lemma mixed_three_lemma : forall rotation vs sched strict, In vs (mx_cases 3) ->
  let su := setup_of (scn_ciba rotation) in
  In sched (mx_schedules su vs) ->
  mx_tokens (sem_of strict) su vs sched <= 1 /\ wait_logs_ok vs (mx_logs (sem_of strict) su vs sched) = true.
Proof. intros rot vs sc strict Hvs su Hsc. exact (mx_all_ok_spec _ _ (sweep_mixed_3 rot) vs Hvs sc Hsc strict). Qed.

Lemma mx_exact_spec su vs : mx_exact_ok su vs = true ->
  existsb (fun v => match v with BaDeny => true | _ => false end) vs = false ->
  forall sc strict, In sc (mx_schedules su vs) -> mx_tokens (sem_of strict) su vs sc = 1.
Proof.
  unfold mx_exact_ok. intros H Hd sc strict Hsc.
  rewrite forallb_forall in H. specialize (H sc Hsc). cbn [forallb] in H. cbv beta zeta in H. rewrite Hd in H.
  apply andb_true_iff in H as [Hf Ht]. apply andb_true_iff in Ht as [Ht _].
  destruct strict; apply Nat.eqb_eq; [exact Ht | exact Hf].
Qed.

Lemma mixed_exact_lemma : forall rotation vs sched strict, In vs (mx_cases 2) ->
  existsb (fun v => match v with BaDeny => true | _ => false end) vs = false ->
  let su := setup_of (scn_ciba rotation) in
  In sched (mx_schedules su vs) -> mx_tokens (sem_of strict) su vs sched = 1.
Proof.
  intros rot vs sc strict Hvs Hd su Hsc. pose proof (sweep_mixed_exact_2 rot) as H.
  rewrite forallb_forall in H. exact (mx_exact_spec _ _ (H vs Hvs) Hd sc strict Hsc).
Qed.
