(* C15UriSweeps.v — the pushed request_uri presented by racing authorization requests, for every
   response type (Model/RaceUri.v): the sweeps over EVERY interleaving of two requests (three: C15UriSweeps3A/B.v). *)
From Verif Require Import Base Scope Types Prog Pop Token Authorize System Config Run Monitors Race RaceUri Tactics C15Sweeps C15UriDefs.
Local Open Scope nat_scope.
Local Open Scope string_scope.

Lemma live_uri : forall rot, forallb (fun rt => uri_live rt rot) ru_resp_types = true.
Proof. intros []; vm_cast_no_check (eq_refl true). Qed.

(* every interleaving of two requests, every response type *)
Lemma sweep_uri_2 : forall rot, forallb (fun rt => uri_ok rt (setup_of (scn_uri rt rot)) 2) ru_resp_types = true.
Proof. intros []; vm_cast_no_check (eq_refl true). Qed.

(* refutations and the serial schedule *)
Lemma double_uri : forall rot, forallb (fun rt => uri_double rt (setup_of (scn_uri rt rot))) ru_resp_types = true.
Proof. intros []; vm_cast_no_check (eq_refl true). Qed.
Lemma serial_uri_2 : forall rot, forallb (fun rt => serial_one (setup_of (scn_uri rt rot)) 2) ru_resp_types = true.
Proof. intros []; vm_cast_no_check (eq_refl true). Qed.

