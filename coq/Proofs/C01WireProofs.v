(* C01WireProofs.v — placement of credential members (Model/AuthnWire.v) and the outcomes of the
   nine entry points, the jwt-bearer grant's anonymous path included (Model/AuthnEntry.v). *)
From Verif Require Import Base Scope Types Prog Pop Token Authorize Config Authn AuthnSpec AuthnLink
                          AuthnWire AuthnEntry Tactics C01Proofs.
Local Open Scope N_scope.
Set Warnings "-unused-intro-pattern".
Import Bool.

(* ---- reading a wire request ---- *)
Lemma request_of_body_view w : request_of w = body_view w.
Proof. reflexivity. Qed.

Lemma same_but_query_request w w' : same_but_query w w' -> request_of w = request_of w'.
Proof.
  intros (H1 & H2 & H3 & H4 & H5 & H6 & H7 & H8).
  rewrite !request_of_body_view. unfold body_view. rewrite H1, H2, H3, H4, H5, H6, H7, H8. reflexivity.
Qed.

Lemma query_string_ignored_l g e req cls w w' :
  same_but_query w w' -> entry_outcome g e req cls w = entry_outcome g e req cls w'.
Proof. intro H. unfold entry_outcome. rewrite (same_but_query_request w w' H). reflexivity. Qed.

(* ---- outcomes ---- *)
Lemma outcome_client g e req cls w c :
  fst (entry_outcome g e req cls w) = OutClient c <-> authenticated g (entry_ctx e) cls (request_of w) = Some c.
Proof.
  unfold entry_outcome, authenticated. simpl.
  destruct (ar_client (authenticated_full g (entry_ctx e) cls (request_of w))) as [c'|].
  - split; intro H; injection H as ->; reflexivity.
  - split; [|discriminate].
    destruct (is_jwt_bearer e && (negb req && negb (ar_identified (authenticated_full g (entry_ctx e) cls (request_of w))))); discriminate.
Qed.

Lemma authenticated_inv g x cls rq c :
  authenticated g x cls rq = Some c -> fst (authenticate g c x rq) = true.
Proof.
  unfold authenticated, authenticated_full.
  destruct (extract_id g rq) as [| |i]; simpl; try discriminate.
  destruct (find_aclient i cls) as [c'|]; simpl; try discriminate.
  destruct (authenticate g c' x rq) as [ok f] eqn:E. destruct ok; simpl; try discriminate.
  intro H; injection H as <-. rewrite E. reflexivity.
Qed.

Lemma authn_wire_sound_l g e req cls w c :
  fst (entry_outcome g e req cls w) = OutClient c -> ca_id c <> 0 ->
  registered cls c /\ valid_credential g (entry_ctx e) c (body_view w).
Proof. intros H Hid. apply outcome_client in H. rewrite <- request_of_body_view. apply authn_sound_l; auto. Qed.

Lemma authn_wire_complete_l g e req cls w c :
  registered cls c -> valid_credential g (entry_ctx e) c (body_view w) -> unambiguous c (body_view w) ->
  fst (entry_outcome g e req cls w) = OutClient c.
Proof. intros H1 H2 H3. apply outcome_client. rewrite request_of_body_view. apply authn_complete_l; auto. Qed.

(* ---- placement ---- *)
Lemma body_id_some w i : rq_form_id (body_view w) = i -> i <> 0 -> in_body (wq_id w) = Some i.
Proof. unfold body_view; simpl. destruct (in_body (wq_id w)); intros; subst; congruence. Qed.

Lemma credential_placement_l g e req cls w c :
  fst (entry_outcome g e req cls w) = OutClient c -> ca_id c <> 0 -> placement (entry_ctx e) c w.
Proof.
  intros H Hid. destruct (authn_wire_sound_l _ _ _ _ _ _ H Hid) as [_ [_ Hm]].
  unfold method_credential in Hm. unfold placement.
  destruct (registered_method c (entry_ctx e)); auto.
  - (* basic *) destruct Hm as (s & H1 & _). exists s. exact H1.
  - (* post *) destruct Hm as (H1 & H2 & _). split; [apply body_id_some; auto|].
    unfold body_view in H2; simpl in H2. destruct (in_body (wq_secret w)) as [s|]; [|congruence]. exists s. auto.
  - (* secret jwt *) destruct Hm as (H1 & a & H2 & _). unfold body_view in H1, H2; simpl in H1, H2. split.
    + destruct (in_body (wq_type w)) as [[]|]; try discriminate; auto.
    + exists a. destruct (in_body (wq_assertion w)); [congruence|discriminate].
  - (* private key jwt *) destruct Hm as (H1 & a & ks & j & H2 & _). unfold body_view in H1, H2; simpl in H1, H2. split.
    + destruct (in_body (wq_type w)) as [[]|]; try discriminate; auto.
    + exists a. destruct (in_body (wq_assertion w)); [congruence|discriminate].
  - (* tls *) destruct Hm as (H1 & ct & (_ & H2) & _). split; [apply body_id_some; auto|].
    unfold body_view in H2; simpl in H2. congruence.
  - (* self-signed *) destruct Hm as (H1 & ct & ks & j & (_ & H2) & _). split; [apply body_id_some; auto|].
    unfold body_view in H2; simpl in H2. congruence.
Qed.

(* no client_secret in the body: no client_secret_post client is authenticated, whatever the query
   string and the Authorization header carry *)
Lemma secret_post_query_ignored_l g e req cls w c :
  authn_method c (entry_ctx e) = MSecretPost ->
  (in_body (wq_secret w) = None \/ in_body (wq_secret w) = Some 0) ->
  fst (entry_outcome g e req cls w) <> OutClient c.
Proof.
  intros Hm Hs H. apply outcome_client in H. apply authenticated_inv in H.
  unfold authenticate in H. rewrite Hm in H. simpl in H.
  unfold authenticate_secret_post in H.
  destruct (negb (ideq (ca_id c) (rq_form_id (request_of w)))); [discriminate|].
  assert (E : rq_form_secret (request_of w) = 0).
  { rewrite request_of_body_view. unfold body_view; simpl. destruct Hs as [-> | ->]; reflexivity. }
  rewrite E in H. simpl in H. discriminate.
Qed.

(* no Basic header: no client_secret_basic client is authenticated, wherever else the secret is *)
Lemma secret_basic_needs_header_l g e req cls w c :
  authn_method c (entry_ctx e) = MSecretBasic -> wq_basic w = None ->
  fst (entry_outcome g e req cls w) <> OutClient c.
Proof.
  intros Hm Hs H. apply outcome_client in H. apply authenticated_inv in H.
  unfold authenticate in H. rewrite Hm in H. simpl in H.
  unfold authenticate_secret_basic in H.
  assert (E : rq_basic (request_of w) = None) by (rewrite request_of_body_view; exact Hs).
  rewrite E in H. discriminate.
Qed.

(* no client_assertion (or no jwt-bearer assertion type) in the body: no client registered for an
   assertion method is authenticated *)
Lemma assertion_query_ignored_l g e req cls w c :
  authn_method c (entry_ctx e) = MPrivateKeyJWT \/ authn_method c (entry_ctx e) = MSecretJWT ->
  (in_body (wq_assertion w) = None \/ in_body (wq_assertion w) = Some ANone \/ in_body (wq_type w) <> Some true) ->
  fst (entry_outcome g e req cls w) <> OutClient c.
Proof.
  intros Hm Hs H. apply outcome_client in H. apply authenticated_inv in H.
  assert (E : assertion_of (request_of w) = None).
  { rewrite request_of_body_view. unfold assertion_of, body_view; simpl.
    destruct Hs as [Hs|[Hs|Hs]].
    - rewrite Hs. destruct (in_body (wq_type w)) as [[]|]; reflexivity.
    - rewrite Hs. destruct (in_body (wq_type w)) as [[]|]; reflexivity.
    - destruct (in_body (wq_type w)) as [[]|]; try reflexivity. congruence. }
  unfold authenticate in H.
  destruct Hm as [Hm|Hm]; rewrite Hm in H;
    unfold authenticate_private_key_jwt, authenticate_secret_jwt in H; rewrite E in H; discriminate.
Qed.

(* ---- identification: none / one id / conflict ---- *)
Lemma after_not_unidentified (ids : list id) :
  ids <> [] ->
  match ids with [] => IdNotIdentified | x :: r => if all_equal x r then IdOk x else IdInvalid end <> IdNotIdentified.
Proof. destruct ids as [|x r]; [congruence|]. intros _. destruct (all_equal x r); discriminate. Qed.

Lemma extract_id_unidentified_l g w :
  extract_id g (request_of w) = IdNotIdentified <-> names_nobody w.
Proof.
  rewrite request_of_body_view. unfold extract_id, body_view, names_nobody; simpl.
  destruct (in_body (wq_id w)) as [i|]; destruct (wq_basic w) as [[b s]|];
    destruct (in_body (wq_assertion w)) as [[| |a]|].
  all: simpl.
  all: try destruct (is_nil i) eqn:Ei; try destruct (is_nil b) eqn:Eb; reflect_ids; subst.
  all: try destruct (assertion_client_id g a) as [k|].
  all: simpl.
  all: split; [intro H | intros (H1 & H2 & H3)].
  all: try solve [repeat split; eauto].
  all: try reflexivity.
  all: try solve [exfalso; repeat match type of H with context [if ?c then _ else _] => destruct c end; discriminate].
  all: try solve [exfalso; destruct H1 as [H1|H1]; [discriminate | injection H1; auto]].
  all: try solve [exfalso; destruct H2 as [H2|(s0 & H2)]; [discriminate | injection H2; auto]].
  all: try solve [exfalso; destruct H3 as [H3|H3]; discriminate].
Qed.

Lemma names_nobody_b_iff w : names_nobody_b w = true <-> names_nobody w.
Proof.
  unfold names_nobody_b, names_nobody.
  destruct (in_body (wq_id w)) as [i|]; destruct (wq_basic w) as [[b s]|];
    destruct (in_body (wq_assertion w)) as [[| |a]|]; simpl.
  all: try destruct (N.eqb i 0) eqn:Ei; try destruct (N.eqb b 0) eqn:Eb; reflect_ids; subst; simpl.
  all: split; [intro H; try discriminate | intros (H1 & H2 & H3)].
  all: try solve [repeat split; eauto].
  all: try reflexivity.
  all: try solve [exfalso; destruct H1 as [H1|H1]; [discriminate | injection H1; auto]].
  all: try solve [exfalso; destruct H2 as [H2|(s0 & H2)]; [discriminate | injection H2; auto]].
  all: try solve [exfalso; destruct H3 as [H3|H3]; discriminate].
Qed.

Lemma identified_iff g x cls rq :
  ar_identified (authenticated_full g x cls rq) = false <-> extract_id g rq = IdNotIdentified.
Proof.
  unfold authenticated_full. destruct (extract_id g rq) as [| |i]; simpl.
  - tauto.
  - split; discriminate.
  - destruct (find_aclient i cls) as [c|]; simpl; [destruct (authenticate g c x rq)|]; simpl; split; discriminate.
Qed.

Lemma unidentified_no_client g x cls rq :
  extract_id g rq = IdNotIdentified -> ar_client (authenticated_full g x cls rq) = None.
Proof. unfold authenticated_full. intros ->. reflexivity. Qed.

(* the anonymous path: only the jwt-bearer grant, only when authentication is not required, only
   when the request names nobody at all - and then always *)
Lemma anonymous_iff_l g e req cls w :
  fst (entry_outcome g e req cls w) = OutAnonymous <-> e = EpJwtBearer /\ req = false /\ names_nobody w.
Proof.
  rewrite <- extract_id_unidentified_l with (g := g).
  rewrite <- (identified_iff g (entry_ctx e) cls).
  unfold entry_outcome; simpl. split.
  - destruct (ar_client (authenticated_full g (entry_ctx e) cls (request_of w))); [discriminate|].
    destruct e; simpl; try discriminate.
    destruct req; simpl; try discriminate.
    destruct (ar_identified (authenticated_full g CtxToken cls (request_of w))); simpl; try discriminate. auto.
  - intros (-> & -> & H). simpl in *.
    pose proof (proj1 (identified_iff g CtxToken cls (request_of w)) H) as H'.
    rewrite (unidentified_no_client _ _ _ _ H'), H. reflexivity.
Qed.

Lemma names_identifies g w p i k :
  names g w p i -> identifies g (request_of w) k -> i = k.
Proof.
  rewrite request_of_body_view. unfold names, identifies, body_view; simpl.
  intros Hn (H1 & H2 & H3 & _). destruct p.
  - destruct Hn as (s & E & Hnz). destruct (H2 _ _ E); congruence.
  - destruct Hn as (E & Hnz). rewrite E in H1. destruct H1; congruence.
  - destruct Hn as (a & E & Ha). rewrite E in H3. destruct H3 as [_ H3].
    unfold assertion_client_id in Ha. destruct (negb (alg_in (as_alg a) (client_authn_sig_algs g))); congruence.
Qed.

Lemma names_not_nobody g w p i : names g w p i -> ~ names_nobody w.
Proof.
  unfold names, names_nobody. intros Hn (H1 & H2 & H3). destruct p.
  - destruct Hn as (s & E & Hnz). destruct H2 as [H2|(s' & H2)]; congruence.
  - destruct Hn as (E & Hnz). destruct H1; congruence.
  - destruct Hn as (a & E & _). destruct H3; congruence.
Qed.

(* two places of the request name different clients: extractID answers the conflict error (not the
   "no identification" sentinel), and every entry point refuses - the jwt-bearer grant too, whether
   or not it requires client authentication *)
Lemma extract_id_conflict_l g w p q i j :
  names g w p i -> names g w q j -> i <> j -> extract_id g (request_of w) = IdInvalid.
Proof.
  intros Hi Hj Hne. destruct (extract_id g (request_of w)) as [| |k] eqn:E; auto.
  - apply extract_id_unidentified_l in E. exfalso. eapply names_not_nobody; eauto.
  - apply extract_id_identifies in E.
    pose proof (names_identifies _ _ _ _ _ Hi E). pose proof (names_identifies _ _ _ _ _ Hj E). congruence.
Qed.

Lemma id_conflict_refused_l g e req cls w p q i j :
  names g w p i -> names g w q j -> i <> j ->
  entry_outcome g e req cls w = (OutRefused, false).
Proof.
  intros Hi Hj Hne. pose proof (extract_id_conflict_l _ _ _ _ _ _ Hi Hj Hne) as E.
  unfold entry_outcome, authenticated_full. rewrite E. simpl.
  rewrite !andb_false_r. reflexivity.
Qed.

(* a credential member outside its place, the stronger form: the request names a registered
   client_secret_post client in its body and has no client_secret there -> refused *)
Lemma misplaced_secret_refused_l g e req cls w c :
  registered cls c -> ca_id c <> 0 -> authn_method c (entry_ctx e) = MSecretPost ->
  in_body (wq_id w) = Some (ca_id c) ->
  (in_body (wq_secret w) = None \/ in_body (wq_secret w) = Some 0) ->
  fst (entry_outcome g e req cls w) = OutRefused.
Proof.
  intros Hr Hid Hm Hb Hs.
  destruct (fst (entry_outcome g e req cls w)) as [c'| |] eqn:E; auto; exfalso.
  - pose proof E as E'. apply outcome_client in E'.
    pose proof (authn_needs_identification_l _ _ _ _ _ E') as Hx.
    apply extract_id_identifies in Hx.
    assert (Hn : names g w PlBody (ca_id c)) by (split; auto).
    pose proof (names_identifies _ _ _ _ _ Hn Hx) as Hc.
    assert (c' = c).
    { unfold authenticated, authenticated_full in E'.
      destruct (extract_id g (request_of w)) as [| |k] eqn:Ek; simpl in E'; try discriminate.
      destruct (find_aclient k cls) as [c''|] eqn:F; simpl in E'; try discriminate.
      destruct (authenticate g c'' (entry_ctx e) (request_of w)) as [ok f]. destruct ok; simpl in E'; try discriminate.
      injection E' as ->. pose proof (find_aclient_id _ _ _ F). subst k.
      unfold registered in Hr. rewrite Hc in Hr. congruence. }
    subst c'. eapply secret_post_query_ignored_l; eauto.
  - apply anonymous_iff_l in E as (_ & _ & (H1 & _)). destruct H1; congruence.
Qed.

(* ---- refused outcomes are inert, at all nine entry points ---- *)
Lemma outcome_refused g e req cls w :
  fst (entry_outcome g e req cls w) = OutRefused ->
  authenticated g (entry_ctx e) cls (request_of w) = None /\
  (is_jwt_bearer e = true -> orb req (wire_identified g e cls w) = true).
Proof.
  unfold entry_outcome, authenticated, wire_identified. simpl.
  destruct (ar_client (authenticated_full g (entry_ctx e) cls (request_of w))); [discriminate|].
  destruct (is_jwt_bearer e); simpl; [|intros _; split; auto; discriminate].
  destruct req; simpl; [intros _; split; auto|].
  destruct (ar_identified (authenticated_full g (entry_ctx e) cls (request_of w))); simpl; [auto|discriminate].
Qed.

Definition refused_at (g : acfg) (e : entry) (req : bool) (cls : list aclient) (wq : wreq)
                      (w : world) (n : nat) (now : Z) (st : store) : Prop :=
  let cr := wire_cred g e cls wq in
  match e with
  | EpClientCredentials => forall r, t_cred r = cr -> refused_inert (cc_grant w n now r) st (pre_cc w)
  | EpAuthorizationCode => forall r, t_cred r = cr -> refused_inert (code_grant w n now r) st (pre_code w r)
  | EpRefreshToken => forall r, t_cred r = cr -> refused_inert (refresh_grant w n now r) st (pre_refresh w r)
  | EpCibaGrant => forall r, t_cred r = cr -> refused_inert (ciba_grant w n now r) st (pre_ciba w)
  | EpJwtBearer => forall k, refused_inert (jwt_bearer_head w req (wire_identified g e cls wq) cr k) st true
  | EpPar => forall r, pr_cred r = cr -> refused_inert (push_auth w n now r) st (cf_par_enabled (w_cfg w))
  | EpBcAuthorize => forall r, br_cred r = cr -> refused_inert (init_back_auth w n now r) st (cf_ciba_enabled (w_cfg w))
  | EpIntrospect => forall r, q_cred r = cr -> refused_inert (introspect w now r) st (cf_introspection (w_cfg w))
  | EpRevoke => forall r, q_cred r = cr -> refused_inert (revoke w now r) st (cf_revocation (w_cfg w))
  end.

Lemma refused_outcome_inert_l g e req cls wq w n now st :
  agrees (entry_ctx e) cls w st ->
  fst (entry_outcome g e req cls wq) = OutRefused ->
  refused_at g e req cls wq w n now st.
Proof.
  intros Ha Ho. destruct (outcome_refused _ _ _ _ _ Ho) as [Hn Hj].
  pose proof (authn_none_unauthenticated _ _ _ _ _ _ Ha Hn) as Hu.
  unfold refused_at, wire_cred.
  destruct e; simpl in *; try (intros r Hr; rewrite <- Hr in Hu).
  - apply inert_cc; auto.
  - apply inert_code; auto.
  - apply inert_refresh; auto.
  - apply inert_ciba; auto.
  - intro k. unfold jwt_bearer_head. apply refused_step; auto. rewrite (Hj eq_refl). reflexivity.
  - apply inert_par; auto.
  - apply inert_bc; auto.
  - apply inert_introspect; auto.
  - apply inert_revoke; auto.
Qed.

(* ---- the reader table matters: were client_secret read with FormValue, a secret that travels in
        the request URI only would authenticate (this is the regression the placement dimension of
        the catalogue is aimed at) ---- *)
Definition ex_post_client : aclient :=
  mkAClient 1 MSecretPost MUnset MUnset None None None (Some 1001) 0 false JwksAbsent "" "" IpUnset.
Definition ex_query_secret : wreq :=
  mkWreq (mkPlaced (Some 1) None) (mkPlaced None (Some 1001)) (mkPlaced None None) (mkPlaced None None)
         None None true None.

Lemma form_value_reader_unsound_l :
  authenticated ex_cfg CtxToken [ex_post_client]
    (request_with (mkReaders SrcPostForm SrcForm SrcPostForm SrcPostForm) ex_query_secret) = Some ex_post_client /\
  entry_outcome ex_cfg EpClientCredentials true [ex_post_client] ex_query_secret = (OutRefused, false).
Proof. split; vm_compute; reflexivity. Qed.

(* ---- concrete instances ---- *)
Definition ex_two_ids : wreq :=
  mkWreq (mkPlaced (Some 2) None) (mkPlaced None None) (mkPlaced None None) (mkPlaced None None)
         (Some (1, 0)) None true None.
Definition ex_nobody : wreq :=
  mkWreq (mkPlaced None (Some 1)) (mkPlaced None None) (mkPlaced None None) (mkPlaced None None)
         None None true None.

Lemma conflict_nonvacuous_l :
  names ex_cfg ex_two_ids PlHeader 1 /\ names ex_cfg ex_two_ids PlBody 2 /\
  entry_outcome ex_cfg EpJwtBearer false [ex_post_client] ex_two_ids = (OutRefused, false).
Proof.
  split; [exists 0; split; [reflexivity|discriminate]|]. split; [split; [reflexivity|discriminate]|].
  vm_compute; reflexivity.
Qed.

Lemma anonymous_nonvacuous_l :
  names_nobody ex_nobody /\ entry_outcome ex_cfg EpJwtBearer false [ex_post_client] ex_nobody = (OutAnonymous, false).
Proof. split; [repeat split; auto|vm_compute; reflexivity]. Qed.

Lemma placement_nonvacuous_l :
  let w := mkWreq (mkPlaced (Some 1) None) (mkPlaced (Some 1001) (Some 7)) (mkPlaced None None) (mkPlaced None None)
                  None None true None in
  fst (entry_outcome ex_cfg EpRevoke true [ex_post_client] w) = OutClient ex_post_client /\ ca_id ex_post_client <> 0.
Proof. split; [vm_compute; reflexivity|discriminate]. Qed.
