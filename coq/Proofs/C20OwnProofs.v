(* C20OwnProofs.v — ownership-aware access summaries (Model/AccessOwn.v): discipline, the copy of the pushed
   session keeps the scalar members private and shares the maps, the static client is never written. *)
From Verif Require Import Base Scope Types Prog Pop Token Authorize System Config Access AccessOwn C20Proofs Race.
Local Open Scope N_scope.
Local Open Scope string_scope.

(* ---- discipline: the refined summaries obey the same lockset discipline ---- *)
Lemma touch_a_maps_disc s' s : Forall (fun a => disciplined a = true) (touch_a_maps s' s).
Proof. unfold touch_a_maps. apply Forall_app_iff; split; apply wr_disc. Qed.

Lemma trace_own_disc has deep cp {A} (p : prog A) : forall priv s, Forall (fun a => disciplined a = true) (trace_own has deep cp priv p s).
Proof.
  induction p as [a|c k IH|o p IH]; intros priv s; cbn.
  - constructor.
  - destruct (exec c s) as [s' r]. apply Forall_app_iff. split; [apply call_accesses_disc|apply IH].
  - destruct o as [x|g|c].
    + destruct (find _ priv).
      * apply Forall_app_iff. split; [destruct deep; [constructor|apply touch_a_maps_disc]|apply IH].
      * apply Forall_app_iff. split; [apply (touch_accesses_disc (OA x))|apply IH].
    + apply Forall_app_iff. split; [apply (touch_accesses_disc (OG g))|apply IH].
    + apply Forall_app_iff. split; [apply (touch_accesses_disc (OC c))|apply IH].
Qed.

(* ---- a handler that copies nothing: trace_own is Access.trace ---- *)
Lemma trace_own_nothing has deep {A} (p : prog A) : forall s, trace_own has deep nothing_copied [] p s = trace has p s.
Proof.
  induction p as [a|c k IH|o p IH]; intros s; cbn [trace_own trace].
  - reflexivity.
  - destruct (exec c s) as [s' r]. f_equal.
    destruct c; try (destruct r; cbn; apply IH); cbn; apply IH.
  - destruct o as [x|g|c]; cbn; f_equal; apply IH.
Qed.

(* ---- the pushed session: scenarios (every profile x response type x verdict of the policy) ---- *)
Definition own_client : client :=
  mkClient 1 false [GAuthorizationCode; GRefreshToken; GImplicit] ["code"; "code id_token"; "id_token"; "token"; "code token"]
           ["https://c1.example/cb"] "openid email" CibaNone false false false false false false false 0 false None.
Definition own_opts : list opt :=
  [WithScopes [ScExact "openid"; ScExact "email"]; WithAuthorizationCodeGrant; WithImplicitGrant; WithRefreshTokenGrant 600%Z;
   WithPAR 60%Z; WithTokenLifetime 300%Z].
Definition own_params (rt : string) : params :=
  mkParams 0 "https://c1.example/cb" "" rt "openid email" "st" "n-1" PkEmpty "" 0 "" 0 "" [] None.
Definition own_scn (prof : profile) (rt : string) (pol : pol_reply) : racescn :=
  mkRaceScn prof own_opts [] [own_client]
    [OpPar (mkPReq rc_cred (own_params rt) no_bind)]
    (OpAuthorize (mkAReq 1 ((own_params rt) <| p_request_uri := mint 0%nat KParUri |>) true pol))
    KAGet KASave.
Definition own_ok : pol_reply := PolSuccess "alice" "openid email" [] [].
Definition own_pols : list pol_reply := [own_ok; PolInProgress; PolFail].
(* the (profile, response type) pairs the profiles admit *)
Definition own_cells : list (profile * string) :=
  [(POpenID, "code"); (POpenID, "code id_token"); (POpenID, "id_token"); (POpenID, "token"); (POpenID, "code token");
   (PFapi1, "code id_token"); (PFapi2, "code")].

(* deep = true: the tree with fix e2b7ce4 (the copy clones the maps); deep = false: the shallow copy before it *)
Definition own_trace (deep : bool) (cp : call -> bool) (s : racescn) : list access :=
  let su := setup_of s in trace_own no_jwks_uri deep cp [] (race_prog su 0) (su_store su).
(* the pushed request is accepted and the authorization request reaches the policy *)
Definition own_live (s : racescn) : bool :=
  let su := setup_of s in
  andb (forallb (fun o => match o with Out (OPar _) => true | _ => false end) (su_prefix_obs su))
       (match snd (run_seq (race_prog su 0) (su_store su)) with
        | Out (OPage _) | Out (ONav _ _ _) => true
        | _ => false
        end).
Definition for_cells (f : racescn -> bool) : bool :=
  forallb (fun c => forallb (fun pol => f (own_scn (fst c) (snd c) pol)) own_pols) own_cells.

(* the index scans of any other request *)
Definition other_scan_of (s : racescn) : list access :=
  call_accesses no_jwks_uri (AByPar 999) (su_store (setup_of s)) ++ call_accesses no_jwks_uri (AByCode 998) (su_store (setup_of s))
  ++ call_accesses no_jwks_uri (AByCb 997) (su_store (setup_of s)).
Definition other_scan := other_scan_of.
Lemma own_cells_live : for_cells own_live = true.
Proof. vm_compute. reflexivity. Qed.
(* with the deep copy: NO member of a session is written in shared memory, no race with the scans of other requests,
   and two such requests (same request_uri) do not race with each other *)
Lemma own_private : for_cells (fun s => match session_writes (own_trace true par_copied s) with [] => true | _ => false end) = true.
Proof. vm_compute. reflexivity. Qed.
Lemma copy_no_race_with_scans : for_cells (fun s => negb (some_race (own_trace true par_copied s) (other_scan_of s))) = true.
Proof. vm_compute. reflexivity. Qed.
Lemma deep_copy_no_self_race : for_cells (fun s => negb (some_race (own_trace true par_copied s) (own_trace true par_copied s))) = true.
Proof. vm_compute. reflexivity. Qed.

(* with a SHALLOW copy (before fix e2b7ce4, defect D24): no scalar member is written ... *)
Lemma shallow_scalar_private : for_cells (fun s => match scalar_session_writes (own_trace false par_copied s) with [] => true | _ => false end) = true.
Proof. vm_compute. reflexivity. Qed.
(* ... but the shared maps are, by these two sites *)
Definition map_sites : list string := [gapi ++ "StoreParameter[initAuth]"; gapi ++ "SetIDTokenClaim[initAuth]"].
Lemma shallow_map_writes : for_cells (fun s => forallb (fun x => andb (mem (fst x) map_sites) (is_map_member (snd x)))
                                                   (session_writes (own_trace false par_copied s))) = true.
Proof. vm_compute. reflexivity. Qed.
(* every request that reaches the policy writes the nonce claim into the shared map, so two requests presenting the
   same request_uri race with each other *)
Lemma shallow_nonce_written : for_cells (fun s => existsb (fun x => seqb (fst x) (gapi ++ "SetIDTokenClaim[initAuth]"))
                                                     (session_writes (own_trace false par_copied s))) = true.
Proof. vm_compute. reflexivity. Qed.
Lemma shallow_copy_races : for_cells (fun s => some_race (own_trace false par_copied s) (own_trace false par_copied s)) = true.
Proof. vm_compute. reflexivity. Qed.

(* without any copy (under a FAPI profile: what returning the stored session does): scalar members of the
   STORED session are written with no lock, and these writes race with the index scan of any other request *)
Lemma no_copy_writes_stored :
  for_cells (fun s => andb (existsb (fun x => seqb (fst x) "internal/authorize.initAuthnSession") (scalar_session_writes (own_trace true nothing_copied s)))
                           (some_race (own_trace true nothing_copied s) (other_scan_of s))) = true.
Proof. vm_compute. reflexivity. Qed.

Lemma for_cells_spec f : for_cells f = true ->
  forall prof rt pol, In (prof, rt) own_cells -> In pol own_pols -> f (own_scn prof rt pol) = true.
Proof.
  unfold for_cells. intros H prof rt pol Hc Hp. rewrite forallb_forall in H. specialize (H _ Hc). cbn [fst snd] in H.
  rewrite forallb_forall in H. auto.
Qed.

(* ---- clients ---- *)
Lemma static_never_written has_uri i : Forall (fun a => ac_write a = false) (authn_accesses CStatic has_uri i).
Proof. unfold authn_accesses. destruct has_uri; cbn; repeat constructor. Qed.
Lemma static_no_race has_uri i : some_race (authn_accesses CStatic has_uri i) (authn_accesses CStatic has_uri i) = false.
Proof.
  unfold authn_accesses, some_race. destruct has_uri; cbn; [reflexivity|].
  unfold races. cbn. rewrite ?andb_false_r. reflexivity.
Qed.
Lemma stored_uri_races i : some_race (authn_accesses CStored true i) (authn_accesses CStored true i) = true.
Proof. unfold authn_accesses, some_race. cbn. unfold races. cbn. rewrite N.eqb_refl. reflexivity. Qed.
Lemma static_no_copy_races i : some_race (authn_accesses_no_copy CStatic true i) (authn_accesses_no_copy CStatic true i) = true.
Proof. unfold authn_accesses_no_copy, some_race. cbn. unfold races. cbn. rewrite N.eqb_refl. reflexivity. Qed.
Lemma static_no_copy_sites i :
  map ac_site (filter ac_write (authn_accesses_no_copy CStatic true i)) =
  ["pkg/goidc.(*Client).FetchPublicJWKS[static-client]"; "pkg/goidc.(*Client).fetchJWKS[static-client]"].
Proof. reflexivity. Qed.
