(* C07Aud.v — the audience of a request object: an accepted SIGNED object names the issuer of this
   server itself among its audiences (not the token endpoint, not the requested URL, not an mTLS
   alias, not the issuer written differently); proofs for Props/C07.v jar_audience_is_issuer,
   jar_audience_resolver and jar_audience_near_miss_refused. *)
From Verif Require Import Base Scope Types Prog Pop Token Authorize System Config Jar JarSpec Tactics C07Proofs.
Local Open Scope N_scope.

Lemma aud_has_issuer_in l : aud_has_issuer l = true <-> In AudIssuer l.
Proof.
  unfold aud_has_issuer. rewrite existsb_exists. split.
  - intros [a [Hin Ha]]. destruct a; try discriminate. exact Hin.
  - intro H. exists AudIssuer. split; [exact H|reflexivity].
Qed.

Lemma aud_no_issuer l : (forall a, In a l -> a <> AudIssuer) -> aud_has_issuer l = false.
Proof.
  intro H. destruct (aud_has_issuer l) eqn:E; [|reflexivity].
  apply aud_has_issuer_in in E. exfalso. exact (H _ E eq_refl).
Qed.

(* the standard claims check, whatever the expected issuer (even the empty one go-jose skips) *)
Lemma validate_std_claims_aud leeway cid o : validate_std_claims leeway cid o = true -> In AudIssuer (ro_aud o).
Proof.
  unfold validate_std_claims. intro H.
  apply andb_prop in H. destruct H as [_ H]. apply andb_prop in H. destruct H as [H _].
  apply aud_has_issuer_in. exact H.
Qed.

Lemma validate_claims_aud prof leeway cid o : validate_claims prof leeway cid o = None -> In AudIssuer (ro_aud o).
Proof.
  unfold validate_claims. intro H.
  destruct (validate_std_claims leeway cid o) eqn:E.
  - eapply validate_std_claims_aud; eauto.
  - destruct (if is_fapi prof then _ else None); discriminate.
Qed.

(* jarFromRequestObject, signed branch: for every profile, configuration, client registration and expected client *)
Lemma resolve_jar_aud prof jc cid c o j :
  resolve_jar prof jc cid c o = inr j -> ro_sig o <> SigEmpty -> In AudIssuer (ro_aud o).
Proof.
  unfold resolve_jar. intros H Hs.
  destruct (match ro_enc o with EncNone => None | EncOk => _ | EncBad => _ end); [discriminate|].
  assert (G : (if negb (mem_alg (ro_alg o) (jar_algs jc c)) then inl EInvalidRequestObject else
        match jwk_matching o (jc_keys c) with
        | None => inl EInvalidRequestObject
        | Some j0 =>
          if negb (verifies o j0) then inl EInvalidRequestObject else
          match validate_claims prof (jw_leeway jc) cid o with
          | Some e => inl e
          | None => inr (contents o)
          end
        end) = (inr j : ecode + jar_req)).
  { destruct (ro_sig o); [congruence|exact H|exact H]. }
  clear H.
  destruct (negb (mem_alg (ro_alg o) (jar_algs jc c))); [discriminate|].
  destruct (jwk_matching o (jc_keys c)); [|discriminate].
  destruct (negb (verifies o j0)); [discriminate|].
  destruct (validate_claims prof (jw_leeway jc) cid o) eqn:E; [discriminate|].
  eapply validate_claims_aud; eauto.
Qed.

(* cibaJARFromRequestObject: always signed *)
Lemma resolve_ciba_jar_aud jc cid c o j : resolve_ciba_jar jc cid c o = inr j -> In AudIssuer (ro_aud o).
Proof.
  unfold resolve_ciba_jar. intro H.
  destruct (ro_enc o); try discriminate.
  destruct (negb (mem_alg (ro_alg o) (ciba_jar_algs jc c))); [discriminate|].
  destruct (is_nil (ro_kid o)); [discriminate|].
  destruct (jwk_by_kid (ro_kid o) (jc_keys c)); [|discriminate].
  destruct (negb (verifies o j0)); [discriminate|].
  destruct (ro_iat o); [|discriminate]. destruct (ro_nbf o); [|discriminate]. destruct (ro_exp o); [|discriminate].
  destruct (Z.ltb z0 (-3600)); [discriminate|]. destruct (Z.ltb 3600 z1); [discriminate|].
  destruct (negb (ro_jti o)); [discriminate|].
  destruct (validate_std_claims (jw_leeway jc) cid o) eqn:E; [|discriminate].
  eapply validate_std_claims_aud; eauto.
Qed.

(* the executable predicates of the statements *)
Lemma jar_ok_signed_aud prof jc cid c o : jar_ok prof jc cid c o = true -> ro_sig o <> SigEmpty -> In AudIssuer (ro_aud o).
Proof.
  unfold jar_ok. intros H Hs. apply orb_prop in H. destruct H as [H|H].
  - apply authentic_meaning in H. destruct H as (_ & _ & _ & _ & Ha & _). apply aud_has_issuer_in. exact Ha.
  - apply unsigned_meaning in H. destruct H as [H _]. congruence.
Qed.

Lemma ciba_jar_ok_aud jc cid c o : ciba_jar_ok jc cid c o = true -> In AudIssuer (ro_aud o).
Proof.
  unfold ciba_jar_ok. intro H.
  repeat (apply andb_prop in H; let H1 := fresh in destruct H as [H1 H]; try (apply aud_has_issuer_in in H1; exact H1)).
Qed.

(* handler level: /authorize (by value or by reference), /par, /bc-authorize *)
Lemma init_auth_jar_aud w jx n now q st st' x o :
  cf_jar_enabled (w_cfg w) = true -> carries (jq_jar q) o ->
  p_request_uri (ar_params (jq_req q)) = 0 ->
  run_seq (init_auth_jar w jx n now q) st = (st', x) -> out_ok x = true ->
  ro_sig o <> SigEmpty -> In AudIssuer (ro_aud o).
Proof.
  intros He Hc Hu Hr Hx Hs.
  destruct (init_auth_jar_authentic w jx n now q st st' x o He Hc Hu Hr Hx) as [Hj _].
  eapply jar_ok_signed_aud; eauto.
Qed.

Lemma push_auth_jar_aud w jx n now r st st' x o :
  cf_jar_enabled (w_cfg w) = true ->
  run_seq (push_auth_jar w jx n now r (Some o)) st = (st', x) -> out_ok x = true ->
  ro_sig o <> SigEmpty -> In AudIssuer (ro_aud o).
Proof.
  intros He Hr Hx Hs.
  destruct (push_auth_jar_authentic w jx n now r st st' x o He Hr Hx) as [Hj _].
  eapply jar_ok_signed_aud; eauto.
Qed.

Lemma init_back_auth_jar_aud w jx n now r st st' x o :
  cf_ciba_jar_enabled (w_cfg w) = true ->
  run_seq (init_back_auth_jar w jx n now r (Some o)) st = (st', x) -> out_ok x = true ->
  In AudIssuer (ro_aud o).
Proof.
  intros He Hr Hx.
  eapply ciba_jar_ok_aud. eapply init_back_auth_jar_authentic; eauto.
Qed.

Lemma jar_audience_handlers :
  (forall w jx n now q st st' x o,
     cf_jar_enabled (w_cfg w) = true -> carries (jq_jar q) o ->
     p_request_uri (ar_params (jq_req q)) = 0 ->
     run_seq (init_auth_jar w jx n now q) st = (st', x) -> out_ok x = true ->
     ro_sig o <> SigEmpty -> In AudIssuer (ro_aud o)) /\
  (forall w jx n now r st st' x o,
     cf_jar_enabled (w_cfg w) = true ->
     run_seq (push_auth_jar w jx n now r (Some o)) st = (st', x) -> out_ok x = true ->
     ro_sig o <> SigEmpty -> In AudIssuer (ro_aud o)) /\
  (forall w jx n now r st st' x o,
     cf_ciba_jar_enabled (w_cfg w) = true ->
     run_seq (init_back_auth_jar w jx n now r (Some o)) st = (st', x) -> out_ok x = true ->
     In AudIssuer (ro_aud o)).
Proof.
  split; [|split].
  - exact init_auth_jar_aud.
  - exact push_auth_jar_aud.
  - exact init_back_auth_jar_aud.
Qed.

Lemma jar_audience_resolvers :
  (forall prof jc cid c o j, resolve_jar prof jc cid c o = inr j -> ro_sig o <> SigEmpty -> In AudIssuer (ro_aud o)) /\
  (forall jc cid c o j, resolve_ciba_jar jc cid c o = inr j -> In AudIssuer (ro_aud o)).
Proof. split; [exact resolve_jar_aud | exact resolve_ciba_jar_aud]. Qed.

(* the direction the deviation catalogue exercises: a signed object none of whose audiences is the
   issuer itself is refused by both resolvers, whatever else it carries *)
Lemma near_miss_refused prof jc cid c o :
  (forall a, In a (ro_aud o) -> a <> AudIssuer) -> ro_sig o <> SigEmpty ->
  (exists e, resolve_jar prof jc cid c o = inl e) /\ (exists e, resolve_ciba_jar jc cid c o = inl e).
Proof.
  intros Hn Hs. split.
  - destruct (resolve_jar prof jc cid c o) eqn:E; [eauto|].
    exfalso. exact (Hn _ (resolve_jar_aud _ _ _ _ _ _ E Hs) eq_refl).
  - destruct (resolve_ciba_jar jc cid c o) eqn:E; [eauto|].
    exfalso. exact (Hn _ (resolve_ciba_jar_aud _ _ _ _ _ E) eq_refl).
Qed.

(* satisfiable: the valid object of the suites, with the issuer among other audiences, is accepted;
   the same object naming the token endpoint and the requested URL instead is refused *)
Definition aud_ex_client : jclient := mkJClient [mkJwk 611 AES256 511] None None.
Definition aud_ex_cfg : jcfg := mkJCfg [AES256] false [AES256] 0.
Definition aud_ex_obj (a : auds) : req_object :=
  mkRO EncNone (SigBy 511) AES256 611 1 a (Some 300%Z) (Some (-10)%Z) (Some (-10)%Z) true 1 false false empty_params.
Example aud_issuer_among_others_accepted :
  resolve_jar POpenID aud_ex_cfg 1 aud_ex_client (aud_ex_obj [AudForeign; AudIssuer]) = inr (contents (aud_ex_obj [AudForeign; AudIssuer])).
Proof. reflexivity. Qed.
Example aud_token_endpoint_refused :
  resolve_jar POpenID aud_ex_cfg 1 aud_ex_client (aud_ex_obj [AudToken; AudRequestURL; AudForeign]) = inl EInvalidRequestObject.
Proof. reflexivity. Qed.
