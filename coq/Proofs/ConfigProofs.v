(* ConfigProofs.v — Config.build: flags set by options are monotone (no option clears a
   boolean, no option removes a grant type), setDefaults keeps them, and what validate
   guarantees.  Used by C11 and C19. *)
From Verif Require Import Base Scope Types Config.

Lemma fold_apply_mono (f : config -> bool) :
  (forall o c, f c = true -> f (apply_opt o c) = true) ->
  forall opts c, f c = true -> f (fold_left (fun c o => apply_opt o c) opts c) = true.
Proof. intros H opts. induction opts as [|o r IH]; simpl; auto. Qed.

Lemma fold_apply_sets (f : config -> bool) :
  (forall o c, f c = true -> f (apply_opt o c) = true) ->
  forall o, (forall c, f (apply_opt o c) = true) ->
  forall opts c, In o opts -> f (fold_left (fun c o => apply_opt o c) opts c) = true.
Proof.
  intros Hm o Ho opts. induction opts as [|o' r IH]; simpl; intros c Hin; [tauto|].
  destruct Hin as [->|Hin]; auto. apply fold_apply_mono; auto.
Qed.

Definition folded (p : profile) (opts : list opt) : config :=
  fold_left (fun c o => apply_opt o c) opts (base_config p).
Lemma build_inv p opts cfg : build p opts = Some cfg ->
  cfg = set_defaults (folded p opts) /\ valid_config cfg = true.
Proof.
  unfold build, folded. remember (set_defaults (fold_left (fun c o => apply_opt o c) opts (base_config p))) as c0 eqn:Ec.
  clear Ec. intros H. destruct (valid_config c0) eqn:E; [|discriminate]. injection H as <-. auto.
Qed.

(* the shape every "In WithX opts -> build p opts = Some cfg -> flag cfg = true" lemma has *)
Lemma build_flag (f : config -> bool) :
  (forall o c, f c = true -> f (apply_opt o c) = true) ->
  (forall c, f (set_defaults c) = f c) ->
  forall o, (forall c, f (apply_opt o c) = true) ->
  forall p opts cfg, In o opts -> build p opts = Some cfg -> f cfg = true.
Proof.
  intros Hm Hd o Ho p opts cfg Hin Hb. apply build_inv in Hb as [-> _].
  rewrite Hd. unfold folded. eapply fold_apply_sets; eauto.
Qed.

(* the converse for flags: a flag that is set was set by one of the options that set it *)
Lemma fold_apply_unset (f : config -> bool) (sets : opt -> bool) :
  (forall o c, sets o = false -> f (apply_opt o c) = f c) ->
  forall opts c, f c = false -> existsb sets opts = false ->
  f (fold_left (fun c o => apply_opt o c) opts c) = false.
Proof.
  intros H opts. induction opts as [|o r IH]; simpl; intros c Hc Hs; auto.
  apply orb_false_iff in Hs as [Hs1 Hs2]. apply IH; auto. rewrite H; auto.
Qed.

Lemma build_flag_unset (f : config -> bool) (sets : opt -> bool) :
  (forall o c, sets o = false -> f (apply_opt o c) = f c) ->
  (forall c, f (set_defaults c) = f c) ->
  (forall p, f (base_config p) = false) ->
  forall p opts cfg, existsb sets opts = false -> build p opts = Some cfg -> f cfg = false.
Proof.
  intros Hu Hd Hb0 p opts cfg Hs Hb. apply build_inv in Hb as [-> _].
  rewrite Hd. unfold folded. eapply fold_apply_unset; eauto.
Qed.

Ltac mono_tac := intros o c H; destruct o; cbn; auto; rewrite ?H; auto.
Ltac dflt_tac := intros c; unfold set_defaults; destruct (cf_jarm_enabled _); reflexivity.

(* ---- one monotonicity / defaults pair per field ---- *)
Lemma mono_par_enabled : forall o c, cf_par_enabled c = true -> cf_par_enabled (apply_opt o c) = true. Proof. mono_tac. Qed.
Lemma dflt_par_enabled : forall c, cf_par_enabled (set_defaults c) = cf_par_enabled c. Proof. dflt_tac. Qed.
Lemma mono_par_required : forall o c, cf_par_required c = true -> cf_par_required (apply_opt o c) = true. Proof. mono_tac. Qed.
Lemma dflt_par_required : forall c, cf_par_required (set_defaults c) = cf_par_required c. Proof. dflt_tac. Qed.
Lemma mono_jar_enabled : forall o c, cf_jar_enabled c = true -> cf_jar_enabled (apply_opt o c) = true. Proof. mono_tac. Qed.
Lemma dflt_jar_enabled : forall c, cf_jar_enabled (set_defaults c) = cf_jar_enabled c. Proof. dflt_tac. Qed.
Lemma mono_jar_required : forall o c, cf_jar_required c = true -> cf_jar_required (apply_opt o c) = true. Proof. mono_tac. Qed.
Lemma dflt_jar_required : forall c, cf_jar_required (set_defaults c) = cf_jar_required c. Proof. dflt_tac. Qed.
Lemma mono_jar_by_reference : forall o c, cf_jar_by_reference c = true -> cf_jar_by_reference (apply_opt o c) = true. Proof. mono_tac. Qed.
Lemma dflt_jar_by_reference : forall c, cf_jar_by_reference (set_defaults c) = cf_jar_by_reference c. Proof. dflt_tac. Qed.
Lemma mono_jarm_enabled : forall o c, cf_jarm_enabled c = true -> cf_jarm_enabled (apply_opt o c) = true. Proof. mono_tac. Qed.
Lemma dflt_jarm_enabled : forall c, cf_jarm_enabled (set_defaults c) = cf_jarm_enabled c.
Proof. intros c; unfold set_defaults; cbn; destruct (cf_jarm_enabled c) eqn:E; cbn; rewrite ?E; reflexivity. Qed.
Lemma mono_ciba_enabled : forall o c, cf_ciba_enabled c = true -> cf_ciba_enabled (apply_opt o c) = true. Proof. mono_tac. Qed.
Lemma dflt_ciba_enabled : forall c, cf_ciba_enabled (set_defaults c) = cf_ciba_enabled c. Proof. dflt_tac. Qed.
Lemma mono_ciba_jar_enabled : forall o c, cf_ciba_jar_enabled c = true -> cf_ciba_jar_enabled (apply_opt o c) = true. Proof. mono_tac. Qed.
Lemma dflt_ciba_jar_enabled : forall c, cf_ciba_jar_enabled (set_defaults c) = cf_ciba_jar_enabled c. Proof. dflt_tac. Qed.
Lemma mono_ciba_jar_required : forall o c, cf_ciba_jar_required c = true -> cf_ciba_jar_required (apply_opt o c) = true. Proof. mono_tac. Qed.
Lemma dflt_ciba_jar_required : forall c, cf_ciba_jar_required (set_defaults c) = cf_ciba_jar_required c. Proof. dflt_tac. Qed.
Lemma mono_ciba_user_code : forall o c, cf_ciba_user_code c = true -> cf_ciba_user_code (apply_opt o c) = true. Proof. mono_tac. Qed.
Lemma dflt_ciba_user_code : forall c, cf_ciba_user_code (set_defaults c) = cf_ciba_user_code c. Proof. dflt_tac. Qed.
Lemma mono_pkce_enabled : forall o c, cf_pkce_enabled c = true -> cf_pkce_enabled (apply_opt o c) = true. Proof. mono_tac. Qed.
Lemma dflt_pkce_enabled : forall c, cf_pkce_enabled (set_defaults c) = cf_pkce_enabled c. Proof. dflt_tac. Qed.
Lemma mono_pkce_required : forall o c, cf_pkce_required c = true -> cf_pkce_required (apply_opt o c) = true. Proof. mono_tac. Qed.
Lemma dflt_pkce_required : forall c, cf_pkce_required (set_defaults c) = cf_pkce_required c. Proof. dflt_tac. Qed.
Lemma mono_dpop_enabled : forall o c, cf_dpop_enabled c = true -> cf_dpop_enabled (apply_opt o c) = true. Proof. mono_tac. Qed.
Lemma dflt_dpop_enabled : forall c, cf_dpop_enabled (set_defaults c) = cf_dpop_enabled c. Proof. dflt_tac. Qed.
Lemma mono_dpop_required : forall o c, cf_dpop_required c = true -> cf_dpop_required (apply_opt o c) = true. Proof. mono_tac. Qed.
Lemma dflt_dpop_required : forall c, cf_dpop_required (set_defaults c) = cf_dpop_required c. Proof. dflt_tac. Qed.
Lemma mono_mtls_enabled : forall o c, cf_mtls_enabled c = true -> cf_mtls_enabled (apply_opt o c) = true. Proof. mono_tac. Qed.
Lemma dflt_mtls_enabled : forall c, cf_mtls_enabled (set_defaults c) = cf_mtls_enabled c. Proof. dflt_tac. Qed.
Lemma mono_tls_binding_enabled : forall o c, cf_tls_binding_enabled c = true -> cf_tls_binding_enabled (apply_opt o c) = true. Proof. mono_tac. Qed.
Lemma dflt_tls_binding_enabled : forall c, cf_tls_binding_enabled (set_defaults c) = cf_tls_binding_enabled c. Proof. dflt_tac. Qed.
Lemma mono_tls_binding_required : forall o c, cf_tls_binding_required c = true -> cf_tls_binding_required (apply_opt o c) = true. Proof. mono_tac. Qed.
Lemma dflt_tls_binding_required : forall c, cf_tls_binding_required (set_defaults c) = cf_tls_binding_required c. Proof. dflt_tac. Qed.
Lemma mono_binding_required : forall o c, cf_binding_required c = true -> cf_binding_required (apply_opt o c) = true. Proof. mono_tac. Qed.
Lemma dflt_binding_required : forall c, cf_binding_required (set_defaults c) = cf_binding_required c. Proof. dflt_tac. Qed.
Lemma mono_openid_required : forall o c, cf_openid_required c = true -> cf_openid_required (apply_opt o c) = true. Proof. mono_tac. Qed.
Lemma dflt_openid_required : forall c, cf_openid_required (set_defaults c) = cf_openid_required c. Proof. dflt_tac. Qed.
Lemma mono_resource_required : forall o c, cf_resource_required c = true -> cf_resource_required (apply_opt o c) = true. Proof. mono_tac. Qed.
Lemma dflt_resource_required : forall c, cf_resource_required (set_defaults c) = cf_resource_required c. Proof. dflt_tac. Qed.
Lemma mono_resource_enabled : forall o c, cf_resource_enabled c = true -> cf_resource_enabled (apply_opt o c) = true. Proof. mono_tac. Qed.
Lemma dflt_resource_enabled : forall c, cf_resource_enabled (set_defaults c) = cf_resource_enabled c. Proof. dflt_tac. Qed.
Lemma mono_jwt_bearer_authn : forall o c, cf_jwt_bearer_authn_required c = true -> cf_jwt_bearer_authn_required (apply_opt o c) = true. Proof. mono_tac. Qed.
Lemma dflt_jwt_bearer_authn : forall c, cf_jwt_bearer_authn_required (set_defaults c) = cf_jwt_bearer_authn_required c. Proof. dflt_tac. Qed.
Lemma mono_introspection : forall o c, cf_introspection c = true -> cf_introspection (apply_opt o c) = true. Proof. mono_tac. Qed.
Lemma dflt_introspection : forall c, cf_introspection (set_defaults c) = cf_introspection c. Proof. dflt_tac. Qed.
Lemma mono_revocation : forall o c, cf_revocation c = true -> cf_revocation (apply_opt o c) = true. Proof. mono_tac. Qed.
Lemma dflt_revocation : forall c, cf_revocation (set_defaults c) = cf_revocation c. Proof. dflt_tac. Qed.
Lemma mono_dcr : forall o c, cf_dcr c = true -> cf_dcr (apply_opt o c) = true. Proof. mono_tac. Qed.
Lemma dflt_dcr : forall c, cf_dcr (set_defaults c) = cf_dcr c. Proof. dflt_tac. Qed.
Lemma mono_issuer_param : forall o c, cf_issuer_param c = true -> cf_issuer_param (apply_opt o c) = true. Proof. mono_tac. Qed.
Lemma dflt_issuer_param : forall c, cf_issuer_param (set_defaults c) = cf_issuer_param c. Proof. dflt_tac. Qed.

(* the profile is never changed *)
Lemma apply_profile o c : cf_profile (apply_opt o c) = cf_profile c.
Proof. destruct o; reflexivity. Qed.
Lemma build_profile p opts cfg : build p opts = Some cfg -> cf_profile cfg = p.
Proof.
  intros H. apply build_inv in H as [-> _].
  assert (forall c, cf_profile (set_defaults c) = cf_profile c) as Hd by dflt_tac.
  rewrite Hd. clear Hd. unfold folded.
  assert (forall opts c, cf_profile (fold_left (fun c o => apply_opt o c) opts c) = cf_profile c) as Hf.
  { clear. intros opts. induction opts as [|o r IH]; simpl; auto. intros c. rewrite IH. apply apply_profile. }
  rewrite Hf. reflexivity.
Qed.

(* grant types are only ever appended *)
Lemma has_grant_app g l l' : has_grant g (l ++ l') = orb (has_grant g l) (has_grant g l').
Proof. unfold has_grant. apply existsb_app. Qed.
Lemma mono_grant g : forall o c, has_grant g (cf_grants c) = true -> has_grant g (cf_grants (apply_opt o c)) = true.
Proof.
  intros o c H.
  assert (exists l, cf_grants (apply_opt o c) = (cf_grants c ++ l)%list) as [l ->].
  { destruct o; cbn; try (exists []; rewrite app_nil_r; reflexivity); eexists; reflexivity. }
  rewrite has_grant_app, H; reflexivity.
Qed.
Lemma dflt_grants : forall c, cf_grants (set_defaults c) = cf_grants c.
Proof. dflt_tac. Qed.
Lemma dflt_grant g : forall c, has_grant g (cf_grants (set_defaults c)) = has_grant g (cf_grants c).
Proof. intros c. rewrite dflt_grants. reflexivity. Qed.

(* Provider.validate: what a configuration that builds guarantees *)
Lemma build_valid p opts cfg : build p opts = Some cfg -> valid_config cfg = true.
Proof. intros H. apply build_inv in H as [_ H]. exact H. Qed.
Lemma build_binding_mechanism p opts cfg :
  build p opts = Some cfg -> cf_binding_required cfg = true ->
  cf_dpop_enabled cfg = true \/ cf_tls_binding_enabled cfg = true.
Proof.
  intros Hb Hr. apply build_valid in Hb. unfold valid_config in Hb. rewrite Hr in Hb.
  destruct (cf_dpop_enabled cfg); [left; reflexivity|]. destruct (cf_tls_binding_enabled cfg); [right; reflexivity|discriminate].
Qed.

(* setDefaults: the derived lists *)
Lemma build_resp_types p opts cfg : build p opts = Some cfg ->
  cf_resp_types cfg =
    ((if has_grant GAuthorizationCode (cf_grants cfg) then ["code"] else []) ++
     (if has_grant GImplicit (cf_grants cfg) then ["token"; "id_token"; "id_token token"] else []) ++
     (if andb (has_grant GAuthorizationCode (cf_grants cfg)) (has_grant GImplicit (cf_grants cfg))
      then ["code id_token"; "code token"; "code id_token token"] else []))%list.
Proof.
  intros H. apply build_inv in H as [-> _]. generalize (folded p opts). intros c.
  unfold set_defaults. destruct (cf_jarm_enabled _); reflexivity.
Qed.
Lemma build_resp_modes p opts cfg : build p opts = Some cfg ->
  cf_resp_modes cfg =
    (["query"; "fragment"; "form_post"] ++
     (if cf_jarm_enabled cfg then ["jwt"; "query.jwt"; "fragment.jwt"; "form_post.jwt"] else []))%list.
Proof.
  intros H. apply build_inv in H as [-> _]. generalize (folded p opts). intros c.
  unfold set_defaults. cbn. destruct (cf_jarm_enabled c) eqn:E; cbn; rewrite ?E; reflexivity.
Qed.
