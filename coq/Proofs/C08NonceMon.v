(* C08NonceMon.v — the monitor of suite c08nonce (Corr/C08NonceCorr.v mon_c08n) against the model:
   it never alarms on ID tokens the model's flow delivers (so an alarm on the real provider's tokens
   is a disagreement with the theorems of Props/C08.v, not an artefact of the monitor), and when it
   is silent every observed claim is the merged request's nonce. *)
From Verif Require Import Base Scope Types Prog Pop Token Authorize Artifacts C08Proofs C08Nonce C08NonceProofs.
From Verif.Corr Require Import C08NonceCorr.
Local Open Scope N_scope.

Lemma obs_of_ok site i e : idt_nonce i = opt_str e -> nonce_ok e (obs_of site i) = true.
Proof.
  unfold nonce_ok, obs_of, opt_str. intros H. rewrite H.
  destruct (is_empty e) eqn:E; cbn; [reflexivity|]. apply seqb_refl.
Qed.

Lemma first_bad_nonce_zero e l : forall k, (forall o, In o l -> nonce_ok e o = true) -> first_bad_nonce k e l = 0.
Proof.
  induction l as [|o l IH]; intros k H; cbn; [reflexivity|].
  rewrite (H o (or_introl eq_refl)). apply IH. intros o' Ho'. apply H. right. exact Ho'.
Qed.

Lemma first_bad_nonce_sound e l : forall k, first_bad_nonce k e l = 0 -> forall o, In o l -> nonce_ok e o = true.
Proof.
  induction l as [|o l IH]; intros k H o' Ho'; [destruct Ho'|].
  change (first_bad_nonce k e (o :: l)) with (if nonce_ok e o then first_bad_nonce (k + 1) e l else 1000 + k) in H.
  destruct (nonce_ok e o) eqn:E.
  - destruct Ho' as [<-|Ho']; [exact E|]. eapply IH; eauto.
  - exfalso. apply N.eq_add_0 in H as [H _]. discriminate.
Qed.

(* no false alarm: observations that are ID tokens of the model's flow pass the monitor *)
Lemma monitor_accepts_model cfg n now c fo f l k :
  (forall o, In o l -> exists site i, o = obs_of site i /\ id_token_of_flow cfg n now c fo f i) ->
  first_bad_nonce k (merged_nonce_rule (fl_profile f) (fl_form f) (p_nonce (fl_inner f)) (p_nonce (fl_outer f))) l = 0.
Proof.
  intros H. apply first_bad_nonce_zero. intros o Ho. destruct (H o Ho) as [site [i [-> Hi]]].
  apply obs_of_ok. rewrite (id_token_of_flow_nonce _ _ _ _ _ _ _ Hi). unfold flow_params.
  rewrite effective_nonce_rule. reflexivity.
Qed.

(* a silent monitor: every observed ID token carries exactly the merged request's nonce *)
Lemma monitor_silent_means_echo prof form i o l k x :
  first_bad_nonce k (merged_nonce_rule prof form (p_nonce i) (p_nonce o)) l = 0 -> In x l ->
  let e := p_nonce (effective_params prof form i o) in
  if is_empty e then no_present x = false else no_present x = true /\ no_nonce x = e.
Proof.
  intros H Hx. cbn zeta. rewrite effective_nonce_rule.
  pose proof (first_bad_nonce_sound _ _ _ H x Hx) as E. unfold nonce_ok in E.
  destruct (is_empty _).
  - apply negb_true_iff in E. exact E.
  - apply andb_true_iff in E as [E1 E2]. apply seqb_eq in E2. auto.
Qed.
