(* C09History.v — pairwise_never_jwt over all histories: every step of the flow model, from every
   state, hands a JWT access token only to a client that is not pairwise (or through
   client_credentials).  The client a response belongs to is resolved in the state the step starts
   from (resp_client / lookup_client); client lookups are followed on the concrete store, the rest of
   each handler is covered whatever the storage replies (rets_ok). *)
From Verif Require Import Base Scope Types Prog Pop Token Authorize System Config Artifacts Disclosure Hoare Tactics C09Proofs.
From Verif.Corr Require Import C09.
Local Open Scope N_scope.

(* ---- over all histories ---- *)
Definition lookup_client (w : world) (sto : store) (i : id) : option client :=
  match find_client i (w_static w) with Some c => Some c | None => find_client i (st_clients sto) end.
(* the client a response belongs to, read off the operation and the state it runs in *)
Definition resp_client (sto : store) (o : op) : option id :=
  match o with
  | OpToken _ r => Some (cr_id (t_cred r))
  | OpAuthorize r => Some (ar_client r)
  | OpCallback r => option_map a_client (find (fun s => ideq (a_cb s) (cb_id r)) (st_asess sto))
  | OpNotifyOk a _ => option_map a_client (find (fun s => ideq (a_ciba s) a) (st_asess sto))
  | _ => None
  end.
Definition pw_ok (w : world) (sto : store) (o : op) (x : obs) : bool :=
  if andb (carries_jwt x) (negb (is_cc o)) then
    match resp_client sto o with
    | Some i => match lookup_client w sto i with Some c => negb (c_pairwise c) | None => false end
    | None => false
    end
  else true.
Fixpoint trace_pw_ok (w : world) (st : state) (n : nat) (ops : list op) : bool :=
  match ops with
  | [] => true
  | o :: r => let '(st', x) := step w st n o in andb (pw_ok w (s_store st) o x) (trace_pw_ok w st' (S n) r)
  end.

Lemma run_seq_bind {A B} (p : prog A) (f : A -> prog B) : forall st,
  run_seq (bind p f) st = let '(st', a) := run_seq p st in run_seq (f a) st'.
Proof.
  induction p as [a|c k IH|o p IH]; intros st; cbn; auto.
  destruct (exec c st) as [st' r]. apply IH.
Qed.

Lemma run_get_client w i st : run_seq (get_client w i) st = (st, lookup_client w st i).
Proof.
  unfold get_client, lookup_client. destruct (find_client i (w_static w)); cbn; auto.
  destruct (find_client i (st_clients st)); reflexivity.
Qed.

Lemma run_authenticated w cr st :
  exists oc, run_seq (authenticated w cr) st = (st, oc) /\
             (forall c, oc = Some c -> lookup_client w st (cr_id cr) = Some c).
Proof.
  unfold authenticated. destruct (is_nil (cr_id cr)); cbn.
  - exists None. split; auto. discriminate.
  - rewrite run_seq_bind, run_get_client. destruct (lookup_client w st (cr_id cr)) as [c|] eqn:L; cbn.
    + destruct (c_public c || cr_ok cr)%bool; cbn; [exists (Some c)|exists None]; split; auto; congruence.
    + exists None; split; auto; discriminate.
Qed.

(* the client of a jwt-bearer request: the authenticated one, or the anonymous client *)
Lemma run_jwt_bearer_client w cr st :
  exists oc, run_seq (jwt_bearer_client w cr) st = (st, oc) /\
             (forall c, oc = Some c -> lookup_client w st (cr_id cr) = Some c \/ c = anonymous_client (w_cfg w)).
Proof.
  unfold jwt_bearer_client. rewrite run_seq_bind. destruct (run_authenticated w cr st) as [oc [E L]]. rewrite E.
  destruct oc as [c|]; cbn.
  - exists (Some c). split; [reflexivity|]. intros c' H; inversion H; subst. left. apply L. reflexivity.
  - destruct (_ && _)%bool; cbn; [exists (Some (anonymous_client (w_cfg w)))|exists None]; (split; [reflexivity|]); [|discriminate].
    intros c' H; inversion H; auto.
Qed.
(* the anonymous client gets opaque tokens: its token options are the harness's default *)
Lemma make_token_anon n cfg gt : make_token n (anonymous_client cfg) gt = (mint n KAtOpaque, mint n KAtOpaque).
Proof. reflexivity. Qed.

(* whatever the storage replies, every leaf satisfies P *)
Fixpoint rets_ok {A} (P : A -> Prop) (p : prog A) : Prop :=
  match p with
  | Ret a => P a
  | Do c k => forall r, rets_ok P (k r)
  | Touch _ p' => rets_ok P p'
  end.
Lemma rets_ok_run {A} (P : A -> Prop) (p : prog A) : rets_ok P p -> forall st, P (snd (run_seq p st)).
Proof.
  induction p as [a|c k IH|o p IH]; cbn; intros H st; auto.
  destruct (exec c st) as [st' r]. apply IH. apply H.
Qed.

Definition nojwt (c : client) (x : out) : Prop := carries_jwt (Out x) = true -> c_pairwise c = false.
Definition nojwt_a (c : client) (a : ares) : Prop := match a with ADone o => nojwt c o | AFail _ => True end.

Lemma mk_leaf n c gt tv tid : make_token n c gt = (tv, tid) -> gt <> GClientCredentials ->
  (is_kind KAtJwt tv || false)%bool = true -> c_pairwise c = false.
Proof.
  intros E G H. rewrite orb_false_r in H. replace tv with (fst (make_token n c gt)) in H by (rewrite E; reflexivity).
  apply make_token_jwt_not_pairwise in H. destruct H; [assumption|contradiction].
Qed.

Lemma is_kind_nil k : is_kind k 0 = false.
Proof. destruct k; reflexivity. Qed.

Local Opaque contains_all_scopes are_scopes_allowed validate_binding validate_pkce refresh_binding
       validate_params validate_optionals validate_in_out merge_params mint make_token is_kind
       nav_mode contains_openid rt_contains.

Ltac crunchr :=
  repeat (cbn in *;
          try match goal with
              | |- forall _, _ => intro
              | |- True => exact I
              end;
          try break_goal).
Ltac leaf :=
  try exact I; try discriminate;
  try (unfold nojwt, nojwt_a, carries_jwt; cbn; intros; try discriminate;
       try (eapply mk_leaf; [eassumption | discriminate | eassumption])).


Lemma pw_ok_err w st o e : pw_ok w st o (Out (OErr e)) = true.
Proof. reflexivity. Qed.

Lemma pw_ok_from_nojwt w st o c x i :
  resp_client st o = Some i -> lookup_client w st i = Some c -> nojwt c x -> pw_ok w st o (Out x) = true.
Proof.
  intros R L H. unfold pw_ok. destruct (carries_jwt (Out x)) eqn:CJ; [|reflexivity].
  destruct (negb (is_cc o)); [|reflexivity]. cbn. rewrite R, L, (H CJ). reflexivity.
Qed.

Ltac token_handler :=
  match goal with |- pw_ok ?w ?st (OpToken _ ?r) _ = true =>
    rewrite run_seq_bind; destruct (run_authenticated w (t_cred r) st) as [oc [E L]]; rewrite E;
    destruct oc as [c|]; [|reflexivity]; specialize (L c eq_refl);
    eapply pw_ok_from_nojwt; [reflexivity | exact L |];
    apply rets_ok_run; crunchr; leaf
  end.

Lemma code_grant_pw w n now r st :
  pw_ok w st (OpToken GAuthorizationCode r) (Out (snd (run_seq (code_grant w n now r) st))) = true.
Proof.
  unfold code_grant.
  destruct (negb (has_grant GAuthorizationCode (cf_grants (w_cfg w)))); [reflexivity|].
  destruct (is_nil (t_code r)); [reflexivity|].
  token_handler.
Qed.

Lemma refresh_grant_pw w n now r st :
  pw_ok w st (OpToken GRefreshToken r) (Out (snd (run_seq (refresh_grant w n now r) st))) = true.
Proof.
  unfold refresh_grant.
  destruct (negb (has_grant GRefreshToken (cf_grants (w_cfg w)))); [reflexivity|].
  destruct (is_nil (t_refresh r)); [reflexivity|].
  token_handler.
Qed.

Lemma ciba_grant_pw w n now r st :
  pw_ok w st (OpToken GCiba r) (Out (snd (run_seq (ciba_grant w n now r) st))) = true.
Proof.
  unfold ciba_grant.
  destruct (negb (has_grant GCiba (cf_grants (w_cfg w)))); [reflexivity|].
  token_handler.
Qed.

Lemma cc_grant_pw w n now r st :
  pw_ok w st (OpToken GClientCredentials r) (Out (snd (run_seq (cc_grant w n now r) st))) = true.
Proof. unfold pw_ok. cbn. rewrite andb_false_r. reflexivity. Qed.

Lemma lookup_client_id w st i c : lookup_client w st i = Some c -> c_id c = i.
Proof.
  unfold lookup_client, find_client. intros H.
  destruct (find _ (w_static w)) eqn:F.
  - inversion H; subst. apply find_some in F as [_ F2]. apply N.eqb_eq in F2. exact F2.
  - apply find_some in H as [_ F2]. apply N.eqb_eq in F2. exact F2.
Qed.

(* authenticate: the client is looked up by the session's client id *)
Lemma authenticate_pw w n now s pol st :
  match snd (run_seq (authenticate w n now s pol) st) with
  | ADone o => carries_jwt (Out o) = true ->
               exists c, lookup_client w st (a_client s) = Some c /\ c_pairwise c = false
  | AFail _ => True
  end.
Proof.
  destruct pol.
  - (* success *)
    unfold authenticate. cbn [run_seq]. rewrite run_seq_bind, run_get_client. cbn [a_client].
    change (a_client (s <| a_subject := sub |> <| a_granted := granted |> <| a_granted_res := resources |> <| a_granted_details := details |>)) with (a_client s).
    destruct (lookup_client w st (a_client s)) as [c|] eqn:L; [|exact I].
    match goal with |- match snd (run_seq ?p st) with _ => _ end =>
      assert (H : nojwt_a c (snd (run_seq p st))) by (apply rets_ok_run; unfold save_a; crunchr; leaf) end.
    destruct (snd (run_seq _ st)); [|exact I]. intros CJ. exists c. split; auto.
  - match goal with |- match snd (run_seq ?p st) with _ => _ end =>
      assert (H : match snd (run_seq p st) with ADone o => carries_jwt (Out o) = false | AFail _ => True end)
        by (apply (rets_ok_run (fun a => match a with ADone o => carries_jwt (Out o) = false | AFail _ => True end));
            unfold authenticate, save_a; crunchr; try exact I; reflexivity) end.
    destruct (snd (run_seq _ st)); [|exact I]. intros CJ. rewrite H in CJ. discriminate.
  - match goal with |- match snd (run_seq ?p st) with _ => _ end =>
      assert (H : match snd (run_seq p st) with ADone o => carries_jwt (Out o) = false | AFail _ => True end)
        by (apply (rets_ok_run (fun a => match a with ADone o => carries_jwt (Out o) = false | AFail _ => True end));
            unfold authenticate, save_a; crunchr; try exact I; reflexivity) end.
    destruct (snd (run_seq _ st)); [|exact I]. intros CJ. rewrite H in CJ. discriminate.
  - match goal with |- match snd (run_seq ?p st) with _ => _ end =>
      assert (H : match snd (run_seq p st) with ADone o => carries_jwt (Out o) = false | AFail _ => True end)
        by (apply (rets_ok_run (fun a => match a with ADone o => carries_jwt (Out o) = false | AFail _ => True end));
            unfold authenticate, save_a; crunchr; try exact I; reflexivity) end.
    destruct (snd (run_seq _ st)); [|exact I]. intros CJ. rewrite H in CJ. discriminate.
Qed.

Lemma pw_ok_nojwt w st o x : carries_jwt x = false -> pw_ok w st o x = true.
Proof. intros H. unfold pw_ok. rewrite H. reflexivity. Qed.

Lemma render_nojwt cfg c e : carries_jwt (Out (render_aerr cfg c e)) = false.
Proof. destruct e; reflexivity. Qed.

Lemma start_session_pw w n now c s r st :
  match snd (run_seq (start_session w n now c s r) st) with
  | ADone o => carries_jwt (Out o) = true ->
               exists c', lookup_client w st (a_client s) = Some c' /\ c_pairwise c' = false
  | AFail _ => True
  end.
Proof.
  unfold start_session. destruct (_ && _)%bool; [exact I|]. destruct (negb _); [exact I|].
  cbn [run_seq].
  match goal with |- context [authenticate w n now ?s' ?pol] => pose proof (authenticate_pw w n now s' pol st) as A end.
  exact A.
Qed.

Lemma after_session w st o cfg c i (a : ares) :
  resp_client st o = Some i ->
  match a with
  | ADone x => carries_jwt (Out x) = true -> exists c', lookup_client w st i = Some c' /\ c_pairwise c' = false
  | AFail _ => True end ->
  pw_ok w st o (Out (finish_ares cfg c a)) = true.
Proof.
  intros R A. destruct a as [x|e]; cbn.
  - unfold pw_ok. destruct (carries_jwt (Out x)) eqn:CJ; [|reflexivity]. destruct (negb (is_cc o)); [|reflexivity]. cbn.
    destruct (A eq_refl) as [c' [L P]]. rewrite R, L, P. reflexivity.
  - apply pw_ok_nojwt. apply render_nojwt.
Qed.

Lemma init_auth_pw w n now r st :
  pw_ok w st (OpAuthorize r) (Out (snd (run_seq (init_auth w n now r) st))) = true.
Proof.
  unfold init_auth. destruct (is_nil (ar_client r)); [reflexivity|].
  rewrite run_seq_bind, run_get_client. destruct (lookup_client w st (ar_client r)) as [c|] eqn:L; [|reflexivity].
  destruct (negb (_ || _)); [reflexivity|].
  destruct (should_use_par _ _ _).
  - destruct (is_nil _); [reflexivity|]. cbn [run_seq]. cbn [exec].
    destruct (find (fun s => ideq (a_par s) _) (st_asess st)) as [s|] eqn:F; cbn [reply_a]; [|reflexivity].
    destruct (negb (ideq (a_client s) (ar_client r))) eqn:E1.
    + cbn [run_seq]. destruct (exec _ st) as [st1 rd]. destruct rd; cbn; try reflexivity; apply pw_ok_nojwt, render_nojwt.
    + destruct (geb now (a_expires s)).
      * cbn [run_seq]. destruct (exec _ st) as [st1 rd]. destruct rd; cbn; try reflexivity; apply pw_ok_nojwt, render_nojwt.
      * destruct (validate_in_out _ _ _ _) as [e|].
        -- cbn [run_seq]. destruct (exec _ st) as [st1 rd]. destruct rd; cbn; try reflexivity; apply pw_ok_nojwt, render_nojwt.
        -- rewrite run_seq_bind.
           match goal with |- context [start_session w n now c ?s' r] => pose proof (start_session_pw w n now c s' r st) as A end.
           destruct (run_seq (start_session _ _ _ _ _ _) st) as [st1 a]. cbn [snd] in A. cbn [run_seq snd].
           apply after_session with (i := ar_client r); [reflexivity|].
           apply negb_false_iff in E1. apply N.eqb_eq in E1.
           destruct a; [|exact I]. intros CJ. specialize (A CJ).
           destruct (is_fapi _); cbn [a_client] in A; rewrite <- E1; exact A.
  - destruct (validate_params _ _ _) as [e|]; [apply pw_ok_nojwt, render_nojwt|].
    rewrite run_seq_bind.
    match goal with |- context [start_session w n now c ?s' r] => pose proof (start_session_pw w n now c s' r st) as A end.
    destruct (run_seq (start_session _ _ _ _ _ _) st) as [st1 a]. cbn [snd] in A. cbn [run_seq snd].
    apply after_session with (i := ar_client r); [reflexivity|].
    destruct a; [|exact I]. intros CJ. specialize (A CJ). cbn [a_client new_session] in A.
    rewrite (lookup_client_id _ _ _ _ L) in A. exact A.
Qed.

Lemma continue_auth_pw w n now r st :
  pw_ok w st (OpCallback r) (Out (snd (run_seq (continue_auth w n now r) st))) = true.
Proof.
  unfold continue_auth. destruct (is_nil (cb_id r)); [reflexivity|]. cbn [run_seq]. cbn [exec].
  destruct (find (fun s => ideq (a_cb s) (cb_id r)) (st_asess st)) as [s|] eqn:F; cbn [reply_a]; [|reflexivity].
  destruct (geb now (a_expires s)); [reflexivity|].
  rewrite run_seq_bind. pose proof (authenticate_pw w n now s (cb_pol r) st) as A.
  destruct (run_seq (authenticate w n now s (cb_pol r)) st) as [st1 a]. cbn [snd] in A.
  destruct a as [x|e].
  - cbn [run_seq snd]. unfold pw_ok. destruct (carries_jwt (Out x)) eqn:CJ; [|reflexivity]. cbn.
    rewrite F. cbn. destruct (A eq_refl) as [c [L P]]. rewrite L, P. reflexivity.
  - rewrite run_seq_bind, run_get_client. destruct (lookup_client w st1 (a_client s)); cbn [run_seq snd]; [|cbn; reflexivity].
    apply pw_ok_nojwt, render_nojwt.
Qed.

Lemma notify_success_pw w n now a hg st :
  let '(ok, ns) := snd (run_seq (notify_success w n now a hg) st) in
  pw_ok w st (OpNotifyOk a hg) (Notified ok ns) = true.
Proof.
  unfold notify_success. cbn [run_seq]. cbn [exec].
  destruct (find (fun s => ideq (a_ciba s) a) (st_asess st)) as [s|] eqn:F; cbn [reply_a]; [|reflexivity].
  rewrite run_seq_bind, run_get_client. destruct (lookup_client w st (a_client s)) as [c|] eqn:L; [|reflexivity].
  match goal with |- let '(ok, ns) := snd (run_seq ?p st) in _ =>
    assert (H : (fun x : bool * list notif => carries_jwt (Notified (fst x) (snd x)) = true -> c_pairwise c = false) (snd (run_seq p st)))
      by (apply rets_ok_run; crunchr; try discriminate; try exact I;
          unfold carries_jwt; cbn; intros; try discriminate;
          try (eapply mk_leaf; [eassumption | discriminate | eassumption])) end.
  destruct (snd (run_seq _ st)) as [ok ns]. cbn [fst snd] in H.
  unfold pw_ok. destruct (carries_jwt (Notified ok ns)) eqn:CJ; [|reflexivity]. cbn. rewrite F. cbn. rewrite L, (H eq_refl). reflexivity.
Qed.

Lemma run_seq_lift (p : prog out) st : snd (run_seq (bind p (fun x => Ret (Out x))) st) = Out (snd (run_seq p st)).
Proof. rewrite run_seq_bind. destruct (run_seq p st). reflexivity. Qed.

Lemma rets_ok_bind_any {A B} (Q : B -> Prop) (p : prog A) (f : A -> prog B) :
  (forall a, rets_ok Q (f a)) -> rets_ok Q (bind p f).
Proof. induction p; cbn; auto. Qed.

Definition quiet (x : out) : Prop := carries_jwt (Out x) = false.
Ltac quiet_tac := repeat first [ apply rets_ok_bind_any; intro | progress crunchr ]; try reflexivity; try exact I.

Lemma push_auth_quiet w n now r : rets_ok quiet (push_auth w n now r).
Proof. unfold push_auth, save_a. quiet_tac. Qed.
Lemma introspect_quiet w now r : rets_ok quiet (introspect w now r).
Proof. unfold introspect. quiet_tac. Qed.
Lemma revoke_quiet w now r : rets_ok quiet (revoke w now r).
Proof. unfold revoke. quiet_tac. Qed.
Local Opaque validate_pop extract_id export_sub validate_jwt.
Lemma userinfo_quiet w now r : rets_ok quiet (userinfo w now r).
Proof. unfold userinfo. quiet_tac. Qed.
Lemma token_info_quiet now p : rets_ok quiet (token_info now p).
Proof. unfold token_info. quiet_tac. Qed.
Lemma token_info_req_quiet now r : rets_ok quiet (token_info_from_request now r).
Proof. unfold token_info_from_request. quiet_tac. Qed.
Lemma init_back_auth_quiet w n now r : rets_ok quiet (init_back_auth w n now r).
Proof. unfold init_back_auth, save_a. quiet_tac. Qed.
Lemma notify_failure_quiet w a :
  rets_ok (fun x : bool * list notif => carries_jwt (Notified (fst x) (snd x)) = false) (notify_failure w a).
Proof. unfold notify_failure. quiet_tac. Qed.

Lemma quiet_step w st o (p : prog out) sto :
  rets_ok quiet p -> pw_ok w st o (snd (run_seq (bind p (fun x => Ret (Out x))) sto)) = true.
Proof. intros H. rewrite run_seq_lift. apply pw_ok_nojwt. apply (rets_ok_run quiet p H). Qed.

Lemma jwt_bearer_grant_pw w n now r st :
  pw_ok w st (OpToken GJwtBearer r) (Out (snd (run_seq (jwt_bearer_grant w n now r) st))) = true.
Proof.
  unfold jwt_bearer_grant.
  destruct (negb (has_grant GJwtBearer (cf_grants (w_cfg w)))); [reflexivity|].
  rewrite run_seq_bind. destruct (run_jwt_bearer_client w (t_cred r) st) as [oc [E L]]. rewrite E.
  destruct oc as [c|]; [|reflexivity]. destruct (L c eq_refl) as [L1|L1].
  - eapply pw_ok_from_nojwt; [reflexivity | exact L1 |].
    apply rets_ok_run; crunchr; leaf.
  - (* the anonymous client: never a JWT *)
    subst c. apply pw_ok_nojwt. apply (rets_ok_run quiet).
    crunchr; try reflexivity; try exact I.
    all: match goal with E : make_token _ (anonymous_client _) _ = _ |- _ => rewrite make_token_anon in E; inversion E; subst end.
    all: unfold quiet, carries_jwt; cbn; rewrite is_kind_mint_other; [reflexivity | cbn; lia].
Qed.

Lemma step_pw_ok w st n o : pw_ok w (s_store st) o (snd (step w st n o)) = true.
Proof.
  unfold step, step_with.
  destruct o; try reflexivity;
    match goal with |- context [run_seq (handler w n ?now ?o) ?sto] =>
      replace (snd (let '(sto', x) := run_seq (handler w n now o) sto in (mkState sto' (s_now st), x)))
        with (snd (run_seq (handler w n now o) sto)) by (destruct (run_seq (handler w n now o) sto); reflexivity) end;
    cbn [handler].
  - rewrite run_seq_lift. apply init_auth_pw.
  - rewrite run_seq_lift. apply continue_auth_pw.
  - apply quiet_step, push_auth_quiet.
  - destruct g; try reflexivity; rewrite run_seq_lift.
    + apply cc_grant_pw. + apply code_grant_pw. + apply refresh_grant_pw. + apply jwt_bearer_grant_pw. + apply ciba_grant_pw.
  - apply quiet_step, introspect_quiet.
  - apply quiet_step, revoke_quiet.
  - apply quiet_step, userinfo_quiet.
  - apply quiet_step, token_info_quiet.
  - apply quiet_step, token_info_req_quiet.
  - apply quiet_step, init_back_auth_quiet.
  - rewrite run_seq_bind. pose proof (notify_success_pw w n (s_now st) a hg (s_store st)) as H.
    destruct (run_seq (notify_success _ _ _ _ _) _) as [st1 [ok ns]]. exact H.
  - rewrite run_seq_bind.
    pose proof (rets_ok_run _ _ (notify_failure_quiet w a) (s_store st)) as H.
    destruct (run_seq (notify_failure _ _) _) as [st1 [ok ns]]. cbn in *. apply pw_ok_nojwt. exact H.
Qed.

Lemma trace_pw_ok_all w : forall ops st n, trace_pw_ok w st n ops = true.
Proof.
  induction ops as [|o ops IH]; intros st n; cbn; auto.
  pose proof (step_pw_ok w st n o) as H. destruct (step w st n o) as [st' x]. cbn in H. rewrite H, IH. reflexivity.
Qed.

Lemma trace_pw_ok_init w dyn ops : trace_pw_ok w (init_state dyn) 0 ops = true.
Proof. apply trace_pw_ok_all. Qed.

(* satisfiability: a pairwise client whose token options ask for JWT gets an opaque token from the
   code grant and a JWT from client_credentials *)
Definition ex_pw_client : client :=
  mkClient 4 false [GAuthorizationCode; GClientCredentials] ["code"] ["https://c4.example/cb"] "openid" CibaNone
           false false true true false false false 0 false None.
Example ex_pairwise_tokens :
  (fst (make_token 3 ex_pw_client GAuthorizationCode), fst (make_token 3 ex_pw_client GClientCredentials))
  = (mint 3 KAtOpaque, mint 3 KAtJwt).
Proof. reflexivity. Qed.
