(* JwtBearerProofs.v — the jwt-bearer grant (RFC 7523; Token.jwt_bearer_grant, transcribed from
   internal/token/jwt_bearer.go): what a request that yields tokens implies, for every store; when a
   request is served without an authenticated client (the anonymous client); non-vacuity. *)
From Verif Require Import Base Scope Types Prog Pop Token Authorize System Config Run Monitors Hoare Tactics
  OneShot ScopeProofs AuthnLink C01Proofs C04Proofs C04Resources.
Local Open Scope N_scope.

(* who a jwt-bearer request is served for: the authenticated client, or - for a request that names
   nobody, where WithJWTBearerGrantClientAuthnRequired is not set - the anonymous client *)
Definition jwt_bearer_served_for (w : world) (st : store) (cr : cred) (c : client) : Prop :=
  snd (run_seq (authenticated w cr) st) = Some c \/
  (snd (run_seq (authenticated w cr) st) = None /\ c = anonymous_client (w_cfg w) /\
   cr_id cr = 0 /\ cf_jwt_bearer_authn_required (w_cfg w) = false).

Lemma is_nil_eq x : is_nil x = true -> x = 0.
Proof. unfold is_nil. apply N.eqb_eq. Qed.

Lemma served_for_of_client w st cr c :
  snd (run_seq (jwt_bearer_client w cr) st) = Some c -> jwt_bearer_served_for w st cr c.
Proof.
  intros H. destruct (jwt_bearer_client_spec w cr st c H) as [A|(A & B & C & D)]; [left; exact A|].
  right. repeat split; auto. apply is_nil_eq, C.
Qed.

Local Opaque contains_all_scopes are_scopes_allowed validate_binding validate_pkce refresh_binding
       validate_params validate_optionals validate_in_out merge_params validate_jwt validate_pop
       validate_binding_dpop validate_binding_tls set_pop_jkt set_pop_x5t hg_result contains_openid make_token
       validate_resources.

Lemma with_refresh_refresh n now cfg c g :
  g_refresh g = 0 -> g_refresh (with_refresh n now cfg c g) <> 0 ->
  has_grant GRefreshToken (c_grants c) = true /\ cf_issue_refresh cfg <> IssueNever.
Proof.
  unfold with_refresh, should_issue_refresh. intros Z.
  destruct (issue_policy (cf_issue_refresh cfg) (g_type g) (g_active g)) eqn:EP; cbn; [|congruence].
  destruct (has_grant GRefreshToken (c_grants c)); cbn; [|congruence].
  intros _. split; [reflexivity|]. intros E. rewrite E in EP. discriminate.
Qed.
Lemma with_refresh_subject n now cfg c g : g_subject (with_refresh n now cfg c g) = g_subject g.
Proof. unfold with_refresh. destruct (should_issue_refresh cfg c (g_type g) (g_active g)); reflexivity. Qed.
Lemma with_refresh_client n now cfg c g : g_client (with_refresh n now cfg c g) = g_client g.
Proof. unfold with_refresh. destruct (should_issue_refresh cfg c (g_type g) (g_active g)); reflexivity. Qed.
Lemma with_refresh_type n now cfg c g : g_type (with_refresh n now cfg c g) = g_type g.
Proof. unfold with_refresh. destruct (should_issue_refresh cfg c (g_type g) (g_active g)); reflexivity. Qed.

(* (a) the decision rule, for every store and request *)
Lemma jwt_bearer_grant_post w n now r st :
  is_tokens (snd (run_seq (jwt_bearer_grant w n now r) st)) = true ->
  exists c g sub,
    jwt_bearer_served_for w st (t_cred r) c /\
    has_grant GJwtBearer (cf_grants (w_cfg w)) = true /\
    has_grant GJwtBearer (c_grants c) = true /\
    are_scopes_allowed (c_scopes c) (cf_scopes (w_cfg w)) (t_scope r) = true /\
    (cf_resource_enabled (w_cfg w) = true -> forall x, In x (t_resources r) -> In x (cf_resources (w_cfg w))) /\
    t_assertion r = AsOk sub /\
    st_gsess (fst (run_seq (jwt_bearer_grant w n now r) st)) = put_gsess g (st_gsess st) /\
    g_granted g = t_scope r /\ g_active g = t_scope r /\ g_client g = c_id c /\ g_subject g = sub /\
    g_type g = GJwtBearer /\
    (g_refresh g <> 0 -> has_grant GRefreshToken (c_grants c) = true /\ cf_issue_refresh (w_cfg w) <> IssueNever).
Proof.
  unfold jwt_bearer_grant. destruct (has_grant GJwtBearer (cf_grants (w_cfg w))) eqn:EG; [|cbn; discriminate]. cbn [negb].
  rewrite run_jwt_bearer_client_k.
  destruct (snd (run_seq (jwt_bearer_client w (t_cred r)) st)) as [c|] eqn:EA; [|cbn; discriminate].
  apply served_for_of_client in EA.
  repeat (cbn; try discriminate; break_inner).
  all: cbn; try discriminate.
  all: intros _; exists c; eexists; eexists; split; [exact EA|].
  all: repeat match goal with H : negb _ = false |- _ => apply negb_false_iff in H end.
  all: split; [reflexivity|]; split; [assumption|]; split; [assumption|].
  all: split; [apply validate_resources_spec; assumption|].
  all: split; [reflexivity|]; split; [reflexivity|].
  all: rewrite ?with_refresh_active, ?with_refresh_granted, ?with_refresh_subject, ?with_refresh_client, ?with_refresh_type.
  all: repeat split; try reflexivity.
  all: match goal with NZ : g_refresh (with_refresh _ _ _ _ _) <> 0 |- _ =>
         apply with_refresh_refresh in NZ; [destruct NZ; assumption|reflexivity] end.
Qed.

(* the anonymous client never gets a refresh token: its only grant type is jwt-bearer *)
Lemma anonymous_no_refresh w n now r st g :
  is_tokens (snd (run_seq (jwt_bearer_grant w n now r) st)) = true ->
  snd (run_seq (authenticated w (t_cred r)) st) = None ->
  st_gsess (fst (run_seq (jwt_bearer_grant w n now r) st)) = put_gsess g (st_gsess st) ->
  g_refresh g = 0 /\ g_client g = 0.
Proof.
  intros T A S. destruct (jwt_bearer_grant_post w n now r st T) as (c & g' & sub & SF & _ & _ & _ & _ & _ & S' & _ & _ & CL & _ & _ & RF).
  rewrite S in S'. unfold put_gsess in S'. injection S' as E _. subst g'.
  destruct SF as [SF|(_ & -> & _ & _)]; [congruence|]. split; [|exact CL].
  destruct (N.eq_dec (g_refresh g) 0) as [Z|NZ]; [exact Z|]. destruct (RF NZ) as [X _]. discriminate.
Qed.

(* (c) a request served without an authenticated client carries no client identification at all, and
   client authentication is not required for the grant *)
Lemma jwt_bearer_anonymous_needs w n now r st :
  is_tokens (snd (run_seq (jwt_bearer_grant w n now r) st)) = true ->
  snd (run_seq (authenticated w (t_cred r)) st) = None ->
  cr_id (t_cred r) = 0 /\ cf_jwt_bearer_authn_required (w_cfg w) = false.
Proof.
  intros T A. destruct (jwt_bearer_grant_post w n now r st T) as (c & g & sub & SF & _).
  destruct SF as [SF|(_ & _ & Z & F)]; [congruence|auto].
Qed.

(* ... and a request that is not authenticated and either names somebody (unknown client, bad
   credential) or meets a server that requires client authentication is refused: invalid_client once
   the grant is enabled, the store is unchanged, only client reads are made *)
Lemma inert_jwt_bearer w n now r st :
  unauthenticated w st (t_cred r) ->
  cr_id (t_cred r) <> 0 \/ cf_jwt_bearer_authn_required (w_cfg w) = true ->
  refused_inert (jwt_bearer_grant w n now r) st (has_grant GJwtBearer (cf_grants (w_cfg w))).
Proof.
  intros H D. unfold jwt_bearer_grant.
  destruct (has_grant GJwtBearer (cf_grants (w_cfg w))); simpl; [|early].
  destruct (authenticated_refuses w st (t_cred r) H) as (log & Hl & Ho).
  exists EInvalidClient, log. unfold jwt_bearer_client. rewrite !run_log_bind, Hl.
  assert (E : andb (is_nil (cr_id (t_cred r))) (negb (cf_jwt_bearer_authn_required (w_cfg w))) = false).
  { destruct D as [D|D]; [|rewrite D; apply andb_false_r].
    destruct (is_nil (cr_id (t_cred r))) eqn:Z; [apply is_nil_eq in Z; contradiction|reflexivity]. }
  rewrite E. simpl. rewrite !rev_involutive. auto.
Qed.

(* ---- (d) non-vacuity ---- *)
Definition ex_jb_cfg (required : bool) : config :=
  match build POpenID ([WithScopes [ScExact "openid"; ScExact "email"; ScExact "admin"]; WithJWTBearerGrant;
                        WithRefreshTokenGrant 600%Z; WithTokenIntrospection; WithTokenLifetime 300%Z]
                       ++ (if required then [WithJWTBearerGrantClientAuthnRequired] else []))%list
  with Some c => c | None => base_config POpenID end.
(* c1 may use the grant (and refresh), for openid and email; c2 is not registered for it *)
Definition ex_jb_c1 : client :=
  mkClient 1 false [GJwtBearer; GRefreshToken] [] [] "openid email" CibaNone false false false false false false false 0 false None.
Definition ex_jb_c2 : client :=
  mkClient 2 false [GClientCredentials] [] [] "openid email" CibaNone false false false false false false false 0 false None.
Definition ex_jb_world (required : bool) : world := mkWorld (ex_jb_cfg required) [ex_jb_c1; ex_jb_c2].
Definition ex_jb_req (cr : cred) (scope : string) (a : assertion) : treq :=
  mkTReq cr (mkBind None 0) scope 0 "" 0 PkEmpty 0 HgOk BaApprove [] a None.

(* an authenticated client: tokens (with a refresh token) for the assertion's subject, within its
   registration; introspection reports that subject and client; `admin` is outside its registration *)
Lemma ex_jb_authenticated :
  match run (ex_jb_world false) []
          [OpToken GJwtBearer (ex_jb_req (mkCred 1 true) "openid email" (AsOk "alice"));
           OpIntrospect (mkQReq (mkCred 1 true) (PExact (mint 0 KAtOpaque)) true);
           OpToken GJwtBearer (ex_jb_req (mkCred 1 true) "openid admin" (AsOk "alice"));
           OpToken GJwtBearer (ex_jb_req (mkCred 2 true) "openid" (AsOk "alice"));
           OpToken GJwtBearer (ex_jb_req (mkCred 1 true) "openid" AsBad);
           OpToken GRefreshToken (mkTReq (mkCred 1 true) (mkBind None 0) "" 0 "" (mint 0 KRefresh) PkEmpty 0 HgOk BaApprove [] AsNone None)] with
  | [Out (OTokens t); Out (OIntro i); Out (OErr EInvalidScope); Out (OErr EUnauthorizedClient); Out (OErr EInvalidGrant); Out (OTokens t2)] =>
      tr_at t = mint 0 KAtOpaque /\ tr_rt t = mint 0 KRefresh /\ tr_idt t = true /\
      in_active i = true /\ in_sub i = "alice" /\ in_client i = 1 /\ in_scope i = "openid email" /\
      tr_at t2 = mint 5 KAtOpaque
  | _ => False end.
Proof. vm_compute. repeat split; reflexivity. Qed.

(* no client identification at all, anonymous use allowed: tokens for the assertion's subject, no
   refresh token, client id empty; with a wrong credential: invalid_client; where the embedder requires
   client authentication: invalid_client for the anonymous request as well *)
Lemma ex_jb_anonymous :
  match run (ex_jb_world false) []
          [OpToken GJwtBearer (ex_jb_req (mkCred 0 false) "openid admin" (AsOk "bob"));
           OpIntrospect (mkQReq (mkCred 1 true) (PExact (mint 0 KAtOpaque)) true);
           OpToken GJwtBearer (ex_jb_req (mkCred 1 false) "openid" (AsOk "bob"));
           OpToken GJwtBearer (ex_jb_req (mkCred 9 true) "openid" (AsOk "bob"));
           OpToken GJwtBearer (ex_jb_req (mkCred 0 false) "openid nope" (AsOk "bob"));
           OpToken GJwtBearer (ex_jb_req (mkCred 0 false) "openid" AsNone)],
        run (ex_jb_world true) [] [OpToken GJwtBearer (ex_jb_req (mkCred 0 false) "openid" (AsOk "bob"))] with
  | [Out (OTokens t); Out (OIntro i); Out (OErr EInvalidClient); Out (OErr EInvalidClient); Out (OErr EInvalidScope); Out (OErr EInvalidGrant)],
    [Out (OErr EInvalidClient)] =>
      tr_at t = mint 0 KAtOpaque /\ tr_rt t = 0 /\
      in_active i = true /\ in_sub i = "bob" /\ in_client i = 0 /\ in_scope i = "openid admin"
  | _, _ => False end.
Proof. vm_compute. repeat split; reflexivity. Qed.

(* the hypotheses of the decision rule and of the inertness statement are satisfiable *)
Lemma ex_jb_post_antecedent :
  is_tokens (snd (run_seq (jwt_bearer_grant (ex_jb_world false) 0 0%Z (ex_jb_req (mkCred 0 false) "openid" (AsOk "bob"))) empty_store)) = true /\
  snd (run_seq (authenticated (ex_jb_world false) (mkCred 0 false)) empty_store) = None /\
  unauthenticated (ex_jb_world false) empty_store (mkCred 1 false) /\
  snd (run_seq (jwt_bearer_grant (ex_jb_world false) 0 0%Z (ex_jb_req (mkCred 1 false) "openid" (AsOk "bob"))) empty_store) = OErr EInvalidClient.
Proof.
  split; [vm_compute; reflexivity|]. split; [reflexivity|]. split; [|vm_compute; reflexivity].
  right; right. exists ex_jb_c1. repeat split; reflexivity.
Qed.
