(* C19Examples.v — the hypotheses of the C19 theorems are satisfiable: a configuration built from
   options, its document, its routes (vm_compute on the functions the correspondence runs). *)
From Verif Require Import Base Scope Types Config Discovery.

Definition ex_doc (opts : list opt) (m : member) : option (option dval) :=
  option_map (fun cfg => member_value "https://as.example" "https://mtls.as.example" cfg m) (build POpenID opts).

Example par_advertised_under_prefix :
  ex_doc [WithPathPrefix "/auth"; WithPARRequired 60] MParEndpoint = Some (Some (DStr "https://as.example/auth/par")) /\
  ex_doc [WithPathPrefix "/auth"; WithPARRequired 60] MRequirePar = Some (Some (DBool true)) /\
  ex_doc [WithPathPrefix "/auth"] MParEndpoint = Some None /\
  option_map (fun cfg => (serve cfg MPost "/auth/par", serve cfg MGet "/auth/par", serve cfg MPost "/par"))
             (build POpenID [WithPathPrefix "/auth"; WithPARRequired 60]) = Some (Some EpPar, None, None).
Proof. vm_compute. repeat split. Qed.

Example lists_follow_options :
  ex_doc [WithAuthorizationCodeGrant; WithImplicitGrant; WithJARM; WithPKCE "S256" ["plain"]] MResponseTypes
    = Some (Some (DSet ["code"; "token"; "id_token"; "id_token token"; "code id_token"; "code token"; "code id_token token"])) /\
  ex_doc [WithAuthorizationCodeGrant; WithImplicitGrant; WithJARM; WithPKCE "S256" ["plain"]] MResponseModes
    = Some (Some (DSet ["query"; "fragment"; "form_post"; "jwt"; "query.jwt"; "fragment.jwt"; "form_post.jwt"])) /\
  ex_doc [WithAuthorizationCodeGrant; WithImplicitGrant; WithJARM; WithPKCE "S256" ["plain"]] MCodeChallengeMethods
    = Some (Some (DSet ["S256"; "plain"])) /\
  ex_doc [] MGrantTypes = Some None /\ ex_doc [] MCodeChallengeMethods = Some None.
Proof. vm_compute. repeat split. Qed.
