(* C06HtuProofs.v — the htu comparison (Model/Htu.v) refuses every strict prefix of the request URL.

   Key fact: normalize_url never lengthens its argument (it lower-cases, and otherwise only drops
   characters), while the comparison is exact string equality with Host + RequestURI.  A strict
   prefix of the request URL is shorter than the request URL, so is whatever it normalises to. *)
From Verif Require Import Base Scope Types Pop Htu.
Local Open Scope string_scope.

Notation slen := String.length.

Lemma slen_app a b : slen (a ++ b) = slen a + slen b.
Proof. induction a as [|c a IH]; simpl; [reflexivity|]. rewrite IH. reflexivity. Qed.

Lemma slen_lower s : slen (lower s) = slen s.
Proof. induction s as [|c s IH]; simpl; congruence. Qed.

Lemma before_from c s : before c s ++ from c s = s.
Proof.
  induction s as [|a r IH]; simpl; [reflexivity|].
  destruct (Ascii.eqb a c); simpl; [reflexivity|]. rewrite IH. reflexivity.
Qed.

Lemma slen_before_from c s : slen (before c s) + slen (from c s) = slen s.
Proof. rewrite <- slen_app, before_from. reflexivity. Qed.

Lemma slen_trim1 c s : slen (trim1 c s) <= slen s.
Proof.
  induction s as [|a r IH]; [simpl; lia|].
  destruct r as [|b r'].
  - simpl. destruct (Ascii.eqb a c); simpl; lia.
  - assert (E : trim1 c (String a (String b r')) = String a (trim1 c (String b r'))) by reflexivity.
    rewrite E. change (S (slen (trim1 c (String b r'))) <= S (slen (String b r'))). lia.
Qed.

Lemma strip_suffix_len suf s x : strip_suffix suf s = Some x -> slen x <= slen s.
Proof.
  revert x. induction s as [|a r IH]; intros x; cbn [strip_suffix].
  - destruct (seqb "" suf); intros H; inversion H; subst; simpl; lia.
  - destruct (seqb (String a r) suf).
    + intros H; inversion H; subst; simpl; lia.
    + destruct (strip_suffix suf r) as [y|]; [|discriminate].
      intros H; inversion H; subst. simpl. specialize (IH y eq_refl). lia.
Qed.

Lemma norm_host_len sch h : slen (norm_host sch h) <= slen h.
Proof.
  unfold norm_host. pose proof (slen_trim1 ":" h) as Ht.
  destruct (seqb sch "http"); [|destruct (seqb sch "https")].
  - destruct (strip_suffix ":80" (trim1 ":" h)) as [x|] eqn:E; [apply strip_suffix_len in E|]; lia.
  - destruct (strip_suffix ":443" (trim1 ":" h)) as [x|] eqn:E; [apply strip_suffix_len in E|]; lia.
  - lia.
Qed.

Lemma scheme_split_len s sch rest :
  scheme_split s = Some (sch, rest) -> slen s = slen sch + 1 + slen rest.
Proof.
  revert sch rest. induction s as [|a r IH]; intros sch rest; simpl; [discriminate|].
  destruct (Ascii.eqb a ":").
  - intros H; inversion H; subst; simpl; lia.
  - destruct (is_scheme_char a); [|discriminate].
    destruct (scheme_split r) as [[s1 r1]|]; [|discriminate].
    intros H; inversion H; subst. simpl. rewrite (IH s1 rest eq_refl). lia.
Qed.

(* scheme and rest partition the argument; the ':' is there exactly when a scheme is *)
Lemma get_scheme_len s sch rest :
  get_scheme s = SOk sch rest ->
  slen s = slen rest + (if is_empty sch then 0 else slen sch + 1).
Proof.
  unfold get_scheme. destruct s as [|a r].
  - intros H; inversion H; subst; reflexivity.
  - destruct (Ascii.eqb a ":") eqn:Ec; [discriminate|].
    destruct (is_alpha a).
    + destruct (scheme_split (String a r)) as [[s1 r1]|] eqn:E.
      * intros H; inversion H; subst.
        simpl in E. rewrite Ec in E.
        destruct (is_scheme_char a); [|discriminate].
        destruct (scheme_split r) as [[s2 r2]|] eqn:E2; [|discriminate].
        inversion E; subst. apply scheme_split_len in E2. simpl. lia.
      * intros H; inversion H; subst. simpl. lia.
    + intros H; inversion H; subst. simpl. lia.
Qed.

Lemma has_prefix2_drop2 rest : has_prefix "//" rest = true -> slen rest = 2 + slen (drop2 rest).
Proof.
  destruct rest as [|a [|b r]]; cbn [has_prefix].
  - discriminate.
  - destruct (Ascii.eqb "/" a); discriminate.
  - intros _. reflexivity.
Qed.

Lemma slen_qmark_fq u :
  slen (before "?" u) +
  slen (qmark match from "?" u with String _ EmptyString => true | _ => false end) <= slen u.
Proof.
  pose proof (slen_before_from "?" u) as H.
  destruct (from "?" u) as [|c [|d r]]; simpl in *; lia.
Qed.

(* normalisation never lengthens *)
Lemma normalize_url_len s n : normalize_url s = Some n -> slen n <= slen s.
Proof.
  unfold normalize_url.
  destruct (has_ctl s); [discriminate|].
  set (u := before "#" s). set (body := before "?" u).
  set (fq := match from "?" u with String _ EmptyString => true | _ => false end).
  assert (Hu : slen u <= slen s) by (pose proof (slen_before_from "#" s); subst u; lia).
  assert (Hb : slen body + slen (qmark fq) <= slen u) by (subst body fq; apply slen_qmark_fq).
  destruct (bad_escape body || bad_escape (from "#" s))%bool; [discriminate|].
  destruct (get_scheme body) as [|sch rest] eqn:Es; [discriminate|].
  apply get_scheme_len in Es.
  destruct (has_prefix "//" rest && (negb (is_empty sch) || negb (has_prefix "///" rest)))%bool eqn:Ea.
  - apply andb_prop in Ea as [Ea _]. apply has_prefix2_drop2 in Ea.
    set (ar := drop2 rest) in *.
    destruct (bad_port (before "/" ar)); [discriminate|].
    intros H; inversion H; subst n; clear H.
    pose proof (slen_before_from "/" ar) as Hs.
    pose proof (slen_trim1 "/" (from "/" ar)) as Hp.
    pose proof (norm_host_len (lower sch) (lower (before "/" ar))) as Hh.
    rewrite slen_lower in Hh.
    repeat rewrite slen_app.
    assert (Hl : is_empty (lower sch) = is_empty sch) by (destruct sch; reflexivity).
    rewrite Hl.
    destruct (is_empty sch) eqn:E1; simpl slen at 1.
    + match goal with |- context [if ?c then "//" else ""] => destruct c end; simpl slen; lia.
    + rewrite slen_app, slen_lower.
      match goal with |- context [if ?c then "//" else ""] => destruct c end; simpl slen; lia.
  - clear Ea. destruct (is_empty sch) eqn:E1.
    + destruct (negb (has_prefix "/" rest) && contains (before "/" rest) ":")%bool; [discriminate|].
      intros H; inversion H; subst n; clear H.
      pose proof (slen_trim1 "/" rest). rewrite slen_app. lia.
    + destruct (has_prefix "/" rest).
      * intros H; inversion H; subst n; clear H.
        pose proof (slen_trim1 "/" rest).
        repeat rewrite slen_app. rewrite slen_lower. cbn [String.length]. repeat rewrite slen_app. lia.
      * intros H; inversion H; subst n; clear H.
        repeat rewrite slen_app. rewrite slen_lower. cbn [String.length]. repeat rewrite slen_app. lia.
Qed.

Lemma strict_prefix_len a b : strict_prefix a b -> slen a < slen b.
Proof.
  intros (t & Ht & ->). rewrite slen_app. destruct t; [congruence|simpl; lia].
Qed.

Lemma has_prefix_app a b : has_prefix a b = true -> exists t, b = a ++ t.
Proof.
  revert b. induction a as [|c a IH]; intros b; simpl.
  - intros _. exists b. reflexivity.
  - destruct b as [|d b]; [discriminate|].
    destruct (Ascii.eqb c d) eqn:E; [|discriminate].
    apply Ascii.eqb_eq in E; subst d. intros H. destruct (IH b H) as [t ->]. exists t. reflexivity.
Qed.

Lemma strict_prefix_b_spec a b : strict_prefix_b a b = true -> strict_prefix a b.
Proof.
  unfold strict_prefix_b. intros H. apply andb_prop in H as [H1 H2].
  apply has_prefix_app in H1 as [t ->]. apply Nat.ltb_lt in H2. rewrite slen_app in H2.
  exists t. split; [|reflexivity]. intros ->. simpl in H2. lia.
Qed.

(* the comparison refuses an htu that is a strict prefix of every URL the request may be known by *)
Lemma htu_prefix_refused_lemma hosts uri htu :
  (forall h, In h hosts -> strict_prefix htu (h ++ uri)) -> htu_match hosts uri htu = false.
Proof.
  intros Hp. unfold htu_match.
  destruct (normalize_url htu) as [n|] eqn:En; [|reflexivity].
  apply normalize_url_len in En.
  apply not_true_is_false. intros He.
  apply existsb_exists in He as (h & Hin & Heq).
  apply seqb_eq in Heq. subst n.
  apply Hp, strict_prefix_len in Hin. lia.
Qed.

Lemma htu_prefix_refused_one host uri htu :
  strict_prefix htu (host ++ uri) -> htu_match [host] uri htu = false.
Proof.
  intros H. apply htu_prefix_refused_lemma. intros h [<-|[]]. exact H.
Qed.

(* an empty htu - and an absent claim, which the code reads as "" - is refused wherever the request
   URL is not empty (RequestURI always starts with "/") *)
Lemma htu_empty_refused_lemma hosts uri :
  (forall h, In h hosts -> h ++ uri <> "") -> htu_match hosts uri "" = false.
Proof.
  intros H. apply htu_prefix_refused_lemma. intros h Hin.
  exists (h ++ uri). split; [apply H, Hin|reflexivity].
Qed.

(* an accepted htu normalises to one of the request's URLs and is not a strict prefix of it *)
Lemma htu_match_sound hosts uri htu :
  htu_match hosts uri htu = true ->
  exists h, In h hosts /\ normalize_url htu = Some (h ++ uri) /\ ~ strict_prefix htu (h ++ uri).
Proof.
  unfold htu_match. destruct (normalize_url htu) as [n|] eqn:En; [|discriminate].
  intros He. apply existsb_exists in He as (h & Hin & Heq). apply seqb_eq in Heq. subst n.
  exists h. split; [exact Hin|]. split; [reflexivity|].
  intros Hs. apply strict_prefix_len in Hs. apply normalize_url_len in En. lia.
Qed.

(* through the abstraction of Pop.v: the variant a refused htu stands for fails htu_ok, so that
   validate_jwt refuses the proof whatever else it carries *)
Lemma htu_class_ok hosts uri htu : htu_ok (htu_class hosts uri htu) = htu_match hosts uri htu.
Proof.
  unfold htu_class. destruct (htu_match hosts uri htu); [|reflexivity].
  destruct (existsb (fun h => seqb htu (h ++ uri)) hosts); reflexivity.
Qed.

Lemma validate_jwt_refuses_bad_htu lifetime leeway p tok jkt :
  htu_ok (dp_htu p) = false -> validate_jwt lifetime leeway p tok jkt <> None.
Proof.
  intros H. unfold validate_jwt.
  destruct (negb (dp_parses p)); [discriminate|].
  destruct (negb (dp_typ_ok p)); [discriminate|].
  destruct (dp_jwk p) as [|k|k]; try discriminate.
  destruct (negb (ideq (dp_signer p) k)); [discriminate|].
  destruct (dp_iat_age p) as [age|]; [|discriminate].
  destruct (Z.ltb lifetime age); [discriminate|].
  destruct (negb (dp_jti p)); [discriminate|].
  destruct (negb (dp_htm_ok p)); [discriminate|].
  rewrite H. simpl. discriminate.
Qed.

(* a proof whose htu is a strict prefix of the request URL is refused by dpop.ValidateJWT *)
Lemma dpop_prefix_htu_refused_lemma lifetime leeway p tok jkt hosts uri htu :
  (forall h, In h hosts -> strict_prefix htu (h ++ uri)) ->
  dp_htu p = htu_class hosts uri htu ->
  validate_jwt lifetime leeway p tok jkt <> None.
Proof.
  intros Hp Hc. apply validate_jwt_refuses_bad_htu.
  rewrite Hc, htu_class_ok. apply htu_prefix_refused_lemma, Hp.
Qed.
