(* SessInv.v — properties of stored authentication sessions that every handler preserves.
   Two generic rely/guarantee disciplines for an arbitrary predicate P on sessions:
   (1) rgP: the sessions the storage hands back have P (rely), every session written has P (guarantee);
   (2) rgC: the same, and the client store is never written, so a client the storage hands back is the
       one registered under that id (what C02Proofs proves for its redirect-URI predicate).
   Instances: Proofs/PkceProofs.v (the recorded code_challenge_method is absent or enabled) and
   Proofs/C04Artifacts.v (the recorded response type is aligned with the client's grant types). *)
From Verif Require Import Base Scope Types Prog Pop Token Authorize System Config Run Monitors Hoare Tactics OneShot
  C02Proofs C02Handlers.
Local Open Scope N_scope.

Section Generic.
  Variable P : asession -> Prop.
  Definition relyP (r : reply) : Prop := match r with RASess s => P s | _ => True end.
  Definition guarP (c : call) : Prop := match c with ASave s => P s | _ => True end.
  Fixpoint rgP {A} (p : prog A) : Prop :=
    match p with
    | Ret _ => True
    | Do c k => guarP c /\ forall r, relyP r -> rgP (k r)
    | Touch _ p' => rgP p'
    end.
  Lemma rgP_bind {A B} (p : prog A) (f : A -> prog B) : rgP p -> (forall a, rgP (f a)) -> rgP (bind p f).
  Proof. induction p as [a|c k IH|o p IH]; cbn; intros Hp Hf; auto. destruct Hp; split; auto. Qed.

  (* programs that write no session *)
  Fixpoint nosave {A} (p : prog A) : Prop :=
    match p with
    | Ret _ => True
    | Do c k => match c with ASave _ => False | _ => True end /\ forall r, nosave (k r)
    | Touch _ p' => nosave p'
    end.
  Lemma nosave_rgP {A} (p : prog A) : nosave p -> rgP p.
  Proof.
    induction p as [a|c k IH|o p IH]; cbn; auto. intros [G H]. split; [destruct c; cbn in *; tauto|]. intros r _. apply IH; auto.
  Qed.
  Lemma nosave_bind {A B} (p : prog A) (f : A -> prog B) : nosave p -> (forall a, nosave (f a)) -> nosave (bind p f).
  Proof. induction p as [a|c k IH|o p IH]; cbn; intros Hp Hf; auto. destruct Hp; split; auto. Qed.

  Definition invP (st : store) : Prop := forall s, In s (st_asess st) -> P s.
  Lemma exec_invP c st : guarP c -> invP st -> invP (fst (exec c st)) /\ relyP (snd (exec c st)).
  Proof.
    intros G I. unfold invP in *.
    assert (FA : forall f, relyP (reply_a (find f (st_asess st)))).
    { intros f. destruct (find f (st_asess st)) eqn:E; cbn; auto. apply find_some in E as [E _]; auto. }
    destruct c; cbn [exec fst snd]; try (split; [exact I|]; cbn; auto; fail).
    - split; [exact I|]. destruct (find_client i (st_clients st)); exact Logic.I.
    - (* ASave *) split; [|exact Logic.I]. cbn. intros s' [<-|H]; auto. apply filter_In in H as [H _]; auto.
    - (* ADel *) split; [|exact Logic.I]. cbn. intros s' H. apply filter_In in H as [H _]; auto.
    - split; [exact I|]. destruct (find _ (st_gsess st)); exact Logic.I.
    - split; [exact I|]. destruct (find _ (st_gsess st)); exact Logic.I.
    - destruct (find _ (st_gsess st)); cbn; split; auto; exact Logic.I.
  Qed.
  Lemma run_seq_invP {A} (p : prog A) : forall st, rgP p -> invP st -> invP (fst (run_seq p st)).
  Proof.
    induction p as [a|c k IH|o p IH]; intros st R I; cbn in *; auto.
    destruct R as [G R]. destruct (exec_invP c st G I) as [I' Rl].
    destruct (exec c st) as [st' r]. cbn in *. apply IH; auto.
  Qed.
End Generic.

Section WithClients.
  Variable w : world.
  Variable dyn : list client.
  Variable P : asession -> Prop.
  Notation client_of := (client_of w dyn).

  Definition relyC (c : call) (r : reply) : Prop :=
    match r with
    | RClient cl => match c with CGet i => find_client i dyn = Some cl | _ => True end
    | RASess s => P s
    | _ => True
    end.
  Definition guarC (c : call) : Prop := match c with ASave s => P s | CSave _ | CDel _ => False | _ => True end.
  Fixpoint rgC {A} (p : prog A) : Prop :=
    match p with
    | Ret _ => True
    | Do c k => guarC c /\ forall r, relyC c r -> rgC (k r)
    | Touch _ p' => rgC p'
    end.
  Fixpoint rgCq {A} (Q : A -> Prop) (p : prog A) : Prop :=
    match p with
    | Ret a => Q a
    | Do c k => guarC c /\ forall r, relyC c r -> rgCq Q (k r)
    | Touch _ p' => rgCq Q p'
    end.
  Lemma rgCq_bind {A B} (Q : A -> Prop) (R : B -> Prop) (p : prog A) (f : A -> prog B) :
    rgCq Q p -> (forall a, Q a -> rgCq R (f a)) -> rgCq R (bind p f).
  Proof. induction p as [a|c k IH|o p IH]; cbn; intros Hp Hf; auto. destruct Hp; split; auto. Qed.
  Lemma rgCq_rgC {A} (p : prog A) : rgCq (fun _ => True) p <-> rgC p.
  Proof.
    induction p as [a|c k IH|o p IH]; cbn; try tauto.
    split; intros [G H]; split; auto; intros r Hr; apply IH; auto.
  Qed.
  Lemma rgC_bindq {A B} (Q : A -> Prop) (p : prog A) (f : A -> prog B) :
    rgCq Q p -> (forall a, Q a -> rgC (f a)) -> rgC (bind p f).
  Proof. intros Hp Hf. apply rgCq_rgC. eapply rgCq_bind; eauto. intros a Ha. apply rgCq_rgC; auto. Qed.
  Lemma rgC_bind {A B} (p : prog A) (f : A -> prog B) : rgC p -> (forall a, rgC (f a)) -> rgC (bind p f).
  Proof. induction p as [a|c k IH|o p IH]; cbn; intros Hp Hf; auto. destruct Hp; split; auto. Qed.
  Lemma quiet_rgC {A} (p : prog A) : quiet p -> rgC p.
  Proof.
    induction p as [a|c k IH|o p IH]; cbn; auto. intros [G H]. split; [destruct c; cbn in *; tauto|]. intros r _. apply IH; auto.
  Qed.

  Definition known_clientC (i : id) (oc : option client) : Prop :=
    match oc with Some c => client_of i = Some c | None => True end.
  Lemma get_client_rgCq i : rgCq (known_clientC i) (get_client w i).
  Proof.
    unfold get_client, known_clientC, C02Proofs.client_of.
    destruct (find_client i (w_static w)) eqn:E; cbn; [reflexivity|].
    split; [exact I|]. intros r Hr. destruct r; cbn; auto.
  Qed.
  Lemma authenticated_rgCq cr : rgCq (known_clientC (cr_id cr)) (authenticated w cr).
  Proof.
    unfold authenticated. destruct (is_nil (cr_id cr)); [exact I|].
    eapply rgCq_bind; [apply get_client_rgCq|]. intros [c|] Hc; cbn; auto.
    destruct (c_public c || cr_ok cr)%bool; cbn; auto.
  Qed.

  Definition invC (st : store) : Prop := st_clients st = dyn /\ forall s, In s (st_asess st) -> P s.
  Lemma exec_invC c st : guarC c -> invC st -> invC (fst (exec c st)) /\ relyC c (snd (exec c st)).
  Proof.
    intros G [IC IA]. unfold invC.
    assert (FA : forall f, match find f (st_asess st) with Some s => P s | None => True end).
    { intros f. destruct (find f (st_asess st)) eqn:E; auto. apply find_some in E as [E E2]; auto. }
    destruct c; cbn in G; try contradiction; cbn [exec fst snd].
    - (* CGet *) split; [split; auto|]. rewrite IC. destruct (find_client i dyn) eqn:E; cbn; auto.
    - (* ASave *) split; [|exact I]. split; auto. cbn. intros s' [<-|H]; auto. apply filter_In in H as [H _]; auto.
    - split; [split; auto|]. specialize (FA (fun s => ideq (a_cb s) i)). destruct (find _ _); cbn; auto.
    - split; [split; auto|]. specialize (FA (fun s => ideq (a_code s) i)). destruct (find _ _); cbn; auto.
    - split; [split; auto|]. specialize (FA (fun s => ideq (a_par s) i)). destruct (find _ _); cbn; auto.
    - split; [split; auto|]. specialize (FA (fun s => ideq (a_ciba s) i)). destruct (find _ _); cbn; auto.
    - (* ADel *) split; [|exact I]. split; auto. cbn. intros s' H. apply filter_In in H as [H _]; auto.
    - (* GSave *) split; [|exact I]. split; auto.
    - split; [split; auto|]. destruct (find _ _); cbn; auto.
    - split; [split; auto|]. destruct (find _ _); cbn; auto.
    - (* GDel *) split; [|exact I]. split; auto.
    - (* GDelByCode *) destruct (find _ _); cbn; split; auto; split; auto.
  Qed.
  Lemma run_seq_invC {A} (p : prog A) : forall st, rgC p -> invC st -> invC (fst (run_seq p st)).
  Proof.
    induction p as [a|c k IH|o p IH]; intros st R I; cbn in *; auto.
    destruct R as [G R]. destruct (exec_invC c st G I) as [I' Rl].
    destruct (exec c st) as [st' r]. cbn in *. apply IH; auto.
  Qed.
End WithClients.
