(* C13Dcr.v — the frame clause of C13 for the dynamic-registration endpoints.
   1. On the metadata model (Model/Dcr.v, what suite c12 / c13dcr run against the provider): a refused
      create / read / update / delete / use of a secret returns the very store it was given.
   2. On the storage-call skeleton with explicit in-place writes (Model/DcrFrame.v): under the
      copying AND the aliasing interpretation a refused request leaves the store identical, whatever
      the update would have written. *)
From Verif Require Import Base Scope Types Prog Token Dcr DcrFault DcrFrame.
Local Open Scope N_scope.

Lemma dcr_refused_frame cfg s n o :
  dcr_accepted (snd (dstep cfg s n o)) = false -> fst (dstep cfg s n o) = s.
Proof.
  destruct o; unfold dstep.
  - destruct (parse_body b) as [m|]; [|reflexivity].
    unfold create. destruct (vetted cfg hk m) as [m'|e]; [|reflexivity].
    unfold modify_and_save. cbv zeta. cbn [fst snd dcr_accepted]. discriminate.
  - destruct (bearer t); reflexivity.
  - destruct (parse_body b) as [m|]; [|reflexivity].
    destruct (bearer t) as [tok|]; [|reflexivity].
    unfold update. destruct (protected s cid tok) as [c|e]; [|reflexivity].
    destruct (vetted cfg hk m) as [m'|e]; [|reflexivity].
    unfold modify_and_save. cbv zeta. cbn [fst snd dcr_accepted]. discriminate.
  - destruct (bearer t) as [tok|]; [|reflexivity].
    unfold remove. destruct (protected s cid tok); [|reflexivity].
    cbn [fst snd dcr_accepted]. discriminate.
  - reflexivity.
Qed.

(* all histories: the store after a history is the store after the history without its refused requests'
   effects, i.e. refused requests can be dropped as far as the store is concerned (indices kept) *)
Lemma dcr_refused_frame_run cfg ops o :
  let s := fst (drun cfg ops) in
  dcr_accepted (snd (dstep cfg s (List.length ops) o)) = false ->
  fst (dstep cfg s (List.length ops) o) = s.
Proof. intros s. apply dcr_refused_frame. Qed.

(* ---- the skeleton ---- *)
Lemma get_client_shape w i :
  (exists c, get_client w i = Ret (Some c)) \/
  get_client w i = Do (CGet i) (fun r => match r with RClient c => Ret (Some c) | _ => Ret None end).
Proof.
  unfold get_client. destruct (find_client i (w_static w)) as [c|]; [left; eexists; reflexivity | right; reflexivity].
Qed.

Lemma protected_alias w r st :
  fst (run_alias (dcr_protected w r) st) = st.
Proof.
  unfold dcr_protected. destruct (get_client_shape w (df_cid r)) as [[c E]|E]; rewrite E; cbn.
  - destruct (df_tok_ok r); reflexivity.
  - destruct (find_client (df_cid r) (st_clients st)); cbn; [destruct (df_tok_ok r)|]; reflexivity.
Qed.

Lemma run_alias_bind {A B} (p : prog A) (f : A -> prog B) st :
  run_alias (bind p f) st = run_alias (f (snd (run_alias p st))) (fst (run_alias p st)).
Proof.
  revert st. induction p as [a|c k IH|o p IH]; intros st; cbn.
  - reflexivity.
  - destruct (exec c st) as [st' r]. apply IH.
  - apply IH.
Qed.

Lemma dx_refused_frame_alias w n o st :
  df_refused (snd (run_alias (dx_handler w n o) st)) = true ->
  fst (run_alias (dx_handler w n o) st) = st.
Proof.
  destruct o as [r|r f|r|r]; cbn [dx_handler].
  - unfold dcr_create. destruct (negb (df_valid r)); cbn; [reflexivity|discriminate].
  - unfold dx_update. rewrite run_alias_bind. rewrite protected_alias.
    destruct (snd (run_alias (dcr_protected w r) st)) as [c|]; [|reflexivity].
    destruct (negb (df_valid r)); [reflexivity|]. cbn. discriminate.
  - unfold dcr_read. rewrite run_alias_bind. rewrite protected_alias.
    destruct (snd (run_alias (dcr_protected w r) st)); cbn; [discriminate|reflexivity].
  - unfold dcr_delete. rewrite run_alias_bind. rewrite protected_alias.
    destruct (snd (run_alias (dcr_protected w r) st)); cbn; [discriminate|reflexivity].
Qed.

Lemma run_seq_bind' {A B} (p : prog A) (f : A -> prog B) st :
  run_seq (bind p f) st = run_seq (f (snd (run_seq p st))) (fst (run_seq p st)).
Proof.
  revert st. induction p as [a|c k IH|o p IH]; intros st; cbn.
  - reflexivity.
  - destruct (exec c st) as [st' r]. apply IH.
  - apply IH.
Qed.

Lemma protected_seq w r st : fst (run_seq (dcr_protected w r) st) = st.
Proof.
  unfold dcr_protected. destruct (get_client_shape w (df_cid r)) as [[c E]|E]; rewrite E; cbn.
  - destruct (df_tok_ok r); reflexivity.
  - destruct (find_client (df_cid r) (st_clients st)); cbn; [destruct (df_tok_ok r)|]; reflexivity.
Qed.

Lemma dx_refused_frame_seq w n o st :
  df_refused (snd (run_seq (dx_handler w n o) st)) = true ->
  fst (run_seq (dx_handler w n o) st) = st.
Proof.
  destruct o as [r|r f|r|r]; cbn [dx_handler].
  - unfold dcr_create. destruct (negb (df_valid r)); cbn; [reflexivity|discriminate].
  - unfold dx_update. rewrite run_seq_bind'. rewrite protected_seq.
    destruct (snd (run_seq (dcr_protected w r) st)) as [c|]; [|reflexivity].
    destruct (negb (df_valid r)); [reflexivity|]. cbn. discriminate.
  - unfold dcr_read. rewrite run_seq_bind'. rewrite protected_seq.
    destruct (snd (run_seq (dcr_protected w r) st)); cbn; [discriminate|reflexivity].
  - unfold dcr_delete. rewrite run_seq_bind'. rewrite protected_seq.
    destruct (snd (run_seq (dcr_protected w r) st)); cbn; [discriminate|reflexivity].
Qed.

Lemma dx_early_breaks_frame :
  df_refused (snd (run_alias (dx_update_early dxe_world 1 dxe_req dxe_rename) dxe_store)) = true /\
  fst (run_alias (dx_update_early dxe_world 1 dxe_req dxe_rename) dxe_store) <> dxe_store /\
  fst (run_seq (dx_update_early dxe_world 1 dxe_req dxe_rename) dxe_store) = dxe_store /\
  fst (run_alias (dx_update dxe_world 1 dxe_req dxe_rename) dxe_store) = dxe_store.
Proof. vm_compute. repeat split; try reflexivity. intros H. discriminate H. Qed.
