(* C15UriDefs.v — the pushed request_uri presented by racing authorization requests, for every
   response type (Model/RaceUri.v): the boolean checkers of the sweeps and their specifications (no sweep here). *)
From Verif Require Import Base Scope Types Prog Pop Token Authorize System Config Run Monitors Race RaceUri Tactics C15Sweeps.
Require Import Lia.
Local Open Scope nat_scope.
Local Open Scope string_scope.

Definition uri_ok_on (rt : string) (su : racesetup) (k : nat) (scheds : list (list nat)) : bool :=
  let L := lookup_pos su in let C := consume_pos su in forallb (uri_sched_ok_at rt su L C k) scheds.
Definition uri_ok (rt : string) (su : racesetup) (k : nat) : bool := uri_ok_on rt su k (race_schedules su k).

Record uri_facts (rt : string) (su : racesetup) (k : nat) (sc : list nat) : Prop := mkUriFacts {
  uf_count : successes su k sc = race_window_count su k sc;
  uf_tokens : tokens_obtained su k sc = if ru_issues_token rt then successes su k sc else 0;
  uf_grants : grants_written su k sc = if ru_issues_token rt then successes su k sc else 0;
  uf_distinct : nodup_ids (token_values su k sc) = true;
  uf_codes : codes_obtained su k sc = if rt_contains rt "code" then successes su k sc else 0;
  uf_idts : idts_obtained su k sc = if rt_contains rt "id_token" then successes su k sc else 0;
  uf_late : forall i j, i < k -> j < k ->
     occ_pos i (consume_pos su) sc 0 < occ_pos j (lookup_pos su) sc 0 -> nth j (outcomes su k sc) false = false
}.

Lemma uri_sched_ok_spec rt su k sc : uri_sched_ok rt su k sc = true -> uri_facts rt su k sc.
Proof.
  unfold uri_sched_ok, uri_sched_ok_at. cbv zeta. intros H.
  repeat match type of H with andb _ _ = true => let H1 := fresh "H" in apply andb_true_iff in H as [H1 H] end.
  constructor.
  - apply Nat.eqb_eq in H0. exact H0.
  - apply Nat.eqb_eq in H1. exact H1.
  - apply Nat.eqb_eq in H2. exact H2.
  - exact H3.
  - apply Nat.eqb_eq in H4. exact H4.
  - apply Nat.eqb_eq in H5. exact H5.
  - intros i j Hi Hj Hlt. unfold late_lookups_refused_at in H.
    rewrite forallb_forall in H. specialize (H i). rewrite in_seq in H. specialize (H ltac:(lia)).
    rewrite forallb_forall in H. specialize (H j). rewrite in_seq in H. specialize (H ltac:(lia)).
    apply Nat.ltb_lt in Hlt. rewrite Hlt in H. cbn [implb] in H. apply negb_true_iff in H. exact H.
Qed.

Lemma uri_ok_on_spec rt su k l : uri_ok_on rt su k l = true -> forall sc, In sc l -> uri_facts rt su k sc.
Proof. unfold uri_ok_on. cbv zeta. intros H sc Hin. rewrite forallb_forall in H. apply uri_sched_ok_spec. unfold uri_sched_ok. auto. Qed.
Lemma uri_ok_spec rt su k : uri_ok rt su k = true ->
  forall sc, In sc (race_schedules su k) -> uri_facts rt su k sc.
Proof. apply uri_ok_on_spec. Qed.

(* the scenario is live and the storage calls of one accepted request are the expected ones *)
Fixpoint kinds_eqb (a b : list ckind) : bool :=
  match a, b with [], [] => true | x :: a', y :: b' => andb (ckind_eqb x y) (kinds_eqb a' b') | _, _ => false end.
Lemma ckind_eqb_eq a b : ckind_eqb a b = true -> a = b.
Proof. destruct a, b; cbn; congruence. Qed.
Lemma kinds_eqb_eq a b : kinds_eqb a b = true -> a = b.
Proof.
  revert b. induction a as [|x a IH]; intros [|y b]; cbn; try congruence.
  intros H. apply andb_true_iff in H as [H1 H2]. apply ckind_eqb_eq in H1. apply IH in H2. congruence.
Qed.
Definition uri_live_at (rt : string) (s : racescn) (su : racesetup) : bool :=
  andb (scn_live s)
  (andb (kinds_eqb (solo_log su) (ru_solo_log rt))
        (if ru_issues_token rt
         then andb (Nat.ltb (consume_pos su) (grant_save_pos su)) (Nat.ltb (grant_save_pos su) (solo_calls su))
         else true)).
Definition uri_live (rt : string) (rot : bool) : bool := uri_live_at rt (scn_uri rt rot) (setup_of (scn_uri rt rot)).
Lemma uri_live_at_spec rt s su : uri_live_at rt s su = true ->
  scn_live s = true /\ solo_log su = ru_solo_log rt /\
  (ru_issues_token rt = true -> consume_pos su < grant_save_pos su /\ grant_save_pos su < solo_calls su).
Proof.
  unfold uri_live_at. intros H.
  apply andb_true_iff in H as [H1 H]. apply andb_true_iff in H as [H2 H3].
  split; [exact H1|]. split; [apply kinds_eqb_eq; exact H2|].
  intros T. rewrite T in H3. apply andb_true_iff in H3 as [A B]. split; apply Nat.ltb_lt; assumption.
Qed.

(* ... on which, when the response type has `token`, both are handed an access token and two grant sessions are written *)
Definition uri_double (rt : string) (su : racesetup) : bool :=
  existsb (fun sc => andb (Nat.leb 2 (successes su 2 sc))
                          (if ru_issues_token rt
                           then andb (Nat.eqb (tokens_obtained su 2 sc) 2) (Nat.eqb (grants_written su 2 sc) 2)
                           else true))
          (race_schedules su 2).
Lemma uri_double_spec rt su : uri_double rt su = true ->
  exists sched, In sched (race_schedules su 2) /\ 2 <= successes su 2 sched /\
     (ru_issues_token rt = true -> tokens_obtained su 2 sched = 2 /\ grants_written su 2 sched = 2).
Proof.
  unfold uri_double. intros D. apply existsb_exists in D as [sc [Hin H]]. apply andb_true_iff in H as [H1 H2].
  exists sc. split; [exact Hin|]. split; [apply Nat.leb_le; exact H1|].
  intros T. rewrite T in H2. apply andb_true_iff in H2 as [A B]. split; apply Nat.eqb_eq; assumption.
Qed.
Lemma forallb_in {A} (f : A -> bool) l x : forallb f l = true -> In x l -> f x = true.
Proof. intros H Hin. rewrite forallb_forall in H. auto. Qed.

