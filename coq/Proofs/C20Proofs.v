(* C20Proofs.v — lockset discipline of the default storage; characterisation of the object races. *)
From Verif Require Import Base Scope Types Prog Pop Token Authorize Access.
Local Open Scope N_scope.

(* a field of a stored object is never accessed under a write lock (the write locks protect
   only the maps) *)
Definition field_unlocked (a : access) : bool :=
  match ac_loc a with
  | LField _ _ _ => match ac_lock a with WLock _ => false | _ => true end
  | LMap _ => true
  end.
Definition disciplined (a : access) : bool := andb (map_disciplined a) (field_unlocked a).

Lemma Forall_app_iff {A} (P : A -> Prop) l1 l2 : Forall P (l1 ++ l2) <-> Forall P l1 /\ Forall P l2.
Proof. apply Forall_app. Qed.

Lemma scanA_disc m f l : Forall (fun a => disciplined a = true) (scanA m f l).
Proof. unfold scanA. constructor; [reflexivity|]. apply Forall_forall. intros a H. apply in_map_iff in H as [s [<- _]]. reflexivity. Qed.
Lemma scanG_disc m f l : Forall (fun a => disciplined a = true) (scanG m f l).
Proof. unfold scanG. constructor; [reflexivity|]. apply Forall_forall. intros a H. apply in_map_iff in H as [s [<- _]]. reflexivity. Qed.

Lemma call_accesses_disc has c s : Forall (fun a => disciplined a = true) (call_accesses has c s).
Proof.
  destruct c; unfold call_accesses; try (repeat constructor; fail); try apply scanA_disc; try apply scanG_disc.
  - constructor; [reflexivity|]. destruct (find_client i (st_clients s)); [|constructor].
    constructor; [reflexivity|]. destruct (has i); repeat constructor.
  - apply Forall_app_iff. split; [apply scanG_disc|repeat constructor].
Qed.

Lemma wr_disc k i f site b : Forall (fun a => disciplined a = true) (wr k i f site b).
Proof. unfold wr. destruct b; repeat constructor. Qed.
Lemma touch_accesses_disc o s : Forall (fun a => disciplined a = true) (touch_accesses o s).
Proof.
  destruct o; cbn.
  - destruct (find _ _); [|constructor]. unfold touch_a. repeat (apply Forall_app_iff; split); apply wr_disc.
  - destruct (find _ _); [|constructor]. unfold touch_g. repeat (apply Forall_app_iff; split); apply wr_disc.
  - constructor.
Qed.

Lemma trace_disc has {A} (p : prog A) : forall s, Forall (fun a => disciplined a = true) (trace has p s).
Proof.
  induction p as [a|c k IH|o p IH]; intros s; cbn.
  - constructor.
  - destruct (exec c s) as [s' r]. apply Forall_app_iff. split; [apply call_accesses_disc|apply IH].
  - apply Forall_app_iff. split; [apply touch_accesses_disc|apply IH].
Qed.
Lemma fetch_disc i : Forall (fun a => disciplined a = true) (fetch_public_jwks i).
Proof. repeat constructor. Qed.

Lemma okind_eqb_eq a b : okind_eqb a b = true <-> a = b.
Proof. destruct a, b; cbn; split; congruence. Qed.
Lemma okind_eqb_refl a : okind_eqb a a = true.
Proof. destruct a; reflexivity. Qed.

(* no two disciplined accesses race on a map *)
Lemma maps_no_race a b :
  disciplined a = true -> disciplined b = true -> is_map (ac_loc a) = true -> races a b = false.
Proof.
  unfold disciplined, map_disciplined, races, excludes, field_unlocked.
  destruct a as [la wa ka sa], b as [lb wb kb sb]; cbn.
  destruct la as [k|]; [|discriminate]. destruct lb as [k'|]; cbn; [|intros; reflexivity].
  intros Ha Hb _. destruct (okind_eqb k k') eqn:E; [|reflexivity]. apply okind_eqb_eq in E; subst k'. cbn.
  destruct ka as [|ka|ka], kb as [|kb|kb]; cbn in *; try discriminate;
    repeat rewrite andb_true_r in *;
    repeat match goal with H : andb _ _ = true |- _ => apply andb_prop in H; destruct H end;
    repeat match goal with H : okind_eqb _ _ = true |- _ => apply okind_eqb_eq in H; subst end;
    repeat match goal with H : negb _ = true |- _ => apply negb_true_iff in H; subst end;
    rewrite ?okind_eqb_refl; cbn; rewrite ?orb_false_r, ?andb_false_r; try reflexivity.
  all: try (destruct wa, wb; cbn in *; try discriminate; reflexivity).
Qed.

(* the races between disciplined accesses are exactly: same object field, one side writes *)
Lemma object_races a b :
  disciplined a = true -> disciplined b = true ->
  (races a b = true <->
   exists k i f, ac_loc a = LField k i f /\ ac_loc b = LField k i f /\
                 (unsync_write a = true \/ unsync_write b = true)).
Proof.
  intros Ha Hb. split.
  - intros R. destruct (is_map (ac_loc a)) eqn:M.
    + rewrite (maps_no_race a b Ha Hb M) in R. discriminate.
    + unfold races in R. apply andb_prop in R as [L R]. apply andb_prop in R as [W _].
      destruct a as [la wa ka sa], b as [lb wb kb sb]; cbn in *.
      destruct la as [|k i f]; [discriminate|]. destruct lb as [|k' i' f']; [discriminate|].
      cbn in L. apply andb_prop in L as [L1 L2]. apply andb_prop in L2 as [L2 L3].
      apply okind_eqb_eq in L1. apply N.eqb_eq in L2. apply seqb_eq in L3. subst.
      exists k', i', f'. split; [reflexivity|]. split; [reflexivity|].
      unfold disciplined, field_unlocked in Ha, Hb. cbn in Ha, Hb.
      unfold unsync_write; cbn.
      destruct wa; cbn in *.
      * left. destruct ka; try reflexivity. discriminate.
      * right. rewrite W. destruct kb; try reflexivity. discriminate.
  - intros [k [i [f [La [Lb W]]]]]. unfold races. rewrite La, Lb. cbn.
    rewrite okind_eqb_refl, N.eqb_refl, seqb_refl. cbn.
    unfold disciplined, field_unlocked in Ha, Hb. rewrite La in Ha. rewrite Lb in Hb.
    unfold unsync_write in W.
    assert (E : excludes (ac_lock a) (ac_lock b) = false).
    { destruct (ac_lock a), (ac_lock b); cbn in *; try reflexivity; try discriminate;
        rewrite ?andb_false_r in *; discriminate. }
    rewrite E. cbn. rewrite andb_true_r.
    destruct W as [W|W]; apply andb_prop in W as [W _]; rewrite W; [reflexivity|apply orb_true_r].
Qed.

(* ---- witnesses ---- *)
Definition c20_cfg : config :=
  (mkConfig POpenID [GRefreshToken; GAuthorizationCode] [] ["code"] [] false 600 300 IssueAlways true 600 false false "" [] false false 0 false
           false false false false false 0 false false false false false false false false false
           false false false false false false false "" false [] false [] CmpNone) <| cf_introspection := true |>.
Definition c20_client : client :=
  mkClient 1 false [GRefreshToken; GAuthorizationCode] ["code"] [] "openid" CibaNone false false false false false false false 0 false None.
Definition c20_world : world := mkWorld c20_cfg [c20_client].
Definition c20_grant : gsession := mkGSession 40 33 35 1000%Z 1000%Z 0 GAuthorizationCode "user" 1 "openid" "openid" 0 0 [] [] [] [].
Definition c20_session : asession :=
  mkASession 41 1 "" 0 37 0 0 "" 0 0 1000%Z 1 "" (mkParams 0 "https://c.example/cb" "" "code" "openid" "" "" PkEmpty "" 0 "" 0 "" [] None) [] [].
Definition c20_store : store := mkStore [] [c20_session] [c20_grant].
Definition no_jwks_uri : id -> bool := fun _ => false.

(* request 1: a refresh of the grant's token; request 2: an introspection of any token *)
Definition c20_refresh := refresh_grant c20_world 5 0%Z (mkTReq (mkCred 1 true) no_bind "" 0 "" 35 PkEmpty 0 HgOk BaApprove [] AsNone None).
Definition c20_introspect := introspect c20_world 0%Z (mkQReq (mkCred 1 true) (PExact 999) true).
(* request 3: the callback that finishes the session; request 4: any lookup by code *)
Definition c20_callback := continue_auth c20_world 6 0%Z (mkCbReq 37 (PolSuccess "user" "openid" [] [])).
Definition c20_code := code_grant c20_world 7 0%Z (mkTReq (mkCred 1 true) no_bind "" 888 "" 0 PkEmpty 0 HgOk BaApprove [] AsNone None).

Definition some_race (l1 l2 : list access) : bool := existsb (fun a => existsb (races a) l2) l1.
Definition race_pairs (l1 l2 : list access) : list (string * string) :=
  flat_map (fun a => flat_map (fun b => if races a b then [(ac_site a, ac_site b)] else []) l2) l1.

Lemma refuted_grant : some_race (trace no_jwks_uri c20_refresh c20_store) (trace no_jwks_uri c20_introspect c20_store) = true.
Proof. vm_compute. reflexivity. Qed.
Lemma refuted_session : some_race (trace no_jwks_uri c20_callback c20_store) (trace no_jwks_uri c20_code c20_store) = true.
Proof. vm_compute. reflexivity. Qed.
(* two lookups of a client with jwks_uri in the default store: a write under the READ lock *)
Definition c20_store_c : store := mkStore [c20_client] [] [].
Lemma refuted_client :
  some_race (call_accesses (fun _ => true) (CGet 1) c20_store_c) (call_accesses (fun _ => true) (CGet 1) c20_store_c) = true.
Proof. vm_compute. reflexivity. Qed.
