(* C14Fault.v — every handler against every storage reply: a failed call yields a negative
   answer; an artifact in the answer was saved by this very run; call order. *)
From Verif Require Import Base Scope Types Prog Pop Token Authorize System Config FaultLog DcrFault FaultSpec Hoare Tactics C14Base.
Local Open Scope N_scope.
Local Open Scope list_scope.

Local Opaque contains_all_scopes are_scopes_allowed validate_binding validate_pkce refresh_binding
       validate_params validate_optionals validate_in_out merge_params validate_jwt validate_pop
       validate_binding_dpop validate_binding_tls set_pop_jkt set_pop_x5t hg_result
       contains_openid nav_mode rt_contains make_token classify has_grant mint with_refresh
       client_for_par should_use_par.

Ltac c14_innermost x :=
  match x with
  | context [match ?y with _ => _ end] => c14_innermost y
  | context [if ?y then _ else _] => c14_innermost y
  | _ => first [is_var x; destruct x | let E := fresh "E" in destruct x eqn:E]
  end.
Ltac c14_break :=
  match goal with
  | |- context [match ?x with _ => _ end] => c14_innermost x
  | |- context [if ?x then _ else _] => c14_innermost x
  end.
Ltac c14_go := repeat (cbn; intros; try c14_break).
Ltac c14_leaf := cbn in *; try reflexivity; try discriminate; try congruence; auto.

Lemma has_fault_app tr1 tr2 : has_fault (tr1 ++ tr2) = orb (has_fault tr1) (has_fault tr2).
Proof. unfold has_fault. apply existsb_app. Qed.

(* ================================================================================== *)
(* A. a failed call yields a negative answer *)

Section Neg.
  Context {A : Type} (neg : A -> bool).
  Definition Qneg (tr : list ev) (a : A) : Prop := has_fault tr = true -> neg a = true.
  Definition Qalways (tr : list ev) (a : A) : Prop := neg a = true.

  (* sequencing after a read-only prelude that answers None whenever one of its calls failed *)
  Lemma neg_bind_opt {X} (p : prog (option X)) (f : option X -> prog A) :
    wp anyR p (fun tr oc => has_fault tr = true -> oc = None) ->
    wp anyR (f None) Qalways -> (forall c, wp anyR (f (Some c)) Qneg) -> wp anyR (bind p f) Qneg.
  Proof.
    intros Hp Hn Hs. apply wp_bind. eapply wp_mono; [|exact Hp]. cbn. intros tr1 oc H1.
    destruct oc as [c|].
    - eapply wp_mono; [|apply Hs]. cbn. intros tr2 a H2. unfold Qneg in *. rewrite has_fault_app.
      destruct (has_fault tr1); [specialize (H1 eq_refl); discriminate|]. exact H2.
    - eapply wp_mono; [|apply Hn]. cbn. intros tr2 a H2 _. exact H2.
  Qed.
End Neg.

Lemma get_client_neg w i : wp anyR (get_client w i) (fun tr oc => has_fault tr = true -> oc = None).
Proof. unfold get_client. c14_go; c14_leaf. Qed.
Lemma authenticated_neg w cr : wp anyR (authenticated w cr) (fun tr oc => has_fault tr = true -> oc = None).
Proof. unfold authenticated, get_client. c14_go; c14_leaf. Qed.

(* jwt-bearer: a request that names nobody makes no call; one that names a client whose lookup failed
   is not "not identified" - it is refused *)
Lemma jwt_bearer_client_neg w cr : wp anyR (jwt_bearer_client w cr) (fun tr oc => has_fault tr = true -> oc = None).
Proof. unfold jwt_bearer_client, authenticated, get_client. c14_go; c14_leaf. Qed.

Ltac neg_auth :=
  apply neg_bind_opt; [first [apply authenticated_neg | apply get_client_neg | apply jwt_bearer_client_neg] | reflexivity | intros c].

Lemma code_grant_neg w n now r : wp anyR (code_grant w n now r) (Qneg neg_out).
Proof.
  unfold code_grant. do 2 (c14_break; [reflexivity || discriminate|]). neg_auth.
  unfold Qneg. c14_go; c14_leaf.
Qed.
Lemma refresh_grant_neg w n now r : wp anyR (refresh_grant w n now r) (Qneg neg_out).
Proof.
  unfold refresh_grant. do 2 (c14_break; [reflexivity || discriminate|]). neg_auth.
  unfold Qneg. c14_go; c14_leaf.
Qed.
Lemma cc_grant_neg w n now r : wp anyR (cc_grant w n now r) (Qneg neg_out).
Proof.
  unfold cc_grant. c14_break; [discriminate|]. neg_auth.
  unfold Qneg. c14_go; c14_leaf.
Qed.
Lemma jwt_bearer_grant_neg w n now r : wp anyR (jwt_bearer_grant w n now r) (Qneg neg_out).
Proof.
  unfold jwt_bearer_grant. c14_break; [discriminate|]. neg_auth.
  unfold Qneg. c14_go; c14_leaf.
Qed.
Lemma ciba_grant_neg w n now r : wp anyR (ciba_grant w n now r) (Qneg neg_out).
Proof.
  unfold ciba_grant. c14_break; [discriminate|]. neg_auth.
  unfold Qneg. c14_go; c14_leaf.
Qed.

Lemma introspection_info_neg now p :
  wp anyR (introspection_info now p) (fun tr i => has_fault tr = true -> in_active i = false).
Proof. unfold introspection_info. c14_go; c14_leaf. Qed.

Lemma introspect_neg w now r : wp anyR (introspect w now r) (Qneg neg_out).
Proof.
  unfold introspect. c14_break; [discriminate|]. neg_auth.
  c14_break; [discriminate|]. destruct (q_tok r) eqn:ET; try discriminate;
  (apply wp_bind; eapply wp_mono; [|apply introspection_info_neg]; cbn; intros tr i H; unfold Qneg;
   rewrite app_nil_r; intros HF; cbn; rewrite (H HF); reflexivity).
Qed.

Lemma token_info_neg now p : wp anyR (token_info now p) (Qneg neg_out).
Proof.
  unfold token_info. apply wp_bind; eapply wp_mono; [|apply introspection_info_neg]; cbn; intros tr i H; unfold Qneg;
   rewrite app_nil_r; intros HF; cbn; rewrite (H HF); reflexivity.
Qed.
Lemma token_info_from_request_neg now r : wp anyR (token_info_from_request now r) (Qneg neg_out).
Proof.
  unfold token_info_from_request. c14_break; [discriminate|].
  apply wp_bind; eapply wp_mono; [|apply introspection_info_neg]; cbn; intros tr i H; unfold Qneg.
  destruct (has_fault tr) eqn:F.
  - rewrite (H eq_refl). cbn. reflexivity.
  - c14_go; rewrite ?app_nil_r in *; congruence.
Qed.

(* /revoke: the exception.  A grant lookup that fails is read as "no such token" and answered
   200 (RFC 7009), without attempting a delete.  Every other failed call yields an error. *)
Definition gget_faults_only (tr : list ev) : bool :=
  forallb (fun e => orb (negb (faulty_ev e)) (is_gget (fst e))) tr.
Definition no_gdel (tr : list ev) : bool := forallb (fun e => negb (is_gdel (fst e))) tr.
Definition revoke_exc (tr : list ev) (o : out) : bool :=
  match o with OOk => andb (gget_faults_only tr) (no_gdel tr) | _ => false end.
Definition Qneg_revoke (tr : list ev) (o : out) : Prop :=
  has_fault tr = true -> neg_out o = true \/ revoke_exc tr o = true.

Lemma authenticated_ro w cr :
  wp anyR (authenticated w cr) (fun tr oc => forallb (fun e => is_read (fst e)) tr = true /\ (has_fault tr = true -> oc = None)).
Proof. unfold authenticated, get_client. c14_go; split; c14_leaf. Qed.

Lemma no_fault_gget_only tr : has_fault tr = false -> gget_faults_only tr = true.
Proof.
  unfold has_fault, gget_faults_only. induction tr as [|e tr IH]; cbn; auto.
  intros H. apply orb_false_iff in H as [H1 H2]. rewrite H1, IH; auto.
Qed.
Lemma reads_no_gdel tr : forallb (fun e => is_read (fst e)) tr = true -> no_gdel tr = true.
Proof.
  unfold no_gdel. induction tr as [|[c r] tr IH]; cbn; auto.
  intros H. apply andb_true_iff in H as [H1 H2]. rewrite IH; auto. destruct c; cbn in *; auto; discriminate.
Qed.

Lemma revoke_neg w now r : wp anyR (revoke w now r) Qneg_revoke.
Proof.
  unfold revoke. c14_break; [intros H; discriminate|].
  apply wp_bind. eapply wp_mono; [|apply authenticated_ro]. cbn. intros tr1 oc [R1 H1].
  destruct oc as [c|]; [|left; reflexivity].
  c14_break; [left; reflexivity|].
  unfold Qneg_revoke, introspection_info. destruct (has_fault tr1) eqn:F1; [specialize (H1 eq_refl); discriminate|].
  assert (K : forall tr2 o, (has_fault tr2 = true -> neg_out o = true \/ revoke_exc tr2 o = true) ->
                            has_fault (tr1 ++ tr2) = true -> neg_out o = true \/ revoke_exc (tr1 ++ tr2) o = true).
  { intros tr2 o H. rewrite has_fault_app, F1. cbn. intros HF. destruct (H HF) as [N|X]; [left; exact N|right].
    unfold revoke_exc in *. destruct o; try discriminate.
    unfold gget_faults_only, no_gdel in *. rewrite !forallb_app.
    apply andb_true_iff in X as [X1 X2]. rewrite X1, X2.
    pose proof (no_fault_gget_only _ F1) as G1. pose proof (reads_no_gdel _ R1) as G2.
    unfold gget_faults_only, no_gdel in *. rewrite G1, G2. reflexivity. }
  eapply wp_mono with (Q := fun tr2 o => has_fault tr2 = true -> neg_out o = true \/ revoke_exc tr2 o = true);
    [intros tr2 o; apply K|].
  clear K. c14_go; try discriminate; first [left; reflexivity | right; reflexivity].
Qed.

Lemma userinfo_neg w now r : wp anyR (userinfo w now r) (Qneg neg_out).
Proof. unfold userinfo, get_client, Qneg. c14_go; c14_leaf. Qed.

(* ---- the authorization endpoint ---- *)
Definition neg_ares (a : ares) : bool := match a with ADone o => neg_out o | AFail _ => true end.
Lemma neg_render cfg c e : neg_out (render_aerr cfg c e) = true.
Proof. destruct e; reflexivity. Qed.
Lemma neg_finish cfg c a : neg_ares a = true -> neg_out (finish_ares cfg c a) = true.
Proof. destruct a; cbn; auto. intros _. apply neg_render. Qed.

Ltac triv := cbn; unfold Qneg; cbn; intros; first [reflexivity | discriminate | apply neg_render].

Lemma authenticate_neg w n now s pol : wp anyR (authenticate w n now s pol) (Qneg neg_ares).
Proof. unfold authenticate, get_client, save_a, Qneg. c14_go; c14_leaf. Qed.

Lemma start_session_neg w n now c s r : wp anyR (start_session w n now c s r) (Qneg neg_ares).
Proof.
  unfold start_session. c14_break; [triv|]. c14_break; [triv|]. cbn. apply authenticate_neg.
Qed.

Lemma bind_finish_neg w n now c s r cfg :
  wp anyR (bind (start_session w n now c s r) (fun a => Ret (finish_ares cfg c a))) (Qneg neg_out).
Proof.
  apply wp_bind. eapply wp_mono; [|apply start_session_neg]. cbn. intros tr a H. unfold Qneg in *.
  rewrite app_nil_r. intros HF. apply neg_finish, H, HF.
Qed.

Local Opaque start_session render_aerr finish_ares.
Ltac destruct_opt_scrut :=
  match goal with |- wp _ (match ?v with Some _ => _ | None => _ end) _ => destruct v eqn:?EV end.
Lemma init_auth_neg w n now r : wp anyR (init_auth w n now r) (Qneg neg_out).
Proof.
  unfold init_auth. c14_break; [triv|]. neg_auth.
  c14_break; [triv|]. c14_break.
  - c14_break; [triv|]. cbn. intros rp _. destruct rp; try triv.
    destruct_opt_scrut.
    + cbn. intros rd _. unfold Qneg. destruct rd; cbn; intros; try reflexivity; apply neg_render.
    + eapply wp_mono; [|apply bind_finish_neg]. cbn. unfold Qneg. cbn. intros tr a H HF. apply H, HF.
  - destruct_opt_scrut.
    + triv.
    + apply bind_finish_neg.
Qed.
Local Transparent start_session render_aerr finish_ares.

Lemma continue_auth_neg w n now r : wp anyR (continue_auth w n now r) (Qneg neg_out).
Proof.
  unfold continue_auth. c14_break; [triv|]. cbn. intros rp _. destruct rp; try triv.
  c14_break; [triv|].
  apply wp_bind. eapply wp_mono; [|apply authenticate_neg]. cbn. intros tr1 a H.
  destruct a as [o|e].
  - cbn. unfold Qneg in *. cbn. rewrite app_nil_r. intros HF. apply H. cbn in HF. exact HF.
  - unfold get_client. c14_go; unfold Qneg; intros; try reflexivity; try apply neg_render.
Qed.

Lemma push_auth_neg w n now r : wp anyR (push_auth w n now r) (Qneg neg_out).
Proof.
  unfold push_auth. c14_break; [discriminate|]. neg_auth.
  unfold Qneg, save_a. c14_go; c14_leaf.
Qed.
Lemma init_back_auth_neg w n now r : wp anyR (init_back_auth w n now r) (Qneg neg_out).
Proof.
  unfold init_back_auth. c14_break; [discriminate|]. neg_auth.
  unfold Qneg, save_a. c14_go; c14_leaf.
Qed.

Definition neg_notif (x : bool * list notif) : bool :=
  andb (negb (fst x)) (match snd x with [] => true | _ => false end).
Lemma notify_success_neg w n now a hg : wp anyR (notify_success w n now a hg) (Qneg neg_notif).
Proof. unfold notify_success, get_client, Qneg. c14_go; c14_leaf. Qed.
Lemma notify_failure_neg w a : wp anyR (notify_failure w a) (Qneg neg_notif).
Proof. unfold notify_failure, get_client, Qneg. c14_go; c14_leaf. Qed.

(* ---- dynamic client registration ---- *)
Lemma dcr_handler_neg w n o : wp anyR (dcr_handler w n o) (Qneg neg_dcr).
Proof.
  destruct o; unfold dcr_handler, dcr_create, dcr_update, dcr_read, dcr_delete, dcr_protected, get_client, Qneg;
    c14_go; c14_leaf.
Qed.

(* ---- every operation ---- *)
Definition obs_exc (o : op) (tr : list ev) (x : obs) : bool :=
  match o, x with OpRevoke _, Out out => revoke_exc tr out | _, _ => false end.
Definition Qneg_op (o : op) (tr : list ev) (x : obs) : Prop :=
  has_fault tr = true -> negative x = true \/ obs_exc o tr x = true.

Lemma lift_neg (p : prog out) o : wp anyR p (Qneg neg_out) ->
  wp anyR (bind p (fun x => Ret (Out x))) (Qneg_op o).
Proof.
  intros H. apply wp_bind. eapply wp_mono; [|exact H]. cbn. intros tr a Ha. unfold Qneg_op, Qneg in *.
  rewrite app_nil_r. intros HF. left. cbn. auto.
Qed.

Lemma handler_neg w n now o : wp anyR (handler w n now o) (Qneg_op o).
Proof.
  destruct o; try destruct g; cbv beta iota zeta delta [handler];
    try match goal with
        | |- wp _ (bind (revoke _ _ _) _) _ => idtac
        | |- wp _ (bind (notify_success _ _ _ _ _) _) _ => idtac
        | |- wp _ (bind (notify_failure _ _) _) _ => idtac
        | |- wp _ (bind _ _) _ => apply lift_neg
        end.
  - apply init_auth_neg.
  - apply continue_auth_neg.
  - apply push_auth_neg.
  - apply cc_grant_neg. - apply code_grant_neg. - apply refresh_grant_neg.
  - intros H; discriminate. - apply jwt_bearer_grant_neg.
  - apply ciba_grant_neg.
  - apply introspect_neg.
  - apply wp_bind. eapply wp_mono; [|apply revoke_neg]. cbn. intros tr a Ha. unfold Qneg_op, Qneg_revoke in *.
    rewrite app_nil_r. cbn. exact Ha.
  - apply userinfo_neg.
  - apply token_info_neg.
  - apply token_info_from_request_neg.
  - apply init_back_auth_neg.
  - apply wp_bind. eapply wp_mono; [|apply notify_success_neg]. cbn. intros tr [ok ns] Ha. unfold Qneg_op, Qneg in *.
    rewrite app_nil_r. intros HF. left. apply Ha, HF.
  - apply wp_bind. eapply wp_mono; [|apply notify_failure_neg]. cbn. intros tr [ok ns] Ha. unfold Qneg_op, Qneg in *.
    rewrite app_nil_r. intros HF. left. apply Ha, HF.
  - intros H; discriminate.
Qed.

