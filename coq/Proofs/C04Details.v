(* C04Details.v — RFC 9396 authorization details (rich authorization requests).
   Invariants over all histories, proved once for any predicate on (active, granted) details that the
   guards of the handlers establish (Section Admissible), then instantiated:
     - every stored grant's active and granted details have types the server supports (the all-of rule
       of validateAuthDetailsTypes), provided the embedder grants supported types only;
     - without that proviso: every active detail has a supported type or is one the embedder granted;
     - with the subset-by-equality compare function: active details are within the granted ones.
   Then the decision rules of the issuing grants, for every store. *)
From Verif Require Import Base Scope Types Prog Pop Token Authorize System Config Run Monitors Hoare Tactics OneShot C04Resources.
Local Open Scope N_scope.

(* ---- list facts ---- *)
Lemma ad_eqb_refl d : ad_eqb d d = true.
Proof. unfold ad_eqb. rewrite seqb_refl, N.eqb_refl. reflexivity. Qed.
Lemma ad_eqb_eq a b : ad_eqb a b = true <-> a = b.
Proof.
  unfold ad_eqb. rewrite andb_true_iff, seqb_eq, N.eqb_eq. destruct a, b; cbn. split.
  - intros [-> ->]; reflexivity.
  - intros H; injection H; auto.
Qed.
Lemma ad_mem_In d l : ad_mem d l = true <-> In d l.
Proof.
  unfold ad_mem. rewrite existsb_exists. split.
  - intros [x [Hx E]]. apply ad_eqb_eq in E. subst; exact Hx.
  - intros H. exists d. split; [exact H|apply ad_eqb_refl].
Qed.
Lemma ad_subset_spec a b : ad_subset a b = true <-> (forall d, In d a -> In d b).
Proof.
  unfold ad_subset. rewrite forallb_forall. split; intros H d Hd.
  - apply ad_mem_In, H, Hd.
  - apply ad_mem_In, H, Hd.
Qed.
Lemma ad_subset_refl l : ad_subset l l = true.
Proof. apply ad_subset_spec. auto. Qed.
Lemma types_supported_spec sup l : types_supported sup l = true <-> (forall d, In d l -> In (ad_type d) sup).
Proof.
  unfold types_supported. rewrite forallb_forall. split; intros H d Hd.
  - apply mem_In, H, Hd.
  - apply mem_In, H, Hd.
Qed.
Lemma types_supported_nil sup : types_supported sup [] = true.
Proof. reflexivity. Qed.

(* ---- readable forms of the guards ---- *)
Lemma validate_details_types_spec cfg req :
  validate_details_types cfg req = true <->
  (cf_auth_details_enabled cfg = true -> forall l, req = Some l -> forall d, In d l -> In (ad_type d) (cf_auth_detail_types cfg)).
Proof.
  unfold validate_details_types. destruct req as [l|].
  - destruct (cf_auth_details_enabled cfg).
    + rewrite types_supported_spec. split.
      * intros H _ l' E. injection E as <-. exact H.
      * intros H. exact (H eq_refl l eq_refl).
    + split; auto. intros _ H; discriminate.
  - split; auto. intros _ _ l E; discriminate.
Qed.
Lemma validate_details_spec cfg granted req :
  validate_details cfg granted req = true <->
  (cf_auth_details_enabled cfg = true -> forall l, req = Some l ->
     (forall d, In d l -> In (ad_type d) (cf_auth_detail_types cfg)) /\
     compare_details (cf_details_cmp cfg) granted l = true).
Proof.
  unfold validate_details. destruct req as [l|].
  - destruct (cf_auth_details_enabled cfg).
    + rewrite andb_true_iff, types_supported_spec. split.
      * intros H _ l' E. injection E as <-. exact H.
      * intros H. exact (H eq_refl l eq_refl).
    + split; auto. intros _ H; discriminate.
  - split; auto. intros _ _ l E; discriminate.
Qed.

(* ---- the details of a grant survive the other adjustments ---- *)
Lemma with_refresh_active_details n now cfg c g : g_active_details (with_refresh n now cfg c g) = g_active_details g.
Proof. unfold with_refresh. destruct (should_issue_refresh cfg c (g_type g) (g_active g)); reflexivity. Qed.
Lemma with_refresh_granted_details n now cfg c g : g_granted_details (with_refresh n now cfg c g) = g_granted_details g.
Proof. unfold with_refresh. destruct (should_issue_refresh cfg c (g_type g) (g_active g)); reflexivity. Qed.

(* what the embedder grants through an operation: the policy's GrantAuthorizationDetails, the
   InitBackAuthFunc's *)
Definition op_granted (o : op) : list adetail :=
  match o with
  | OpAuthorize r => match ar_pol r with PolSuccess _ _ _ d => d | _ => [] end
  | OpCallback r => match cb_pol r with PolSuccess _ _ _ d => d | _ => [] end
  | OpBcAuthorize r => br_granted_details r
  | _ => []
  end.

(* ================================================================================== *)
Section Admissible.
  Variable w : world.
  Let cfg := w_cfg w.
  Variable P : list adetail -> list adetail -> Prop.    (* active, granted of a grant *)
  Variable PA : list adetail -> Prop.                   (* granted details of a session *)

  Hypothesis P_session : forall gr req, PA gr -> validate_details cfg gr req = true ->
    P (grant_active_details cfg gr req) (grant_granted_details cfg gr).
  Hypothesis P_refresh : forall g req, P (g_active_details g) (g_granted_details g) ->
    validate_details cfg (g_granted_details g) req = true ->
    P (refresh_active_details cfg g req) (g_granted_details g).
  Hypothesis P_ownerless : forall req, validate_details_types cfg req = true ->
    P (ownerless_details cfg req) (ownerless_details cfg req).
  Hypothesis P_none : P [] [].
  Hypothesis P_implicit : forall gr, PA gr -> P [] gr.
  Hypothesis P_push : forall gr, PA gr -> P (grant_granted_details cfg gr) (grant_granted_details cfg gr).
  Hypothesis PA_none : PA [].

  Definition QGd (g : gsession) : Prop := P (g_active_details g) (g_granted_details g).
  Definition QAd (s : asession) : Prop := PA (a_granted_details s).
  Notation sok := (saves_ok_r QGd QAd).

  Lemma d_get_client_nosave i : sok (get_client w i).
  Proof. unfold get_client. destruct (find_client i (w_static w)); simpl; auto. split; auto. intros r _; destruct r; simpl; auto. Qed.
  Lemma d_authenticated_nosave cr : sok (authenticated w cr).
  Proof.
    unfold authenticated. destruct (is_nil (cr_id cr)); simpl; auto.
    apply saves_ok_r_bind; [apply d_get_client_nosave|]. intros [c|]; simpl; auto.
    destruct (c_public c || cr_ok cr)%bool; simpl; auto.
  Qed.

  Local Opaque contains_all_scopes are_scopes_allowed validate_binding validate_pkce refresh_binding
         validate_params validate_optionals validate_in_out merge_params mint make_token
         validate_resources grant_active_res grant_granted_res subset
         validate_details validate_details_types grant_active_details grant_granted_details
         ownerless_details refresh_active_details.

  Ltac crunch :=
    repeat (cbn in *;
            try match goal with
                | |- _ /\ _ => split
                | |- forall _, _ => intro
                | |- True => exact I
                end;
            try break_goal).

  Ltac vtrue H := apply negb_false_iff in H.
  Ltac close_d :=
    unfold QGd, QAd, reply_ok in *;
    rewrite ?with_refresh_active_details, ?with_refresh_granted_details; cbn;
    first [ assumption
          | exact P_none
          | exact PA_none
          | match goal with H : negb (validate_details _ _ _) = false |- P (grant_active_details _ _ _) _ =>
              vtrue H; apply P_session; [assumption|exact H] end
          | match goal with H : negb (validate_details _ _ _) = false |- P (refresh_active_details _ _ _) _ =>
              vtrue H; apply P_refresh; [assumption|exact H] end
          | match goal with H : negb (validate_details_types _ _) = false |- P (ownerless_details _ _) _ =>
              vtrue H; apply P_ownerless; exact H end
          | apply P_implicit; assumption
          | apply P_push; assumption ].

  Lemma d_code_grant_saves n now r : sok (code_grant w n now r).
  Proof.
    unfold code_grant.
    destruct (negb (has_grant GAuthorizationCode (cf_grants (w_cfg w)))); [exact I|].
    destruct (is_nil (t_code r)); [exact I|].
    apply saves_ok_r_bind; [apply d_authenticated_nosave|]. intros [c|]; [|exact I].
    crunch; try exact I; close_d.
  Qed.

  Lemma d_refresh_grant_saves n now r : sok (refresh_grant w n now r).
  Proof.
    unfold refresh_grant.
    destruct (negb (has_grant GRefreshToken (cf_grants (w_cfg w)))); [exact I|].
    destruct (is_nil (t_refresh r)); [exact I|].
    apply saves_ok_r_bind; [apply d_authenticated_nosave|]. intros [c|]; [|exact I].
    crunch; try exact I; close_d.
  Qed.

  Lemma d_cc_grant_saves n now r : sok (cc_grant w n now r).
  Proof.
    unfold cc_grant.
    destruct (negb (has_grant GClientCredentials (cf_grants (w_cfg w)))); [exact I|].
    apply saves_ok_r_bind; [apply d_authenticated_nosave|]. intros [c|]; [|exact I].
    crunch; try exact I; close_d.
  Qed.

  Lemma d_jwt_bearer_client_nosave cr : sok (jwt_bearer_client w cr).
  Proof.
    unfold jwt_bearer_client. apply saves_ok_r_bind; [apply d_authenticated_nosave|]. intros [c|]; [exact I|].
    destruct (_ && _)%bool; exact I.
  Qed.
  Lemma d_jwt_bearer_grant_saves n now r : sok (jwt_bearer_grant w n now r).
  Proof.
    unfold jwt_bearer_grant.
    destruct (negb (has_grant GJwtBearer (cf_grants (w_cfg w)))); [exact I|].
    apply saves_ok_r_bind; [apply d_jwt_bearer_client_nosave|]. intros [c|]; [|exact I].
    crunch; try exact I; close_d.
  Qed.

  Lemma d_ciba_grant_saves n now r : sok (ciba_grant w n now r).
  Proof.
    unfold ciba_grant.
    destruct (negb (has_grant GCiba (cf_grants (w_cfg w)))); [exact I|].
    apply saves_ok_r_bind; [apply d_authenticated_nosave|]. intros [c|]; [|exact I].
    crunch; try exact I; close_d.
  Qed.

  Definition pol_ok (pol : pol_reply) : Prop := match pol with PolSuccess _ _ _ d => PA d | _ => True end.

  Lemma d_authenticate_saves n now s pol : QAd s -> pol_ok pol -> sok (authenticate w n now s pol).
  Proof.
    intros HS HP. unfold authenticate. destruct pol; cbn.
    - apply saves_ok_r_bind; [apply d_get_client_nosave|]. intros [c|]; [|exact I].
      unfold save_a. crunch; try exact I; close_d.
    - unfold save_a. crunch; try exact I; close_d.
    - crunch; exact I.
    - crunch; exact I.
  Qed.

  Lemma d_start_session_saves n now c s r : QAd s -> pol_ok (ar_pol r) -> sok (start_session w n now c s r).
  Proof.
    intros HS HP. unfold start_session. repeat (break_goal; [exact I|]). cbn. apply d_authenticate_saves; [exact HS|exact HP].
  Qed.

  Lemma d_init_auth_saves n now r : pol_ok (ar_pol r) -> sok (init_auth w n now r).
  Proof.
    intros HP. unfold init_auth. destruct (is_nil (ar_client r)); [exact I|].
    apply saves_ok_r_bind; [apply d_get_client_nosave|]. intros [c|]; [|exact I].
    break_goal; [exact I|]. break_goal.
    - break_goal; [exact I|]. cbn. split; [exact I|]. intros rp Hrp. destruct rp; try exact I.
      match goal with |- saves_ok_r _ _ (match ?v with _ => _ end) => destruct v end.
      + cbn. split; [exact I|]. intros rd _; destruct rd; exact I.
      + apply saves_ok_r_bind; [|intros; exact I]. apply d_start_session_saves; [|exact HP].
        unfold QAd, reply_ok in *. break_goal; exact Hrp.
    - match goal with |- saves_ok_r _ _ (match ?v with _ => _ end) => destruct v end; [exact I|].
      apply saves_ok_r_bind; [|intros; exact I]. apply d_start_session_saves; [exact PA_none|exact HP].
  Qed.

  Lemma d_continue_auth_saves n now r : pol_ok (cb_pol r) -> sok (continue_auth w n now r).
  Proof.
    intros HP. unfold continue_auth. break_goal; [exact I|]. cbn. split; [exact I|]. intros rp Hrp; destruct rp; try exact I.
    break_goal; [exact I|]. apply saves_ok_r_bind; [apply d_authenticate_saves; [exact Hrp|exact HP]|].
    intros [o|e]; [exact I|]. apply saves_ok_r_bind; [apply d_get_client_nosave|]. intros [c|]; cbn; auto.
  Qed.

  Lemma d_push_auth_saves n now r : sok (push_auth w n now r).
  Proof.
    unfold push_auth. break_goal; [exact I|].
    apply saves_ok_r_bind; [apply d_authenticated_nosave|]. intros [c|]; [|exact I].
    unfold save_a. crunch; try exact I; close_d.
  Qed.

  Lemma d_init_back_auth_saves n now r : PA (br_granted_details r) -> sok (init_back_auth w n now r).
  Proof.
    intros HP. unfold init_back_auth. break_goal; [exact I|].
    apply saves_ok_r_bind; [apply d_authenticated_nosave|]. intros [c|]; [|exact I].
    unfold save_a. crunch; try exact I; close_d.
  Qed.

  Lemma d_notify_success_saves n now a hg : sok (notify_success w n now a hg).
  Proof.
    unfold notify_success. cbn. split; [exact I|]. intros rp Hrp; destruct rp; try exact I.
    apply saves_ok_r_bind; [apply d_get_client_nosave|]. intros [c|]; [|exact I].
    crunch; try exact I; close_d.
  Qed.

  Lemma d_notify_failure_saves a : sok (notify_failure w a).
  Proof.
    unfold notify_failure. cbn. split; [exact I|]. intros rp _; destruct rp; try exact I.
    apply saves_ok_r_bind; [apply d_get_client_nosave|]. intros [c|]; [|exact I].
    crunch; exact I.
  Qed.

  Lemma d_introspection_info_saves now p : sok (introspection_info now p).
  Proof. unfold introspection_info. crunch; exact I. Qed.
  Lemma d_introspect_saves now r : sok (introspect w now r).
  Proof.
    unfold introspect. break_goal; [exact I|].
    apply saves_ok_r_bind; [apply d_authenticated_nosave|]. intros [c|]; [|exact I].
    break_goal; [exact I|]. break_goal; try exact I;
      (apply saves_ok_r_bind; [apply d_introspection_info_saves|]; intros; exact I).
  Qed.
  Lemma d_revoke_saves now r : sok (revoke w now r).
  Proof.
    unfold revoke. break_goal; [exact I|].
    apply saves_ok_r_bind; [apply d_authenticated_nosave|]. intros [c|]; [|exact I].
    break_goal; [exact I|]. apply saves_ok_r_bind; [apply d_introspection_info_saves|].
    intros i. crunch; exact I.
  Qed.
  Lemma d_userinfo_saves now r : sok (userinfo w now r).
  Proof.
    unfold userinfo. break_goal; [exact I|]. break_goal; [|exact I].
    cbn. split; [exact I|]. intros rp _; destruct rp; try exact I.
    repeat (break_goal; try exact I).
    apply saves_ok_r_bind; [apply d_get_client_nosave|]. intros [c|]; exact I.
  Qed.
  Lemma d_token_info_saves now p : sok (token_info now p).
  Proof. unfold token_info. apply saves_ok_r_bind; [apply d_introspection_info_saves|]. intros; exact I. Qed.
  Lemma d_token_info_req_saves now r : sok (token_info_from_request now r).
  Proof.
    unfold token_info_from_request. break_goal; [exact I|].
    apply saves_ok_r_bind; [apply d_introspection_info_saves|]. intros i. crunch; exact I.
  Qed.

  (* the embedder's grants of this operation are admissible *)
  Definition op_ok (o : op) : Prop := PA (op_granted o).

  Lemma d_handler_saves n now o : op_ok o -> sok (handler w n now o).
  Proof.
    intros HO. unfold handler. destruct o; try (apply saves_ok_r_bind; [|intros; exact I]).
    - apply d_init_auth_saves. unfold op_ok, op_granted, pol_ok in *. destruct (ar_pol r); auto.
    - apply d_continue_auth_saves. unfold op_ok, op_granted, pol_ok in *. destruct (cb_pol r); auto.
    - apply d_push_auth_saves.
    - destruct g; try exact I; (apply saves_ok_r_bind; [|intros; exact I]).
      + apply d_cc_grant_saves. + apply d_code_grant_saves. + apply d_refresh_grant_saves.
      + apply d_jwt_bearer_grant_saves. + apply d_ciba_grant_saves.
    - apply d_introspect_saves.
    - apply d_revoke_saves.
    - apply d_userinfo_saves.
    - apply d_token_info_saves.
    - apply d_token_info_req_saves.
    - apply d_init_back_auth_saves. exact HO.
    - apply d_notify_success_saves.
    - apply d_notify_failure_saves.
    - exact I.
  Qed.

  Definition all_ok (st : state) : Prop := store_ok QGd QAd (s_store st).

  Lemma d_step_ok st n o : op_ok o -> all_ok st -> all_ok (fst (step w st n o)).
  Proof.
    intros HO H. unfold step, step_with.
    assert (G : forall p : prog obs, sok p ->
                all_ok (fst (let '(sto, x) := run_seq p (s_store st) in (mkState sto (s_now st), x)))).
    { intros p Hp. pose proof (run_seq_ok_r QGd QAd p (s_store st) Hp H) as R.
      destruct (run_seq p (s_store st)) as [sto x]. exact R. }
    destruct o; try (apply G; exact (d_handler_saves _ _ _ HO)).
    simpl. exact H.
  Qed.

  Lemma d_run_from_ok : forall ops st n, Forall op_ok ops -> all_ok st -> all_ok (fst (run_from w st n ops)).
  Proof.
    induction ops as [|o ops IH]; intros st n HF Hst; simpl; auto.
    inversion HF as [|? ? HO HF']; subst.
    unfold run_from in *. simpl.
    pose proof (d_step_ok st n o HO Hst) as H1. unfold step in H1.
    destruct (step_with (@run_seq obs) w st n o) as [st' x] eqn:E. simpl in H1.
    specialize (IH st' (S n) HF' H1).
    destruct (run_from_with (@run_seq obs) w st' (S n) ops) as [st'' tr] eqn:E2. simpl in *. exact IH.
  Qed.

  Theorem admissible_all_histories dyn ops g :
    Forall op_ok ops ->
    In g (st_gsess (s_store (fst (run_from w (init_state dyn) 0 ops)))) ->
    P (g_active_details g) (g_granted_details g).
  Proof.
    intros HF Hg.
    assert (H0 : all_ok (init_state dyn)) by (split; intros x []).
    destruct (d_run_from_ok ops (init_state dyn) 0%nat HF H0) as [HG _]. exact (HG g Hg).
  Qed.
End Admissible.

(* ================================================================================== *)
(* Instance 1: the all-of rule.  Every detail a grant carries - active and granted - has a type the
   server supports, provided the embedder itself grants supported types only (the library does not
   look at what GrantAuthorizationDetails is given). *)
Definition sup_of (w : world) : list string := cf_auth_detail_types (w_cfg w).
Definition embedder_grants_supported (w : world) (o : op) : Prop :=
  forall d, In d (op_granted o) -> In (ad_type d) (sup_of w).

Local Transparent validate_details validate_details_types grant_active_details grant_granted_details
      ownerless_details refresh_active_details.

Lemma details_types_supported_all w dyn ops g :
  Forall (embedder_grants_supported w) ops ->
  In g (st_gsess (s_store (fst (run_from w (init_state dyn) 0 ops)))) ->
  (forall d, In d (g_active_details g) -> In (ad_type d) (sup_of w)) /\
  (forall d, In d (g_granted_details g) -> In (ad_type d) (sup_of w)).
Proof.
  intros HF Hg.
  pose (PA := fun l : list adetail => types_supported (sup_of w) l = true).
  pose (P := fun a gr : list adetail => types_supported (sup_of w) a = true /\ types_supported (sup_of w) gr = true).
  assert (R : P (g_active_details g) (g_granted_details g)).
  { apply (admissible_all_histories w P PA) with (dyn := dyn) (ops := ops); try exact Hg; unfold P, PA, sup_of.
    - intros gr req HA V. unfold validate_details, grant_active_details, grant_granted_details in *.
      destruct (cf_auth_details_enabled (w_cfg w)); [|auto].
      destruct req as [l|]; [|auto]. apply andb_true_iff in V as [V _]. auto.
    - intros g0 req [HA HG] V. unfold validate_details, refresh_active_details in *.
      destruct (cf_auth_details_enabled (w_cfg w)); [|auto].
      destruct req as [l|]; [|auto]. apply andb_true_iff in V as [V _]. auto.
    - intros req V. unfold validate_details_types, ownerless_details in *.
      destruct (cf_auth_details_enabled (w_cfg w)); [|auto]. destruct req as [l|]; auto.
    - auto.
    - auto.
    - intros gr HA. unfold grant_granted_details. destruct (cf_auth_details_enabled (w_cfg w)); auto.
    - reflexivity.
    - eapply Forall_impl; [|exact HF]. intros o HO. unfold op_ok. apply types_supported_spec. exact HO. }
  destruct R as [R1 R2]. split; apply types_supported_spec; assumption.
Qed.

(* Instance 2, no proviso: whatever the embedder grants and whatever compare function it installed,
   an ACTIVE detail of a stored grant has a type the server supports, or is one of the details the
   embedder granted to that grant. *)
Lemma details_supported_or_granted_all w dyn ops g :
  In g (st_gsess (s_store (fst (run_from w (init_state dyn) 0 ops)))) ->
  forall d, In d (g_active_details g) -> In (ad_type d) (sup_of w) \/ In d (g_granted_details g).
Proof.
  intros Hg.
  pose (PA := fun _ : list adetail => True).
  pose (P := fun a gr : list adetail => forall d, In d a -> In (ad_type d) (sup_of w) \/ In d gr).
  apply (admissible_all_histories w P PA) with (dyn := dyn) (ops := ops); try exact Hg; unfold P, PA, sup_of.
  - intros gr req _ V d Hd. unfold validate_details, grant_active_details, grant_granted_details in *.
    destruct (cf_auth_details_enabled (w_cfg w)); [|destruct Hd].
    destruct req as [l|]; [|right; exact Hd]. apply andb_true_iff in V as [V _].
    left. exact (proj1 (types_supported_spec _ _) V d Hd).
  - intros g0 req H V d Hd. unfold validate_details, refresh_active_details in *.
    destruct (cf_auth_details_enabled (w_cfg w)); [|exact (H d Hd)].
    destruct req as [l|]; [|right; exact Hd]. apply andb_true_iff in V as [V _].
    left. exact (proj1 (types_supported_spec _ _) V d Hd).
  - intros req V d Hd. right. exact Hd.
  - intros d [].
  - intros gr _ d [].
  - intros gr _ d Hd. right. exact Hd.
  - exact I.
  - apply Forall_forall. intros o _. exact I.
Qed.

(* Instance 3: with the subset-by-equality compare function the active details of every stored grant
   are among its granted ones. *)
Lemma details_within_grant_all w dyn ops g :
  cf_details_cmp (w_cfg w) = CmpSubset ->
  In g (st_gsess (s_store (fst (run_from w (init_state dyn) 0 ops)))) ->
  forall d, In d (g_active_details g) -> In d (g_granted_details g).
Proof.
  intros HC Hg.
  pose (PA := fun _ : list adetail => True).
  pose (P := fun a gr : list adetail => forall d, In d a -> In d gr).
  apply (admissible_all_histories w P PA) with (dyn := dyn) (ops := ops); try exact Hg; unfold P, PA.
  - intros gr req _ V d Hd. unfold validate_details, grant_active_details, grant_granted_details in *.
    destruct (cf_auth_details_enabled (w_cfg w)); [|destruct Hd].
    destruct req as [l|]; [|exact Hd]. apply andb_true_iff in V as [_ V]. rewrite HC in V. cbn in V.
    exact (proj1 (ad_subset_spec _ _) V d Hd).
  - intros g0 req H V d Hd. unfold validate_details, refresh_active_details in *.
    destruct (cf_auth_details_enabled (w_cfg w)); [|exact (H d Hd)].
    destruct req as [l|]; [|exact Hd]. apply andb_true_iff in V as [_ V]. rewrite HC in V. cbn in V.
    exact (proj1 (ad_subset_spec _ _) V d Hd).
  - intros req V d Hd. exact Hd.
  - intros d [].
  - intros gr _ d [].
  - intros gr _ d Hd. exact Hd.
  - exact I.
  - apply Forall_forall. intros o _. exact I.
Qed.

(* ================================================================================== *)
(* Decision rules: what a token request that yields tokens implies, for every store.   *)

Local Opaque validate_jwt validate_pop validate_binding_dpop validate_binding_tls set_pop_jkt set_pop_x5t
       hg_result contains_openid contains_all_scopes are_scopes_allowed validate_binding validate_pkce refresh_binding
       mint make_token validate_resources grant_active_res grant_granted_res subset
       validate_details validate_details_types grant_active_details grant_granted_details
       ownerless_details refresh_active_details at_is_jwt.

Ltac vd_true :=
  match goal with
  | H : negb (validate_details _ _ _) = false |- _ => apply negb_false_iff in H; exact H
  | H : negb (validate_details_types _ _) = false |- _ => apply negb_false_iff in H; exact H
  end.

Lemma code_grant_details w n now r st :
  is_tokens (snd (run_seq (code_grant w n now r) st)) = true ->
  exists s g,
    find (fun s => ideq (a_code s) (t_code r)) (st_asess st) = Some s /\
    validate_details (w_cfg w) (a_granted_details s) (t_auth_details r) = true /\
    st_gsess (fst (run_seq (code_grant w n now r) st)) = put_gsess g (st_gsess st) /\
    g_granted_details g = grant_granted_details (w_cfg w) (a_granted_details s) /\
    g_active_details g = grant_active_details (w_cfg w) (a_granted_details s) (t_auth_details r).
Proof.
  unfold code_grant. destruct (has_grant GAuthorizationCode (cf_grants (w_cfg w))) eqn:EG; [|cbn; discriminate]. cbn [negb].
  destruct (is_nil (t_code r)); [cbn; discriminate|].
  rewrite run_authenticated.
  destruct (snd (run_seq (authenticated w (t_cred r)) st)) as [c|] eqn:EA; [|cbn; discriminate].
  cbn. destruct (find _ (st_asess st)) as [s|] eqn:EF; cbn; [|destruct (find _ (st_gsess st)); cbn; discriminate].
  unfold new_grant.
  repeat (cbn; try discriminate; break_inner).
  all: cbn; try discriminate.
  all: intros _; exists s; eexists; repeat split; auto; try vd_true.
  all: rewrite ?with_refresh_active_details, ?with_refresh_granted_details; reflexivity.
Qed.

Lemma ciba_grant_details w n now r st :
  is_tokens (snd (run_seq (ciba_grant w n now r) st)) = true ->
  exists s g,
    find (fun s => ideq (a_ciba s) (t_auth_req r)) (st_asess st) = Some s /\
    validate_details (w_cfg w) (a_granted_details s) (t_auth_details r) = true /\
    st_gsess (fst (run_seq (ciba_grant w n now r) st)) = put_gsess g (st_gsess st) /\
    g_granted_details g = grant_granted_details (w_cfg w) (a_granted_details s) /\
    g_active_details g = grant_active_details (w_cfg w) (a_granted_details s) (t_auth_details r).
Proof.
  unfold ciba_grant. destruct (has_grant GCiba (cf_grants (w_cfg w))) eqn:EG; [|cbn; discriminate]. cbn [negb].
  rewrite run_authenticated.
  destruct (snd (run_seq (authenticated w (t_cred r)) st)) as [c|] eqn:EA; [|cbn; discriminate].
  destruct (is_nil (t_auth_req r)); [cbn; discriminate|].
  cbn. destruct (find _ (st_asess st)) as [s|] eqn:EF; cbn; [|discriminate].
  unfold new_grant.
  repeat (cbn; try discriminate; break_inner).
  all: cbn; try discriminate.
  all: intros _; exists s; eexists; repeat split; auto; try vd_true.
  all: rewrite ?with_refresh_active_details, ?with_refresh_granted_details; reflexivity.
Qed.

Lemma cc_grant_details w n now r st :
  is_tokens (snd (run_seq (cc_grant w n now r) st)) = true ->
  exists g,
    validate_details_types (w_cfg w) (t_auth_details r) = true /\
    st_gsess (fst (run_seq (cc_grant w n now r) st)) = put_gsess g (st_gsess st) /\
    g_granted_details g = ownerless_details (w_cfg w) (t_auth_details r) /\
    g_active_details g = g_granted_details g.
Proof.
  unfold cc_grant. destruct (has_grant GClientCredentials (cf_grants (w_cfg w))) eqn:EG; [|cbn; discriminate]. cbn [negb].
  rewrite run_authenticated.
  destruct (snd (run_seq (authenticated w (t_cred r)) st)) as [c|] eqn:EA; [|cbn; discriminate].
  unfold new_grant.
  repeat (cbn; try discriminate; break_inner).
  all: cbn; try discriminate.
  all: intros _; eexists; repeat split; auto; try vd_true.
Qed.

Lemma jwt_bearer_grant_details w n now r st :
  is_tokens (snd (run_seq (jwt_bearer_grant w n now r) st)) = true ->
  exists g,
    validate_details_types (w_cfg w) (t_auth_details r) = true /\
    st_gsess (fst (run_seq (jwt_bearer_grant w n now r) st)) = put_gsess g (st_gsess st) /\
    g_granted_details g = [] /\ g_active_details g = [].
Proof.
  unfold jwt_bearer_grant. destruct (has_grant GJwtBearer (cf_grants (w_cfg w))) eqn:EG; [|cbn; discriminate]. cbn [negb].
  rewrite run_jwt_bearer_client_k.
  destruct (snd (run_seq (jwt_bearer_client w (t_cred r)) st)) as [c|] eqn:EA; [|cbn; discriminate].
  unfold new_grant.
  repeat (cbn; try discriminate; break_inner).
  all: cbn; try discriminate.
  all: intros _; eexists; repeat split; auto; try vd_true.
  all: rewrite ?with_refresh_active_details, ?with_refresh_granted_details; cbn; reflexivity.
Qed.

Local Transparent make_token.
Lemma refresh_grant_details w n now r st t :
  snd (run_seq (refresh_grant w n now r) st) = OTokens t ->
  exists g g',
    find (fun g => ideq (g_refresh g) (t_refresh r)) (st_gsess st) = Some g /\
    validate_details (w_cfg w) (g_granted_details g) (t_auth_details r) = true /\
    st_gsess (fst (run_seq (refresh_grant w n now r) st)) = put_gsess g' (st_gsess st) /\
    g_id g' = g_id g /\
    g_granted_details g' = g_granted_details g /\
    g_active_details g' = refresh_active_details (w_cfg w) g (t_auth_details r) /\
    tr_details t = g_active_details g' /\
    (forall d, In d (tr_jwt_details t) -> In d (g_active_details g')).
Proof.
  unfold refresh_grant.
  destruct (negb _); [dead|]. destruct (is_nil (t_refresh r)) eqn:ENil; [dead|].
  rewrite run_authenticated.
  destruct (snd (run_seq (authenticated w (t_cred r)) st)) as [c|] eqn:EA; [|dead].
  cbn. destruct (find _ (st_gsess st)) as [g|] eqn:EF; cbn; [|dead].
  unfold tokens_out.
  repeat (cbn; try discriminate; break_inner).
  all: cbn; try discriminate.
  all: intros H; injection H; clear H; intros <-.
  all: exists g; eexists; repeat split; auto; try vd_true.
  all: cbn; intros d Hd; try (destruct (at_is_jwt _)); try exact Hd; destruct Hd.
Qed.
Local Opaque make_token.

(* readable forms *)
Local Transparent validate_details validate_details_types grant_active_details grant_granted_details
      ownerless_details refresh_active_details.

(* what a grant made from a session (authorization_code, CIBA) records *)
Lemma session_details_rule cfg granted req (g : gsession) :
  validate_details cfg granted req = true ->
  g_granted_details g = grant_granted_details cfg granted ->
  g_active_details g = grant_active_details cfg granted req ->
  (cf_auth_details_enabled cfg = true ->
     (forall l, req = Some l ->
        (forall d, In d l -> In (ad_type d) (cf_auth_detail_types cfg)) /\
        compare_details (cf_details_cmp cfg) granted l = true) /\
     g_granted_details g = granted /\
     g_active_details g = (match req with Some l => l | None => granted end)) /\
  (cf_auth_details_enabled cfg = false -> g_granted_details g = [] /\ g_active_details g = []).
Proof.
  intros V G A. split; intros E.
  - pose proof (proj1 (validate_details_spec _ _ _) V E) as V'.
    unfold grant_granted_details, grant_active_details in *. rewrite E in *. auto.
  - unfold grant_granted_details, grant_active_details in *. rewrite E in *. auto.
Qed.

Theorem details_decision_all w n now r st :
  (is_tokens (snd (run_seq (code_grant w n now r) st)) = true ->
   exists s g,
     find (fun s => ideq (a_code s) (t_code r)) (st_asess st) = Some s /\
     st_gsess (fst (run_seq (code_grant w n now r) st)) = put_gsess g (st_gsess st) /\
     (cf_auth_details_enabled (w_cfg w) = true ->
        (forall l, t_auth_details r = Some l ->
           (forall d, In d l -> In (ad_type d) (cf_auth_detail_types (w_cfg w))) /\
           compare_details (cf_details_cmp (w_cfg w)) (a_granted_details s) l = true) /\
        g_granted_details g = a_granted_details s /\
        g_active_details g = (match t_auth_details r with Some l => l | None => a_granted_details s end)) /\
     (cf_auth_details_enabled (w_cfg w) = false -> g_granted_details g = [] /\ g_active_details g = [])) /\
  (is_tokens (snd (run_seq (ciba_grant w n now r) st)) = true ->
   exists s g,
     find (fun s => ideq (a_ciba s) (t_auth_req r)) (st_asess st) = Some s /\
     st_gsess (fst (run_seq (ciba_grant w n now r) st)) = put_gsess g (st_gsess st) /\
     (cf_auth_details_enabled (w_cfg w) = true ->
        (forall l, t_auth_details r = Some l ->
           (forall d, In d l -> In (ad_type d) (cf_auth_detail_types (w_cfg w))) /\
           compare_details (cf_details_cmp (w_cfg w)) (a_granted_details s) l = true) /\
        g_granted_details g = a_granted_details s /\
        g_active_details g = (match t_auth_details r with Some l => l | None => a_granted_details s end)) /\
     (cf_auth_details_enabled (w_cfg w) = false -> g_granted_details g = [] /\ g_active_details g = [])) /\
  (forall t, snd (run_seq (refresh_grant w n now r) st) = OTokens t ->
   exists g g',
     find (fun g => ideq (g_refresh g) (t_refresh r)) (st_gsess st) = Some g /\
     st_gsess (fst (run_seq (refresh_grant w n now r) st)) = put_gsess g' (st_gsess st) /\
     g_id g' = g_id g /\ g_granted_details g' = g_granted_details g /\
     (cf_auth_details_enabled (w_cfg w) = true ->
        (forall l, t_auth_details r = Some l ->
           (forall d, In d l -> In (ad_type d) (cf_auth_detail_types (w_cfg w))) /\
           compare_details (cf_details_cmp (w_cfg w)) (g_granted_details g) l = true) /\
        g_active_details g' = (match t_auth_details r with Some l => l | None => g_granted_details g end)) /\
     (cf_auth_details_enabled (w_cfg w) = false -> g_active_details g' = g_active_details g) /\
     tr_details t = g_active_details g' /\ (forall d, In d (tr_jwt_details t) -> In d (g_active_details g'))) /\
  (is_tokens (snd (run_seq (cc_grant w n now r) st)) = true ->
   exists g,
     st_gsess (fst (run_seq (cc_grant w n now r) st)) = put_gsess g (st_gsess st) /\
     g_active_details g = g_granted_details g /\
     (cf_auth_details_enabled (w_cfg w) = true ->
        (forall l, t_auth_details r = Some l -> forall d, In d l -> In (ad_type d) (cf_auth_detail_types (w_cfg w))) /\
        g_granted_details g = (match t_auth_details r with Some l => l | None => [] end)) /\
     (cf_auth_details_enabled (w_cfg w) = false -> g_granted_details g = [])) /\
  (is_tokens (snd (run_seq (jwt_bearer_grant w n now r) st)) = true ->
   exists g,
     st_gsess (fst (run_seq (jwt_bearer_grant w n now r) st)) = put_gsess g (st_gsess st) /\
     g_active_details g = [] /\ g_granted_details g = [] /\
     (cf_auth_details_enabled (w_cfg w) = true ->
        forall l, t_auth_details r = Some l -> forall d, In d l -> In (ad_type d) (cf_auth_detail_types (w_cfg w)))).
Proof.
  split; [|split; [|split; [|split]]].
  - intros H. destruct (code_grant_details w n now r st H) as (s & g & F & V & S & G & A).
    exists s, g. split; [exact F|]. split; [exact S|]. exact (session_details_rule _ _ _ _ V G A).
  - intros H. destruct (ciba_grant_details w n now r st H) as (s & g & F & V & S & G & A).
    exists s, g. split; [exact F|]. split; [exact S|]. exact (session_details_rule _ _ _ _ V G A).
  - intros t H. destruct (refresh_grant_details w n now r st t H) as (g & g' & F & V & S & EI & G & A & T & J).
    exists g, g'. split; [exact F|]. split; [exact S|]. split; [exact EI|]. split; [exact G|].
    split; [|split; [|split; [exact T|exact J]]]; intros E.
    + pose proof (proj1 (validate_details_spec _ _ _) V E) as V'. split; [exact V'|].
      rewrite A. unfold refresh_active_details. rewrite E. reflexivity.
    + rewrite A. unfold refresh_active_details. rewrite E. reflexivity.
  - intros H. destruct (cc_grant_details w n now r st H) as (g & V & S & G & A).
    exists g. split; [exact S|]. split; [exact A|]. split; intros E.
    + pose proof (proj1 (validate_details_types_spec _ _) V E) as V'. split; [exact V'|].
      rewrite G. unfold ownerless_details. rewrite E. reflexivity.
    + rewrite G. unfold ownerless_details. rewrite E. reflexivity.
  - intros H. destruct (jwt_bearer_grant_details w n now r st H) as (g & V & S & G & A).
    exists g. split; [exact S|]. split; [exact A|]. split; [exact G|].
    intros E. exact (proj1 (validate_details_types_spec _ _) V E).
Qed.

(* C10: a refresh never widens the authorization details.  The granted list is not touched; what the
   refreshed token carries (and the response reports) is the request's list only if every entry has a
   supported type and the embedder's compare function accepted it against the granted list - with the
   subset-by-equality function it lies within the granted details, provided the grant obeyed that
   before (it does in every reachable state: details_within_grant_all). *)
Lemma refresh_never_widens_details_all w n now r st t :
  snd (run_seq (refresh_grant w n now r) st) = OTokens t ->
  exists g g',
    find (fun g => ideq (g_refresh g) (t_refresh r)) (st_gsess st) = Some g /\
    st_gsess (fst (run_seq (refresh_grant w n now r) st)) = put_gsess g' (st_gsess st) /\
    g_id g' = g_id g /\ g_granted_details g' = g_granted_details g /\
    (cf_details_cmp (w_cfg w) = CmpSubset ->
     (forall d, In d (g_active_details g) -> In d (g_granted_details g)) ->
     forall d, In d (g_active_details g') -> In d (g_granted_details g')) /\
    ((forall d, In d (g_active_details g) -> In (ad_type d) (cf_auth_detail_types (w_cfg w)) \/ In d (g_granted_details g)) ->
     forall d, In d (g_active_details g') -> In (ad_type d) (cf_auth_detail_types (w_cfg w)) \/ In d (g_granted_details g')) /\
    (forall d, In d (tr_details t) \/ In d (tr_jwt_details t) -> In d (g_active_details g')).
Proof.
  intros H. destruct (refresh_grant_details w n now r st t H) as (g & g' & F & V & S & EI & G & A & T & J).
  exists g, g'. split; [exact F|]. split; [exact S|]. split; [exact EI|]. split; [exact G|].
  split; [|split]; [| |intros d [Hd|Hd]; [rewrite <- T; exact Hd|exact (J d Hd)]].
  all: unfold validate_details, refresh_active_details in *; rewrite A, G.
  - intros HC W d Hd. destruct (cf_auth_details_enabled (w_cfg w)); [|exact (W d Hd)].
    destruct (t_auth_details r) as [l|]; [|exact Hd].
    apply andb_true_iff in V as [_ V]. rewrite HC in V. cbn in V. exact (proj1 (ad_subset_spec _ _) V d Hd).
  - intros W d Hd. destruct (cf_auth_details_enabled (w_cfg w)); [|exact (W d Hd)].
    destruct (t_auth_details r) as [l|]; [|right; exact Hd].
    apply andb_true_iff in V as [V _]. left. exact (proj1 (types_supported_spec _ _) V d Hd).
Qed.

(* what introspection reports as authorization_details is the stored grant's: the active details for
   an access token, the granted ones for a refresh token *)
Lemma introspection_details_of_grant now p st i :
  snd (run_seq (introspection_info now p) st) = i -> in_active i = true ->
  exists g, In g (st_gsess st) /\ g_id g = in_grant i /\
            in_details i = (if in_refresh i then g_granted_details g else g_active_details g).
Proof.
  unfold introspection_info. intros H A. subst i.
  destruct (classify p); cbn in *; try discriminate.
  - destruct (find _ (st_gsess st)) as [g|] eqn:F; cbn in *; try discriminate.
    destruct (geb now (g_last_exp g)); cbn in *; try discriminate.
    exists g. apply find_some in F as [F _]. auto.
  - destruct (find _ (st_gsess st)) as [g|] eqn:F; cbn in *; try discriminate.
    destruct (geb now (g_expires g)); cbn in *; try discriminate.
    exists g. apply find_some in F as [F _]. auto.
Qed.

(* the authorization endpoint (and /par, /bc-authorize through the same validator): accepted
   parameters name only types the server supports and the client registered (a client that
   registered none may use any) *)
Local Transparent validate_optionals validate_params.
Lemma validate_optionals_details cfg p c :
  validate_optionals cfg p c = None -> details_param_ok cfg c (p_auth_details p) = true.
Proof.
  intros H. destruct (details_param_ok cfg c (p_auth_details p)) eqn:E; [reflexivity|]. exfalso.
  unfold validate_optionals in H. rewrite E in H. cbn [negb] in H.
  repeat match type of H with context [if ?b then _ else _] => destruct b; try discriminate end.
Qed.
Lemma details_param_ok_spec cfg c d :
  details_param_ok cfg c d = true ->
  cf_auth_details_enabled cfg = true -> forall l, d = Some l -> forall x, In x l ->
    In (ad_type x) (cf_auth_detail_types cfg) /\ client_detail_type_allowed c (ad_type x) = true.
Proof.
  unfold details_param_ok. intros H E l -> x Hx. rewrite E in H.
  rewrite forallb_forall in H. specialize (H x Hx). apply andb_true_iff in H as [H1 H2].
  split; [apply mem_In; exact H1|exact H2].
Qed.
Lemma authorize_details_supported_all cfg p c :
  validate_params cfg p c = None ->
  cf_auth_details_enabled cfg = true -> forall l, p_auth_details p = Some l -> forall x, In x l ->
    In (ad_type x) (cf_auth_detail_types cfg) /\ client_detail_type_allowed c (ad_type x) = true.
Proof.
  intros H. apply details_param_ok_spec. apply validate_optionals_details.
  unfold validate_params in H. destruct (is_empty (p_redirect p)); [discriminate|].
  destruct (validate_optionals cfg p c); [discriminate|reflexivity].
Qed.
Local Opaque validate_optionals validate_params.

(* non-vacuity: rich authorization requests enabled for two types with the subset compare function;
   the owner grants two details; a code exchange mixing a granted detail with one of an unsupported
   type is refused (and burns the code); a fresh code exchanged for one granted detail yields a token
   carrying exactly it; a refresh naming a detail of a supported type that was not granted is refused, a
   refresh naming nothing returns to the full grant; introspection of the refresh token reports the
   granted details; client_credentials with a mixed list is refused, with supported types accepted *)
Definition ex_d1 : adetail := mkDetail "payment_initiation" 1.
Definition ex_d2 : adetail := mkDetail "account_information" 2.
Definition ex_d3 : adetail := mkDetail "payment_initiation" 3.
Definition ex_du : adetail := mkDetail "account_admin" 3.
Definition ex_det_ops : list op :=
  let p := mkParams 0 "https://c/cb" "" "code" "openid" "s" "" PkEmpty "" 0 "" 0 "" [] (Some [ex_d1; ex_d2]) in
  let tr code det := mkTReq (mkCred 1 true) no_bind "" code "https://c/cb" 0 PkEmpty 0 HgOk BaApprove [] AsNone det in
  let rf rt det := mkTReq (mkCred 1 true) no_bind "" 0 "" rt PkEmpty 0 HgOk BaApprove [] AsNone det in
  let cc det := mkTReq (mkCred 1 true) no_bind "openid" 0 "" 0 PkEmpty 0 HgOk BaApprove [] AsNone det in
  [OpAuthorize (mkAReq 1 p true (PolSuccess "alice" "openid" [] [ex_d1; ex_d2]));
   OpToken GAuthorizationCode (tr (mint 0 KCode) (Some [ex_d1; ex_du]));
   OpAuthorize (mkAReq 1 p true (PolSuccess "alice" "openid" [] [ex_d1; ex_d2]));
   OpToken GAuthorizationCode (tr (mint 2 KCode) (Some [ex_d1]));
   OpToken GRefreshToken (rf (mint 3 KRefresh) (Some [ex_d1; ex_d3]));
   OpToken GRefreshToken (rf (mint 3 KRefresh) None);
   OpIntrospect (mkQReq (mkCred 1 true) (PExact (mint 3 KRefresh)) true);
   OpToken GClientCredentials (cc (Some [ex_d1; ex_du]));
   OpToken GClientCredentials (cc (Some [ex_du; ex_d1]));
   OpToken GClientCredentials (cc (Some [ex_d3; ex_d2]));
   OpAuthorize (mkAReq 1 (p <| p_auth_details := Some [ex_du; ex_d1] |>) true (PolSuccess "alice" "openid" [] [ex_d1]))].
Example details_flow_exists :
  let c1 := mkClient 1 false [GAuthorizationCode; GRefreshToken; GClientCredentials] ["code"] ["https://c/cb"] "openid" CibaNone
              false false false false false false false 0 false None in
  let w := mkWorld (match build POpenID [WithAuthorizationCodeGrant; WithClientCredentialsGrant; WithRefreshTokenGrant 600%Z;
                                         WithTokenIntrospection;
                                         WithAuthorizationDetails CmpSubset "payment_initiation" ["account_information"]]
                    with Some c => c | None => base_config POpenID end) [c1] in
  match run w [] ex_det_ops with
  | [Out (ONav _ _ _); Out (OErr EInvalidAuthDetails); Out (ONav _ _ _); Out (OTokens t); Out (OErr EInvalidAuthDetails);
     Out (OTokens t2); Out (OIntro i); Out (OErr EInvalidAuthDetails); Out (OErr EInvalidAuthDetails); Out (OTokens t3);
     Out (ONav _ _ nv)] =>
      tr_details t = [ex_d1] /\ tr_details t2 = [ex_d1; ex_d2] /\ in_active i = true /\ in_details i = [ex_d1; ex_d2] /\
      tr_details t3 = [ex_d3; ex_d2] /\ n_err nv = Some EInvalidAuthDetails
  | _ => False end.
Proof. vm_compute. auto 10. Qed.
