(* C14Proofs.v — the C14 theorems, assembled from C14Base (interpreters, wp), C14Fault (negative
   answers), C14Back (artifacts saved), C14Ack (acknowledgements), C14Seq (call order) and
   C14Crash (prefixes). *)
From Verif Require Import Base Scope Types Prog Pop Token Authorize System Config FaultLog DcrFault FaultSpec
  Hoare Tactics Fresh FreshHandlers C13Proofs C14Base C14Fault C14Back C14Ack C14Seq C14Crash.
Local Open Scope N_scope.
Local Open Scope list_scope.

(* run_fault in terms of its logging twin *)
Lemma rf_store {A} plan (p : prog A) st : fst (fst (run_fault plan 0 p st)) = fst (fst (run_fault_log plan 0 p st)).
Proof. rewrite run_fault_log_eq. reflexivity. Qed.
Lemma rf_out {A} plan (p : prog A) st : snd (fst (run_fault plan 0 p st)) = snd (fst (run_fault_log plan 0 p st)).
Proof. rewrite run_fault_log_eq. reflexivity. Qed.
Lemma rf_count {A} plan (p : prog A) st : snd (run_fault plan 0 p st) = List.length (snd (run_fault_log plan 0 p st)).
Proof. rewrite run_fault_log_eq. reflexivity. Qed.

Lemma one_index_store_ok st : one_index_store st <-> store_ok C14Base.QG1 C14Base.QA1 st.
Proof. unfold one_index_store, store_ok, C14Base.QG1, C14Base.QA1. split; [intros H; split; auto|intros [_ H]; exact H]. Qed.

(* ---- 1. no artifact without backing state ---- *)
Lemma handler_back_sound w n now o plan st : one_index_store st ->
  Qback_op n (evs (snd (run_fault_log plan 0 (handler w n now o) st)))
             (snd (fst (run_fault_log plan 0 (handler w n now o) st))) /\
  one_index_store (fst (fst (run_fault_log plan 0 (handler w n now o) st))).
Proof.
  intros H. apply one_index_store_ok in H.
  destruct (wp_sound idxR C14Base.QG1 C14Base.QA1 idxR_ok (handler w n now o) (Qback_op n)
              (handler_sok w n now o) (handler_back w n now o) plan 0%nat st H) as [A B].
  split; [exact A|apply one_index_store_ok, B].
Qed.

Theorem fault_no_unbacked_artifact_log w n now o plan st : one_index_store st ->
  all_backed n (fst (fst (run_fault_log plan 0 (handler w n now o) st)))
               (snd (fst (run_fault_log plan 0 (handler w n now o) st))).
Proof.
  intros H. destruct (handler_back_sound w n now o plan st H) as [(T & C & P & A & B) _].
  pose proof (run_fault_log_steps plan (handler w n now o) 0 st) as ST.
  set (tr := evs (snd (run_fault_log plan 0 (handler w n now o) st))) in *.
  set (st' := fst (fst (run_fault_log plan 0 (handler w n now o) st))) in *.
  set (x := snd (fst (run_fault_log plan 0 (handler w n now o) st))) in *.
  assert (IDX : forall (get : asession -> id) v, idx_saved get tr v -> exists s, In s (st_asess st') /\ get s = v).
  { intros get v Hv. unfold idx_saved in Hv. destruct (find_asave tr) as [s|] eqn:E; [|contradiction].
    exists s. split; auto. eapply esteps_find_asave; eauto. }
  unfold all_backed. repeat split.
  - intros p Hp. pose proof (all_in_forall _ _ T p Hp) as Hs. unfold tok_saved in Hs.
    destruct (find_gsave tr) as [g|] eqn:E; [|contradiction]. destruct Hs as [[c [gt Hm]] Hr].
    exists g, c, gt. split; [eapply esteps_find_gsave; eauto|split; [exact Hm|destruct Hr; auto]].
  - intros c Hc. apply IDX. exact (all_in_forall _ _ C c Hc).
  - intros c Hc. apply IDX. exact (all_in_forall _ _ P c Hc).
  - intros c Hc. apply IDX. exact (all_in_forall _ _ A c Hc).
  - intros c Hc. apply IDX. exact (all_in_forall _ _ B c Hc).
Qed.

Theorem fault_no_unbacked_artifact_thm w n now o plan st : one_index_store st ->
  all_backed n (fst (fst (run_fault plan 0 (handler w n now o) st)))
               (snd (fst (run_fault plan 0 (handler w n now o) st))).
Proof. rewrite rf_store, rf_out. apply fault_no_unbacked_artifact_log. Qed.

(* the trace form: the Save of the very object was executed by this run and did not fail *)
Definition saved_in_run (l : list fev) (c : call) : Prop :=
  exists e, In e l /\ fe_call e = c /\ fe_reply e <> RFail.
Lemma find_gsave_in tr g : find_gsave tr = Some g -> exists r, In (GSave g, r) tr /\ r <> RFail.
Proof.
  induction tr as [|[c r] tr IH]; cbn; [discriminate|]. destruct tr as [|e tr].
  - destruct c; try discriminate. destruct (rok r) eqn:R; [|discriminate]. intros X; inversion X; subst.
    exists r. split; [left; reflexivity|]. intros ->. discriminate.
  - intros X. destruct (IH X) as [r' [H1 H2]]. exists r'. split; [right; exact H1|exact H2].
Qed.
Lemma find_asave_in tr s : find_asave tr = Some s -> exists r, In (ASave s, r) tr /\ r <> RFail.
Proof.
  induction tr as [|[c r] tr IH]; cbn; [discriminate|].
  assert (K : find_asave tr = Some s -> exists r0, In (ASave s, r0) ((c, r) :: tr) /\ r0 <> RFail).
  { intros X. destruct (IH X) as [r' [H1 H2]]. exists r'. split; [right; exact H1|exact H2]. }
  destruct c; auto.
  destruct (rok r && forallb (fun e => keeps_a (fst e)) tr)%bool eqn:R; auto.
  intros X; inversion X; subst. apply andb_true_iff in R as [R _].
  exists r. split; [left; reflexivity|]. intros ->. discriminate.
Qed.
Lemma in_evs l c r : In (c, r) (evs l) -> exists e, In e l /\ fe_call e = c /\ fe_reply e = r.
Proof.
  unfold evs. intros H. apply in_map_iff in H as [e [E H]]. inversion E; subst. exists e; auto.
Qed.

Theorem fault_artifact_saved_in_run_thm w n now o plan st : one_index_store st ->
  let l := snd (run_fault_log plan 0 (handler w n now o) st) in
  let x := snd (fst (run_fault_log plan 0 (handler w n now o) st)) in
  (forall p, In p (obs_tokens x) -> exists g c gt, saved_in_run l (GSave g) /\ make_token n c gt = (fst p, g_token g) /\
                                                    (snd p = 0 \/ g_refresh g = snd p)) /\
  (forall c, In c (lift_out out_codes x) -> exists s, saved_in_run l (ASave s) /\ a_code s = c) /\
  (forall u, In u (lift_out out_request_uris x) -> exists s, saved_in_run l (ASave s) /\ a_par s = u) /\
  (forall a, In a (lift_out out_auth_req_ids x) -> exists s, saved_in_run l (ASave s) /\ a_ciba s = a) /\
  (forall cb, In cb (lift_out out_callbacks x) -> exists s, saved_in_run l (ASave s) /\ a_cb s = cb).
Proof.
  intros H l x. destruct (handler_back_sound w n now o plan st H) as [(T & C & P & A & B) _].
  fold l in T, C, P, A, B. fold x in T, C, P, A, B.
  assert (IDX : forall (get : asession -> id) v, idx_saved get (evs l) v -> exists s, saved_in_run l (ASave s) /\ get s = v).
  { intros get v Hv. unfold idx_saved in Hv. destruct (find_asave (evs l)) as [s|] eqn:E; [|contradiction].
    exists s. split; auto. destruct (find_asave_in _ _ E) as [r [Hi Hr]]. apply in_evs in Hi as [e (He & Hc & Hre)].
    exists e. repeat split; auto. congruence. }
  repeat split.
  - intros p Hp. pose proof (all_in_forall _ _ T p Hp) as Hs. unfold tok_saved in Hs.
    destruct (find_gsave (evs l)) as [g|] eqn:E; [|contradiction]. destruct Hs as [[c [gt Hm]] Hr].
    exists g, c, gt. split; [|split; [exact Hm|destruct Hr; auto]].
    destruct (find_gsave_in _ _ E) as [r [Hi Hrr]]. apply in_evs in Hi as [e (He & Hc & Hre)].
    exists e. repeat split; auto. congruence.
  - intros c Hc. apply IDX. exact (all_in_forall _ _ C c Hc).
  - intros c Hc. apply IDX. exact (all_in_forall _ _ P c Hc).
  - intros c Hc. apply IDX. exact (all_in_forall _ _ A c Hc).
  - intros c Hc. apply IDX. exact (all_in_forall _ _ B c Hc).
Qed.

(* the discipline the theorem assumes is kept by every faulty run and every crashed prefix *)
Theorem one_index_kept_by_faults_thm w n now o plan st : one_index_store st ->
  one_index_store (fst (fst (run_fault plan 0 (handler w n now o) st))).
Proof. intros H. rewrite rf_store. apply (handler_back_sound w n now o plan st H). Qed.
Lemma prefix_ok {A} QG QA (p : prog A) : forall k st, saves_ok QG QA p -> store_ok QG QA st -> store_ok QG QA (fst (run_prefix k p st)).
Proof.
  induction p as [a|c kont IH|o p IH]; cbn; intros k st S H; auto.
  destruct k; [exact H|]. destruct S as [Sc Sk]. pose proof (exec_ok QG QA c st Sc H) as H'.
  destruct (exec c st) as [st' r]. cbn in *. apply IH; auto.
Qed.
Theorem one_index_kept_by_crashes_thm w n now o k st : one_index_store st ->
  one_index_store (fst (run_prefix k (handler w n now o) st)).
Proof.
  intros H. apply one_index_store_ok. apply prefix_ok; [apply handler_sok|apply one_index_store_ok, H].
Qed.

(* ---- 2. a failed call yields a negative answer ---- *)
Lemma log_faithful {A} plan (p : prog A) : forall n st,
  Forall (fun e => ev_failed e = true -> faulty_ev (fe_call e, fe_reply e) = true) (snd (run_fault_log plan n p st)).
Proof.
  induction p as [a|c k IH|o p IH]; intros n st; cbn; auto.
  pose proof (exec_fault_effective (plan n) c st) as HE.
  destruct (exec_fault (plan n) c st) as [st' r]. cbn in HE.
  specialize (IH r (S n) st'). destruct (run_fault_log plan (S n) (k r) st') as [[st'' a] l]. cbn in *.
  constructor; auto.
Qed.
Lemma gget_only_log l :
  Forall (fun e => ev_failed e = true -> faulty_ev (fe_call e, fe_reply e) = true) l ->
  gget_faults_only (evs l) = true -> only_gget_faults l = true.
Proof.
  unfold gget_faults_only, only_gget_faults. induction 1 as [|e l He Hl IH]; cbn; auto.
  intros H. apply andb_true_iff in H as [H1 H2]. rewrite (IH H2), andb_true_r.
  destruct (ev_failed e) eqn:F; cbn; auto. rewrite (He eq_refl) in H1. cbn in H1. exact H1.
Qed.
Lemma no_gdel_log l : no_gdel (evs l) = forallb (fun e => negb (is_gdel (fe_call e))) l.
Proof. unfold no_gdel, evs. induction l as [|e l IH]; cbn; auto. rewrite IH. reflexivity. Qed.

Definition revoke_exception (o : op) (x : obs) (l : list fev) : Prop :=
  (exists r, o = OpRevoke r) /\ x = Out OOk /\ only_gget_faults l = true /\
  forallb (fun e => negb (is_gdel (fe_call e))) l = true.

Theorem fault_negative_answer_thm w n now o plan st :
  let x := snd (fst (run_fault_log plan 0 (handler w n now o) st)) in
  let l := snd (run_fault_log plan 0 (handler w n now o) st) in
  plan_hit l = true -> negative x = true \/ revoke_exception o x l.
Proof.
  intros x l Hit.
  pose proof (wp_sound_any (handler w n now o) (Qneg_op o) (handler_neg w n now o) plan 0%nat st) as H.
  fold x l in H. unfold Qneg_op in H.
  destruct (H (plan_hit_has_fault plan _ 0%nat st Hit)) as [N|X]; [left; exact N|right].
  unfold obs_exc in X. destruct o; try discriminate. destruct x as [out|]; try discriminate.
  unfold revoke_exc in X. destruct out; try discriminate. apply andb_true_iff in X as [X1 X2].
  split; [eexists; reflexivity|]. split; [reflexivity|]. split.
  - apply gget_only_log; auto. apply log_faithful.
  - rewrite <- no_gdel_log. exact X2.
Qed.

(* ---- 3. no false acknowledgement ---- *)
Theorem fault_no_false_ack_revoke_thm w now r plan st :
  let st' := fst (fst (run_fault_log plan 0 (revoke w now r) st)) in
  let x := snd (fst (run_fault_log plan 0 (revoke w now r) st)) in
  let l := snd (run_fault_log plan 0 (revoke w now r) st) in
  x = OOk ->
  forall e i, In e l -> fe_call e = GDel i ->
    fe_reply e <> RFail /\ forall g, In g (st_gsess st') -> g_id g <> i.
Proof.
  intros st' x l HO e i He Hc.
  pose proof (wp_sound_any (revoke w now r) Qack_revoke (revoke_ack w now r) plan 0%nat st) as H.
  fold x l in H. specialize (H HO).
  assert (Hin : In (GDel i, fe_reply e) (evs l)).
  { unfold evs. apply in_map_iff. exists e. rewrite Hc. auto. }
  destruct (ack_shape_gdel _ _ _ H Hin) as [R L]. split; auto.
  eapply esteps_last_gdel; [apply run_fault_log_steps|exact L].
Qed.

(* ---- DCR ---- *)
Theorem dcr_fault_negative_thm w n o plan st :
  plan_hit (snd (run_fault_log plan 0 (dcr_handler w n o) st)) = true ->
  snd (fst (run_fault_log plan 0 (dcr_handler w n o) st)) = DfErr.
Proof.
  intros Hit.
  pose proof (wp_sound_any (dcr_handler w n o) (Qneg neg_dcr) (dcr_handler_neg w n o) plan 0%nat st) as H.
  specialize (H (plan_hit_has_fault plan _ 0%nat st Hit)).
  destruct (snd (fst (run_fault_log plan 0 (dcr_handler w n o) st))); cbn in H; try discriminate. reflexivity.
Qed.
Theorem dcr_no_false_ack_thm w n o plan st :
  let st' := fst (fst (run_fault_log plan 0 (dcr_handler w n o) st)) in
  match snd (fst (run_fault_log plan 0 (dcr_handler w n o) st)) with
  | DfDeleted => exists r, o = DfDelete r /\ forall c, In c (st_clients st') -> c_id c <> df_cid r
  | DfDoc _ cid secret tok =>
      (exists r, o = DfRead r /\ secret = 0 /\ tok = 0) \/ (exists c, In c (st_clients st') /\ c_id c = cid)
  | DfErr => True
  end.
Proof.
  intros st'.
  pose proof (wp_sound_any (dcr_handler w n o) (Qack_dcr o) (dcr_handler_ack w n o) plan 0%nat st) as H.
  pose proof (run_fault_log_steps plan (dcr_handler w n o) 0 st) as ST. fold st' in ST.
  unfold Qack_dcr in H. destruct (snd (fst (run_fault_log plan 0 (dcr_handler w n o) st))); auto.
  - destruct H as [H|[c [Hc E]]]; [left; exact H|right]. exists c. split; auto. eapply esteps_find_csave; eauto.
  - destruct H as [r [E L]]. exists r. split; auto. eapply esteps_last_cdel; eauto.
Qed.
Theorem dcr_call_sequence_thm w n o plan st :
  is_prefix_of (dcr_flow_re o) (log_kinds (snd (run_fault_log plan 0 (dcr_handler w n o) st))) = true.
Proof.
  pose proof (wp_sound_any (dcr_handler w n o) (Qseq_d (dcr_flow_re o)) (dcr_handler_seq w n o) plan 0%nat st) as H.
  unfold Qseq_d in H. rewrite kinds_evs in H. exact H.
Qed.

(* ---- 4. call sequences ---- *)
Theorem call_sequence_thm w n now o plan st :
  is_prefix_of (flow_re o) (log_kinds (snd (run_fault_log plan 0 (handler w n now o) st))) = true.
Proof.
  pose proof (wp_sound_any (handler w n now o) (Qseq_op o) (handler_seq w n now o) plan 0%nat st) as H.
  unfold Qseq_op in H. rewrite kinds_evs in H. exact H.
Qed.

(* run_log is the fault-free faulty run *)
Lemma run_log_fault_free {A} (p : prog A) : forall st acc,
  run_log p st acc =
  (fst (fst (run_fault_log (fun _ => FNone) 0 p st)), snd (fst (run_fault_log (fun _ => FNone) 0 p st)),
   rev acc ++ log_kinds (snd (run_fault_log (fun _ => FNone) 0 p st))).
Proof.
  assert (G : forall n st acc, run_log p st acc =
     (fst (fst (run_fault_log (fun _ => FNone) n p st)), snd (fst (run_fault_log (fun _ => FNone) n p st)),
      rev acc ++ log_kinds (snd (run_fault_log (fun _ => FNone) n p st)))).
  { induction p as [a|c k IH|o p IH]; intros n st acc; cbn.
    - rewrite app_nil_r. reflexivity.
    - destruct (exec c st) as [st' r]. rewrite (IH r (S n) st' (call_kind c :: acc)).
      destruct (run_fault_log (fun _ => FNone) (S n) (k r) st') as [[st'' a] l]. cbn.
      rewrite <- app_assoc. reflexivity.
    - apply IH. }
  intros st acc. apply G.
Qed.
Theorem run_log_sequence_thm w n now o st :
  is_prefix_of (flow_re o) (snd (run_log (handler w n now o) st [])) = true.
Proof. rewrite run_log_fault_free. cbn. apply call_sequence_thm. Qed.

Theorem consume_before_issue_thm w n now plan st :
  (forall r, consume_then_issue [] None (evs (snd (run_fault_log plan 0 (code_grant w n now r) st))) = true) /\
  (forall r, code_recorded [] (evs (snd (run_fault_log plan 0 (code_grant w n now r) st))) = true) /\
  (forall r, consume_then_issue [] None (evs (snd (run_fault_log plan 0 (ciba_grant w n now r) st))) = true) /\
  (forall a hg, consume_then_issue [] None (evs (snd (run_fault_log plan 0 (notify_success w n now a hg) st))) = true).
Proof.
  repeat split; intros.
  - exact (wp_sound_any _ _ (code_grant_cbi w n now r) plan 0%nat st []).
  - exact (wp_sound_any _ _ (code_grant_code w n now r) plan 0%nat st []).
  - exact (wp_sound_any _ _ (ciba_grant_cbi w n now r) plan 0%nat st []).
  - exact (wp_sound_any _ _ (notify_success_cbi w n now a hg) plan 0%nat st []).
Qed.

(* ---- 5. crashes ---- *)
Theorem crash_prefix_safe_thm w n now o k st : fresh n st -> gcodes_old n st -> no_code_twice st ->
  no_code_twice (fst (run_prefix k (handler w n now o) st)).
Proof.
  intros F G N. apply (prefix_cinv n (handler w n now o) k st); [apply handler_safe; auto; split; auto|split; auto].
Qed.
Theorem crash_no_response_thm w n now o k st :
  (k < count_calls (handler w n now o) st)%nat -> snd (run_prefix k (handler w n now o) st) = None.
Proof. apply prefix_none. Qed.
Theorem crash_response_only_after_all_calls_thm w n now o k st x :
  snd (run_prefix k (handler w n now o) st) = Some x ->
  (count_calls (handler w n now o) st <= k)%nat /\
  run_prefix k (handler w n now o) st = (fst (run_seq (handler w n now o) st), Some (snd (run_seq (handler w n now o) st))).
Proof. apply prefix_some. Qed.
Theorem crash_histories_thm w dyn ops :
  no_code_twice (s_store (run_crashy w (init_state dyn) 0 ops)).
Proof. apply (crash_all_histories w dyn ops). Qed.

(* faults and crashes together *)
Theorem fault_crash_prefix_safe_thm w n now o plan k st : fresh n st -> gcodes_old n st -> no_code_twice st ->
  no_code_twice (fst (fst (run_fault_prefix_log plan 0 k (handler w n now o) st))).
Proof.
  intros F G N. apply (fault_prefix_cinv n plan (handler w n now o) 0%nat k st); [apply handler_safe; auto; split; auto|split; auto].
Qed.
Theorem faulty_histories_thm w dyn ops :
  no_code_twice (s_store (run_faulty w (init_state dyn) 0 ops)).
Proof. apply (faulty_all_histories w dyn ops). Qed.
