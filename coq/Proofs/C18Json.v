(* C18Json.v — list-valued members and the JSON form of stored objects (defects D27, D28).
   encoding/json with `omitempty` writes no member for an empty list and reads an absent member back as nil:
   a storage that serialises cannot tell `[]` from "absent".  The model keeps the distinction where the Go code
   can see it (opt_details of the request parameters: None = nil, Some [] = `[]`; the registered
   authorization_data_types of a client), so "behaviour does not depend on the storage flavour" has, for those
   members, the form: what is stored is a fixed point of the JSON round trip, or the reader does not tell the
   two apart. *)
From Verif Require Import Base Scope Types Prog Pop Token Authorize Jar Hoare Tactics ParStored.

(* the JSON round trip on the members it can change *)
Definition json_details (d : opt_details) : opt_details := match d with Some [] => None | _ => d end.
Definition json_params (p : params) : params := p <| p_auth_details := json_details (p_auth_details p) |>.
Definition json_types (t : option (list string)) : option (list string) := match t with Some [] => None | _ => t end.
Definition json_client (c : client) : client := c <| c_auth_detail_types := json_types (c_auth_detail_types c) |>.
Definition json_stable (p : params) : Prop := json_params p = p.

Lemma json_params_idem p : json_params (json_params p) = json_params p.
Proof. destruct p as [a1 a2 a3 a4 a5 a6 a7 a8 a9 a10 a11 a12 a13 a14 d]. unfold json_params. cbn. destruct d as [[|x l]|]; reflexivity. Qed.

(* D27: what /par stores is a fixed point of the round trip *)
Lemma par_stored_json_stable p : json_stable (par_stored_params p).
Proof.
  destruct p as [a1 a2 a3 a4 a5 a6 a7 a8 a9 a10 a11 a12 a13 a14 d]. unfold json_stable, json_params, par_stored_params. cbn.
  destruct d as [[|x l]|]; reflexivity.
Qed.
Lemma par_stored_is_json p : par_stored_params p = json_params p.
Proof.
  destruct p as [a1 a2 a3 a4 a5 a6 a7 a8 a9 a10 a11 a12 a13 a14 d]. unfold json_params, par_stored_params. cbn.
  destruct d as [[|x l]|]; reflexivity.
Qed.
(* hence the merge with the outer parameters of the redeeming request is the same under both flavours *)
Lemma merge_of_pushed_flavour_independent i o :
  merge_params (json_params (par_stored_params i)) o = merge_params (par_stored_params i) o.
Proof. rewrite par_stored_json_stable. reflexivity. Qed.
(* the defect: without the normalisation the merge tells the flavours apart *)
Definition d27_inner : params := mkParams 0%N "" "" "code" "openid" "" "" PkEmpty "" 0%N "" 0%N "" [] (Some []).
Definition d27_outer : params := mkParams 0%N "" "" "" "" "" "" PkEmpty "" 0%N "" 0%N "" [] (Some [mkDetail "unsupported" 0%N]).
Lemma merge_raw_flavour_dependent :
  p_auth_details (merge_params (json_params d27_inner) d27_outer) <> p_auth_details (merge_params d27_inner d27_outer).
Proof. vm_compute. discriminate. Qed.

(* every session /par saves (plain or with a request object), whatever the storage answers, is such a fixed point *)
Definition stable_session (s : asession) : Prop := json_stable (a_params s).
Definition any_grant (g : gsession) : Prop := True.
Lemma sv_bind' {A B} (p : prog A) (f : A -> prog B) :
  saves_ok any_grant stable_session p -> (forall a, saves_ok any_grant stable_session (f a)) ->
  saves_ok any_grant stable_session (bind p f).
Proof. apply saves_ok_bind. Qed.
Lemma get_client_stable w i : saves_ok any_grant stable_session (get_client w i).
Proof. unfold get_client. repeat (cbn; try match goal with |- True => exact I | |- _ /\ _ => split | |- forall _, _ => intro end; try break_goal). Qed.
Lemma authenticated_stable w cr : saves_ok any_grant stable_session (authenticated w cr).
Proof.
  unfold authenticated. destruct (is_nil (cr_id cr)); [exact I|].
  apply sv_bind'; [apply get_client_stable|]. intros [c|];
  repeat (cbn; try match goal with |- True => exact I | |- _ /\ _ => split | |- forall _, _ => intro end; try break_goal).
Qed.
Lemma new_session_params n c p : a_params (new_session n c p) = p.
Proof. reflexivity. Qed.
Lemma push_auth_stable w n now r : saves_ok any_grant stable_session (push_auth w n now r).
Proof.
  unfold push_auth, save_a. break_goal; [exact I|].
  apply sv_bind'; [apply authenticated_stable|]. intros [c|]; [|exact I].
  repeat (break_goal; try exact I).
  all: cbn; split; [unfold stable_session; cbn; apply par_stored_json_stable|intros rp; destruct rp; exact I].
Qed.
Lemma push_tail_stable w n now c p b : saves_ok any_grant stable_session (push_tail w n now c p b).
Proof.
  unfold push_tail, save_a.
  repeat (break_goal; try exact I).
  all: cbn; split; [unfold stable_session; cbn; apply par_stored_json_stable|intros rp; destruct rp; exact I].
Qed.
Lemma push_auth_jar_stable w jx n now r obj : saves_ok any_grant stable_session (push_auth_jar w jx n now r obj).
Proof.
  unfold push_auth_jar. break_goal; [exact I|].
  apply sv_bind'; [apply authenticated_stable|]. intros [c|]; [|exact I].
  break_goal; [break_goal; [exact I|]|]; apply push_tail_stable.
Qed.
Lemma pushed_sessions_stable w jx n now r obj :
  saves_ok any_grant stable_session (push_auth w n now r) /\
  saves_ok any_grant stable_session (push_auth_jar w jx n now r obj).
Proof. split; [apply push_auth_stable|apply push_auth_jar_stable]. Qed.

(* D28: no reader of the registered type list tells an empty list from an absent one *)
Lemma client_detail_type_json c t : client_detail_type_allowed (json_client c) t = client_detail_type_allowed c t.
Proof. unfold client_detail_type_allowed, json_client. cbn. destruct (c_auth_detail_types c) as [[|x l]|]; reflexivity. Qed.
Lemma details_param_ok_json cfg c d : details_param_ok cfg (json_client c) d = details_param_ok cfg c d.
Proof.
  unfold details_param_ok. destruct d as [l|]; [|reflexivity]. destruct (cf_auth_details_enabled cfg); [|reflexivity].
  induction l as [|x l IH]; [reflexivity|]. cbn [forallb]. rewrite client_detail_type_json, IH. reflexivity.
Qed.
