(* C04More.v — decision rules behind C04: owner-less grants stay within the client's registration,
   grant and response types are served only to clients registered for them, identity is the grant's. *)
From Verif Require Import Base Scope Types Prog Pop Token Authorize System Config Run Monitors Hoare Tactics Fresh FreshHandlers OneShot ScopeProofs C02Proofs.
Local Open Scope N_scope.

Local Opaque contains_all_scopes are_scopes_allowed validate_binding validate_pkce refresh_binding
       validate_params validate_optionals validate_in_out merge_params validate_jwt validate_pop
       validate_binding_dpop validate_binding_tls set_pop_jkt set_pop_x5t hg_result contains_openid make_token.

(* client_credentials: granted = requested, allowed for the client by the whole-entry rule, and the
   grant names the client itself as subject *)
Lemma cc_grant_post w n now r st :
  is_tokens (snd (run_seq (cc_grant w n now r) st)) = true ->
  exists c g,
    snd (run_seq (authenticated w (t_cred r)) st) = Some c /\
    has_grant GClientCredentials (cf_grants (w_cfg w)) = true /\
    has_grant GClientCredentials (c_grants c) = true /\
    are_scopes_allowed (c_scopes c) (cf_scopes (w_cfg w)) (t_scope r) = true /\
    st_gsess (fst (run_seq (cc_grant w n now r) st)) = put_gsess g (st_gsess st) /\
    g_granted g = t_scope r /\ g_active g = t_scope r /\ g_client g = c_id c /\ g_subject g = cname (c_id c) /\
    g_type g = GClientCredentials /\ g_refresh g = 0.
Proof.
  unfold cc_grant. destruct (has_grant GClientCredentials (cf_grants (w_cfg w))) eqn:EG; [|cbn; discriminate]. cbn [negb].
  rewrite run_authenticated.
  destruct (snd (run_seq (authenticated w (t_cred r)) st)) as [c|] eqn:EA; [|cbn; discriminate].
  unfold new_grant.
  repeat (cbn; try discriminate; break_inner).
  all: cbn; try discriminate.
  all: intros _; exists c; eexists; repeat split; auto.
  all: try (match goal with H : negb (has_grant _ _) = false |- _ => apply negb_false_iff in H; exact H end).
  all: try (match goal with H : negb (are_scopes_allowed _ _ _) = false |- _ => apply negb_false_iff in H; exact H end).
Qed.

(* authorization_code / ciba / refresh: only for clients registered for the grant type, on servers
   that enabled it; the grant written carries the session's subject, client and granted scopes *)
Lemma code_grant_types w n now r st :
  is_tokens (snd (run_seq (code_grant w n now r) st)) = true ->
  exists s c g,
    find (fun s => ideq (a_code s) (t_code r)) (st_asess st) = Some s /\
    snd (run_seq (authenticated w (t_cred r)) st) = Some c /\
    has_grant GAuthorizationCode (cf_grants (w_cfg w)) = true /\
    has_grant GAuthorizationCode (c_grants c) = true /\
    contains_all_scopes (a_granted s) (t_scope r) = true /\
    st_gsess (fst (run_seq (code_grant w n now r) st)) = put_gsess g (st_gsess st) /\
    g_granted g = a_granted s /\ g_subject g = a_subject s /\ g_client g = a_client s /\ g_code g = a_code s /\
    g_active g = (if is_empty (t_scope r) then a_granted s else t_scope r).
Proof.
  unfold code_grant. destruct (has_grant GAuthorizationCode (cf_grants (w_cfg w))) eqn:EG; [|cbn; discriminate]. cbn [negb].
  destruct (is_nil (t_code r)); [cbn; discriminate|].
  rewrite run_authenticated.
  destruct (snd (run_seq (authenticated w (t_cred r)) st)) as [c|] eqn:EA; [|cbn; discriminate].
  cbn. destruct (find _ (st_asess st)) as [s|] eqn:EF; cbn; [|destruct (find _ (st_gsess st)); cbn; discriminate].
  unfold with_refresh, new_grant.
  repeat (cbn; try discriminate; break_inner).
  all: cbn; try discriminate.
  all: intros _; exists s, c; eexists; repeat split; auto.
  all: try (match goal with H : negb (has_grant _ _) = false |- _ => apply negb_false_iff in H; exact H end).
  all: try (match goal with H : negb (contains_all_scopes _ _) = false |- _ => apply negb_false_iff in H; exact H end).
  all: try (destruct (should_issue_refresh _ _ _ _); cbn; try (match goal with H : is_empty _ = _ |- _ => rewrite H end); reflexivity).
Qed.

(* the authorization endpoint starts a session only for a response type the client registered, a
   grant type (code / implicit) it registered, and scopes allowed by the whole-entry rule *)
Local Transparent validate_params validate_optionals.
Lemma validate_params_types cfg p c :
  validate_params cfg p c = None ->
  mem (p_resp_type p) (c_resp_types c) = true /\
  (rt_contains (p_resp_type p) "code" = true -> has_grant GAuthorizationCode (c_grants c) = true) /\
  (rt_is_implicit (p_resp_type p) = true -> has_grant GImplicit (c_grants c) = true) /\
  (is_empty (p_scopes p) = false -> are_scopes_allowed (c_scopes c) (cf_scopes cfg) (p_scopes p) = true).
Proof.
  unfold validate_params. destruct (is_empty (p_redirect p)); [discriminate|].
  destruct (validate_optionals cfg p c) eqn:EO; [discriminate|].
  destruct (is_empty (p_resp_type p)) eqn:ERT; [discriminate|]. intros _.
  unfold validate_optionals in EO.
  repeat match type of EO with
         | (if ?b then Some _ else _) = None => let E := fresh "E" in destruct b eqn:E; [discriminate|]
         end.
  rewrite ERT in *. cbn [negb andb] in *.
  repeat match goal with
       | E : negb _ = false |- _ => apply negb_false_iff in E
       end.
  repeat split; auto.
  - intros H. rewrite H in *. cbn in *. match goal with E : negb (has_grant GAuthorizationCode _) = false |- _ => apply negb_false_iff in E; exact E end.
  - intros H. rewrite H in *. cbn in *. match goal with E : negb (has_grant GImplicit _) = false |- _ => apply negb_false_iff in E; exact E end.
  - intros H. rewrite H in *. cbn in *. match goal with E : negb (are_scopes_allowed _ _ _) = false |- _ => apply negb_false_iff in E; exact E end.
Qed.
