(* C01Proofs.v — the procedure of Authn.v against the declarative AuthnSpec.v, and the handlers of
   Token.v / Authorize.v when authentication fails. *)
From Verif Require Import Base Scope Types Prog Pop Token Authorize Config Authn AuthnSpec AuthnLink Tactics.
Local Open Scope N_scope.
Set Warnings "-unused-intro-pattern".
Import Bool.

(* ---- small reflections ---- *)
Lemma ideq_eq a b : ideq a b = true <-> a = b.
Proof. apply N.eqb_eq. Qed.
Lemma ideq_neq a b : ideq a b = false <-> a <> b.
Proof. apply N.eqb_neq. Qed.
Lemma is_nil_eq a : is_nil a = true <-> a = 0.
Proof. apply N.eqb_eq. Qed.
Lemma is_nil_neq a : is_nil a = false <-> a <> 0.
Proof. apply N.eqb_neq. Qed.
Lemma alg_eqb_eq a b : alg_eqb a b = true <-> a = b.
Proof. destruct a, b; simpl; split; intro H; try reflexivity; try discriminate. Qed.
Lemma alg_in_In a l : alg_in a l = true <-> In a l.
Proof.
  unfold alg_in. rewrite existsb_exists. split.
  - intros [y [H1 H2]]. apply alg_eqb_eq in H2. subst; auto.
  - intros H. exists a. split; auto. apply alg_eqb_eq; reflexivity.
Qed.
Lemma alg_in_app a l1 l2 : alg_in a (l1 ++ l2) = true <-> In a l1 \/ In a l2.
Proof. rewrite alg_in_In. apply in_app_iff. Qed.

Ltac reflect_ids :=
  repeat match goal with
  | H : ideq _ _ = true |- _ => apply ideq_eq in H
  | H : ideq _ _ = false |- _ => apply ideq_neq in H
  | H : is_nil _ = true |- _ => apply is_nil_eq in H
  | H : is_nil _ = false |- _ => apply is_nil_neq in H
  | H : N.eqb _ _ = true |- _ => apply N.eqb_eq in H
  | H : N.eqb _ _ = false |- _ => apply N.eqb_neq in H
  end.

(* ---- method and algorithm selection ---- *)
Lemma authn_method_spec c x : authn_method c x = registered_method c x.
Proof. destruct x; simpl; auto; [destruct (ca_intro_method c)|destruct (ca_revoke_method c)]; reflexivity. Qed.

Lemma authn_sig_algs_spec c x d a :
  alg_in a (authn_sig_algs c x d) = true <-> permitted_alg d c x a.
Proof.
  unfold authn_sig_algs, permitted_alg, pinned_alg.
  destruct x; destruct (ca_alg c), (ca_intro_alg c), (ca_revoke_alg c); simpl;
    try apply alg_in_In; rewrite orb_false_r; apply alg_eqb_eq.
Qed.

(* ---- identification ---- *)
Lemma extract_id_identifies g rq i : extract_id g rq = IdOk i <-> identifies g rq i.
Proof.
  unfold extract_id, identifies, assertion_client_id.
  destruct (is_nil (rq_form_id rq)) eqn:Ef;
  destruct (rq_basic rq) as [[b s]|] eqn:Eb;
  destruct (rq_assertion rq) as [| |a] eqn:Ea.
  all: try destruct (is_nil b) eqn:Enb.
  all: try (destruct (alg_in (as_alg a) (client_authn_sig_algs g)) eqn:Eal;
            [apply alg_in_app in Eal|
             assert (~ (In (as_alg a) (ag_pk_algs g) \/ In (as_alg a) (ag_sj_algs g)))
               by (intro HH; apply alg_in_app in HH; unfold client_authn_sig_algs in Eal; congruence)]).
  all: try destruct (as_iss a) as [k|] eqn:Ei.
  all: simpl.
  all: repeat match goal with |- context [ideq ?p ?q] => destruct (ideq p q) eqn:? end.
  all: simpl; reflect_ids.
  all: split; [intro HH; try discriminate; try (injection HH as <-) | intros (H1 & H2 & H3 & H4)].
  all: try solve [exfalso; tauto].
  all: try solve [repeat split; auto; try tauto; try congruence;
                  try (intros ? ? HH; injection HH as <- <-; auto; right; congruence);
                  try (right; left; eauto); try (right; right; congruence); try (left; congruence)].
  all: try solve [exfalso; destruct H3; tauto].
  all: try solve [specialize (H2 _ _ eq_refl); destruct H1, H2, H3 as [? H3]; try injection H3 as H3; subst; try congruence; try tauto].
  all: try solve [specialize (H2 _ _ eq_refl); destruct H1, H2; subst; try congruence; try tauto].
  all: try solve [destruct H1, H3 as [? H3]; try injection H3 as H3; subst; try congruence; try tauto].
  all: try solve [destruct H1; subst; try congruence; try tauto].
  all: try solve [exfalso; destruct H4 as [H4|[(b0 & s0 & E & Nz)|H4]];
                  [congruence | try discriminate; injection E as <- <-; congruence | congruence]].
  all: repeat split; auto; try (intros ? ? HH; try discriminate; injection HH as <- <-; auto);
       try (right; right; congruence).
Qed.

(* ---- claims ---- *)
Lemma aud_accepted_spec g v : aud_accepted g v = true <-> accepted_audience g v.
Proof.
  unfold accepted_audience. destruct v; simpl; split; intro H; auto; try discriminate;
    try (right; right; right; split; auto; fail);
    try (destruct H as [H|[H|[H|[H1 [H|H]]]]]; try discriminate; auto).
Qed.

Lemma are_claims_valid_sound g c rq a :
  ca_id c <> 0 -> are_claims_valid g c rq a = true -> claims_valid g c rq a.
Proof.
  intros Hid. unfold are_claims_valid, claims_valid.
  destruct (as_exp a) as [d|]; [|discriminate].
  destruct (as_jti a); simpl; [|discriminate].
  destruct (rq_jti_ok rq); simpl; [|discriminate].
  destruct (Z.ltb (ag_lifetime g) d) eqn:E1; [discriminate|]. apply Z.ltb_ge in E1.
  apply is_nil_neq in Hid. rewrite Hid. simpl.
  destruct (as_iss a) as [k|]; simpl; [|discriminate].
  destruct (ideq k (ca_id c)) eqn:E2; simpl; [|discriminate]. apply ideq_eq in E2. subst k.
  destruct (ideq (as_sub a) (ca_id c)) eqn:E3; simpl; [|discriminate]. apply ideq_eq in E3.
  destruct (existsb (aud_accepted g) (as_aud a)) eqn:E4; simpl; [|discriminate].
  apply existsb_exists in E4 as [v [Hv1 Hv2]]. apply aud_accepted_spec in Hv2.
  destruct (as_nbf a) as [n1|] eqn:En1.
  - destruct (Z.ltb (ag_leeway g) n1) eqn:E5; [discriminate|]. apply Z.ltb_ge in E5.
    destruct (Z.ltb (d + ag_leeway g) 0) eqn:E6; [discriminate|]. apply Z.ltb_ge in E6.
    destruct (as_iat a) as [n2|] eqn:En2.
    + destruct (Z.ltb (ag_leeway g) n2) eqn:E7; [discriminate|]. apply Z.ltb_ge in E7. intros _.
      repeat split; auto; try (eexists; split; eauto; fail).
      * exists d. repeat split; auto; lia.
      * intros n HH; injection HH as <-; auto.
      * intros n HH; injection HH as <-; auto.
    + intros _. repeat split; auto; try (eexists; split; eauto; fail).
      * exists d. repeat split; auto; lia.
      * intros n HH; injection HH as <-; auto.
      * discriminate.
  - destruct (Z.ltb (d + ag_leeway g) 0) eqn:E6; [discriminate|]. apply Z.ltb_ge in E6.
    destruct (as_iat a) as [n2|] eqn:En2.
    + destruct (Z.ltb (ag_leeway g) n2) eqn:E7; [discriminate|]. apply Z.ltb_ge in E7. intros _.
      repeat split; auto; try (eexists; split; eauto; fail).
      * exists d. repeat split; auto; lia.
      * discriminate.
      * intros n HH; injection HH as <-; auto.
    + intros _. repeat split; auto; try (eexists; split; eauto; fail); try discriminate.
      exists d. repeat split; auto; lia.
Qed.

Lemma are_claims_valid_complete g c rq a :
  claims_valid g c rq a -> are_claims_valid g c rq a = true.
Proof.
  unfold are_claims_valid, claims_valid.
  intros (Hi & Hs & (v & Hv1 & Hv2) & (d & Hd & Hd1 & Hd2) & Hn & Ht & Hj & Hk).
  rewrite Hd, Hj, Hk, Hi, Hs. simpl.
  assert (E1 : Z.ltb (ag_lifetime g) d = false) by (apply Z.ltb_ge; lia). rewrite E1.
  assert (Er : ideq (ca_id c) (ca_id c) = true) by (apply ideq_eq; reflexivity). rewrite Er.
  rewrite !orb_true_r. simpl.
  assert (E4 : existsb (aud_accepted g) (as_aud a) = true)
    by (apply existsb_exists; exists v; split; auto; apply aud_accepted_spec; auto).
  rewrite E4. simpl.
  assert (E6 : Z.ltb (d + ag_leeway g) 0 = false) by (apply Z.ltb_ge; lia).
  destruct (as_nbf a) as [n1|].
  - specialize (Hn _ eq_refl). assert (E5 : Z.ltb (ag_leeway g) n1 = false) by (apply Z.ltb_ge; lia).
    rewrite E5, E6. destruct (as_iat a) as [n2|]; auto.
    specialize (Ht _ eq_refl). assert (E7 : Z.ltb (ag_leeway g) n2 = false) by (apply Z.ltb_ge; lia).
    rewrite E7. reflexivity.
  - rewrite E6. destruct (as_iat a) as [n2|]; auto.
    specialize (Ht _ eq_refl). assert (E7 : Z.ltb (ag_leeway g) n2 = false) by (apply Z.ltb_ge; lia).
    rewrite E7. reflexivity.
Qed.

(* ---- the methods ---- *)
Lemma fetch_public_jwks_spec c rq : fst (fetch_public_jwks c rq) = registered_keys c rq.
Proof. unfold fetch_public_jwks, registered_keys. destruct (ca_jwks c); reflexivity. Qed.

Lemma hbytes_eqb_eq a b : hbytes_eqb a b = true <-> a = b.
Proof.
  destruct a, b; simpl; split; intro H; try discriminate; try (apply N.eqb_eq in H; subst; auto);
    injection H as ->; apply N.eqb_refl.
Qed.

Lemma jwk_matching_header_designated ks a j :
  jwk_matching_header ks a = Some j -> In j ks /\ designated j a.
Proof.
  unfold jwk_matching_header, designated. destruct (N.eqb (as_kid a) 0) eqn:E; simpl; intro H;
    apply find_some in H as [H1 H2]; split; auto; reflect_ids.
  - right. split; auto. destruct (jk_alg j); [|discriminate]. apply alg_eqb_eq in H2. subst; auto.
  - left. split; auto.
Qed.

Lemma find_unique {A} (f : A -> bool) l x y :
  find f l = Some y -> In x l -> f x = true ->
  (forall u v, In u l -> In v l -> f u = true -> f v = true -> u = v) -> y = x.
Proof. intros H Hx Hfx Hu. apply find_some in H as [H1 H2]. apply Hu; auto. Qed.

Lemma find_exists {A} (f : A -> bool) l x : In x l -> f x = true -> exists y, find f l = Some y.
Proof.
  intros H1 H2. destruct (find f l) eqn:E; eauto. exfalso.
  pose proof (find_none f l E x H1). congruence.
Qed.

Lemma designated_dec j a :
  designated j a <->
  (if negb (N.eqb (as_kid a) 0) then N.eqb (jk_kid j) (as_kid a)
   else match jk_alg j with Some x => alg_eqb x (as_alg a) | None => false end) = true.
Proof.
  unfold designated. destruct (N.eqb (as_kid a) 0) eqn:E; simpl; reflect_ids.
  - split.
    + intros [[H _]|[_ H]]; [congruence|]. rewrite H. apply alg_eqb_eq; auto.
    + intro H. right. split; auto. destruct (jk_alg j); [|discriminate]. apply alg_eqb_eq in H. subst; auto.
  - split.
    + intros [[_ H]|[H _]]; [|congruence]. apply N.eqb_eq; auto.
    + intro H. left. reflect_ids. auto.
Qed.

Lemma authenticate_sound g c x rq :
  ca_id c <> 0 -> fst (authenticate g c x rq) = true -> method_credential g x c rq.
Proof.
  intros Hid. unfold authenticate, method_credential. rewrite authn_method_spec.
  destruct (registered_method c x); simpl; auto; try discriminate.
  - (* basic *)
    unfold authenticate_secret_basic, validate_secret.
    destruct (rq_basic rq) as [[b s]|]; [|discriminate].
    destruct (ideq (ca_id c) b) eqn:E; simpl; [|discriminate]. reflect_ids. subst b.
    destruct (ca_hashed c) as [h|]; [|discriminate]. intro H. reflect_ids. subst. eauto.
  - (* post *)
    unfold authenticate_secret_post, validate_secret.
    destruct (ideq (ca_id c) (rq_form_id rq)) eqn:E; simpl; [|discriminate].
    destruct (is_nil (rq_form_secret rq)) eqn:E2; [discriminate|].
    destruct (ca_hashed c) as [h|]; [|discriminate]. intro H. reflect_ids. subst. auto.
  - (* secret jwt *)
    unfold authenticate_secret_jwt, assertion_of.
    destruct (rq_type_ok rq); simpl; [|discriminate].
    destruct (rq_assertion rq) as [| |a]; simpl; try discriminate.
    destruct (alg_in (as_alg a) (authn_sig_algs c x (ag_sj_algs g))) eqn:E1; simpl; [|discriminate].
    apply authn_sig_algs_spec in E1.
    destruct (verifies_hmac c a) eqn:E2; simpl; [|discriminate].
    intro H. apply are_claims_valid_sound in H; auto.
    unfold verifies_hmac in E2. destruct (as_signer a) as [|b|] eqn:Es; try discriminate.
    apply andb_true_iff in E2 as [E2 E3]. apply andb_true_iff in E3 as [E3 E4].
    apply hbytes_eqb_eq in E2. subst b.
    assert (Ea : as_alg a = HS256) by (destruct (as_alg a); try discriminate; auto).
    destruct H as (?&?&?&?&?&?&?&?).
    split; auto. exists a. repeat split; auto.
  - (* private key jwt *)
    unfold authenticate_private_key_jwt, assertion_of.
    destruct (rq_type_ok rq); simpl; [|discriminate].
    destruct (rq_assertion rq) as [| |a]; simpl; try discriminate.
    destruct (alg_in (as_alg a) (authn_sig_algs c x (ag_pk_algs g))) eqn:E1; simpl; [|discriminate].
    apply authn_sig_algs_spec in E1.
    pose proof (fetch_public_jwks_spec c rq) as Hk.
    destruct (fetch_public_jwks c rq) as [keys fetched]. simpl in Hk.
    destruct keys as [ks|]; [|discriminate].
    destruct (jwk_matching_header ks a) as [j|] eqn:E2; [|discriminate].
    apply jwk_matching_header_designated in E2 as [E2 E3].
    destruct (jk_public j) eqn:E4; simpl; [|discriminate].
    destruct (verifies_pub j a) eqn:E5; simpl; [|discriminate].
    intro H. apply are_claims_valid_sound in H; auto.
    unfold verifies_pub in E5. destruct (as_signer a) as [k| |] eqn:Es; try discriminate.
    apply andb_true_iff in E5 as [E5 E6]. reflect_ids. subst k.
    destruct H as (?&?&?&?&?&?&?&?).
    split; auto. exists a, ks, j. repeat split; auto.
  - (* tls *)
    unfold authenticate_tls, client_cert, presented_cert, tls_subject_matches.
    destruct (ideq (ca_id c) (rq_form_id rq)) eqn:E; simpl; [|discriminate]. reflect_ids.
    destruct (ag_cert_func g); [|discriminate].
    destruct (rq_cert rq) as [ct|]; [|discriminate].
    intro H. split; auto. exists ct. split; auto.
    destruct (is_empty (ca_tls_dn c)) eqn:E1; simpl in H.
    + apply is_empty_spec in E1.
      destruct (is_empty (ca_tls_dns c)) eqn:E2; simpl in H.
      * apply is_empty_spec in E2. destruct (ca_tls_ip c) as [| |ip]; try discriminate.
        apply memN_In in H. right; right. eauto.
      * right; left. repeat split; auto.
        -- intro HH. apply is_empty_spec in HH. congruence.
        -- apply mem_In; auto.
    + left. split. * intro HH. apply is_empty_spec in HH. congruence. * apply seqb_eq; auto.
  - (* self-signed tls *)
    unfold authenticate_self_signed_tls, client_cert, presented_cert.
    destruct (ideq (ca_id c) (rq_form_id rq)) eqn:E; simpl; [|discriminate]. reflect_ids.
    destruct (ag_cert_func g); [|discriminate].
    destruct (rq_cert rq) as [ct|]; [|discriminate].
    pose proof (fetch_public_jwks_spec c rq) as Hk.
    destruct (fetch_public_jwks c rq) as [keys fetched]. simpl in Hk.
    destruct keys as [ks|]; [|discriminate].
    destruct (find _ ks) as [j|] eqn:E2; [|discriminate].
    apply find_some in E2 as [E2 E3]. apply andb_true_iff in E3 as [E3 E4].
    apply negb_true_iff in E3. simpl. intro H. reflect_ids.
    split; auto. exists ct, ks, j. repeat split; auto.
Qed.

Lemma authenticate_complete g c x rq :
  method_credential g x c rq -> unambiguous c rq -> fst (authenticate g c x rq) = true.
Proof.
  unfold authenticate, method_credential. rewrite authn_method_spec.
  intros H Hu. destruct (registered_method c x); simpl; auto; try contradiction.
  - (* basic *)
    destruct H as (s & H1 & H2). unfold authenticate_secret_basic, validate_secret.
    rewrite H1, H2. assert (E : ideq (ca_id c) (ca_id c) = true) by (apply ideq_eq; auto).
    rewrite E. simpl. apply N.eqb_refl.
  - (* post *)
    destruct H as (H1 & H2 & H3). unfold authenticate_secret_post, validate_secret.
    rewrite H1, H3. assert (E : ideq (ca_id c) (ca_id c) = true) by (apply ideq_eq; auto).
    rewrite E. simpl. apply is_nil_neq in H2. rewrite H2. apply N.eqb_refl.
  - (* secret jwt *)
    destruct H as (Ht & a & Ha & Hp & Hs & Hg & Hl & Hc).
    unfold authenticate_secret_jwt, assertion_of. rewrite Ht, Ha. simpl.
    apply authn_sig_algs_spec in Hp. rewrite Hp. simpl.
    unfold verifies_hmac. rewrite Hs, Hg, Hl. simpl.
    assert (E : N.eqb (ca_secret c) (ca_secret c) = true) by apply N.eqb_refl. rewrite E. simpl.
    apply are_claims_valid_complete; auto.
  - (* private key jwt *)
    destruct H as (Ht & a & ks & j & Ha & Hp & Hk & Hj & Hd & Hpub & Hs & Hf & Hc).
    unfold authenticate_private_key_jwt, assertion_of. rewrite Ht, Ha. simpl.
    apply authn_sig_algs_spec in Hp. rewrite Hp. simpl.
    pose proof (fetch_public_jwks_spec c rq) as Hk'. rewrite Hk in Hk'.
    destruct (fetch_public_jwks c rq) as [keys fetched]. simpl in Hk'. subst keys.
    destruct (Hu ks Hk) as [Hu1 _].
    assert (E : jwk_matching_header ks a = Some j).
    { unfold jwk_matching_header.
      pose proof (proj1 (designated_dec j a) Hd) as Hdd.
      destruct (negb (N.eqb (as_kid a) 0)) eqn:Ek.
      - destruct (find_exists (fun j0 => N.eqb (jk_kid j0) (as_kid a)) ks j Hj Hdd) as [y Hy].
        rewrite Hy. f_equal. eapply find_unique; eauto.
        intros u v Iu Iv Fu Fv. apply (Hu1 a u v); auto; apply designated_dec; rewrite Ek; auto.
      - destruct (find_exists (fun j0 => match jk_alg j0 with Some x0 => alg_eqb x0 (as_alg a) | None => false end) ks j Hj Hdd) as [y Hy].
        rewrite Hy. f_equal. eapply find_unique; eauto.
        intros u v Iu Iv Fu Fv. apply (Hu1 a u v); auto; apply designated_dec; rewrite Ek; auto. }
    rewrite E, Hpub. simpl. unfold verifies_pub. rewrite Hs, Hf, N.eqb_refl. simpl.
    apply are_claims_valid_complete; auto.
  - (* tls *)
    destruct H as (H1 & ct & (Hc1 & Hc2) & Hm).
    unfold authenticate_tls, client_cert. rewrite H1, Hc1, Hc2.
    assert (E : ideq (ca_id c) (ca_id c) = true) by (apply ideq_eq; auto). rewrite E. simpl.
    destruct Hm as [(Ha & Hb)|[(Ha & Hb & Hc)|(Ha & Hb & ip & Hc & Hd)]].
    + destruct (is_empty (ca_tls_dn c)) eqn:E1; simpl.
      * apply is_empty_spec in E1. congruence.
      * apply seqb_eq; auto.
    + apply is_empty_spec in Ha. rewrite Ha. simpl.
      destruct (is_empty (ca_tls_dns c)) eqn:E1; simpl.
      * apply is_empty_spec in E1. congruence.
      * apply mem_In; auto.
    + apply is_empty_spec in Ha, Hb. rewrite Ha, Hb, Hc. simpl. apply memN_In; auto.
  - (* self-signed *)
    destruct H as (H1 & ct & ks & j & (Hc1 & Hc2) & Hk & Hj & Hnz & Hjc & Hjk).
    unfold authenticate_self_signed_tls, client_cert. rewrite H1, Hc1, Hc2.
    assert (E : ideq (ca_id c) (ca_id c) = true) by (apply ideq_eq; auto). rewrite E. simpl.
    pose proof (fetch_public_jwks_spec c rq) as Hk'. rewrite Hk in Hk'.
    destruct (fetch_public_jwks c rq) as [keys fetched]. simpl in Hk'. subst keys.
    destruct (Hu ks Hk) as [_ Hu2].
    set (f := fun j0 : jwk => andb (negb (N.eqb (jk_cert j0) 0)) (N.eqb (jk_cert j0) (ct_id ct))).
    assert (Fj : f j = true).
    { unfold f. apply andb_true_iff. split. - apply negb_true_iff. apply N.eqb_neq; auto. - apply N.eqb_eq; auto. }
    destruct (find_exists f ks j Hj Fj) as [y Hy]. rewrite Hy.
    assert (y = j).
    { eapply find_unique; eauto. intros u v Iu Iv Fu Fv. unfold f in Fu, Fv.
      apply andb_true_iff in Fu as [_ Fu]. apply andb_true_iff in Fv as [_ Fv]. reflect_ids.
      apply (Hu2 ct u v); auto. }
    subst y. simpl. apply N.eqb_eq; auto.
Qed.

(* ---- clientutil.Authenticated ---- *)
Lemma find_aclient_id i cls c : find_aclient i cls = Some c -> ca_id c = i.
Proof. unfold find_aclient. intro H. apply find_some in H as [_ H]. apply ideq_eq in H. auto. Qed.

Lemma authn_sound_l g x cls rq c :
  authenticated g x cls rq = Some c -> ca_id c <> 0 -> registered cls c /\ valid_credential g x c rq.
Proof.
  unfold authenticated, authenticated_full, registered, valid_credential.
  destruct (extract_id g rq) as [| |i] eqn:E; simpl; try discriminate.
  destruct (find_aclient i cls) as [c'|] eqn:F; simpl; try discriminate.
  pose proof (authenticate_sound g c' x rq) as Hs.
  destruct (authenticate g c' x rq) as [ok f]. simpl in *.
  destruct ok; simpl; try discriminate. intro H; injection H as ->. intro Hid.
  pose proof (find_aclient_id _ _ _ F) as Hi. subst i.
  split; auto. split; auto. apply extract_id_identifies; auto.
Qed.

Lemma authn_complete_l g x cls rq c :
  registered cls c -> valid_credential g x c rq -> unambiguous c rq -> authenticated g x cls rq = Some c.
Proof.
  unfold authenticated, authenticated_full, registered, valid_credential.
  intros Hr [Hi Hm] Hu. apply extract_id_identifies in Hi. rewrite Hi, Hr.
  pose proof (authenticate_complete g c x rq Hm Hu) as Hc.
  destruct (authenticate g c x rq) as [ok f]. simpl in *. subst ok. reflexivity.
Qed.

(* a request that names nobody, or names clients that disagree, authenticates nobody *)
Lemma authn_needs_identification_l g x cls rq c :
  authenticated g x cls rq = Some c -> extract_id g rq = IdOk (ca_id c).
Proof.
  unfold authenticated, authenticated_full.
  destruct (extract_id g rq) as [| |i] eqn:E; simpl; try discriminate.
  destruct (find_aclient i cls) as [c'|] eqn:F; simpl; try discriminate.
  destruct (authenticate g c' x rq) as [ok f]. destruct ok; simpl; try discriminate.
  intro H; injection H as ->. apply find_aclient_id in F. subst; auto.
Qed.

(* the decision procedure of the specification decides the specification *)
Lemma opt_alg_eqb_eq a b : opt_alg_eqb a b = true <-> a = b.
Proof.
  destruct a, b; simpl; split; intro H; try discriminate; auto.
  - apply alg_eqb_eq in H. subst; auto.
  - injection H as ->. apply alg_eqb_eq; auto.
Qed.

(* ---- unauthenticated requests are inert ---- *)
Lemma run_log_bind {A B} (p : prog A) (f : A -> prog B) : forall st log,
  run_log (bind p f) st log =
  let '(st', a, l) := run_log p st log in run_log (f a) st' (rev l).
Proof.
  induction p as [a|c k IH|o p IH]; intros st log; simpl.
  - rewrite rev_involutive. reflexivity.
  - destruct (exec c st) as [st' r]. apply IH.
  - apply IH.
Qed.

Lemma run_log_seq {A} (p : prog A) : forall st log, fst (run_log p st log) = run_seq p st.
Proof.
  induction p as [a|c k IH|o p IH]; intros st log; simpl; auto.
  destruct (exec c st) as [st' r]. apply IH.
Qed.

Lemma authenticated_refuses w st cr :
  unauthenticated w st cr ->
  exists log, run_log (Token.authenticated w cr) st [] = (st, None, log) /\ only_client_reads log = true.
Proof.
  unfold unauthenticated, lookup, Token.authenticated, get_client. intros H.
  destruct (is_nil (cr_id cr)) eqn:E0; [exists []; auto|].
  apply is_nil_neq in E0. destruct H as [H|H]; [congruence|].
  destruct (find_client (cr_id cr) (w_static w)) as [c|] eqn:E1; simpl.
  - destruct H as [H|(c' & H1 & H2 & H3)]; [discriminate|]. injection H1 as <-.
    rewrite H2, H3. simpl. exists []; auto.
  - destruct (find_client (cr_id cr) (st_clients st)) as [c|] eqn:E2; simpl.
    + destruct H as [H|(c' & H1 & H2 & H3)]; [discriminate|]. injection H1 as <-.
      rewrite H2, H3. simpl. exists [KCGet]; auto.
    + exists [KCGet]; auto.
Qed.

Lemma refused_step (w : world) st cr (k : option client -> prog out) pre :
  unauthenticated w st cr -> k None = Ret (OErr EInvalidClient) ->
  refused_inert (bind (Token.authenticated w cr) k) st pre.
Proof.
  intros H Hk. destruct (authenticated_refuses w st cr H) as (log & Hl & Ho).
  exists EInvalidClient, log. rewrite run_log_bind, Hl, Hk. simpl. rewrite rev_involutive. auto.
Qed.

Lemma refused_early st e : e <> EInvalidClient \/ True -> refused_inert (Ret (OErr e)) st false.
Proof. intros _. exists e, []. simpl. repeat split; auto. discriminate. Qed.

Ltac early := match goal with |- refused_inert (Ret (OErr ?e)) ?st _ =>
  exists e, []; simpl; repeat split; auto; discriminate end.

Lemma inert_code w n now r st :
  unauthenticated w st (t_cred r) -> refused_inert (code_grant w n now r) st (pre_code w r).
Proof.
  intro H. unfold code_grant, pre_code.
  destruct (has_grant GAuthorizationCode (cf_grants (w_cfg w))); simpl; [|early].
  destruct (is_nil (t_code r)); simpl; [early|]. apply refused_step; auto.
Qed.

Lemma inert_refresh w n now r st :
  unauthenticated w st (t_cred r) -> refused_inert (refresh_grant w n now r) st (pre_refresh w r).
Proof.
  intro H. unfold refresh_grant, pre_refresh.
  destruct (has_grant GRefreshToken (cf_grants (w_cfg w))); simpl; [|early].
  destruct (is_nil (t_refresh r)); simpl; [early|]. apply refused_step; auto.
Qed.

Lemma inert_cc w n now r st :
  unauthenticated w st (t_cred r) -> refused_inert (cc_grant w n now r) st (pre_cc w).
Proof.
  intro H. unfold cc_grant, pre_cc.
  destruct (has_grant GClientCredentials (cf_grants (w_cfg w))); simpl; [|early]. apply refused_step; auto.
Qed.

Lemma inert_ciba w n now r st :
  unauthenticated w st (t_cred r) -> refused_inert (ciba_grant w n now r) st (pre_ciba w).
Proof.
  intro H. unfold ciba_grant, pre_ciba.
  destruct (has_grant GCiba (cf_grants (w_cfg w))); simpl; [|early]. apply refused_step; auto.
Qed.

Lemma inert_par w n now r st :
  unauthenticated w st (pr_cred r) -> refused_inert (push_auth w n now r) st (cf_par_enabled (w_cfg w)).
Proof.
  intro H. unfold push_auth.
  destruct (cf_par_enabled (w_cfg w)); simpl; [|early]. apply refused_step; auto.
Qed.

Lemma inert_bc w n now r st :
  unauthenticated w st (br_cred r) -> refused_inert (init_back_auth w n now r) st (cf_ciba_enabled (w_cfg w)).
Proof.
  intro H. unfold init_back_auth.
  destruct (cf_ciba_enabled (w_cfg w)); simpl; [|early]. apply refused_step; auto.
Qed.

Lemma inert_introspect w now r st :
  unauthenticated w st (q_cred r) -> refused_inert (introspect w now r) st (cf_introspection (w_cfg w)).
Proof.
  intro H. unfold introspect.
  destruct (cf_introspection (w_cfg w)); simpl; [|early]. apply refused_step; auto.
Qed.

Lemma inert_revoke w now r st :
  unauthenticated w st (q_cred r) -> refused_inert (revoke w now r) st (cf_revocation (w_cfg w)).
Proof.
  intro H. unfold revoke.
  destruct (cf_revocation (w_cfg w)); simpl; [|early]. apply refused_step; auto.
Qed.

(* what refused_inert says about the sequential run: same store, an error answer *)
Lemma refused_inert_seq p st pre :
  refused_inert p st pre -> exists e, run_seq p st = (st, OErr e) /\ (pre = true -> e = EInvalidClient).
Proof.
  intros (e & log & H & _ & Hp). exists e. split; auto.
  rewrite <- (run_log_seq p st []), H. reflexivity.
Qed.

(* when the procedure of Authn.v answers None, the abstract credential it amounts to is refused *)
Lemma authn_none_unauthenticated g x cls rq w st :
  agrees x cls w st -> Authn.authenticated g x cls rq = None -> unauthenticated w st (cred_of g x cls rq).
Proof.
  intros Ha Hn. unfold unauthenticated, cred_of. rewrite Hn. simpl.
  unfold Authn.authenticated, authenticated_full in Hn.
  destruct (extract_id g rq) as [| |i] eqn:E; auto.
  specialize (Ha i). right.
  destruct (find_aclient i cls) as [ac|] eqn:F.
  - destruct (lookup w st i) as [c|]; [|contradiction]. right. exists c. repeat split; auto.
    rewrite Ha. unfold authenticate in Hn. destruct (authn_method ac x); simpl in *; auto; discriminate.
  - destruct (lookup w st i); [contradiction|]. auto.
Qed.

(* ---- the decision procedure of the specification ---- *)
Lemma identifies_b_iff g rq i : identifies_b g rq i = true <-> identifies g rq i.
Proof.
  unfold identifies_b, identifies.
  rewrite !andb_true_iff, !orb_true_iff, !N.eqb_eq, negb_true_iff, N.eqb_neq.
  assert (Hb : match rq_basic rq with Some (b, _) => N.eqb b 0 || N.eqb b i | None => true end = true
               <-> (forall b s, rq_basic rq = Some (b, s) -> b = 0 \/ b = i)).
  { destruct (rq_basic rq) as [[b s]|].
    - rewrite orb_true_iff, !N.eqb_eq. split; [intros H b' s' E; injection E as <- <-; auto | intro H; eapply H; eauto].
    - split; auto; discriminate. }
  assert (Ha : match rq_assertion rq with
               | ANone => true | AGarbage => false
               | AJws a => (alg_in (as_alg a) (ag_pk_algs g) || alg_in (as_alg a) (ag_sj_algs g)) &&
                           match as_iss a with Some k => N.eqb k i | None => false end end = true
               <-> match rq_assertion rq with
                   | ANone => True | AGarbage => False
                   | AJws a => (In (as_alg a) (ag_pk_algs g) \/ In (as_alg a) (ag_sj_algs g)) /\ as_iss a = Some i end).
  { destruct (rq_assertion rq) as [| |a]; try tauto; [split; [discriminate|tauto]|].
    rewrite andb_true_iff, orb_true_iff, !alg_in_In.
    destruct (as_iss a) as [k|]; [rewrite N.eqb_eq|]; split; intros [H1 H2]; split; auto; try congruence; discriminate. }
  assert (Hc : match rq_basic rq with Some (b, _) => negb (N.eqb b 0) | None => false end = true
               <-> exists b s, rq_basic rq = Some (b, s) /\ b <> 0).
  { destruct (rq_basic rq) as [[b s]|].
    - rewrite negb_true_iff, N.eqb_neq. split; [intro H; eauto | intros (b' & s' & E & H); injection E as <- <-; auto].
    - split; [discriminate | intros (b' & s' & E & H); discriminate]. }
  assert (Hd : match rq_assertion rq with ANone => false | _ => true end = true <-> rq_assertion rq <> ANone).
  { destruct (rq_assertion rq); split; auto; try discriminate; congruence. }
  rewrite Hb, Ha, Hc, Hd. tauto.
Qed.

Lemma accepted_audience_b_iff g v : accepted_audience_b g v = true <-> accepted_audience g v.
Proof. apply aud_accepted_spec. Qed.

Lemma claims_valid_b_iff g c rq a : claims_valid_b g c rq a = true <-> claims_valid g c rq a.
Proof.
  unfold claims_valid_b, claims_valid. rewrite !andb_true_iff, N.eqb_eq.
  assert (H1 : match as_iss a with Some k => N.eqb k (ca_id c) | None => false end = true <-> as_iss a = Some (ca_id c)).
  { destruct (as_iss a); [rewrite N.eqb_eq|]; split; intro H; try congruence; discriminate. }
  assert (H2 : existsb (accepted_audience_b g) (as_aud a) = true <-> exists v, In v (as_aud a) /\ accepted_audience g v).
  { rewrite existsb_exists. split; intros (v & Hv1 & Hv2); exists v; split; auto; apply accepted_audience_b_iff; auto. }
  assert (H3 : match as_exp a with Some d => Z.leb (- ag_leeway g) d && Z.leb d (ag_lifetime g) | None => false end = true
               <-> exists d, as_exp a = Some d /\ (- ag_leeway g <= d)%Z /\ (d <= ag_lifetime g)%Z).
  { destruct (as_exp a) as [d|].
    - rewrite andb_true_iff, !Z.leb_le. split; [intro H; eauto | intros (d' & E & H); injection E as <-; auto].
    - split; [discriminate | intros (d' & E & _); discriminate]. }
  assert (H4 : forall o, match o with Some n => Z.leb n (ag_leeway g) | None => true end = true
               <-> forall n : Z, o = Some n -> (n <= ag_leeway g)%Z).
  { intros [n|]; [rewrite Z.leb_le|]; split; auto; try discriminate.
    - intros H n' E; injection E as <-; auto. }
  rewrite H1, H2, H3, (H4 (as_nbf a)), (H4 (as_iat a)). tauto.
Qed.

Lemma permitted_alg_b_iff s c x a : permitted_alg_b s c x a = true <-> permitted_alg s c x a.
Proof.
  unfold permitted_alg_b, permitted_alg. destruct (pinned_alg c x); [apply alg_eqb_eq|apply alg_in_In].
Qed.

Lemma designated_b_iff j a : designated_b j a = true <-> designated j a.
Proof.
  unfold designated_b, designated. destruct (N.eqb (as_kid a) 0) eqn:E; reflect_ids.
  - rewrite opt_alg_eqb_eq. split; [intro H; right; auto | intros [[H _]|[_ H]]; [congruence|auto]].
  - rewrite N.eqb_eq. split; [intro H; left; auto | intros [[_ H]|[H _]]; [auto|congruence]].
Qed.

Lemma tls_subject_matches_b_iff c ct : tls_subject_matches_b c ct = true <-> tls_subject_matches c ct.
Proof.
  unfold tls_subject_matches_b, tls_subject_matches.
  destruct (is_empty (ca_tls_dn c)) eqn:E1; simpl.
  - apply is_empty_spec in E1. destruct (is_empty (ca_tls_dns c)) eqn:E2; simpl.
    + apply is_empty_spec in E2. destruct (ca_tls_ip c) as [| |ip] eqn:E3.
      * split; [discriminate|]. intros [(H & _)|[(_ & H & _)|(_ & _ & ip & H & _)]]; congruence.
      * split; [discriminate|]. intros [(H & _)|[(_ & H & _)|(_ & _ & ip & H & _)]]; congruence.
      * rewrite memN_In. split; [intro H; right; right; eauto|].
        intros [(H & _)|[(_ & H & _)|(_ & _ & ip' & H & H')]]; try congruence; try (injection H as <-; auto).
    + assert (ca_tls_dns c <> "") by (intro HH; apply is_empty_spec in HH; congruence).
      rewrite mem_In. split; [intro H0; right; left; auto|].
      intros [(H0 & _)|[(_ & _ & H0)|(_ & H0 & _)]]; try congruence; auto.
  - assert (ca_tls_dn c <> "") by (intro HH; apply is_empty_spec in HH; congruence).
    rewrite seqb_eq. split; [intro H0; left; auto|].
    intros [(_ & H0)|[(H0 & _)|(H0 & _)]]; try congruence; auto.
Qed.

Ltac splits := repeat (split; [solve [auto]|]); auto.

Lemma method_credential_b_iff g x c rq : method_credential_b g x c rq = true <-> method_credential g x c rq.
Proof.
  unfold method_credential_b, method_credential.
  destruct (registered_method c x); try tauto; try (split; [discriminate|tauto]).
  - (* basic *)
    destruct (rq_basic rq) as [[b s]|].
    + rewrite andb_true_iff, N.eqb_eq. destruct (ca_hashed c) as [h|].
      * rewrite N.eqb_eq. split; [intros [-> ->]; eauto | intros (s' & E & H); injection E as -> ->; injection H as ->; auto].
      * split; [intros [_ H]; discriminate | intros (s' & _ & H); discriminate].
    + split; [discriminate | intros (s' & H & _); discriminate].
  - (* post *)
    rewrite !andb_true_iff, N.eqb_eq, negb_true_iff, N.eqb_neq.
    destruct (ca_hashed c) as [h|].
    + rewrite N.eqb_eq. split; intros (H1 & H2 & H3); splits; congruence.
    + split; intros (H1 & H2 & H3); discriminate.
  - (* secret jwt *)
    rewrite andb_true_iff. destruct (rq_assertion rq) as [| |a].
    + split; [intros [_ H]; discriminate | intros (_ & a & H & _); discriminate].
    + split; [intros [_ H]; discriminate | intros (_ & a & H & _); discriminate].
    + rewrite !andb_true_iff, permitted_alg_b_iff, alg_eqb_eq, claims_valid_b_iff.
      assert (Hs : match as_signer a with SHmac (BSecret s) => N.eqb s (ca_secret c) | _ => false end = true
                   <-> as_signer a = SHmac (BSecret (ca_secret c))).
      { destruct (as_signer a) as [k|[s|k]|]; try (split; [discriminate|congruence]).
        rewrite N.eqb_eq. split; [intros ->; auto | intro H; injection H; auto]. }
      rewrite Hs. split.
      * intros (H1 & H2 & H3 & H4 & H5 & H6). split; auto. exists a. splits.
      * intros (H1 & a' & E & H2 & H3 & H4 & H5 & H6). injection E as <-. splits.
  - (* private key jwt *)
    rewrite andb_true_iff. destruct (rq_assertion rq) as [| |a].
    + split; [intros [_ H]; discriminate | intros (_ & a & ks & j & H & _); discriminate].
    + split; [intros [_ H]; discriminate | intros (_ & a & ks & j & H & _); discriminate].
    + destruct (registered_keys c rq) as [ks|].
      * rewrite !andb_true_iff, permitted_alg_b_iff, claims_valid_b_iff, existsb_exists. split.
        -- intros (H1 & H2 & (j & Hj & Hf) & H3). rewrite !andb_true_iff, designated_b_iff in Hf.
           destruct Hf as (F1 & F2 & F3 & F4). split; auto. exists a, ks, j. splits.
           destruct (as_signer a); try discriminate. apply N.eqb_eq in F3. subst; auto.
        -- intros (H1 & a' & ks' & j & E & H2 & E2 & Hj & Hd & Hp & Hs & Hf & Hc).
           injection E as <-. injection E2 as <-. splits. split; auto. exists j. split; auto.
           rewrite !andb_true_iff, designated_b_iff, Hs, N.eqb_eq. auto.
      * split; [intros [_ H]; discriminate | intros (_ & a' & ks & j & _ & _ & H & _); discriminate].
  - (* tls *)
    rewrite andb_true_iff, N.eqb_eq. unfold presented_cert_b, presented_cert.
    destruct (ag_cert_func g).
    + destruct (rq_cert rq) as [ct|].
      * rewrite tls_subject_matches_b_iff. split; [intros [H1 H2]; split; auto; exists ct; auto|].
        intros (H1 & ct' & (_ & E) & H2). injection E as <-. auto.
      * split; [intros [_ H]; discriminate | intros (_ & ct & (_ & H) & _); discriminate].
    + split; [intros [_ H]; discriminate | intros (_ & ct & (H & _) & _); discriminate].
  - (* self-signed *)
    rewrite andb_true_iff, N.eqb_eq. unfold presented_cert_b, presented_cert.
    destruct (ag_cert_func g).
    + destruct (rq_cert rq) as [ct|].
      * destruct (registered_keys c rq) as [ks|].
        -- rewrite existsb_exists. split.
           ++ intros (H1 & j & Hj & Hf). rewrite !andb_true_iff, negb_true_iff, N.eqb_neq, !N.eqb_eq in Hf.
              destruct Hf as (F1 & F2 & F3). split; auto. exists ct, ks, j. splits.
           ++ intros (H1 & ct' & ks' & j & (_ & E) & E2 & Hj & F1 & F2 & F3). injection E as <-. injection E2 as <-.
              split; auto. exists j. split; auto. rewrite !andb_true_iff, negb_true_iff, N.eqb_neq, !N.eqb_eq. auto.
        -- split; [intros [_ H]; discriminate | intros (_ & ct' & ks & j & _ & H & _); discriminate].
      * split; [intros [_ H]; discriminate | intros (_ & ct & ks & j & (_ & H) & _); discriminate].
    + split; [intros [_ H]; discriminate | intros (_ & ct & ks & j & (H & _) & _); discriminate].
Qed.

Lemma valid_credential_b_iff g x c rq : valid_credential_b g x c rq = true <-> valid_credential g x c rq.
Proof.
  unfold valid_credential_b, valid_credential.
  rewrite andb_true_iff, identifies_b_iff, method_credential_b_iff. tauto.
Qed.

(* ---- all eight handlers at once ---- *)
Lemma unauthenticated_inert_l : forall w n now st,
  (forall r, unauthenticated w st (t_cred r) -> refused_inert (code_grant w n now r) st (pre_code w r)) /\
  (forall r, unauthenticated w st (t_cred r) -> refused_inert (refresh_grant w n now r) st (pre_refresh w r)) /\
  (forall r, unauthenticated w st (t_cred r) -> refused_inert (cc_grant w n now r) st (pre_cc w)) /\
  (forall r, unauthenticated w st (t_cred r) -> refused_inert (ciba_grant w n now r) st (pre_ciba w)) /\
  (forall r, unauthenticated w st (pr_cred r) -> refused_inert (push_auth w n now r) st (cf_par_enabled (w_cfg w))) /\
  (forall r, unauthenticated w st (br_cred r) -> refused_inert (init_back_auth w n now r) st (cf_ciba_enabled (w_cfg w))) /\
  (forall r, unauthenticated w st (q_cred r) -> refused_inert (introspect w now r) st (cf_introspection (w_cfg w))) /\
  (forall r, unauthenticated w st (q_cred r) -> refused_inert (revoke w now r) st (cf_revocation (w_cfg w))).
Proof.
  intros w n now st. repeat split; intros r H.
  - exact (inert_code w n now r st H).
  - exact (inert_refresh w n now r st H).
  - exact (inert_cc w n now r st H).
  - exact (inert_ciba w n now r st H).
  - exact (inert_par w n now r st H).
  - exact (inert_bc w n now r st H).
  - exact (inert_introspect w now r st H).
  - exact (inert_revoke w now r st H).
Qed.

(* ---- concrete instances: the hypotheses of the theorems are satisfiable ---- *)
Definition ex_cfg : acfg := mkACfg [ES256] [HS256] 600 0 true true.
Definition ex_key : jwk := mkJwk 11 (Some ES256) 101 KtEC256 true 0.
Definition ex_client : aclient :=
  mkAClient 1 MPrivateKeyJWT MUnset MUnset None None None None 0 false (JwksByValue [ex_key]) "" "" IpUnset.
Definition ex_assertion : assertion :=
  mkAssertion (SPriv 101) ES256 11 (Some 1) 1 [AudTokenURL] (Some 60%Z) None None true.
Definition ex_request : request := mkRequest 0 0 None (AJws ex_assertion) true None true None.

Lemma authn_sound_nonvacuous_l :
  authenticated ex_cfg CtxToken [ex_client] ex_request = Some ex_client /\ ca_id ex_client <> 0.
Proof. split; [vm_compute; reflexivity | discriminate]. Qed.

Lemma authn_complete_nonvacuous_l :
  registered [ex_client] ex_client /\ valid_credential ex_cfg CtxToken ex_client ex_request /\
  unambiguous ex_client ex_request.
Proof.
  split; [reflexivity|]. split; [apply valid_credential_b_iff; vm_compute; reflexivity|].
  intros ks H. injection H as <-. split.
  - intros a j j' _ [<-|[]] [<-|[]] _ _. reflexivity.
  - intros ct j j' _ [<-|[]] [<-|[]] _ _. reflexivity.
Qed.

(* a forged assertion (signed by a key that is not registered) is refused, and the request then is
   an unauthenticated one for the handlers *)
Lemma unauthenticated_nonvacuous_l :
  let rq := mkRequest 0 0 None (AJws (mkAssertion (SPriv 999) ES256 11 (Some 1) 1 [AudTokenURL] (Some 60%Z) None None true))
              true None true None in
  let w := mkWorld (Config.base_config POpenID) [] in
  let st := mkStore [mkClient 1 false [GClientCredentials] [] [] "" CibaNone false false false false false false false 0 false None] [] [] in
  authenticated ex_cfg CtxToken [ex_client] rq = None /\
  agrees CtxToken [ex_client] w st /\
  unauthenticated w st (cred_of ex_cfg CtxToken [ex_client] rq).
Proof.
  intros rq w st. split; [vm_compute; reflexivity|]. split.
  - intro i. destruct (N.eqb 1 i) eqn:E.
    + apply N.eqb_eq in E. subst i. vm_compute. reflexivity.
    + unfold lookup, find_aclient, find_client, ideq, w, st. cbn [w_static st_clients find c_id ca_id ex_client].
      rewrite E. exact I.
  - right. right. eexists. split; [vm_compute; reflexivity|]. split; reflexivity.
Qed.
