(* C04Resources.v — resource indicators (RFC 8707): the resources of the current token of a grant
   (`aud`) are within the resources the grant was given, in every reachable state; and the decision
   rules of the four issuing grants of the token endpoint. *)
From Verif Require Import Base Scope Types Prog Pop Token Authorize System Config Run Monitors Hoare Tactics OneShot.
Local Open Scope N_scope.

(* ---- what a program writes, when the storage answers lookups with stored objects ---- *)
Section WritesR.
  Variable QG : gsession -> Prop.
  Variable QA : asession -> Prop.

  Definition reply_ok (r : reply) : Prop :=
    match r with RGSess g => QG g | RASess s => QA s | _ => True end.

  (* every GSave / ASave argument satisfies Q on every path, provided every session the storage
     hands out satisfies Q (it does when the store does: exec_reply_ok) *)
  Fixpoint saves_ok_r {A} (p : prog A) : Prop :=
    match p with
    | Ret _ => True
    | Do c k => match c with GSave g => QG g | ASave s => QA s | _ => True end /\ forall r, reply_ok r -> saves_ok_r (k r)
    | Touch _ p' => saves_ok_r p'
    end.

  Lemma find_ok {X} (P : X -> Prop) f (l : list X) x : (forall y, In y l -> P y) -> find f l = Some x -> P x.
  Proof. intros H E. apply find_some in E as [E _]. auto. Qed.

  Lemma exec_reply_ok c st : store_ok QG QA st -> reply_ok (snd (exec c st)).
  Proof.
    intros [HG HA]. destruct c; simpl; try exact I.
    - destruct (find_client i (st_clients st)); exact I.
    - destruct (find _ (st_asess st)) eqn:E; simpl; [eapply find_ok; eauto|exact I].
    - destruct (find _ (st_asess st)) eqn:E; simpl; [eapply find_ok; eauto|exact I].
    - destruct (find _ (st_asess st)) eqn:E; simpl; [eapply find_ok; eauto|exact I].
    - destruct (find _ (st_asess st)) eqn:E; simpl; [eapply find_ok; eauto|exact I].
    - destruct (find _ (st_gsess st)) eqn:E; simpl; [eapply find_ok; eauto|exact I].
    - destruct (find _ (st_gsess st)) eqn:E; simpl; [eapply find_ok; eauto|exact I].
    - destruct (find _ (st_gsess st)); exact I.
  Qed.

  Lemma run_seq_ok_r {A} (p : prog A) : forall st, saves_ok_r p -> store_ok QG QA st -> store_ok QG QA (fst (run_seq p st)).
  Proof.
    induction p as [a|c k IH|o p IH]; intros st Hs Hst; simpl in *; auto.
    destruct Hs as [Hc Hk]. pose proof (exec_reply_ok c st Hst) as Hr. pose proof (exec_ok QG QA c st Hc Hst) as Hst'.
    destruct (exec c st) as [st' r]. simpl in *. apply IH; auto.
  Qed.

  Lemma saves_ok_r_bind {A B} (p : prog A) (f : A -> prog B) :
    saves_ok_r p -> (forall a, saves_ok_r (f a)) -> saves_ok_r (bind p f).
  Proof.
    induction p as [a|c k IH|o p IH]; simpl; intros Hp Hf; auto.
    destruct Hp as [Hc Hk]. split; auto.
  Qed.
End WritesR.

(* ---- the invariant ---- *)
Definition within_r (g : gsession) : Prop := subset (g_active_res g) (g_granted_res g) = true.
Definition anyA (s : asession) : Prop := True.

Lemma subset_refl l : subset l l = true.
Proof. apply subset_spec. auto. Qed.

(* the choice every *GrantInfo function makes: the requested resources if any, else all granted ones *)
Lemma res_choice cfg granted req :
  negb (validate_resources cfg granted req) = false ->
  subset (grant_active_res cfg granted req) (grant_granted_res cfg granted) = true.
Proof.
  intros H. apply negb_false_iff in H. unfold validate_resources, grant_active_res, grant_granted_res in *.
  destruct (cf_resource_enabled cfg); simpl in *; [|reflexivity].
  destruct (no_res req); [apply subset_refl|exact H].
Qed.
Lemma vr_enabled cfg avail req :
  cf_resource_enabled cfg = true -> negb (validate_resources cfg avail req) = false -> subset req avail = true.
Proof. intros E H. apply negb_false_iff in H. unfold validate_resources in H. rewrite E in H. exact H. Qed.

Lemma with_refresh_active_res n now cfg c g : g_active_res (with_refresh n now cfg c g) = g_active_res g.
Proof. unfold with_refresh. destruct (should_issue_refresh cfg c (g_type g) (g_active g)); reflexivity. Qed.
Lemma with_refresh_granted_res n now cfg c g : g_granted_res (with_refresh n now cfg c g) = g_granted_res g.
Proof. unfold with_refresh. destruct (should_issue_refresh cfg c (g_type g) (g_active g)); reflexivity. Qed.

Notation sok := (saves_ok_r within_r anyA).

Lemma get_client_nosave w i : sok (get_client w i).
Proof. unfold get_client. destruct (find_client i (w_static w)); simpl; auto. split; auto. intros r _; destruct r; simpl; auto. Qed.
Lemma authenticated_nosave w cr : sok (authenticated w cr).
Proof.
  unfold authenticated. destruct (is_nil (cr_id cr)); simpl; auto.
  apply saves_ok_r_bind; [apply get_client_nosave|]. intros [c|]; simpl; auto.
  destruct (c_public c || cr_ok cr)%bool; simpl; auto.
Qed.

Local Opaque contains_all_scopes are_scopes_allowed validate_binding validate_pkce refresh_binding
       validate_params validate_optionals validate_in_out merge_params mint make_token
       validate_resources grant_active_res grant_granted_res subset.

Ltac crunch :=
  repeat (cbn in *;
          try match goal with
              | |- _ /\ _ => split
              | |- forall _, _ => intro
              | |- True => exact I
              end;
          try break_goal).

Ltac close_r :=
  unfold within_r in *; rewrite ?with_refresh_active_res, ?with_refresh_granted_res; cbn;
  first [ apply subset_refl
        | assumption
        | match goal with H : negb (validate_resources _ _ _) = false |- _ => apply res_choice in H; exact H end
        | match goal with E : cf_resource_enabled _ = true, H : negb (validate_resources _ _ _) = false |- _ =>
            exact (vr_enabled _ _ _ E H) end ].

Lemma code_grant_saves w n now r : sok (code_grant w n now r).
Proof.
  unfold code_grant.
  destruct (negb (has_grant GAuthorizationCode (cf_grants (w_cfg w)))); [exact I|].
  destruct (is_nil (t_code r)); [exact I|].
  apply saves_ok_r_bind; [apply authenticated_nosave|]. intros [c|]; [|exact I].
  crunch; try exact I; close_r.
Qed.

Lemma refresh_grant_saves w n now r : sok (refresh_grant w n now r).
Proof.
  unfold refresh_grant.
  destruct (negb (has_grant GRefreshToken (cf_grants (w_cfg w)))); [exact I|].
  destruct (is_nil (t_refresh r)); [exact I|].
  apply saves_ok_r_bind; [apply authenticated_nosave|]. intros [c|]; [|exact I].
  crunch; try exact I; close_r.
Qed.

Lemma cc_grant_saves w n now r : sok (cc_grant w n now r).
Proof.
  unfold cc_grant.
  destruct (negb (has_grant GClientCredentials (cf_grants (w_cfg w)))); [exact I|].
  apply saves_ok_r_bind; [apply authenticated_nosave|]. intros [c|]; [|exact I].
  crunch; try exact I; close_r.
Qed.

Lemma jwt_bearer_client_nosave w cr : sok (jwt_bearer_client w cr).
Proof.
  unfold jwt_bearer_client. apply saves_ok_r_bind; [apply authenticated_nosave|]. intros [c|]; [exact I|].
  destruct (_ && _)%bool; exact I.
Qed.
Lemma jwt_bearer_grant_saves w n now r : sok (jwt_bearer_grant w n now r).
Proof.
  unfold jwt_bearer_grant.
  destruct (negb (has_grant GJwtBearer (cf_grants (w_cfg w)))); [exact I|].
  apply saves_ok_r_bind; [apply jwt_bearer_client_nosave|]. intros [c|]; [|exact I].
  crunch; try exact I; close_r.
Qed.

Lemma ciba_grant_saves w n now r : sok (ciba_grant w n now r).
Proof.
  unfold ciba_grant.
  destruct (negb (has_grant GCiba (cf_grants (w_cfg w)))); [exact I|].
  apply saves_ok_r_bind; [apply authenticated_nosave|]. intros [c|]; [|exact I].
  crunch; try exact I; close_r.
Qed.

Lemma authenticate_saves w n now s pol : sok (authenticate w n now s pol).
Proof.
  unfold authenticate. destruct pol; cbn.
  - apply saves_ok_r_bind; [apply get_client_nosave|]. intros [c|]; [|exact I].
    unfold save_a. crunch; try exact I; close_r.
  - unfold save_a. crunch; exact I.
  - crunch; exact I.
  - crunch; exact I.
Qed.

Lemma start_session_saves w n now c s r : sok (start_session w n now c s r).
Proof.
  unfold start_session. repeat (break_goal; [exact I|]). cbn. apply authenticate_saves.
Qed.

Lemma init_auth_saves w n now r : sok (init_auth w n now r).
Proof.
  unfold init_auth. destruct (is_nil (ar_client r)); [exact I|].
  apply saves_ok_r_bind; [apply get_client_nosave|]. intros [c|]; [|exact I].
  break_goal; [exact I|]. break_goal.
  - break_goal; [exact I|]. cbn. split; [exact I|]. intros rp _. destruct rp; try exact I.
    match goal with |- saves_ok_r _ _ (match ?v with _ => _ end) => destruct v end.
    + cbn. split; [exact I|]. intros rd _; destruct rd; exact I.
    + apply saves_ok_r_bind; [apply start_session_saves|]. intros; exact I.
  - match goal with |- saves_ok_r _ _ (match ?v with _ => _ end) => destruct v end; [exact I|].
    apply saves_ok_r_bind; [apply start_session_saves|]. intros; exact I.
Qed.

Lemma continue_auth_saves w n now r : sok (continue_auth w n now r).
Proof.
  unfold continue_auth. break_goal; [exact I|]. cbn. split; [exact I|]. intros rp _; destruct rp; try exact I.
  break_goal; [exact I|]. apply saves_ok_r_bind; [apply authenticate_saves|].
  intros [o|e]; [exact I|]. apply saves_ok_r_bind; [apply get_client_nosave|]. intros [c|]; cbn; auto.
Qed.

Lemma push_auth_saves w n now r : sok (push_auth w n now r).
Proof.
  unfold push_auth. break_goal; [exact I|].
  apply saves_ok_r_bind; [apply authenticated_nosave|]. intros [c|]; [|exact I].
  unfold save_a. crunch; exact I.
Qed.

Lemma init_back_auth_saves w n now r : sok (init_back_auth w n now r).
Proof.
  unfold init_back_auth. break_goal; [exact I|].
  apply saves_ok_r_bind; [apply authenticated_nosave|]. intros [c|]; [|exact I].
  unfold save_a. crunch; exact I.
Qed.

Lemma notify_success_saves w n now a hg : sok (notify_success w n now a hg).
Proof.
  unfold notify_success. cbn. split; [exact I|]. intros rp _; destruct rp; try exact I.
  apply saves_ok_r_bind; [apply get_client_nosave|]. intros [c|]; [|exact I].
  crunch; try exact I; close_r.
Qed.

Lemma notify_failure_saves w a : sok (notify_failure w a).
Proof.
  unfold notify_failure. cbn. split; [exact I|]. intros rp _; destruct rp; try exact I.
  apply saves_ok_r_bind; [apply get_client_nosave|]. intros [c|]; [|exact I].
  crunch; exact I.
Qed.

Lemma introspection_info_saves now p : sok (introspection_info now p).
Proof. unfold introspection_info. crunch; exact I. Qed.

Lemma introspect_saves w now r : sok (introspect w now r).
Proof.
  unfold introspect. break_goal; [exact I|].
  apply saves_ok_r_bind; [apply authenticated_nosave|]. intros [c|]; [|exact I].
  break_goal; [exact I|]. break_goal; try exact I;
    (apply saves_ok_r_bind; [apply introspection_info_saves|]; intros; exact I).
Qed.

Lemma revoke_saves w now r : sok (revoke w now r).
Proof.
  unfold revoke. break_goal; [exact I|].
  apply saves_ok_r_bind; [apply authenticated_nosave|]. intros [c|]; [|exact I].
  break_goal; [exact I|]. apply saves_ok_r_bind; [apply introspection_info_saves|].
  intros i. crunch; exact I.
Qed.

Lemma userinfo_saves w now r : sok (userinfo w now r).
Proof.
  unfold userinfo. break_goal; [exact I|]. break_goal; [|exact I].
  cbn. split; [exact I|]. intros rp _; destruct rp; try exact I.
  repeat (break_goal; try exact I).
  apply saves_ok_r_bind; [apply get_client_nosave|]. intros [c|]; exact I.
Qed.

Lemma token_info_saves now p : sok (token_info now p).
Proof. unfold token_info. apply saves_ok_r_bind; [apply introspection_info_saves|]. intros; exact I. Qed.
Lemma token_info_req_saves now r : sok (token_info_from_request now r).
Proof.
  unfold token_info_from_request. break_goal; [exact I|].
  apply saves_ok_r_bind; [apply introspection_info_saves|]. intros i. crunch; exact I.
Qed.

Lemma handler_saves w n now o : sok (handler w n now o).
Proof.
  unfold handler. destruct o; try (apply saves_ok_r_bind; [|intros; exact I]).
  - apply init_auth_saves.
  - apply continue_auth_saves.
  - apply push_auth_saves.
  - destruct g; try exact I; (apply saves_ok_r_bind; [|intros; exact I]).
    + apply cc_grant_saves. + apply code_grant_saves. + apply refresh_grant_saves. + apply jwt_bearer_grant_saves. + apply ciba_grant_saves.
  - apply introspect_saves.
  - apply revoke_saves.
  - apply userinfo_saves.
  - apply token_info_saves.
  - apply token_info_req_saves.
  - apply init_back_auth_saves.
  - apply notify_success_saves.
  - apply notify_failure_saves.
  - exact I.
Qed.

Definition all_within_r (st : state) : Prop := forall g, In g (st_gsess (s_store st)) -> within_r g.

Lemma step_within_r w st n o : all_within_r st -> all_within_r (fst (step w st n o)).
Proof.
  intros H. unfold step, step_with.
  assert (G : forall p : prog obs, sok p ->
              all_within_r (fst (let '(sto, x) := run_seq p (s_store st) in (mkState sto (s_now st), x)))).
  { intros p Hp. pose proof (run_seq_ok_r within_r anyA p (s_store st) Hp) as R.
    destruct (run_seq p (s_store st)) as [sto x]. simpl in *. intros g Hg.
    apply R; auto. split; [exact H | intros; exact I]. }
  destruct o; try (apply G; exact (handler_saves _ _ _ _)).
  simpl. exact H.
Qed.

Theorem resources_within_grant_all_histories w dyn ops :
  all_within_r (fst (run_from w (init_state dyn) 0 ops)).
Proof.
  apply run_from_inv; [apply step_within_r|]. intros g [].
Qed.

(* ================================================================================== *)
(* Decision rules: what a token request that yields tokens implies, for every store.   *)

Local Opaque validate_jwt validate_pop validate_binding_dpop validate_binding_tls set_pop_jkt set_pop_x5t
       hg_result contains_openid.

Ltac vr_true := match goal with H : negb (validate_resources _ _ _) = false |- _ => apply negb_false_iff in H; exact H end.

(* authorization_code: the requested resources are among those granted to the session the code
   indexes; the grant written records the session's granted resources and, as active ones, the
   requested resources (all granted ones when none was requested) *)
Lemma code_grant_resources w n now r st :
  is_tokens (snd (run_seq (code_grant w n now r) st)) = true ->
  exists s g,
    find (fun s => ideq (a_code s) (t_code r)) (st_asess st) = Some s /\
    validate_resources (w_cfg w) (a_granted_res s) (t_resources r) = true /\
    st_gsess (fst (run_seq (code_grant w n now r) st)) = put_gsess g (st_gsess st) /\
    g_granted_res g = grant_granted_res (w_cfg w) (a_granted_res s) /\
    g_active_res g = grant_active_res (w_cfg w) (a_granted_res s) (t_resources r).
Proof.
  unfold code_grant. destruct (has_grant GAuthorizationCode (cf_grants (w_cfg w))) eqn:EG; [|cbn; discriminate]. cbn [negb].
  destruct (is_nil (t_code r)); [cbn; discriminate|].
  rewrite run_authenticated.
  destruct (snd (run_seq (authenticated w (t_cred r)) st)) as [c|] eqn:EA; [|cbn; discriminate].
  cbn. destruct (find _ (st_asess st)) as [s|] eqn:EF; cbn; [|destruct (find _ (st_gsess st)); cbn; discriminate].
  unfold new_grant.
  repeat (cbn; try discriminate; break_inner).
  all: cbn; try discriminate.
  all: intros _; exists s; eexists; repeat split; auto; try vr_true.
  all: rewrite ?with_refresh_active_res, ?with_refresh_granted_res; reflexivity.
Qed.

Lemma ciba_grant_resources w n now r st :
  is_tokens (snd (run_seq (ciba_grant w n now r) st)) = true ->
  exists s g,
    find (fun s => ideq (a_ciba s) (t_auth_req r)) (st_asess st) = Some s /\
    validate_resources (w_cfg w) (a_granted_res s) (t_resources r) = true /\
    st_gsess (fst (run_seq (ciba_grant w n now r) st)) = put_gsess g (st_gsess st) /\
    g_granted_res g = grant_granted_res (w_cfg w) (a_granted_res s) /\
    g_active_res g = grant_active_res (w_cfg w) (a_granted_res s) (t_resources r).
Proof.
  unfold ciba_grant. destruct (has_grant GCiba (cf_grants (w_cfg w))) eqn:EG; [|cbn; discriminate]. cbn [negb].
  rewrite run_authenticated.
  destruct (snd (run_seq (authenticated w (t_cred r)) st)) as [c|] eqn:EA; [|cbn; discriminate].
  destruct (is_nil (t_auth_req r)); [cbn; discriminate|].
  cbn. destruct (find _ (st_asess st)) as [s|] eqn:EF; cbn; [|discriminate].
  unfold new_grant.
  repeat (cbn; try discriminate; break_inner).
  all: cbn; try discriminate.
  all: intros _; exists s; eexists; repeat split; auto; try vr_true.
  all: rewrite ?with_refresh_active_res, ?with_refresh_granted_res; reflexivity.
Qed.

(* client_credentials: no resource owner - the requested resources are among the server's configured
   ones, and granted = active = requested *)
Lemma cc_grant_resources w n now r st :
  is_tokens (snd (run_seq (cc_grant w n now r) st)) = true ->
  exists g,
    validate_resources (w_cfg w) (cf_resources (w_cfg w)) (t_resources r) = true /\
    st_gsess (fst (run_seq (cc_grant w n now r) st)) = put_gsess g (st_gsess st) /\
    g_granted_res g = (if cf_resource_enabled (w_cfg w) then t_resources r else []) /\
    g_active_res g = g_granted_res g.
Proof.
  unfold cc_grant. destruct (has_grant GClientCredentials (cf_grants (w_cfg w))) eqn:EG; [|cbn; discriminate]. cbn [negb].
  rewrite run_authenticated.
  destruct (snd (run_seq (authenticated w (t_cred r)) st)) as [c|] eqn:EA; [|cbn; discriminate].
  unfold new_grant.
  repeat (cbn; try discriminate; break_inner).
  all: cbn; try discriminate.
  all: intros _; eexists; repeat split; auto; try vr_true.
  all: cbn; match goal with H : cf_resource_enabled _ = _ |- _ => rewrite ?H end; reflexivity.
Qed.

(* jwt-bearer: like client_credentials there is no resource owner behind the request - the requested
   resources are among the server's configured ones, and granted = active = requested *)
Lemma jwt_bearer_grant_resources w n now r st :
  is_tokens (snd (run_seq (jwt_bearer_grant w n now r) st)) = true ->
  exists g,
    validate_resources (w_cfg w) (cf_resources (w_cfg w)) (t_resources r) = true /\
    st_gsess (fst (run_seq (jwt_bearer_grant w n now r) st)) = put_gsess g (st_gsess st) /\
    g_granted_res g = (if cf_resource_enabled (w_cfg w) then t_resources r else []) /\
    g_active_res g = g_granted_res g.
Proof.
  unfold jwt_bearer_grant. destruct (has_grant GJwtBearer (cf_grants (w_cfg w))) eqn:EG; [|cbn; discriminate]. cbn [negb].
  rewrite run_jwt_bearer_client_k.
  destruct (snd (run_seq (jwt_bearer_client w (t_cred r)) st)) as [c|] eqn:EA; [|cbn; discriminate].
  unfold new_grant.
  repeat (cbn; try discriminate; break_inner).
  all: cbn; try discriminate.
  all: intros _; eexists; repeat split; auto; try vr_true.
  all: rewrite ?with_refresh_active_res, ?with_refresh_granted_res; cbn; reflexivity.
Qed.

(* readable forms *)
Local Transparent validate_resources grant_active_res grant_granted_res subset.
Lemma validate_resources_spec cfg avail req :
  validate_resources cfg avail req = true <-> (cf_resource_enabled cfg = true -> forall x, In x req -> In x avail).
Proof.
  unfold validate_resources. destruct (cf_resource_enabled cfg); simpl.
  - rewrite subset_spec. split; auto.
  - split; auto. intros _ H; discriminate.
Qed.
Lemma grant_res_enabled cfg granted req : cf_resource_enabled cfg = true ->
  grant_granted_res cfg granted = granted /\
  grant_active_res cfg granted req = (if no_res req then granted else req).
Proof. intros E. unfold grant_granted_res, grant_active_res. rewrite E. auto. Qed.
Lemma grant_res_disabled cfg granted req : cf_resource_enabled cfg = false ->
  grant_granted_res cfg granted = [] /\ grant_active_res cfg granted req = [].
Proof. intros E. unfold grant_granted_res, grant_active_res. rewrite E. auto. Qed.

Lemma resources_within_grant_in w dyn ops g :
  In g (st_gsess (s_store (fst (run_from w (init_state dyn) 0 ops)))) ->
  forall x, In x (g_active_res g) -> In x (g_granted_res g).
Proof. intros H. apply subset_spec. exact (resources_within_grant_all_histories w dyn ops g H). Qed.

(* what a grant made from a session (authorization_code, CIBA) records *)
Lemma session_rule cfg granted req (g : gsession) :
  validate_resources cfg granted req = true ->
  g_granted_res g = grant_granted_res cfg granted ->
  g_active_res g = grant_active_res cfg granted req ->
  (cf_resource_enabled cfg = true ->
     (forall x, In x req -> In x granted) /\ g_granted_res g = granted /\
     g_active_res g = (if no_res req then granted else req)) /\
  (cf_resource_enabled cfg = false -> g_granted_res g = [] /\ g_active_res g = []).
Proof.
  intros V G A. split; intros E.
  - destruct (grant_res_enabled cfg granted req E) as [H1 H2]. rewrite G, A, H1, H2.
    split; [|auto]. pose proof (proj1 (validate_resources_spec _ _ _) V) as V'; clear V; rename V' into V. auto.
  - destruct (grant_res_disabled cfg granted req E) as [H1 H2]. rewrite G, A, H1, H2. auto.
Qed.

Theorem resources_decision_all w n now r st :
  (is_tokens (snd (run_seq (code_grant w n now r) st)) = true ->
   exists s g,
     find (fun s => ideq (a_code s) (t_code r)) (st_asess st) = Some s /\
     st_gsess (fst (run_seq (code_grant w n now r) st)) = put_gsess g (st_gsess st) /\
     (cf_resource_enabled (w_cfg w) = true ->
        (forall x, In x (t_resources r) -> In x (a_granted_res s)) /\ g_granted_res g = a_granted_res s /\
        g_active_res g = (if no_res (t_resources r) then a_granted_res s else t_resources r)) /\
     (cf_resource_enabled (w_cfg w) = false -> g_granted_res g = [] /\ g_active_res g = [])) /\
  (is_tokens (snd (run_seq (ciba_grant w n now r) st)) = true ->
   exists s g,
     find (fun s => ideq (a_ciba s) (t_auth_req r)) (st_asess st) = Some s /\
     st_gsess (fst (run_seq (ciba_grant w n now r) st)) = put_gsess g (st_gsess st) /\
     (cf_resource_enabled (w_cfg w) = true ->
        (forall x, In x (t_resources r) -> In x (a_granted_res s)) /\ g_granted_res g = a_granted_res s /\
        g_active_res g = (if no_res (t_resources r) then a_granted_res s else t_resources r)) /\
     (cf_resource_enabled (w_cfg w) = false -> g_granted_res g = [] /\ g_active_res g = [])) /\
  (forall t, snd (run_seq (refresh_grant w n now r) st) = OTokens t ->
   exists g g',
     find (fun g => ideq (g_refresh g) (t_refresh r)) (st_gsess st) = Some g /\
     st_gsess (fst (run_seq (refresh_grant w n now r) st)) = put_gsess g' (st_gsess st) /\
     g_id g' = g_id g /\ g_granted_res g' = g_granted_res g /\
     (cf_resource_enabled (w_cfg w) = true ->
        (forall x, In x (t_resources r) -> In x (g_granted_res g)) /\
        g_active_res g' = (if no_res (t_resources r) then g_granted_res g else t_resources r)) /\
     (cf_resource_enabled (w_cfg w) = false -> g_active_res g' = g_active_res g)) /\
  (is_tokens (snd (run_seq (cc_grant w n now r) st)) = true ->
   exists g,
     st_gsess (fst (run_seq (cc_grant w n now r) st)) = put_gsess g (st_gsess st) /\
     g_active_res g = g_granted_res g /\
     (cf_resource_enabled (w_cfg w) = true ->
        (forall x, In x (t_resources r) -> In x (cf_resources (w_cfg w))) /\ g_granted_res g = t_resources r) /\
     (cf_resource_enabled (w_cfg w) = false -> g_granted_res g = [])) /\
  (is_tokens (snd (run_seq (jwt_bearer_grant w n now r) st)) = true ->
   exists g,
     st_gsess (fst (run_seq (jwt_bearer_grant w n now r) st)) = put_gsess g (st_gsess st) /\
     g_active_res g = g_granted_res g /\
     (cf_resource_enabled (w_cfg w) = true ->
        (forall x, In x (t_resources r) -> In x (cf_resources (w_cfg w))) /\ g_granted_res g = t_resources r) /\
     (cf_resource_enabled (w_cfg w) = false -> g_granted_res g = [])).
Proof.
  split; [|split; [|split; [|split]]].
  - intros H. destruct (code_grant_resources w n now r st H) as (s & g & F & V & S & G & A).
    exists s, g. split; [exact F|]. split; [exact S|]. exact (session_rule _ _ _ _ V G A).
  - intros H. destruct (ciba_grant_resources w n now r st H) as (s & g & F & V & S & G & A).
    exists s, g. split; [exact F|]. split; [exact S|]. exact (session_rule _ _ _ _ V G A).
  - intros t H. destruct (refresh_grant_post w n now r st t H)
      as (g & c & g' & _ & F & _ & _ & _ & _ & S & _ & EI & _ & _ & _ & _ & _ & _ & V & G & A).
    exists g, g'. split; [exact F|]. split; [exact S|]. split; [exact EI|]. split; [exact G|].
    split; intros E.
    + pose proof (proj1 (validate_resources_spec _ _ _) V) as V'. split; [auto|]. rewrite A, E. reflexivity.
    + rewrite A, E. reflexivity.
  - intros H. destruct (cc_grant_resources w n now r st H) as (g & V & S & G & A).
    exists g. split; [exact S|]. split; [exact A|]. split; intros E.
    + pose proof (proj1 (validate_resources_spec _ _ _) V) as V'. split; [auto|]. rewrite G, E. reflexivity.
    + rewrite G, E. reflexivity.
  - intros H. destruct (jwt_bearer_grant_resources w n now r st H) as (g & V & S & G & A).
    exists g. split; [exact S|]. split; [exact A|]. split; intros E.
    + pose proof (proj1 (validate_resources_spec _ _ _) V) as V'. split; [auto|]. rewrite G, E. reflexivity.
    + rewrite G, E. reflexivity.
Qed.

(* C10: a refresh never widens the resources - whatever the refreshed token is for lies within the
   resources granted when the grant was created, provided the grant obeyed that before (it does in
   every reachable state: resources_within_grant_all_histories); the granted list is not touched *)
Lemma refresh_never_widens_resources w n now r st t :
  snd (run_seq (refresh_grant w n now r) st) = OTokens t ->
  exists g g',
    find (fun g => ideq (g_refresh g) (t_refresh r)) (st_gsess st) = Some g /\
    st_gsess (fst (run_seq (refresh_grant w n now r) st)) = put_gsess g' (st_gsess st) /\
    g_id g' = g_id g /\ g_granted_res g' = g_granted_res g /\
    ((forall x, In x (g_active_res g) -> In x (g_granted_res g)) ->
     forall x, In x (g_active_res g') -> In x (g_granted_res g')).
Proof.
  intros H. destruct (refresh_grant_post w n now r st t H)
      as (g & c & g' & _ & F & _ & _ & _ & _ & S & _ & EI & _ & _ & _ & _ & _ & _ & V & G & A).
  exists g, g'. split; [exact F|]. split; [exact S|]. split; [exact EI|]. split; [exact G|].
  intros W x. rewrite A, G.
  pose proof (proj1 (validate_resources_spec _ _ _) V) as V'.
  destruct (cf_resource_enabled (w_cfg w)); [|apply W].
  destruct (no_res (t_resources r)); auto.
Qed.

(* non-vacuity: resource indicators enabled, the owner grants one of two requested resources; a code
   exchange naming the other one is refused with invalid_target (and burns the code), a fresh code
   exchanged for the granted one yields a token for it, a refresh that names the other resource is
   refused, and introspection reports exactly the granted resource *)
Definition ex_res_ops : list op :=
  let p := mkParams 0 "https://c/cb" "" "code" "openid" "s" "" PkEmpty "" 0 "" 0 "" ["https://a"; "https://b"] None in
  let tr code res := mkTReq (mkCred 1 true) no_bind "" code "https://c/cb" 0 PkEmpty 0 HgOk BaApprove res AsNone None in
  let rf rt res := mkTReq (mkCred 1 true) no_bind "" 0 "" rt PkEmpty 0 HgOk BaApprove res AsNone None in
  [OpAuthorize (mkAReq 1 p true (PolSuccess "alice" "openid" ["https://a"] []));
   OpToken GAuthorizationCode (tr (mint 0 KCode) ["https://b"]);
   OpAuthorize (mkAReq 1 p true (PolSuccess "alice" "openid" ["https://a"] []));
   OpToken GAuthorizationCode (tr (mint 2 KCode) ["https://a"]);
   OpToken GRefreshToken (rf (mint 3 KRefresh) ["https://b"]);
   OpToken GRefreshToken (rf (mint 3 KRefresh) []);
   OpIntrospect (mkQReq (mkCred 1 true) (PExact (mint 5 KAtOpaque)) true)].
Example resources_flow_exists :
  let c1 := mkClient 1 false [GAuthorizationCode; GRefreshToken] ["code"] ["https://c/cb"] "openid" CibaNone
              false false false false false false false 0 false None in
  let w := mkWorld (match build POpenID [WithAuthorizationCodeGrant; WithRefreshTokenGrant 600%Z; WithTokenIntrospection;
                                         WithResourceIndicators "https://a" ["https://b"]]
                    with Some c => c | None => base_config POpenID end) [c1] in
  match run w [] ex_res_ops with
  | [Out (ONav _ _ _); Out (OErr EInvalidTarget); Out (ONav _ _ _); Out (OTokens t); Out (OErr EInvalidTarget);
     Out (OTokens _); Out (OIntro i)] =>
      tr_res t = ["https://a"] /\ in_active i = true /\ in_aud i = ["https://a"]
  | _ => False end.
Proof. vm_compute. auto. Qed.

(* introspection reports the resources of the stored grant *)
Lemma introspection_aud_of_grant now p st i :
  snd (run_seq (introspection_info now p) st) = i -> in_active i = true ->
  exists g, In g (st_gsess st) /\ g_id g = in_grant i /\
            in_aud i = (if in_refresh i then g_granted_res g else g_active_res g).
Proof.
  unfold introspection_info. intros H A. subst i.
  destruct (classify p); cbn in *; try discriminate.
  - destruct (find _ (st_gsess st)) as [g|] eqn:F; cbn in *; try discriminate.
    destruct (geb now (g_last_exp g)); cbn in *; try discriminate.
    exists g. apply find_some in F as [F _]. auto.
  - destruct (find _ (st_gsess st)) as [g|] eqn:F; cbn in *; try discriminate.
    destruct (geb now (g_expires g)); cbn in *; try discriminate.
    exists g. apply find_some in F as [F _]. auto.
Qed.
