(* C02Handlers.v — every handler keeps the redirect-URI invariant; navigation targets. *)
From Verif Require Import Base Scope Types Prog Pop Token Authorize System Config Run Monitors Hoare Tactics Fresh FreshHandlers OneShot C02Proofs.
Local Open Scope N_scope.

Section Handlers.
  Variable w : world.
  Variable dyn : list client.
  Notation rg := (rg w dyn).
  Notation redirect_ok := (redirect_ok w dyn).
  Notation client_of := (client_of w dyn).

  Local Opaque contains_all_scopes are_scopes_allowed validate_binding validate_pkce refresh_binding
       validate_params validate_optionals validate_in_out merge_params mint make_token
       validate_jwt set_pop_jkt set_pop_x5t.

  (* what get_client answers, under the rely *)
  Definition known_client (i : id) (oc : option client) : Prop :=
    match oc with Some c => client_of i = Some c | None => True end.

  (* rgq Q p: p keeps the discipline and every answer it can give (under the rely) satisfies Q *)
  Fixpoint rgq {A} (Q : A -> Prop) (p : prog A) : Prop :=
    match p with
    | Ret a => Q a
    | Do c k => guar2 w dyn c /\ forall r, rely w dyn c r -> rgq Q (k r)
    | Touch _ p' => rgq Q p'
    end.
  Lemma rgq_bind {A B} (Q : A -> Prop) (R : B -> Prop) (p : prog A) (f : A -> prog B) :
    rgq Q p -> (forall a, Q a -> rgq R (f a)) -> rgq R (bind p f).
  Proof. induction p as [a|c k IH|o p IH]; cbn; intros Hp Hf; auto. destruct Hp; split; auto. Qed.
  Lemma rgq_rg {A} (p : prog A) : rgq (fun _ => True) p <-> rg p.
  Proof.
    induction p as [a|c k IH|o p IH]; cbn; try tauto.
    split; intros [G H]; split; auto; intros r Hr; apply IH; auto.
  Qed.
  Lemma rg_bindq {A B} (Q : A -> Prop) (p : prog A) (f : A -> prog B) :
    rgq Q p -> (forall a, Q a -> rg (f a)) -> rg (bind p f).
  Proof. intros Hp Hf. apply rgq_rg. eapply rgq_bind; eauto. intros a Ha. apply rgq_rg; auto. Qed.

  Lemma get_client_rgq i : rgq (known_client i) (get_client w i).
  Proof.
    unfold get_client, known_client, C02Proofs.client_of.
    destruct (find_client i (w_static w)) eqn:E; cbn; [reflexivity|].
    split; [exact I|]. intros r Hr. destruct r; cbn; auto.
  Qed.
  Lemma authenticated_rgq cr : rgq (known_client (cr_id cr)) (authenticated w cr).
  Proof.
    unfold authenticated. destruct (is_nil (cr_id cr)); [exact I|].
    eapply rgq_bind; [apply get_client_rgq|]. intros [c|] Hc; cbn; auto.
    destruct (c_public c || cr_ok cr)%bool; cbn; auto.
  Qed.

  (* handlers that write no session and no client *)
  Fixpoint quiet {A} (p : prog A) : Prop :=
    match p with
    | Ret _ => True
    | Do c k => match c with ASave _ | CSave _ | CDel _ => False | _ => True end /\ forall r, quiet (k r)
    | Touch _ p' => quiet p'
    end.
  Lemma quiet_rg {A} (p : prog A) : quiet p -> rg p.
  Proof.
    induction p as [a|c k IH|o p IH]; cbn; auto. intros [G H]. split; [destruct c; cbn in *; tauto|]. intros r _. apply IH; auto.
  Qed.
  Lemma quiet_bind {A B} (p : prog A) (f : A -> prog B) : quiet p -> (forall a, quiet (f a)) -> quiet (bind p f).
  Proof. induction p as [a|c k IH|o p IH]; cbn; intros Hp Hf; auto. destruct Hp; split; auto. Qed.

  Ltac qcrunch :=
    repeat (cbn in *;
            try match goal with
                | |- True => exact I
                | |- _ /\ _ => split
                | |- forall _, _ => intro
                end;
            try break_goal).
  Lemma get_client_quiet i : quiet (get_client w i).
  Proof. unfold get_client. qcrunch. Qed.
  Lemma authenticated_quiet cr : quiet (authenticated w cr).
  Proof.
    unfold authenticated. destruct (is_nil (cr_id cr)); [exact I|].
    apply quiet_bind; [apply get_client_quiet|]. intros [c|]; qcrunch.
  Qed.
  Ltac qauth := apply quiet_bind; [apply authenticated_quiet|]; intros [?c|]; [|exact I].
  Lemma code_grant_quiet n now r : quiet (code_grant w n now r).
  Proof. unfold code_grant. do 2 (break_goal; [exact I|]). qauth. qcrunch. Qed.
  Lemma refresh_grant_quiet n now r : quiet (refresh_grant w n now r).
  Proof. unfold refresh_grant. do 2 (break_goal; [exact I|]). qauth. qcrunch. Qed.
  Lemma cc_grant_quiet n now r : quiet (cc_grant w n now r).
  Proof. unfold cc_grant. break_goal; [exact I|]. qauth. qcrunch. Qed.
  Lemma jwt_bearer_client_quiet cr : quiet (jwt_bearer_client w cr).
  Proof.
    unfold jwt_bearer_client. apply quiet_bind; [apply authenticated_quiet|]. intros [c|]; [exact I|].
    destruct (_ && _)%bool; exact I.
  Qed.
  Lemma jwt_bearer_grant_quiet n now r : quiet (jwt_bearer_grant w n now r).
  Proof.
    unfold jwt_bearer_grant. break_goal; [exact I|].
    apply quiet_bind; [apply jwt_bearer_client_quiet|]; intros [c|]; [|exact I]. qcrunch.
  Qed.
  Lemma ciba_grant_quiet n now r : quiet (ciba_grant w n now r).
  Proof. unfold ciba_grant. break_goal; [exact I|]. qauth. qcrunch. Qed.
  Lemma notify_success_quiet n now a hg : quiet (notify_success w n now a hg).
  Proof.
    unfold notify_success. cbn. split; [exact I|]. intros rp; destruct rp; try exact I.
    apply quiet_bind; [apply get_client_quiet|]. intros [c|]; [|exact I]. qcrunch.
  Qed.
  Lemma notify_failure_quiet a : quiet (notify_failure w a).
  Proof.
    unfold notify_failure. cbn. split; [exact I|]. intros rp; destruct rp; try exact I.
    apply quiet_bind; [apply get_client_quiet|]. intros [c|]; [|exact I]. qcrunch.
  Qed.
  Lemma introspection_info_quiet now p : quiet (introspection_info now p).
  Proof. unfold introspection_info. qcrunch. Qed.
  Lemma introspect_quiet now r : quiet (introspect w now r).
  Proof.
    unfold introspect. break_goal; [exact I|]. qauth.
    break_goal; [exact I|]. break_goal; try exact I; (apply quiet_bind; [apply introspection_info_quiet|]; intros; exact I).
  Qed.
  Lemma revoke_quiet now r : quiet (revoke w now r).
  Proof.
    unfold revoke. break_goal; [exact I|]. qauth.
    break_goal; [exact I|]. apply quiet_bind; [apply introspection_info_quiet|]. intros i. qcrunch.
  Qed.
  Lemma userinfo_quiet now r : quiet (userinfo w now r).
  Proof.
    unfold userinfo. break_goal; [exact I|]. break_goal; [|exact I].
    cbn. split; [exact I|]. intros rp; destruct rp; try exact I.
    repeat (break_goal; try exact I).
    apply quiet_bind; [apply get_client_quiet|]. intros [c|]; exact I.
  Qed.
  Lemma token_info_quiet now p : quiet (token_info now p).
  Proof. unfold token_info. apply quiet_bind; [apply introspection_info_quiet|]. intros; exact I. Qed.
  Lemma token_info_req_quiet now r : quiet (token_info_from_request now r).
  Proof.
    unfold token_info_from_request. break_goal; [exact I|].
    apply quiet_bind; [apply introspection_info_quiet|]. intros i. qcrunch.
  Qed.

  (* ---- the handlers that save sessions ---- *)
  Lemma authenticate_rg n now s pol :
    redirect_ok s -> is_empty (p_redirect (a_params s)) = false -> rg (authenticate w n now s pol).
  Proof.
    intros OK NE. unfold authenticate, save_a.
    assert (K : forall s', a_client s' = a_client s -> p_redirect (a_params s') = p_redirect (a_params s) -> redirect_ok s').
    { intros s' E1 E2. eapply redirect_ok_same; eauto. }
    destruct pol; cbn.
    - eapply rg_bindq; [apply get_client_rgq|]. intros [c|] Hc; [|exact I].
      repeat (cbn; try match goal with
                  | |- True => exact I
                  | |- _ /\ _ => split
                  | |- forall _, _ => intro
                  | |- redirect_ok _ => apply K; reflexivity
                  end; try break_goal).
    - repeat (cbn; try match goal with
                  | |- True => exact I
                  | |- _ /\ _ => split
                  | |- forall _, _ => intro
                  | |- redirect_ok _ => apply K; reflexivity
                  end; try break_goal).
    - repeat (cbn; try match goal with |- True => exact I | |- _ /\ _ => split | |- forall _, _ => intro end; try break_goal).
    - repeat (cbn; try match goal with |- True => exact I | |- _ /\ _ => split | |- forall _, _ => intro end; try break_goal).
  Qed.

  Lemma start_session_rg n now c s r :
    redirect_ok s -> is_empty (p_redirect (a_params s)) = false -> rg (start_session w n now c s r).
  Proof.
    intros OK NE. unfold start_session. repeat (break_goal; [exact I|]). cbn.
    apply authenticate_rg; [|exact NE].
    eapply (redirect_ok_same _ _ s); [reflexivity|reflexivity|intros _; right; exact NE|exact OK].
  Qed.

  Lemma new_session_ok n c p i :
    client_of i = Some c -> validate_params (w_cfg w) p c = None ->
    redirect_ok (new_session n c (p <| p_request_uri := 0 |>)) /\ is_empty (p_redirect (a_params (new_session n c (p <| p_request_uri := 0 |>)))) = false.
  Proof.
    intros HC HV. apply validate_params_redirect in HV as [NE AL]. cbn. split; auto. split.
    - right; right. exists c. cbn. rewrite (client_of_id _ _ _ _ HC). auto.
    - auto.
  Qed.

  Lemma init_auth_rg n now r : rg (init_auth w n now r).
  Proof.
    unfold init_auth. destruct (is_nil (ar_client r)); [exact I|].
    eapply rg_bindq; [apply get_client_rgq|]. intros [c|] Hc; [|exact I]. cbn in Hc.
    break_goal; [exact I|]. break_goal.
    - break_goal; [exact I|]. cbn. split; [exact I|]. intros rp Hr. destruct rp; try exact I. cbn in Hr. destruct Hr as [Hr HP].
      destruct (negb (ideq (a_client s) (ar_client r))) eqn:ECl; [cbn; split; [exact I|]; intros rd _; destruct rd; exact I|].
      destruct (geb now (a_expires s)); [cbn; split; [exact I|]; intros rd _; destruct rd; exact I|].
      destruct (validate_in_out _ _ _ _) eqn:EV; [cbn; split; [exact I|]; intros rd _; destruct rd; exact I|].
      apply rg_bind; [|intros; exact I].
      apply negb_false_iff in ECl. apply N.eqb_eq in ECl.
      apply validate_in_out_redirect in EV as [NE AL]. apply allowed_for_par in AL.
      destruct (is_fapi (cf_profile (w_cfg w))) eqn:EF.
      + (* FAPI: the pushed session as it is *)
        apply start_session_rg; auto. destruct Hr as [_ H2]. apply H2. left. split; auto.
        (* the request_uri found it, so its a_par is the (non-empty) one presented *)
        rewrite HP. assumption.
      + apply start_session_rg; [|exact NE]. split.
        * cbn. destruct AL as [AL|[U _]]; [|right; left; exact U]. right; right. exists c. split; [rewrite ECl; exact Hc|exact AL].
        * intros _. exact NE.
    - destruct (validate_params _ _ _) eqn:EV; [exact I|].
      apply rg_bind; [|intros; exact I].
      destruct (new_session_ok n c (ar_params r) (ar_client r) Hc EV) as [OK NE].
      apply start_session_rg; auto.
  Qed.

  Lemma continue_auth_rg n now r : rg (continue_auth w n now r).
  Proof.
    unfold continue_auth. destruct (is_nil (cb_id r)) eqn:EN; [exact I|].
    cbn. split; [exact I|]. intros rp Hr. destruct rp; try exact I. cbn in Hr. destruct Hr as [Hr HP].
    destruct (geb now (a_expires s)); [exact I|].
    apply rg_bind.
    - (* a session found through a (non-empty) callback id is interactive: it has a redirect URI -
         provided it is not also indexed otherwise, which one_index guarantees; here we only need
         the redirect to be non-empty when the session needs one *)
      destruct (is_empty (p_redirect (a_params s))) eqn:EE.
      + (* empty redirect: authenticate still keeps the discipline (saves sessions with the same params) *)
        unfold authenticate, save_a.
        assert (K : forall s', a_client s' = a_client s -> p_redirect (a_params s') = p_redirect (a_params s) ->
                               a_par s' = a_par s -> a_ciba s' = a_ciba s -> redirect_ok s').
        { intros s' E1 E2 E3 E4. eapply redirect_ok_same; eauto. unfold needs_redirect. rewrite E3, E4. auto. }
        destruct (cb_pol r); cbn.
        * eapply rg_bindq; [apply get_client_rgq|]. intros [c|] Hc; [|exact I].
          repeat (cbn; try match goal with |- True => exact I | |- _ /\ _ => split | |- forall _, _ => intro
                           | |- redirect_ok _ => apply K; reflexivity end; try break_goal).
        * repeat (cbn; try match goal with |- True => exact I | |- _ /\ _ => split | |- forall _, _ => intro
                           | |- redirect_ok _ => apply K; reflexivity end; try break_goal).
        * repeat (cbn; try match goal with |- True => exact I | |- _ /\ _ => split | |- forall _, _ => intro end; try break_goal).
        * repeat (cbn; try match goal with |- True => exact I | |- _ /\ _ => split | |- forall _, _ => intro end; try break_goal).
      + apply authenticate_rg; auto.
    - intros [o|e]; [exact I|]. apply quiet_rg. apply quiet_bind; [apply get_client_quiet|]. intros [c|]; cbn; auto.
  Qed.

  Lemma is_nil_mint n k : is_nil (mint n k) = false.
  Proof. unfold is_nil. apply N.eqb_neq. apply mint_nonzero. Qed.

  Lemma par_stored_redirect p : p_redirect (par_stored_params p) = p_redirect p.
  Proof. unfold par_stored_params. destruct (p_auth_details p) as [[|d l]|]; reflexivity. Qed.
  Lemma par_stored_request_uri p : p_request_uri (par_stored_params p) = p_request_uri p.
  Proof. unfold par_stored_params. destruct (p_auth_details p) as [[|d l]|]; reflexivity. Qed.

  Lemma push_auth_rg n now r : rg (push_auth w n now r).
  Proof.
    unfold push_auth, save_a. generalize (par_stored_redirect (pr_params r)) (par_stored_request_uri (pr_params r)).
    generalize (par_stored_params (pr_params r)). intros sp SPr SPu. destruct (negb _); [exact I|].
    eapply rg_bindq; [apply authenticated_rgq|]. intros [c|] Hc; [|exact I]. cbn in Hc.
    destruct (negb (is_nil (p_request_uri (pr_params r)))); [exact I|].
    remember (client_for_par (w_cfg w) c (p_redirect (pr_params r))) as c' eqn:Ec'.
    destruct (is_fapi (cf_profile (w_cfg w))) eqn:EF.
    - destruct (validate_params _ _ _) as [[e|e p]|] eqn:EV; try exact I.
      apply validate_params_redirect in EV as [NE AL]. subst c'. apply allowed_for_par in AL.
      repeat (cbn; try match goal with |- True => exact I | |- _ /\ _ => split | |- forall _, _ => intro end;
              try match goal with |- redirect_ok _ => idtac | _ => break_goal end).
      all: split; [cbn; rewrite ?SPr; destruct AL as [AL|[U _]]; [right; right; exists c; rewrite (client_of_id _ _ _ _ Hc); auto|right; left; exact U]
                  |intros _; cbn; rewrite SPr; exact NE].
    - destruct (validate_optionals _ _ _) as [[e|e p]|] eqn:EV; try exact I.
      apply validate_optionals_redirect in EV.
      repeat (cbn; try match goal with |- True => exact I | |- _ /\ _ => split | |- forall _, _ => intro end;
              try match goal with |- redirect_ok _ => idtac | _ => break_goal end).
      all: split; [cbn; rewrite ?SPr; destruct EV as [EE|AL]; [left; exact EE|subst c'; apply allowed_for_par in AL;
                     destruct AL as [AL|[U _]]; [right; right; exists c; rewrite (client_of_id _ _ _ _ Hc); auto|right; left; exact U]]
                  |unfold needs_redirect; cbn; rewrite EF; intros [[_ H]|[H _]]; [discriminate|rewrite is_nil_mint in H; discriminate]].
  Qed.

  Lemma init_back_auth_rg n now r : rg (init_back_auth w n now r).
  Proof.
    unfold init_back_auth, save_a. destruct (negb _); [exact I|].
    eapply rg_bindq; [apply authenticated_rgq|]. intros [c|] Hc; [|exact I]. cbn in Hc.
    repeat (break_goal; [exact I|]).
    destruct (validate_optionals _ _ _) as [[e|e p]|] eqn:EV; try exact I.
    apply validate_optionals_redirect in EV.
    repeat (cbn; try match goal with |- True => exact I | |- _ /\ _ => split | |- forall _, _ => intro end;
            try match goal with |- redirect_ok _ => idtac | _ => break_goal end).
    all: split; [cbn; destruct EV as [EE|AL]; [left; exact EE|right; right; exists c; rewrite (client_of_id _ _ _ _ Hc); auto]
                |unfold needs_redirect; cbn; rewrite !is_nil_mint; intros [[H _]|[_ H]]; discriminate].
  Qed.

  Theorem handler_rg n now o : rg (handler w n now o).
  Proof.
    unfold handler. destruct o; try (apply rg_bind; [|intros; exact I]).
    - apply init_auth_rg. - apply continue_auth_rg. - apply push_auth_rg.
    - destruct g; try exact I; (apply rg_bind; [|intros; exact I]); apply quiet_rg.
      + apply cc_grant_quiet. + apply code_grant_quiet. + apply refresh_grant_quiet. + apply jwt_bearer_grant_quiet. + apply ciba_grant_quiet.
    - apply quiet_rg, introspect_quiet. - apply quiet_rg, revoke_quiet. - apply quiet_rg, userinfo_quiet.
    - apply quiet_rg, token_info_quiet. - apply quiet_rg, token_info_req_quiet.
    - apply init_back_auth_rg. - apply quiet_rg, notify_success_quiet. - apply quiet_rg, notify_failure_quiet.
    - exact I.
  Qed.

  (* in every reachable state: the clients are the registered ones, untouched, and every stored
     session's redirect URI is validated *)
  Definition sinv (st : state) : Prop := inv w dyn (s_store st).
  Lemma step_sinv st n o : sinv st -> sinv (fst (step w st n o)).
  Proof.
    intros H. unfold step, step_with, sinv in *.
    assert (G : forall p : prog obs, rg p ->
              inv w dyn (s_store (fst (let '(sto, x) := run_seq p (s_store st) in (mkState sto (s_now st), x))))).
    { intros p Hp. pose proof (run_seq_inv w dyn p (s_store st) Hp H) as R.
      destruct (run_seq p (s_store st)) as [sto x]. exact R. }
    destruct o; try (apply G; exact (handler_rg _ _ _)).
    cbn. exact H.
  Qed.
  Theorem sinv_all_histories ops : sinv (fst (run_from w (init_state dyn) 0 ops)).
  Proof. apply run_from_inv; [intros; apply step_sinv; auto|]. split; [reflexivity|intros s []]. Qed.

  (* ---- navigation targets ---- *)
  Local Transparent render_aerr.
  Definition ares_target_ok (p : params) (a : ares) : Prop :=
    match a with
    | ADone (ONav _ u _) => u = p_redirect p
    | AFail (ARedirect _ p') => p_redirect p' = p_redirect p
    | _ => True
    end.
  Lemma authenticate_nav n now s pol st :
    ares_target_ok (a_params s) (snd (run_seq (authenticate w n now s pol) st)).
  Proof.
    unfold authenticate, save_a. destruct pol; cbn [run_seq].
    all: try rewrite run_get_client.
    all: repeat (cbn; try reflexivity; try exact I; break_inner).
    all: cbn; try reflexivity; try exact I.
  Qed.
  Lemma start_session_nav n now c s r st :
    ares_target_ok (a_params s) (snd (run_seq (start_session w n now c s r) st)).
  Proof.
    unfold start_session.
    repeat match goal with |- context [if ?b then Ret _ else _] => destruct b; [cbn; reflexivity|] end.
    cbn [run_seq].
    match goal with |- context [authenticate w n now ?s' ?pol] => pose proof (authenticate_nav n now s' pol st) as T end.
    exact T.
  Qed.

  Definition nav_target (o : out) : option string := match o with ONav _ u _ => Some u | _ => None end.

  Theorem continue_auth_target n now r st u :
    nav_target (snd (run_seq (continue_auth w n now r) st)) = Some u ->
    exists s, find (fun s => ideq (a_cb s) (cb_id r)) (st_asess st) = Some s /\ u = p_redirect (a_params s).
  Proof.
    unfold continue_auth. destruct (is_nil (cb_id r)); [cbn; discriminate|].
    cbn. destruct (find _ (st_asess st)) as [s|] eqn:EF; cbn; [|discriminate].
    destruct (geb now (a_expires s)); [cbn; discriminate|].
    rewrite run_seq_bind. pose proof (authenticate_nav n now s (cb_pol r) st) as T.
    destruct (run_seq (authenticate w n now s (cb_pol r)) st) as [st1 a]. cbn in T.
    destruct a as [o|e].
    - cbn. destruct o; cbn; try discriminate. intros H; injection H as <-. exists s; auto.
    - rewrite run_get_client. destruct (snd (run_seq (get_client w (a_client s)) st1)) as [c|]; cbn; [|discriminate].
      destruct e as [x|x p]; cbn; [discriminate|]. intros H; injection H as <-. exists s; auto.
  Qed.

  Theorem init_auth_target n now r st u :
    nav_target (snd (run_seq (init_auth w n now r) st)) = Some u ->
    exists c, snd (run_seq (get_client w (ar_client r)) st) = Some c /\
      (redirect_allowed c u = true \/
       exists s, find (fun s => ideq (a_par s) (p_request_uri (ar_params r))) (st_asess st) = Some s /\
                 a_client s = ar_client r /\ u = p_redirect (a_params s) /\
                 (is_fapi (cf_profile (w_cfg w)) = true \/ cf_par_unregistered (w_cfg w) = true)).
  Proof.
    unfold init_auth. destruct (is_nil (ar_client r)); [cbn; discriminate|].
    rewrite run_get_client.
    destruct (snd (run_seq (get_client w (ar_client r)) st)) as [c|] eqn:EC; [|cbn; discriminate].
    destruct (negb _); [cbn; discriminate|].
    destruct (should_use_par _ _ _).
    - destruct (is_nil (p_request_uri (ar_params r))); [cbn; discriminate|].
      cbn. destruct (find _ (st_asess st)) as [s|] eqn:EF; cbn; [|discriminate].
      destruct (negb (ideq (a_client s) (ar_client r))) eqn:ECl; [cbn; discriminate|].
      apply negb_false_iff in ECl. apply N.eqb_eq in ECl.
      destruct (geb now (a_expires s)); [cbn; discriminate|].
      destruct (validate_in_out _ _ _ _) as [e|] eqn:EV.
      + cbn. destruct e as [x|x p]; cbn; [discriminate|]. intros H; injection H as <-.
        apply validate_in_out_redirect_err in EV as [-> [NE AL]]. apply allowed_for_par in AL.
        exists c. split; auto. destruct AL as [AL|[U [E1 E2]]]; [left; auto|right; exists s; auto].
      + rewrite run_seq_bind.
        match goal with |- context [start_session w n now c ?s' r] => pose proof (start_session_nav n now c s' r st) as T; remember s' as s1 eqn:Es1 end.
        destruct (run_seq (start_session w n now c s1 r) st) as [st1 a]. cbn in T. cbn.
        apply validate_in_out_redirect in EV as [NE AL]. apply allowed_for_par in AL.
        assert (K : forall u0, u0 = p_redirect (a_params s1) ->
                  redirect_allowed c u0 = true \/
                  exists s0, Some s = Some s0 /\ a_client s0 = ar_client r /\ u0 = p_redirect (a_params s0) /\
                             (is_fapi (cf_profile (w_cfg w)) = true \/ cf_par_unregistered (w_cfg w) = true)).
        { intros u0 ->. subst s1. destruct (is_fapi (cf_profile (w_cfg w))) eqn:EFa.
          - right. exists s. auto.
          - cbn. destruct AL as [AL|[U [E1 E2]]]; [left; auto|right; exists s; repeat split; auto]. }
        destruct a as [o|e]; cbn.
        * destruct o; cbn; try discriminate. cbn in T. intros H; injection H as <-. exists c; split; auto.
        * destruct e as [x|x p]; cbn; [discriminate|]. cbn in T. intros H; injection H as <-. exists c; split; auto.
    - destruct (validate_params _ _ _) as [e|] eqn:EV.
      + cbn. destruct e as [x|x p]; cbn; [discriminate|]. intros H; injection H as <-.
        apply validate_params_redirect_err in EV as [-> [NE AL]]. exists c; auto.
      + rewrite run_seq_bind.
        match goal with |- context [start_session w n now c ?s' r] => pose proof (start_session_nav n now c s' r st) as T end.
        destruct (run_seq (start_session w n now c _ r) st) as [st1 a]. cbn in T. cbn.
        apply validate_params_redirect in EV as [NE AL].
        destruct a as [o|e]; cbn.
        * destruct o; cbn; try discriminate. cbn in T. intros H; injection H as <-. exists c; split; auto. left. rewrite T. exact AL.
        * destruct e as [x|x p]; cbn; [discriminate|]. cbn in T. intros H; injection H as <-. exists c; split; auto. left. rewrite T. exact AL.
  Qed.
End Handlers.
