(* Isolation.v — the artifacts of an interactive flow carry the values of the session they were
   produced from (C17 session_isolation). *)
From Verif Require Import Base Scope Types Prog Pop Token Authorize System Config Run Monitors Hoare Tactics Fresh FreshHandlers OneShot C02Proofs C02Handlers.
Local Open Scope N_scope.

Local Opaque contains_all_scopes are_scopes_allowed validate_binding validate_pkce refresh_binding
       validate_params validate_optionals validate_in_out merge_params mint make_token
       validate_jwt set_pop_jkt set_pop_x5t nav_mode contains_openid rt_contains.
Local Transparent render_aerr.

(* what authenticate answers is made of the session it was given (and the policy's verdict): the
   navigation goes to the session's redirect URI with the session's state; a code, if any, is the one
   minted by this very operation (or the one the session already carried); an error to be redirected carries the session's parameters *)
Definition ares_from_session (n : nat) (s : asession) (a : ares) : Prop :=
  match a with
  | ADone (ONav _ u nv) => u = p_redirect (a_params s) /\ n_state nv = p_state (a_params s) /\
                           (n_code nv = 0 \/ n_code nv = a_code s \/ n_code nv = mint n KCode)
  | ADone (OPage cb) => cb = a_cb s
  | AFail (ARedirect _ p') => p' = a_params s
  | _ => True
  end.
Lemma authenticate_from_session w n now s pol st :
  ares_from_session n s (snd (run_seq (authenticate w n now s pol) st)).
Proof.
  unfold authenticate, save_a. destruct pol; cbn [run_seq].
  all: try rewrite run_get_client.
  all: repeat (cbn; auto; break_inner).
  all: cbn; auto.
Qed.

Theorem callback_from_own_session w n now r st :
  match snd (run_seq (continue_auth w n now r) st) with
  | ONav _ u nv =>
      exists s, find (fun s => ideq (a_cb s) (cb_id r)) (st_asess st) = Some s /\
                u = p_redirect (a_params s) /\ n_state nv = p_state (a_params s) /\
                (n_code nv = 0 \/ n_code nv = a_code s \/ n_code nv = mint n KCode)
  | OPage cb => cb = cb_id r
  | _ => True
  end.
Proof.
  unfold continue_auth. destruct (is_nil (cb_id r)); [cbn; auto|].
  cbn. destruct (find _ (st_asess st)) as [s|] eqn:EF; cbn; auto.
  destruct (geb now (a_expires s)); [cbn; auto|].
  rewrite run_seq_bind. pose proof (authenticate_from_session w n now s (cb_pol r) st) as T.
  destruct (run_seq (authenticate w n now s (cb_pol r)) st) as [st1 a]. cbn in T.
  destruct a as [o|e].
  - cbn. destruct o; cbn; auto.
    + exists s. destruct T as [T1 [T2 T3]]. auto.
    + apply find_some in EF as [_ E]. apply N.eqb_eq in E. congruence.
  - rewrite run_get_client. destruct (snd (run_seq (get_client w (a_client s)) st1)) as [c|]; cbn; auto.
    destruct e as [x|x p]; cbn; auto. cbn in T. subst p. exists s; auto.
Qed.
