(* C14Back.v — every artifact of an answer was saved by this very run, by a call that did not
   fail (for every reply of the storage, hence every store and fault plan). *)
From Verif Require Import Base Scope Types Prog Pop Token Authorize System Config FaultLog DcrFault FaultSpec Hoare Tactics C14Base C14Fault.
Local Open Scope N_scope.
Local Open Scope list_scope.

Local Opaque contains_all_scopes are_scopes_allowed validate_binding validate_pkce refresh_binding
       validate_params validate_optionals validate_in_out merge_params validate_jwt validate_pop
       validate_binding_dpop validate_binding_tls set_pop_jkt set_pop_x5t hg_result
       contains_openid nav_mode rt_contains make_token classify has_grant mint
       client_for_par should_use_par.

(* ================================================================================== *)
(* B. every artifact of the answer was saved by this very run, by a call that did not fail *)

Fixpoint all_in {X} (P : X -> Prop) (l : list X) : Prop :=
  match l with [] => True | x :: r => P x /\ all_in P r end.
Lemma all_in_forall {X} (P : X -> Prop) l : all_in P l -> forall x, In x l -> P x.
Proof. induction l as [|y l IH]; cbn; [tauto|]. intros [H1 H2] x [<-|Hx]; auto. Qed.
Lemma all_in_mono {X} (P P' : X -> Prop) l : (forall x, P x -> P' x) -> all_in P l -> all_in P' l.
Proof. intros H. induction l as [|y l IH]; cbn; auto. intros [H1 H2]; split; auto. Qed.
Lemma all_in_app {X} (P : X -> Prop) l1 l2 : all_in P l1 -> all_in P l2 -> all_in P (l1 ++ l2).
Proof. induction l1; cbn; auto. intros [H1 H2] H3; split; auto. Qed.

Definition tok_saved (n : nat) (tr : list ev) (p : id * id) : Prop :=
  match find_gsave tr with
  | Some g => (exists c gt, make_token n c gt = (fst p, g_token g)) /\ (snd p = 0 \/ g_refresh g = snd p)
  | None => False
  end.
Definition idx_saved (get : asession -> id) (tr : list ev) (v : id) : Prop :=
  match find_asave tr with Some s => get s = v | None => False end.

Definition Qback (n : nat) (tr : list ev) (o : out) : Prop :=
  all_in (tok_saved n tr) (out_tokens o) /\ all_in (idx_saved a_code tr) (out_codes o) /\
  all_in (idx_saved a_par tr) (out_request_uris o) /\ all_in (idx_saved a_ciba tr) (out_auth_req_ids o) /\
  all_in (idx_saved a_cb tr) (out_callbacks o).

Lemma tok_saved_app n tr1 tr2 p : tok_saved n tr2 p -> tok_saved n (tr1 ++ tr2) p.
Proof.
  unfold tok_saved. destruct (find_gsave tr2) eqn:E; [|tauto]. rewrite (find_gsave_app tr1 _ _ E). auto.
Qed.
Lemma idx_saved_app get tr1 tr2 v : idx_saved get tr2 v -> idx_saved get (tr1 ++ tr2) v.
Proof.
  unfold idx_saved. destruct (find_asave tr2) eqn:E; [|tauto]. rewrite (find_asave_app tr1 _ _ E). auto.
Qed.
Lemma Qback_closed n : pre_closed (Qback n).
Proof.
  intros tr1 tr2 o (H1 & H2 & H3 & H4 & H5). unfold Qback.
  repeat split; eapply all_in_mono; try eassumption; intros x; first [apply tok_saved_app | apply idx_saved_app].
Qed.

Lemma g_token_with_refresh n now cfg c g : g_token (with_refresh n now cfg c g) = g_token g.
Proof. Local Transparent with_refresh. unfold with_refresh. destruct (should_issue_refresh _ _ _ _); reflexivity. Qed.
Local Opaque with_refresh.

Ltac back_leaf :=
  cbn in *; unfold Qback, tok_saved, idx_saved; cbn;
  repeat split; auto; try discriminate; try congruence;
  try (do 2 eexists; rewrite ?g_token_with_refresh; cbn; eassumption).

Lemma code_grant_back w n now r : wp anyR (code_grant w n now r) (Qback n).
Proof.
  unfold code_grant. do 2 (c14_break; [back_leaf|]). apply wp_bind_closed; [apply Qback_closed|]. intros oc.
  c14_go; back_leaf.
Qed.

Lemma refresh_grant_back w n now r : wp anyR (refresh_grant w n now r) (Qback n).
Proof.
  unfold refresh_grant. do 2 (c14_break; [back_leaf|]). apply wp_bind_closed; [apply Qback_closed|]. intros oc.
  c14_go; back_leaf.
Qed.
Lemma cc_grant_back w n now r : wp anyR (cc_grant w n now r) (Qback n).
Proof.
  unfold cc_grant. c14_break; [back_leaf|]. apply wp_bind_closed; [apply Qback_closed|]. intros oc.
  c14_go; back_leaf.
Qed.
Lemma jwt_bearer_grant_back w n now r : wp anyR (jwt_bearer_grant w n now r) (Qback n).
Proof.
  unfold jwt_bearer_grant. c14_break; [back_leaf|]. apply wp_bind_closed; [apply Qback_closed|]. intros oc.
  c14_go; back_leaf.
Qed.
Lemma ciba_grant_back w n now r : wp anyR (ciba_grant w n now r) (Qback n).
Proof.
  unfold ciba_grant. c14_break; [back_leaf|]. apply wp_bind_closed; [apply Qback_closed|]. intros oc.
  c14_go; back_leaf.
Qed.
Lemma push_auth_back w n now r : wp anyR (push_auth w n now r) (Qback n).
Proof.
  unfold push_auth. c14_break; [back_leaf|]. apply wp_bind_closed; [apply Qback_closed|]. intros oc.
  unfold save_a. c14_go; back_leaf.
Qed.
Lemma init_back_auth_back w n now r : wp anyR (init_back_auth w n now r) (Qback n).
Proof.
  unfold init_back_auth. c14_break; [back_leaf|]. apply wp_bind_closed; [apply Qback_closed|]. intros oc.
  unfold save_a. c14_go; back_leaf.
Qed.

(* ---- answers without artifacts ---- *)
Definition no_artifacts (o : out) : Prop :=
  match o with OErr _ | OIntro _ | OOk | OUserInfo _ => True | _ => False end.
Lemma no_artifacts_back n tr o : no_artifacts o -> Qback n tr o.
Proof. destruct o; cbn; try tauto; intros _; unfold Qback; cbn; tauto. Qed.


Lemma introspect_back w n now r : wp anyR (introspect w now r) (Qback n).
Proof.
  eapply wp_mono; [intros tr o; apply no_artifacts_back|].
  unfold introspect, authenticated, get_client, introspection_info. c14_go; exact I.
Qed.
Lemma revoke_back w n now r : wp anyR (revoke w now r) (Qback n).
Proof.
  eapply wp_mono; [intros tr o; apply no_artifacts_back|].
  unfold revoke, authenticated, get_client, introspection_info. c14_go; exact I.
Qed.
Lemma userinfo_back w n now r : wp anyR (userinfo w now r) (Qback n).
Proof.
  eapply wp_mono; [intros tr o; apply no_artifacts_back|].
  unfold userinfo, get_client. c14_go; exact I.
Qed.
Lemma token_info_back n now p : wp anyR (token_info now p) (Qback n).
Proof.
  eapply wp_mono; [intros tr o; apply no_artifacts_back|].
  unfold token_info, introspection_info. c14_go; exact I.
Qed.
Lemma token_info_from_request_back n now r : wp anyR (token_info_from_request now r) (Qback n).
Proof.
  eapply wp_mono; [intros tr o; apply no_artifacts_back|].
  unfold token_info_from_request, introspection_info. c14_go; exact I.
Qed.

(* ---- the authorization endpoint.  The answer of the no-code tail carries session.AuthCode of the
   session it was given; sessions reached through a callback id or a request_uri carry no code
   (one-index discipline), fresh ones neither ---- *)
Definition Qback_ares (n : nat) (tr : list ev) (a : ares) : Prop :=
  match a with ADone o => Qback n tr o | AFail _ => True end.
Lemma Qback_ares_closed n : pre_closed (Qback_ares n).
Proof. intros tr1 tr2 [o|e]; cbn; auto. apply Qback_closed. Qed.
Lemma back_render n tr cfg c e : Qback n tr (render_aerr cfg c e).
Proof. destruct e; unfold Qback; cbn; tauto. Qed.
Lemma back_finish n tr cfg c a : Qback_ares n tr a -> Qback n tr (finish_ares cfg c a).
Proof. destruct a; cbn; auto. intros _. apply back_render. Qed.

Lemma nz_nil x : is_nil x = true -> nz x = [].
Proof. unfold nz. intros ->. reflexivity. Qed.
Lemma nz_not x : is_nil x = false -> nz x = [x].
Proof. unfold nz. intros ->. reflexivity. Qed.
Ltac back_leaf2 :=
  cbn in *; unfold Qback, tok_saved, idx_saved; cbn;
  repeat match goal with
         | H : is_nil ?x = true |- context [nz ?x] => rewrite (nz_nil x H)
         | H : is_nil ?x = false |- context [nz ?x] => rewrite (nz_not x H)
         | |- context [nz ?x] => destruct (is_nil x) eqn:?
         end;
  repeat match goal with |- context [if is_nil ?x then _ else _] => destruct (is_nil x) eqn:? end;
  cbn; repeat split; auto; try discriminate; try congruence;
  try (do 2 eexists; rewrite ?g_token_with_refresh; cbn; eassumption).

Lemma authenticate_back R w n now s pol : is_nil (a_code s) = true ->
  wp R (authenticate w n now s pol) (Qback_ares n).
Proof.
  intros HC. unfold authenticate, get_client, save_a.
  c14_go; unfold Qback_ares; try exact I; back_leaf2.
Qed.

Lemma start_session_back R w n now c s r : is_nil (a_code s) = true ->
  wp R (start_session w n now c s r) (Qback_ares n).
Proof.
  intros HC. unfold start_session. c14_break; [exact I|]. c14_break; [exact I|]. cbn.
  apply authenticate_back. cbn. exact HC.
Qed.

Lemma bind_finish_back R w n now c s r cfg : is_nil (a_code s) = true ->
  wp R (bind (start_session w n now c s r) (fun a => Ret (finish_ares cfg c a))) (Qback n).
Proof.
  intros HC. apply wp_bind. eapply wp_mono; [|apply start_session_back, HC]. cbn. intros tr a H.
  rewrite app_nil_r. apply back_finish, H.
Qed.

Lemma one_idx_code s : QA1 s -> orb (negb (is_nil (a_cb s))) (negb (is_nil (a_par s))) = true -> is_nil (a_code s) = true.
Proof.
  unfold QA1, n_indexes. destruct (is_nil (a_cb s)), (is_nil (a_par s)), (is_nil (a_code s)), (is_nil (a_ciba s));
    cbn; intros; try discriminate; auto.
Qed.

Lemma Qback_cons n e tr a : Qback n tr a -> Qback n (e :: tr) a.
Proof. intros H. exact (Qback_closed n [e] tr a H). Qed.
Local Opaque start_session render_aerr finish_ares.
Lemma init_auth_back w n now r : wp idxR (init_auth w n now r) (Qback n).
Proof.
  unfold init_auth. c14_break; [back_leaf|].
  apply wp_bind_closed; [apply Qback_closed|]. intros oc. destruct oc as [c|]; [|back_leaf].
  c14_break; [back_leaf|]. c14_break.
  - c14_break; [back_leaf|]. cbn [wp]. intros rp HR. destruct rp; try solve [back_leaf].
    cbn in HR. destruct HR as [HQ HP].
    assert (HC : is_nil (a_code s) = true).
    { apply one_idx_code; auto. rewrite HP. match goal with H : is_nil (p_request_uri _) = false |- _ => rewrite H end.
      apply orb_true_r. }
    destruct_opt_scrut.
    + cbn [wp]. intros rd _. destruct rd; cbn [wp]; first [apply back_render | back_leaf].
    + eapply wp_mono; [|apply bind_finish_back]. { intros tr a H. apply Qback_cons, H. }
      destruct (is_fapi _); cbn; exact HC.
  - destruct_opt_scrut.
    + apply back_render.
    + apply bind_finish_back. reflexivity.
Qed.
Local Transparent start_session render_aerr finish_ares.

Lemma continue_auth_back w n now r : wp idxR (continue_auth w n now r) (Qback n).
Proof.
  unfold continue_auth. c14_break; [back_leaf|]. cbn [wp]. intros rp HR. destruct rp; try solve [back_leaf].
  cbn in HR. destruct HR as [HQ HP].
  assert (HC : is_nil (a_code s) = true).
  { apply one_idx_code; auto. rewrite HP. match goal with H : is_nil (cb_id _) = false |- _ => rewrite H end. reflexivity. }
  c14_break; [back_leaf|].
  eapply wp_mono; [intros tr a H; apply Qback_cons, H|].
  apply wp_bind. eapply wp_mono; [|apply authenticate_back, HC]. cbn. intros tr1 a H.
  destruct a as [o|e].
  - cbn. rewrite app_nil_r. exact H.
  - eapply wp_mono with (Q := fun _ b => forall tr, Qback n tr b); [intros tr2 b Hb; apply Hb|].
    unfold get_client. c14_go; first [apply back_render | back_leaf].
Qed.

(* ---- CIBA notifications: tokens pushed to the client ---- *)
Definition Qback_notif (n : nat) (tr : list ev) (x : bool * list notif) : Prop :=
  all_in (tok_saved n tr) (obs_tokens (Notified (fst x) (snd x))).
Lemma notify_success_back w n now a hg : wp anyR (notify_success w n now a hg) (Qback_notif n).
Proof.
  unfold notify_success, get_client, Qback_notif. c14_go; back_leaf2.
Qed.
Lemma notify_failure_back w n a : wp anyR (notify_failure w a) (Qback_notif n).
Proof.
  unfold notify_failure, get_client, Qback_notif. c14_go; back_leaf2.
Qed.

(* ---- every operation ---- *)
Definition Qback_op (n : nat) (tr : list ev) (x : obs) : Prop :=
  all_in (tok_saved n tr) (obs_tokens x) /\ all_in (idx_saved a_code tr) (lift_out out_codes x) /\
  all_in (idx_saved a_par tr) (lift_out out_request_uris x) /\ all_in (idx_saved a_ciba tr) (lift_out out_auth_req_ids x) /\
  all_in (idx_saved a_cb tr) (lift_out out_callbacks x).

Lemma wp_any_idx {A} (p : prog A) Q : wp anyR p Q -> wp idxR p Q.
Proof.
  revert Q. induction p as [a|c k IH|o p IH]; cbn; intros Q H; auto.
  intros r _. apply IH, H. exact I.
Qed.
Lemma lift_back n (p : prog out) : wp idxR p (Qback n) -> wp idxR (bind p (fun x => Ret (Out x))) (Qback_op n).
Proof.
  intros H. apply wp_bind. eapply wp_mono; [|exact H]. cbn. intros tr a Ha. rewrite app_nil_r. exact Ha.
Qed.

Lemma handler_back w n now o : wp idxR (handler w n now o) (Qback_op n).
Proof.
  destruct o; try destruct g; cbv beta iota zeta delta [handler];
    try match goal with
        | |- wp _ (bind (notify_success _ _ _ _ _) _) _ => idtac
        | |- wp _ (bind (notify_failure _ _) _) _ => idtac
        | |- wp _ (bind _ _) _ => apply lift_back
        end.
  - apply init_auth_back.
  - apply continue_auth_back.
  - apply wp_any_idx, push_auth_back.
  - apply wp_any_idx, cc_grant_back. - apply wp_any_idx, code_grant_back. - apply wp_any_idx, refresh_grant_back.
  - unfold Qback_op; cbn; tauto. - apply wp_any_idx, jwt_bearer_grant_back.
  - apply wp_any_idx, ciba_grant_back.
  - apply wp_any_idx, introspect_back.
  - apply wp_any_idx, revoke_back.
  - apply wp_any_idx, userinfo_back.
  - apply wp_any_idx, token_info_back.
  - apply wp_any_idx, token_info_from_request_back.
  - apply wp_any_idx, init_back_auth_back.
  - apply wp_any_idx. apply wp_bind. eapply wp_mono; [|apply notify_success_back]. cbn. intros tr [ok ns] Ha.
    rewrite app_nil_r. unfold Qback_op, Qback_notif in *. cbn in *. tauto.
  - apply wp_any_idx. apply wp_bind. eapply wp_mono; [|apply (notify_failure_back w n)]. cbn. intros tr [ok ns] Ha.
    rewrite app_nil_r. unfold Qback_op, Qback_notif in *. cbn in *. tauto.
  - unfold Qback_op; cbn; tauto.
Qed.
