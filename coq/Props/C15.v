(* C15 — one-time credentials stay one-time when requests race.
   Statements only; proofs in Proofs/C15Sweeps.v (exhaustive evaluation of every interleaving) and
   Proofs/C15Proofs.v.

   THE PROPERTY IS FALSE ON THE CODE (and therefore on the faithful model): consumption is a lookup
   followed by a separate delete / overwriting save through the storage interfaces, which offer no
   atomic take.  What is proved here is the exact extent of the failure, for the model's scenarios
   (Model/Race.v: one live credential, k identical consuming requests, k = 2 and 3, rotation on and
   off), over EVERY interleaving at storage-call granularity (the property's own quantifier):
     - race_K_classification: two or more requests succeed  <->  the consumption windows overlap
       (a second request's lookup is scheduled before the first consume);
     - race_K_refuted: such a schedule exists (the property fails: known findings K1-K4);
     - race_K_serial: schedules without overlap - in particular the serial one - give at most one success.
   Bound, stated in each theorem: these scenarios; race_schedules su k = all interleavings of k
   requests of (solo_calls su) storage calls each (70 / 34650 schedules for the 4-call flows, 20 /
   1680 for the 3-call flows); requests that are refused make fewer calls and simply drop out.
   Beyond the bound: serial_K_once holds for ARBITRARY worlds, stores with unique index values and
   request pairs. *)
From Verif Require Import Base Scope Types Prog Pop Token Authorize System Config Run Monitors Race RaceUri RaceStrict Fresh OneShot C15Sweeps C15UriDefs C15UriSweeps C15UriProofs C15Proofs C15StrictSweeps C15StrictProofs RaceMixed C15MixedSweeps.
Local Open Scope nat_scope.

(* ---- the schedules quantified over are all of them ---- *)
Theorem all_interleavings_sound : forall counts s, In s (all_interleavings counts) ->
  List.length s = list_sum counts /\ forall i, count_occ Nat.eq_dec s i = nth i counts 0.
Proof. exact all_interleavings_sound_lemma. Qed.
Print Assumptions all_interleavings_sound.

Theorem all_interleavings_complete : forall counts s,
  List.length s = list_sum counts -> (forall i, count_occ Nat.eq_dec s i = nth i counts 0) ->
  In s (all_interleavings counts).
Proof. exact all_interleavings_complete_lemma. Qed.
Print Assumptions all_interleavings_complete.

(* ---- the scenarios are live: the options build, the prefix history is accepted, the consuming
        request succeeds when served alone, and its lookup precedes its consume ---- *)
Theorem race_scenarios_live : forall rotation,
  scn_live (scn_code rotation) = true /\ scn_live (scn_refresh rotation) = true /\
  scn_live (scn_par rotation) = true /\ scn_live (scn_par_page rotation) = true /\
  scn_live (scn_ciba rotation) = true.
Proof. exact live_all. Qed.
Print Assumptions race_scenarios_live.

(* ---- authorization code (window AByCode ... ADel) ---- *)
Theorem race_code_count : forall rotation k sched, k = 2 \/ k = 3 ->
  let su := setup_of (scn_code rotation) in
  In sched (race_schedules su k) -> successes su k sched = race_window_count su k sched.
Proof. exact (kind_count scn_code sweep_code). Qed.
Print Assumptions race_code_count.

Theorem race_code_classification : forall rotation k sched, k = 2 \/ k = 3 ->
  let su := setup_of (scn_code rotation) in
  In sched (race_schedules su k) -> (2 <= successes su k sched <-> race_overlaps su k sched = true).
Proof. exact (kind_classification scn_code sweep_code). Qed.
Print Assumptions race_code_classification.

Theorem race_code_refuted : forall rotation,
  let su := setup_of (scn_code rotation) in
  exists sched, In sched (race_schedules su 2) /\ 2 <= successes su 2 sched.
Proof. intros rotation. exact (some_double_spec _ _ (double_code rotation)). Qed.
Print Assumptions race_code_refuted.

Theorem race_code_serial : forall rotation k sched, k = 2 \/ k = 3 ->
  let su := setup_of (scn_code rotation) in
  In sched (race_schedules su k) -> race_overlaps su k sched = false -> successes su k sched <= 1.
Proof. exact (kind_serial scn_code sweep_code). Qed.
Print Assumptions race_code_serial.

(* ---- rotated refresh token (window GByRefresh ... overwriting GSave), rotation on ---- *)
Theorem race_refresh_count : forall k sched, k = 2 \/ k = 3 ->
  let su := setup_of (scn_refresh true) in
  In sched (race_schedules su k) -> successes su k sched = race_window_count su k sched.
Proof. exact (kind_count refresh_rot_only sweep_refresh_rot' true). Qed.
Print Assumptions race_refresh_count.

Theorem race_refresh_classification : forall k sched, k = 2 \/ k = 3 ->
  let su := setup_of (scn_refresh true) in
  In sched (race_schedules su k) -> (2 <= successes su k sched <-> race_overlaps su k sched = true).
Proof. exact (kind_classification refresh_rot_only sweep_refresh_rot' true). Qed.
Print Assumptions race_refresh_classification.

Theorem race_refresh_refuted :
  let su := setup_of (scn_refresh true) in
  exists sched, In sched (race_schedules su 2) /\ 2 <= successes su 2 sched.
Proof. exact (some_double_spec _ _ double_refresh). Qed.
Print Assumptions race_refresh_refuted.

Theorem race_refresh_serial : forall k sched, k = 2 \/ k = 3 ->
  let su := setup_of (scn_refresh true) in
  In sched (race_schedules su k) -> race_overlaps su k sched = false -> successes su k sched <= 1.
Proof. exact (kind_serial refresh_rot_only sweep_refresh_rot' true). Qed.
Print Assumptions race_refresh_serial.

(* rotation off: the refresh token is not a one-time credential (the property allows its re-use);
   what the model says, and the correspondence checks on the code, is that nothing is consumed:
   every presentation succeeds under every schedule *)
Theorem race_refresh_norotation_reuse : forall k sched, k = 2 \/ k = 3 ->
  let su := setup_of (scn_refresh false) in
  In sched (race_schedules su k) -> successes su k sched = k.
Proof. intros k sched [->| ->]; apply all_succeed_spec; apply sweep_refresh_norot. Qed.
Print Assumptions race_refresh_norotation_reuse.

(* ---- pushed request_uri (window AByPar ... the ASave that clears the index); two policies:
        one that finishes at once (a code is issued) and one that shows a login page ---- *)
Theorem race_request_uri_count : forall rotation k sched, k = 2 \/ k = 3 ->
  (let su := setup_of (scn_par rotation) in
   In sched (race_schedules su k) -> successes su k sched = race_window_count su k sched) /\
  (let su := setup_of (scn_par_page rotation) in
   In sched (race_schedules su k) -> successes su k sched = race_window_count su k sched).
Proof. intros; split; [exact (kind_count scn_par sweep_par _ _ _ H)|exact (kind_count scn_par_page sweep_par_page _ _ _ H)]. Qed.
Print Assumptions race_request_uri_count.

Theorem race_request_uri_classification : forall rotation k sched, k = 2 \/ k = 3 ->
  (let su := setup_of (scn_par rotation) in
   In sched (race_schedules su k) -> (2 <= successes su k sched <-> race_overlaps su k sched = true)) /\
  (let su := setup_of (scn_par_page rotation) in
   In sched (race_schedules su k) -> (2 <= successes su k sched <-> race_overlaps su k sched = true)).
Proof. intros; split; [exact (kind_classification scn_par sweep_par _ _ _ H)|exact (kind_classification scn_par_page sweep_par_page _ _ _ H)]. Qed.
Print Assumptions race_request_uri_classification.

Theorem race_request_uri_refuted : forall rotation,
  (let su := setup_of (scn_par rotation) in
   exists sched, In sched (race_schedules su 2) /\ 2 <= successes su 2 sched) /\
  (let su := setup_of (scn_par_page rotation) in
   exists sched, In sched (race_schedules su 2) /\ 2 <= successes su 2 sched).
Proof. intros rotation; split; [exact (some_double_spec _ _ (double_par rotation))|exact (some_double_spec _ _ (double_par_page rotation))]. Qed.
Print Assumptions race_request_uri_refuted.

Theorem race_request_uri_serial : forall rotation k sched, k = 2 \/ k = 3 ->
  (let su := setup_of (scn_par rotation) in
   In sched (race_schedules su k) -> race_overlaps su k sched = false -> successes su k sched <= 1) /\
  (let su := setup_of (scn_par_page rotation) in
   In sched (race_schedules su k) -> race_overlaps su k sched = false -> successes su k sched <= 1).
Proof. intros; split; [exact (kind_serial scn_par sweep_par _ _ _ H)|exact (kind_serial scn_par_page sweep_par_page _ _ _ H)]. Qed.
Print Assumptions race_request_uri_serial.

(* ---- the pushed request_uri with EVERY response type (Model/RaceUri.v scn_uri; a policy that finishes at once) ----
   With `token` / `id_token` in the response type the authorization endpoint itself issues artifacts (access
   token + its grant session, ID token), AFTER it consumed the pushed session.  For the seven response types,
   rotation on and off:
     race_request_uri_response_types_live: the scenario is live and the storage calls of one accepted request are
        CGet AByPar CGet (ASave|ADel) [GSave]  - the consume precedes the grant save;
     race_request_uri_response_types_count: on EVERY interleaving the number of requests answered with artifacts
        equals the number of lookups scheduled before the first consume; each winner - and nobody else - is handed an
        access token (when the response type has `token`: as many grant sessions are written, the token values are
        pairwise different), a code (`code`), an ID token (`id_token`); and a request whose lookup is scheduled after
        ANY request's consume is refused - the window ends at the consume, it does not reach the grant save;
     _classification / _refuted / _serial as for the other kinds.  The property is REFUTED here too (known finding
     race:request_uri_implicit:rotation=any:overlap, K3: two overlapping requests are BOTH handed access tokens). *)
Theorem race_request_uri_response_types_live : forall rt rotation, In rt ru_resp_types ->
  let su := setup_of (scn_uri rt rotation) in
  scn_live (scn_uri rt rotation) = true /\ solo_log su = ru_solo_log rt /\
  (ru_issues_token rt = true -> consume_pos su < grant_save_pos su /\ grant_save_pos su < solo_calls su).
Proof. exact uri_live_lemma. Qed.
Print Assumptions race_request_uri_response_types_live.

Theorem race_request_uri_response_types_count : forall rt rotation k sched, In rt ru_resp_types -> k = 2 ->
  let su := setup_of (scn_uri rt rotation) in
  In sched (race_schedules su k) ->
  successes su k sched = race_window_count su k sched /\
  tokens_obtained su k sched = (if ru_issues_token rt then successes su k sched else 0) /\
  grants_written su k sched = (if ru_issues_token rt then successes su k sched else 0) /\
  nodup_ids (token_values su k sched) = true /\
  codes_obtained su k sched = (if rt_contains rt "code" then successes su k sched else 0) /\
  idts_obtained su k sched = (if rt_contains rt "id_token" then successes su k sched else 0) /\
  (forall i j, i < k -> j < k -> occ_pos i (consume_pos su) sched 0 < occ_pos j (lookup_pos su) sched 0 ->
     nth j (outcomes su k sched) false = false).
Proof.
  intros rt rotation k sched Hrt -> su Hin.
  destruct (uri_facts_all rt rotation sched Hrt Hin) as [A B C D E F G]. repeat split; assumption.
Qed.
Print Assumptions race_request_uri_response_types_count.

Theorem race_request_uri_response_types_classification : forall rt rotation k sched, In rt ru_resp_types -> k = 2 ->
  let su := setup_of (scn_uri rt rotation) in
  In sched (race_schedules su k) -> (2 <= successes su k sched <-> race_overlaps su k sched = true).
Proof.
  intros rt rotation k sched Hrt -> su Hin. apply classification_of_count.
  exact (uf_count _ _ _ _ (uri_facts_all rt rotation sched Hrt Hin)).
Qed.
Print Assumptions race_request_uri_response_types_classification.

Theorem race_request_uri_response_types_serial : forall rt rotation k sched, In rt ru_resp_types -> k = 2 ->
  let su := setup_of (scn_uri rt rotation) in
  In sched (race_schedules su k) -> race_overlaps su k sched = false -> successes su k sched <= 1.
Proof.
  intros rt rotation k sched Hrt -> su Hin. apply at_most_one_of_count.
  exact (uf_count _ _ _ _ (uri_facts_all rt rotation sched Hrt Hin)).
Qed.
Print Assumptions race_request_uri_response_types_serial.

(* three requests: Proofs/C15UriThree.v (race_request_uri_three_hybrid: every interleaving of three requests for the
   hybrid response type code id_token; race_request_uri_three_code_token_partial: code token, the interleavings that
   follow the three client lookups) - compiled and kernel-checked with the development, but kept out of this file's
   dependencies: coqchk re-runs every sweep an order of magnitude slower than the VM (thorough-tier budget). *)

(* refuted: a schedule of two requests on which both win - with `token` in the response type both are handed an
   access token and two grant sessions are written; and the serial schedule gives exactly one winner *)
Theorem race_request_uri_response_types_refuted : forall rt rotation, In rt ru_resp_types ->
  let su := setup_of (scn_uri rt rotation) in
  (exists sched, In sched (race_schedules su 2) /\ 2 <= successes su 2 sched /\
     (ru_issues_token rt = true -> tokens_obtained su 2 sched = 2 /\ grants_written su 2 sched = 2)) /\
  In (serial 2 (solo_calls su)) (race_schedules su 2) /\
  race_overlaps su 2 (serial 2 (solo_calls su)) = false /\ successes su 2 (serial 2 (solo_calls su)) = 1.
Proof. exact uri_refuted_lemma. Qed.
Print Assumptions race_request_uri_response_types_refuted.

(* ---- CIBA auth_req_id, poll mode (window AByCiba ... ADel) ---- *)
Theorem race_auth_req_id_count : forall rotation k sched, k = 2 \/ k = 3 ->
  let su := setup_of (scn_ciba rotation) in
  In sched (race_schedules su k) -> successes su k sched = race_window_count su k sched.
Proof. exact (kind_count scn_ciba sweep_ciba). Qed.
Print Assumptions race_auth_req_id_count.

Theorem race_auth_req_id_classification : forall rotation k sched, k = 2 \/ k = 3 ->
  let su := setup_of (scn_ciba rotation) in
  In sched (race_schedules su k) -> (2 <= successes su k sched <-> race_overlaps su k sched = true).
Proof. exact (kind_classification scn_ciba sweep_ciba). Qed.
Print Assumptions race_auth_req_id_classification.

Theorem race_auth_req_id_refuted : forall rotation,
  let su := setup_of (scn_ciba rotation) in
  exists sched, In sched (race_schedules su 2) /\ 2 <= successes su 2 sched.
Proof. intros rotation. exact (some_double_spec _ _ (double_ciba rotation)). Qed.
Print Assumptions race_auth_req_id_refuted.

Theorem race_auth_req_id_serial : forall rotation k sched, k = 2 \/ k = 3 ->
  let su := setup_of (scn_ciba rotation) in
  In sched (race_schedules su k) -> race_overlaps su k sched = false -> successes su k sched <= 1.
Proof. exact (kind_serial scn_ciba sweep_ciba). Qed.
Print Assumptions race_auth_req_id_serial.

(* ---- the serial schedule is among the interleavings, has no overlap, and exactly one request
        succeeds on it (so the hypotheses of the _serial theorems are satisfiable) ---- *)
Theorem serial_exactly_one : forall rotation k, k = 2 \/ k = 3 ->
  forall su, In su [setup_of (scn_code rotation); setup_of (scn_refresh true); setup_of (scn_par rotation);
                    setup_of (scn_par_page rotation); setup_of (scn_ciba rotation)] ->
  In (serial k (solo_calls su)) (race_schedules su k) /\
  race_overlaps su k (serial k (solo_calls su)) = false /\ successes su k (serial k (solo_calls su)) = 1.
Proof. exact serial_exactly_one_lemma. Qed.
Print Assumptions serial_exactly_one.

(* ---- what the correspondence compares call sequences with is run_il itself plus a trace ---- *)
Theorem run_il_tr_is_run_il : forall (sched : list nat) (ps : list (prog obs)) st tr,
  fst (run_il_tr sched ps st tr) = run_il sched ps st.
Proof. exact (@run_il_tr_run_il obs). Qed.
Print Assumptions run_il_tr_is_run_il.

(* ---- beyond the scenarios: served one after the other, two presentations of one credential never
        both succeed - for every world, every store in which a non-empty index value identifies at
        most one stored object (true of every reachable store: Fresh.fresh_all_histories), every
        pair of requests carrying the same credential, any operation indexes and clock values ---- *)
Theorem serial_code_once : forall w n1 n2 now1 now2 r1 r2 st,
  a_unique st -> t_code r1 = t_code r2 ->
  is_tokens (snd (run_seq (code_grant w n1 now1 r1) st)) = true ->
  is_tokens (snd (run_seq (code_grant w n2 now2 r2) (fst (run_seq (code_grant w n1 now1 r1) st)))) = true ->
  False.
Proof. exact serial_code_once_lemma. Qed.
Print Assumptions serial_code_once.

Theorem serial_auth_req_id_once : forall w n1 n2 now1 now2 r1 r2 st,
  a_unique st -> t_auth_req r1 = t_auth_req r2 ->
  is_tokens (snd (run_seq (ciba_grant w n1 now1 r1) st)) = true ->
  is_tokens (snd (run_seq (ciba_grant w n2 now2 r2) (fst (run_seq (ciba_grant w n1 now1 r1) st)))) = true ->
  False.
Proof. exact serial_ciba_once_lemma. Qed.
Print Assumptions serial_auth_req_id_once.

Theorem serial_request_uri_once : forall w n1 n2 now1 now2 r1 r2 st,
  a_unique st -> cf_par_enabled (w_cfg w) = true ->
  is_nil (p_request_uri (ar_params r1)) = false ->
  p_request_uri (ar_params r1) = p_request_uri (ar_params r2) ->
  started (snd (run_seq (init_auth w n1 now1 r1) st)) = true ->
  started (snd (run_seq (init_auth w n2 now2 r2) (fst (run_seq (init_auth w n1 now1 r1) st)))) = true ->
  False.
Proof. exact serial_par_once_lemma. Qed.
Print Assumptions serial_request_uri_once.

Theorem serial_refresh_once : forall w n1 n2 now1 now2 r1 r2 st t1 t2,
  fresh n1 st -> cf_refresh_rotation (w_cfg w) = true -> t_refresh r1 = t_refresh r2 ->
  snd (run_seq (refresh_grant w n1 now1 r1) st) = OTokens t1 ->
  snd (run_seq (refresh_grant w n2 now2 r2) (fst (run_seq (refresh_grant w n1 now1 r1) st))) = OTokens t2 ->
  False.
Proof. exact serial_refresh_once_lemma. Qed.
Print Assumptions serial_refresh_once.

(* non-vacuity of the parametric lemmas: the store of the code scenario has unique index values
   (it is reached by a history), the first redemption succeeds, the second is refused *)
Example serial_code_once_applies :
  let su := setup_of (scn_code true) in
  fresh (su_base su) (su_store su) /\
  match su_op su with
  | OpToken GAuthorizationCode r =>
      is_tokens (snd (run_seq (code_grant (su_world su) 1 (su_now su) r) (su_store su))) = true /\
      is_tokens (snd (run_seq (code_grant (su_world su) 2 (su_now su) r)
                   (fst (run_seq (code_grant (su_world su) 1 (su_now su) r) (su_store su))))) = false
  | _ => False
  end.
Proof. exact serial_code_once_applies_lemma. Qed.

(* ================================================================================================== *)
(* ---- STRICT storage (Model/RaceStrict.v exec_strict): a Delete / DeleteByX of something absent is an
        error - a legitimate embedder storage (rows-affected check, compare-and-delete).  There the delete
        is an atomic take and the handlers, which return the error of a failed DeleteAuthnSession, let
        EXACTLY ONE of the racing requests win wherever the consume is the delete: authorization code and
        CIBA auth_req_id, every interleaving of 2 and of 3 requests.  (A handler that drops that error -
        invisible on the lenient storages - yields two winners on the schedule lookup, lookup, delete, delete;
        suite c15 runs every schedule on the real provider over a strict storage and compares.) ---- *)
Theorem race_code_strict_store_one_winner : forall rotation k sched, k = 2 \/ k = 3 ->
  (let su := setup_of (scn_code rotation) in
   In sched (race_schedules su k) -> successes_x exec_strict su k sched = 1) /\
  (let su := setup_of (scn_ciba rotation) in
   In sched (race_schedules su k) -> successes_x exec_strict su k sched = 1).
Proof. exact strict_one_winner_lemma. Qed.
Print Assumptions race_code_strict_store_one_winner.

(* where the consume is an overwriting SAVE (request_uri with a code or a login page, rotated refresh token) the
   strict storage changes nothing: winners = lookups scheduled before the first consume, as on the lenient one *)
Theorem race_strict_store_saves_unchanged : forall rotation sched,
  (let su := setup_of (scn_par rotation) in
   In sched (race_schedules su 2) -> successes_x exec_strict su 2 sched = race_window_count su 2 sched) /\
  (let su := setup_of (scn_par_page rotation) in
   In sched (race_schedules su 2) -> successes_x exec_strict su 2 sched = race_window_count su 2 sched) /\
  (let su := setup_of (scn_refresh true) in
   In sched (race_schedules su 2) -> successes_x exec_strict su 2 sched = race_window_count su 2 sched).
Proof. exact strict_saves_lemma. Qed.
Print Assumptions race_strict_store_saves_unchanged.

(* request_uri x response type on the strict storage: one winner when no code is issued (the consume is the
   Delete: id_token, token, id_token token), the lenient count when one is (the consume is the Save) *)
Theorem race_request_uri_strict_store : forall rt rotation sched, In rt ru_resp_types ->
  let su := setup_of (scn_uri rt rotation) in
  In sched (race_schedules su 2) ->
  successes_x exec_strict su 2 sched = if rt_contains rt "code" then race_window_count su 2 sched else 1.
Proof. exact strict_uri_lemma. Qed.
Print Assumptions race_request_uri_strict_store.

(* the interpreters of Model/RaceStrict.v over the lenient storage are those of Prog.v / Race.v *)
Theorem race_lenient_is_run_il : forall su k sched (ps : list (prog obs)) st,
  run_il_x exec sched ps st = run_il sched ps st /\ successes_x exec su k sched = successes su k sched.
Proof. intros. split; [apply run_il_x_exec|apply successes_x_exec]. Qed.
Print Assumptions race_lenient_is_run_il.

(* the strict storage matters: a schedule on which two requests win on the lenient storage and one on the strict *)
Example strict_store_matters : exists sched,
  let su := setup_of (scn_code true) in
  In sched (race_schedules su 2) /\ successes_x exec su 2 sched = 2 /\ successes_x exec_strict su 2 sched = 1.
Proof. exists [0; 0; 1; 1; 0; 0; 1; 1]. vm_compute. repeat split; auto 60. Qed.

(* ---- END TO END: the racing /authorize requests that present one request_uri and win are each handed a code
        (or a callback id); on the unchanged flow every one of them continues under the ID of the pushed session
        (storage calls  CGet AByPar CGet ASave [GSave]: no delete, no fresh id), so their saves overwrite one
        another and, whatever the schedule, the storage semantics (lenient / strict) and the order in which the
        artifacts are used afterwards (RaceStrict.e2e_outcomes: every callback id continued, every code redeemed),
        EXACTLY ONE token response comes out of the request_uri, and exactly one of the artifacts handed out still
        indexes a session in the store the race leaves behind.  (K3 - two requests START an authorization - is
        thereby confined: it never yields two token responses through codes; the access tokens an implicit /
        hybrid response type issues on the spot are counted by race_request_uri_response_types_count.) ---- *)
Theorem race_request_uri_one_token_response : forall rotation sched strict rev_order,
  (let su := setup_of (scn_par rotation) in
   In sched (race_schedules su 2) ->
   e2e_tokens (sem_of strict) rev_order su 2 sched = 1 /\ live_artifacts (sem_of strict) su 2 sched = 1) /\
  (let su := setup_of (scn_par_page rotation) in
   In sched (race_schedules su 2) ->
   e2e_tokens (sem_of strict) rev_order su 2 sched = 1 /\ live_artifacts (sem_of strict) su 2 sched = 1).
Proof. exact e2e_par_lemma. Qed.
Print Assumptions race_request_uri_one_token_response.

(* three racing requests (34650 / 1680 interleavings), rotation on *)
Theorem race_request_uri_one_token_response_three : forall sched strict rev_order,
  (let su := setup_of (scn_par true) in
   In sched (race_schedules su 3) ->
   e2e_tokens (sem_of strict) rev_order su 3 sched = 1 /\ live_artifacts (sem_of strict) su 3 sched = 1) /\
  (let su := setup_of (scn_par_page true) in
   In sched (race_schedules su 3) ->
   e2e_tokens (sem_of strict) rev_order su 3 sched = 1 /\ live_artifacts (sem_of strict) su 3 sched = 1).
Proof. exact e2e_par_3_lemma. Qed.
Print Assumptions race_request_uri_one_token_response_three.

(* every response type: one token response through the codes when the type has `code`, none otherwise *)
Theorem race_request_uri_response_types_one_token_response : forall rt rotation sched strict rev_order,
  In rt ru_resp_types ->
  let su := setup_of (scn_uri rt rotation) in
  In sched (race_schedules su 2) ->
  e2e_tokens (sem_of strict) rev_order su 2 sched = (if rt_contains rt "code" then 1 else 0) /\
  live_artifacts (sem_of strict) su 2 sched = (if rt_contains rt "code" then 1 else 0).
Proof. exact e2e_uri_lemma. Qed.
Print Assumptions race_request_uri_response_types_one_token_response.

(* non-vacuity: on an overlapping schedule BOTH racing requests are handed a code, one of the two is redeemable *)
Example e2e_overlap_two_codes_one_redeemable :
  let su := setup_of (scn_par true) in let sched := [0; 0; 1; 1; 0; 0; 1; 1] in
  In sched (race_schedules su 2) /\ successes su 2 sched = 2 /\
  e2e_outcomes exec false su 2 sched = [false; true] /\ e2e_outcomes exec true su 2 sched = [false; true].
Proof. vm_compute. repeat split; auto 60. Qed.

(* ================================================================================================== *)
(* ---- MIXED VERDICTS (Model/RaceMixed.v): racing CIBA polls of one auth_req_id that the embedder's validation
        function answers DIFFERENTLY (a polling-interval limiter: slow_down / authorization_pending for one poll,
        success for another; a user who denies while a poll is in flight), then ONE MORE approved poll.
        mx_cases k = every list of k verdicts out of approve / pending / slow_down / deny with at most one approve
        (two approved polls in flight: the known window K4, theorems race_auth_req_id_classification etc.); mx_schedules su vs = every
        interleaving of the polls' storage calls, poll i making the calls of its verdict's unchanged flow.
        The unchanged flow per verdict, one poll served alone: a poll that is told to WAIT looks the session up
        and writes NOTHING. ---- *)
Theorem poll_flows_per_verdict : forall rotation, let su := setup_of (scn_ciba rotation) in
  mx_solo_log su BaApprove = [KCGet; KAGet; KADel; KGSave] /\
  mx_solo_log su BaPending = [KCGet; KAGet] /\
  mx_solo_log su BaSlowDown = [KCGet; KAGet] /\
  mx_solo_log su BaDeny = [KCGet; KAGet; KADel].
Proof. exact sweep_mixed_solo. Qed.
Print Assumptions poll_flows_per_verdict.

(* two racing polls (all 15 verdict lists, rotation on and off, every interleaving), lenient and strict storage:
   AT MOST ONE token response per auth_req_id over the race and the follow-up poll, and on every schedule the polls
   that were told to wait performed exactly CGet AGet (wait_logs_ok) *)
Theorem race_auth_req_id_mixed_verdicts_one_token_response : forall rotation vs sched strict, In vs (mx_cases 2) ->
  let su := setup_of (scn_ciba rotation) in
  In sched (mx_schedules su vs) ->
  mx_tokens (sem_of strict) su vs sched <= 1 /\ wait_logs_ok vs (mx_logs (sem_of strict) su vs sched) = true.
Proof. exact mixed_two_lemma. Qed.
Print Assumptions race_auth_req_id_mixed_verdicts_one_token_response.

(* three racing polls (all 54 verdict lists, 41040 interleavings in all), rotation on and off *)
Theorem race_auth_req_id_mixed_verdicts_one_token_response_three : forall rotation vs sched strict, In vs (mx_cases 3) ->
  let su := setup_of (scn_ciba rotation) in
  In sched (mx_schedules su vs) ->
  mx_tokens (sem_of strict) su vs sched <= 1 /\ wait_logs_ok vs (mx_logs (sem_of strict) su vs sched) = true.
Proof. exact mixed_three_lemma. Qed.
Print Assumptions race_auth_req_id_mixed_verdicts_one_token_response_three.

(* without a deny among the racing polls the count is EXACTLY one: the approved racing poll, or else the follow-up *)
Theorem race_auth_req_id_mixed_verdicts_exactly_one : forall rotation vs sched strict, In vs (mx_cases 2) ->
  existsb (fun v => match v with BaDeny => true | _ => false end) vs = false ->
  let su := setup_of (scn_ciba rotation) in
  In sched (mx_schedules su vs) -> mx_tokens (sem_of strict) su vs sched = 1.
Proof. exact mixed_exact_lemma. Qed.
Print Assumptions race_auth_req_id_mixed_verdicts_exactly_one.

(* non-vacuity: the four verdict pairs are among the cases; on the schedule lookup(B) < delete(A) the approved poll A
   wins and the follow-up is refused; two pending polls leave the session to the follow-up *)
Example mixed_verdicts_cases :
  In [BaApprove; BaPending] (mx_cases 2) /\ In [BaApprove; BaSlowDown] (mx_cases 2) /\
  In [BaApprove; BaDeny] (mx_cases 2) /\ In [BaPending; BaPending] (mx_cases 2) /\
  In [BaPending; BaApprove; BaSlowDown] (mx_cases 3) /\
  (let su := setup_of (scn_ciba true) in
   In [1; 1; 0; 0; 0; 0] (mx_schedules su [BaApprove; BaPending]) /\
   mx_outcomes exec su [BaApprove; BaPending] [1; 1; 0; 0; 0; 0] = [true; false; false] /\
   mx_outcomes exec su [BaPending; BaPending] [0; 1; 1; 0] = [false; false; true] /\
   mx_outcomes exec su [BaApprove; BaDeny] [0; 0; 1; 1; 1; 0; 0] = [true; false; false] /\
   mx_outcomes exec_strict su [BaApprove; BaDeny] [0; 0; 1; 1; 1; 0; 0] = [false; false; false]).
Proof. vm_compute. repeat split; auto 80. Qed.
