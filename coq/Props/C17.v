(* C17 — interactive sessions resume only via their live callback and never mix. *)
From Verif Require Import Base Scope Types Prog Pop Token Authorize System Config Run Monitors Fresh FreshHandlers OneShot HistProps C17Proofs C02Proofs C02Handlers Isolation.
Local Open Scope N_scope.

(* At every moment (every reachable state of every history) a stored session is reachable through
   exactly one of callback id / request_uri / authorization code / auth_req_id. *)
Theorem one_index : forall w dyn ops s,
  In s (st_asess (s_store (fst (run_from w (init_state dyn) 0 ops)))) -> n_indexes s = 1%nat.
Proof. intros w dyn ops s H. exact (proj2 (one_index_all_histories w dyn ops) s H). Qed.
Print Assumptions one_index.

(* The callback endpoint re-enters a policy (shows a page or finishes with a navigation) only if the
   identifier is non-empty and indexes a stored, unexpired session. *)
Theorem callback_live_only : forall w n now r st,
  orb (is_nav (snd (run_seq (continue_auth w n now r) st))) (is_page (snd (run_seq (continue_auth w n now r) st))) = true ->
  exists s, is_nil (cb_id r) = false /\
            find (fun s => ideq (a_cb s) (cb_id r)) (st_asess st) = Some s /\ geb now (a_expires s) = false.
Proof. exact continue_auth_acc. Qed.
Print Assumptions callback_live_only.

(* Over every history: once an interaction has finished through a callback id (navigation away,
   successfully or with an error), that id is never accepted again - neither page nor navigation. *)
Theorem callback_dead_after_finish : forall w dyn ops,
  once_from cons_cb acc_cb (w_cfg w) [] 0 ops (run w dyn ops) = 0.
Proof. exact callback_dead_after_finish_all. Qed.
Print Assumptions callback_dead_after_finish.

(* Over every history: a pushed request_uri that started an authorization never starts another. *)
Theorem request_uri_one_shot : forall w dyn ops,
  once_from cons_par cons_par (w_cfg w) [] 0 ops (run w dyn ops) = 0.
Proof. exact request_uri_once_all. Qed.
Print Assumptions request_uri_one_shot.

(* identifiers are unguessable handles: in every reachable state each non-empty index value was
   minted by an earlier operation and identifies one stored session *)
Theorem session_indexes_unique : forall w dyn (ops : list op) f s1 s2,
  let st := s_store (fst (run_from w (init_state dyn) 0 ops)) in
  In s1 (st_asess st) -> In s2 (st_asess st) -> aget f s1 = aget f s2 -> aget f s1 <> 0 -> a_id s1 = a_id s2.
Proof.
  intros w dyn ops f s1 s2 st H1 H2 E NZ.
  destruct (fresh_all_histories w dyn ops) as [[_ U] _]. exact (U s1 s2 f H1 H2 E NZ).
Qed.
Print Assumptions session_indexes_unique.

(* session isolation at the callback: whatever /authorize/{callback} sends - a navigation with a code,
   implicit tokens or an error, or the next page - is made of the stored session the callback id indexes:
   its redirect URI, its state; the code is the one minted by this very operation (or one that session
   already carried); the page continues under the same callback id.  Together with
   session_indexes_unique (an id indexes ONE session) and C04's code_grant_within_session (the grant
   written at redemption carries the subject, client and granted scopes of the session the code indexed),
   the values established in one session appear only in the artifacts of that session. *)
Theorem callback_artifacts_from_own_session : forall w n now r st,
  match snd (run_seq (continue_auth w n now r) st) with
  | ONav _ u nv =>
      exists s, find (fun s => ideq (a_cb s) (cb_id r)) (st_asess st) = Some s /\
                u = p_redirect (a_params s) /\ n_state nv = p_state (a_params s) /\
                (n_code nv = 0 \/ n_code nv = a_code s \/ n_code nv = mint n KCode)
  | OPage cb => cb = cb_id r
  | _ => True
  end.
Proof. exact callback_from_own_session. Qed.
Print Assumptions callback_artifacts_from_own_session.
