(* C04 — issued tokens never exceed what was granted or what the client may ask for.
   Statements only; proofs are in Proofs/ScopeProofs.v and Proofs/C04Proofs.v. *)
From Verif Require Import Base Scope Types Prog Pop Token Authorize System Config Run Monitors OneShot ScopeProofs Hoare C04Proofs C04More C04Resources C02Proofs C04Artifacts JwtBearerProofs C04Details C04Narrow.
Local Open Scope N_scope.

(* A requested scope string is allowed for a client iff it is empty or every space-separated
   entry is matched by a server scope whose id is a WHOLE space-delimited entry of the client's
   registration (for every registration string, server scope list and request string). *)
Theorem scope_whole_entry : forall cs avail req,
  are_scopes_allowed cs avail req = true <->
  (req = "" \/ forall r, In r (split_sp req) ->
     exists sc, In sc avail /\ sc_matches sc r = true /\ In (sc_id sc) (split_with_spaces cs)).
Proof. exact are_scopes_allowed_iff. Qed.
Print Assumptions scope_whole_entry.

(* In every state reachable by any history of operations (any configuration, any clients, any
   interleaving of client_credentials, jwt-bearer - authenticated or anonymous -, authorization_code,
   implicit, CIBA, refresh chains of any length), the scopes of the current token of every stored
   grant are contained in the scopes that were granted. *)
Theorem issued_within_grant : forall w dyn ops g,
  In g (st_gsess (s_store (fst (run_from w (init_state dyn) 0 ops)))) ->
  contains_all_scopes (g_granted g) (g_active g) = true.
Proof. exact active_within_granted_all_histories. Qed.
Print Assumptions issued_within_grant.

(* Grants without a resource owner (client_credentials): tokens only to a client registered for the
   grant type on a server that enabled it; what is granted is exactly what was requested, which the
   whole-entry rule allows for that client; the grant names the client itself as subject. *)
Theorem ownerless_within_client : forall w n now r st,
  is_tokens (snd (run_seq (cc_grant w n now r) st)) = true ->
  exists c g,
    snd (run_seq (authenticated w (t_cred r)) st) = Some c /\
    has_grant GClientCredentials (cf_grants (w_cfg w)) = true /\
    has_grant GClientCredentials (c_grants c) = true /\
    are_scopes_allowed (c_scopes c) (cf_scopes (w_cfg w)) (t_scope r) = true /\
    st_gsess (fst (run_seq (cc_grant w n now r) st)) = put_gsess g (st_gsess st) /\
    g_granted g = t_scope r /\ g_active g = t_scope r /\ g_client g = c_id c /\ g_subject g = cname (c_id c) /\
    g_type g = GClientCredentials /\ g_refresh g = 0.
Proof. exact cc_grant_post. Qed.
Print Assumptions ownerless_within_client.

(* jwt-bearer (RFC 7523): tokens only on a server that enabled the grant type, to a client registered
   for it - the authenticated client of the request or, for a request that carries no client
   identification at all where the embedder did not require client authentication, the anonymous
   client (registered for jwt-bearer only, for the ids of the server's scopes); what is granted is
   exactly what was requested, which the whole-entry rule allows for that client (the same predicate as
   for client_credentials); the requested resources are among the server's configured ones; the
   subject of the grant written is the one the embedder's assertion handler answered, its client the
   authenticated (or anonymous) one; a refresh token only for a client registered for refresh_token
   (never for the anonymous client). *)
Theorem jwt_bearer_within_client : forall w n now r st,
  is_tokens (snd (run_seq (jwt_bearer_grant w n now r) st)) = true ->
  exists c g sub,
    (snd (run_seq (authenticated w (t_cred r)) st) = Some c \/
     (snd (run_seq (authenticated w (t_cred r)) st) = None /\ c = anonymous_client (w_cfg w) /\
      cr_id (t_cred r) = 0 /\ cf_jwt_bearer_authn_required (w_cfg w) = false)) /\
    has_grant GJwtBearer (cf_grants (w_cfg w)) = true /\
    has_grant GJwtBearer (c_grants c) = true /\
    are_scopes_allowed (c_scopes c) (cf_scopes (w_cfg w)) (t_scope r) = true /\
    (cf_resource_enabled (w_cfg w) = true -> forall x, In x (t_resources r) -> In x (cf_resources (w_cfg w))) /\
    t_assertion r = AsOk sub /\
    st_gsess (fst (run_seq (jwt_bearer_grant w n now r) st)) = put_gsess g (st_gsess st) /\
    g_granted g = t_scope r /\ g_active g = t_scope r /\ g_client g = c_id c /\ g_subject g = sub /\
    g_type g = GJwtBearer /\
    (g_refresh g <> 0 -> has_grant GRefreshToken (c_grants c) = true /\ cf_issue_refresh (w_cfg w) <> IssueNever).
Proof. exact jwt_bearer_grant_post. Qed.
Print Assumptions jwt_bearer_within_client.

(* non-vacuity: an authenticated client obtains tokens (and a refresh token that works) for the
   assertion's subject within its registration, introspection reports that subject and client; a scope
   outside its registration, a client not registered for the grant and a refused assertion get nothing *)
Example jwt_bearer_flow_authenticated :
  match run (ex_jb_world false) []
          [OpToken GJwtBearer (ex_jb_req (mkCred 1 true) "openid email" (AsOk "alice"));
           OpIntrospect (mkQReq (mkCred 1 true) (PExact (mint 0 KAtOpaque)) true);
           OpToken GJwtBearer (ex_jb_req (mkCred 1 true) "openid admin" (AsOk "alice"));
           OpToken GJwtBearer (ex_jb_req (mkCred 2 true) "openid" (AsOk "alice"));
           OpToken GJwtBearer (ex_jb_req (mkCred 1 true) "openid" AsBad);
           OpToken GRefreshToken (mkTReq (mkCred 1 true) (mkBind None 0) "" 0 "" (mint 0 KRefresh) PkEmpty 0 HgOk BaApprove [] AsNone None)] with
  | [Out (OTokens t); Out (OIntro i); Out (OErr EInvalidScope); Out (OErr EUnauthorizedClient); Out (OErr EInvalidGrant); Out (OTokens t2)] =>
      tr_at t = mint 0 KAtOpaque /\ tr_rt t = mint 0 KRefresh /\ tr_idt t = true /\
      in_active i = true /\ in_sub i = "alice" /\ in_client i = 1 /\ in_scope i = "openid email" /\
      tr_at t2 = mint 5 KAtOpaque
  | _ => False end.
Proof. exact ex_jb_authenticated. Qed.

(* ... and a request without any client identification, on a server that allows it, obtains tokens for
   the assertion's subject and the anonymous client (empty client id, no refresh token) for any scope
   of the server, nothing for an unknown scope or without assertion; with identification but a wrong
   credential or an unknown client id: invalid_client; where the embedder requires client
   authentication: invalid_client for the anonymous request *)
Example jwt_bearer_flow_anonymous :
  match run (ex_jb_world false) []
          [OpToken GJwtBearer (ex_jb_req (mkCred 0 false) "openid admin" (AsOk "bob"));
           OpIntrospect (mkQReq (mkCred 1 true) (PExact (mint 0 KAtOpaque)) true);
           OpToken GJwtBearer (ex_jb_req (mkCred 1 false) "openid" (AsOk "bob"));
           OpToken GJwtBearer (ex_jb_req (mkCred 9 true) "openid" (AsOk "bob"));
           OpToken GJwtBearer (ex_jb_req (mkCred 0 false) "openid nope" (AsOk "bob"));
           OpToken GJwtBearer (ex_jb_req (mkCred 0 false) "openid" AsNone)],
        run (ex_jb_world true) [] [OpToken GJwtBearer (ex_jb_req (mkCred 0 false) "openid" (AsOk "bob"))] with
  | [Out (OTokens t); Out (OIntro i); Out (OErr EInvalidClient); Out (OErr EInvalidClient); Out (OErr EInvalidScope); Out (OErr EInvalidGrant)],
    [Out (OErr EInvalidClient)] =>
      tr_at t = mint 0 KAtOpaque /\ tr_rt t = 0 /\
      in_active i = true /\ in_sub i = "bob" /\ in_client i = 0 /\ in_scope i = "openid admin"
  | _, _ => False end.
Proof. exact ex_jb_anonymous. Qed.

(* authorization_code: only to a client registered for the grant type; the grant written carries the
   subject, client and granted scopes of the session the code indexed (identity is truthful), and the
   active scopes are the requested subset of the granted ones *)
Theorem code_grant_within_session : forall w n now r st,
  is_tokens (snd (run_seq (code_grant w n now r) st)) = true ->
  exists s c g,
    find (fun s => ideq (a_code s) (t_code r)) (st_asess st) = Some s /\
    snd (run_seq (authenticated w (t_cred r)) st) = Some c /\
    has_grant GAuthorizationCode (cf_grants (w_cfg w)) = true /\
    has_grant GAuthorizationCode (c_grants c) = true /\
    contains_all_scopes (a_granted s) (t_scope r) = true /\
    st_gsess (fst (run_seq (code_grant w n now r) st)) = put_gsess g (st_gsess st) /\
    g_granted g = a_granted s /\ g_subject g = a_subject s /\ g_client g = a_client s /\ g_code g = a_code s /\
    g_active g = (if is_empty (t_scope r) then a_granted s else t_scope r).
Proof. exact code_grant_types. Qed.
Print Assumptions code_grant_within_session.

(* the authorization endpoint accepts parameters only if the response type is one the client
   registered, the grant types it implies (code / implicit) are registered for the client, and the
   requested scopes pass the whole-entry rule *)
Theorem authorize_types_registered : forall cfg p c,
  validate_params cfg p c = None ->
  mem (p_resp_type p) (c_resp_types c) = true /\
  (rt_contains (p_resp_type p) "code" = true -> has_grant GAuthorizationCode (c_grants c) = true) /\
  (rt_is_implicit (p_resp_type p) = true -> has_grant GImplicit (c_grants c) = true) /\
  (is_empty (p_scopes p) = false -> are_scopes_allowed (c_scopes c) (cf_scopes cfg) (p_scopes p) = true).
Proof. exact validate_params_types. Qed.
Print Assumptions authorize_types_registered.

(* ... and what the authorization endpoint HANDS OUT follows that validation, for every response type -
   code, implicit and the hybrid ones (`code token`, `code id_token`, `code id_token token`), whose
   `token` / `id_token` halves are implicit-grant artifacts: in every reachable state of every history
   (any configuration, clients - also clients whose response_types list values their grant_types do not
   cover - and interleaving; request direct or redeeming a pushed request), a navigation of GET/POST
   /authorize carries a code only for a client registered for authorization_code, and an access token or
   an ID token only for a client registered for implicit *)
Theorem authorize_artifacts_registered : forall w dyn ops n now r m u nv,
  let st := s_store (fst (run_from w (init_state dyn) 0 ops)) in
  snd (run_seq (init_auth w n now r) st) = ONav m u nv ->
  exists c, snd (run_seq (get_client w (ar_client r)) st) = Some c /\
    (is_nil (n_code nv) = false -> has_grant GAuthorizationCode (c_grants c) = true) /\
    (is_nil (n_at nv) = false \/ n_idt nv = true -> has_grant GImplicit (c_grants c) = true).
Proof. exact authorize_artifacts_registered_all. Qed.
Print Assumptions authorize_artifacts_registered.

(* the same at the end of a multi-step interaction: in every reachable state the response type recorded
   in a stored session is aligned with the grant types of the session's client (invariant over all
   histories), so /authorize/{callback} hands a code / access token / ID token only to a client
   registered for the grant type behind it *)
Theorem callback_artifacts_registered : forall w dyn ops n now r m u nv,
  let st := s_store (fst (run_from w (init_state dyn) 0 ops)) in
  snd (run_seq (continue_auth w n now r) st) = ONav m u nv ->
  exists s, find (fun s => ideq (a_cb s) (cb_id r)) (st_asess st) = Some s /\
    forall c, client_of w dyn (a_client s) = Some c ->
      (is_nil (n_code nv) = false -> has_grant GAuthorizationCode (c_grants c) = true) /\
      (is_nil (n_at nv) = false \/ n_idt nv = true -> has_grant GImplicit (c_grants c) = true).
Proof. exact callback_artifacts_registered_all. Qed.
Print Assumptions callback_artifacts_registered.

(* non-vacuity: a static client registered for authorization_code only whose response_types list a hybrid
   value gets a code for `code` and no access token for `code token` *)
Example hybrid_without_implicit_refused :
  let c1 := mkClient 1 false [GAuthorizationCode] ["code"; "code token"] ["https://c/cb"] "openid" CibaNone false false false false false false false 0 false None in
  let w := mkWorld (match build POpenID [WithAuthorizationCodeGrant; WithImplicitGrant] with Some c => c | None => base_config POpenID end) [c1] in
  let p rt := mkParams 0 "https://c/cb" "" rt "openid" "s" "" PkEmpty "" 0 "" 0 "" [] None in
  let a rt := OpAuthorize (mkAReq 1 (p rt) true (PolSuccess "alice" "openid" [] [])) in
  match run w [] [a "code"; a "code token"] with
  | [Out (ONav _ _ n1); Out (ONav _ _ n2)] => is_nil (n_code n1) = false /\ n_at n2 = 0 /\ n_code n2 = 0 /\ n_err n2 = Some EInvalidRequest
  | _ => False end.
Proof. vm_compute. auto. Qed.

(* ---- resource indicators (RFC 8707) ---- *)

(* In every state reachable by any history of operations (any configuration, any clients, any
   interleaving of authorization_code, implicit, CIBA, client_credentials, jwt-bearer and refresh chains of any
   length), the resources the current token of every stored grant is for - the `aud` of a JWT access
   token, the `aud` introspection reports - are among the resources the grant was given. *)
Theorem resources_within_grant : forall w dyn ops g,
  In g (st_gsess (s_store (fst (run_from w (init_state dyn) 0 ops)))) ->
  forall x, In x (g_active_res g) -> In x (g_granted_res g).
Proof. exact resources_within_grant_in. Qed.
Print Assumptions resources_within_grant.

(* For every store and token request: authorization_code and CIBA yield tokens only if every requested
   resource is among those the resource owner granted to the session (an empty grant allows nothing),
   the grant written records exactly the session's granted resources and, as the token's resources,
   the requested ones (all granted ones when none is named); a refresh only if the requested
   resources are among the grant's granted ones, which it leaves untouched; client_credentials and
   jwt-bearer (no resource owner behind the request) only if they are among the server's configured
   resources.  With the feature off
   the `resource` parameter is ignored and nothing is recorded. *)
Theorem resources_decision : forall w n now r st,
  (is_tokens (snd (run_seq (code_grant w n now r) st)) = true ->
   exists s g,
     find (fun s => ideq (a_code s) (t_code r)) (st_asess st) = Some s /\
     st_gsess (fst (run_seq (code_grant w n now r) st)) = put_gsess g (st_gsess st) /\
     (cf_resource_enabled (w_cfg w) = true ->
        (forall x, In x (t_resources r) -> In x (a_granted_res s)) /\ g_granted_res g = a_granted_res s /\
        g_active_res g = (if no_res (t_resources r) then a_granted_res s else t_resources r)) /\
     (cf_resource_enabled (w_cfg w) = false -> g_granted_res g = [] /\ g_active_res g = [])) /\
  (is_tokens (snd (run_seq (ciba_grant w n now r) st)) = true ->
   exists s g,
     find (fun s => ideq (a_ciba s) (t_auth_req r)) (st_asess st) = Some s /\
     st_gsess (fst (run_seq (ciba_grant w n now r) st)) = put_gsess g (st_gsess st) /\
     (cf_resource_enabled (w_cfg w) = true ->
        (forall x, In x (t_resources r) -> In x (a_granted_res s)) /\ g_granted_res g = a_granted_res s /\
        g_active_res g = (if no_res (t_resources r) then a_granted_res s else t_resources r)) /\
     (cf_resource_enabled (w_cfg w) = false -> g_granted_res g = [] /\ g_active_res g = [])) /\
  (forall t, snd (run_seq (refresh_grant w n now r) st) = OTokens t ->
   exists g g',
     find (fun g => ideq (g_refresh g) (t_refresh r)) (st_gsess st) = Some g /\
     st_gsess (fst (run_seq (refresh_grant w n now r) st)) = put_gsess g' (st_gsess st) /\
     g_id g' = g_id g /\ g_granted_res g' = g_granted_res g /\
     (cf_resource_enabled (w_cfg w) = true ->
        (forall x, In x (t_resources r) -> In x (g_granted_res g)) /\
        g_active_res g' = (if no_res (t_resources r) then g_granted_res g else t_resources r)) /\
     (cf_resource_enabled (w_cfg w) = false -> g_active_res g' = g_active_res g)) /\
  (is_tokens (snd (run_seq (cc_grant w n now r) st)) = true ->
   exists g,
     st_gsess (fst (run_seq (cc_grant w n now r) st)) = put_gsess g (st_gsess st) /\
     g_active_res g = g_granted_res g /\
     (cf_resource_enabled (w_cfg w) = true ->
        (forall x, In x (t_resources r) -> In x (cf_resources (w_cfg w))) /\ g_granted_res g = t_resources r) /\
     (cf_resource_enabled (w_cfg w) = false -> g_granted_res g = [])) /\
  (is_tokens (snd (run_seq (jwt_bearer_grant w n now r) st)) = true ->
   exists g,
     st_gsess (fst (run_seq (jwt_bearer_grant w n now r) st)) = put_gsess g (st_gsess st) /\
     g_active_res g = g_granted_res g /\
     (cf_resource_enabled (w_cfg w) = true ->
        (forall x, In x (t_resources r) -> In x (cf_resources (w_cfg w))) /\ g_granted_res g = t_resources r) /\
     (cf_resource_enabled (w_cfg w) = false -> g_granted_res g = [])).
Proof. exact resources_decision_all. Qed.
Print Assumptions resources_decision.

(* what introspection reports as `aud` is the stored grant's: the token's resources for an access
   token, the granted ones for a refresh token (hence, by resources_within_grant, never outside the grant) *)
Theorem introspection_aud_truthful : forall now p st i,
  snd (run_seq (introspection_info now p) st) = i -> in_active i = true ->
  exists g, In g (st_gsess st) /\ g_id g = in_grant i /\
            in_aud i = (if in_refresh i then g_granted_res g else g_active_res g).
Proof. exact introspection_aud_of_grant. Qed.
Print Assumptions introspection_aud_truthful.

(* ---- rich authorization requests (RFC 9396 `authorization_details`) ---- *)

(* The all-of rule.  In every state reachable by any history of operations (any configuration, any
   compare function of the embedder, any clients, any interleaving of authorization_code, implicit,
   CIBA poll / ping / push, client_credentials, jwt-bearer and refresh chains of any length, with
   authorization_details lists mixing supported and unsupported types in any order), EVERY authorization
   detail a stored grant carries - the active ones of its current token and the granted ones - has a
   type among those the server supports.  Proviso: what the embedder itself hands to
   GrantAuthorizationDetails (scripted policy, InitBackAuthFunc) has supported types - the library does
   not look at it. *)
Theorem details_types_supported : forall w dyn ops g,
  Forall (embedder_grants_supported w) ops ->
  In g (st_gsess (s_store (fst (run_from w (init_state dyn) 0 ops)))) ->
  (forall d, In d (g_active_details g) -> In (ad_type d) (cf_auth_detail_types (w_cfg w))) /\
  (forall d, In d (g_granted_details g) -> In (ad_type d) (cf_auth_detail_types (w_cfg w))).
Proof. exact details_types_supported_all. Qed.
Print Assumptions details_types_supported.

(* ... and without any proviso on the embedder: in every reachable state every ACTIVE detail of a stored
   grant - what its current access token carries - has a type the server supports, or is one of the
   details the embedder granted to that grant. *)
Theorem details_supported_or_granted : forall w dyn ops g,
  In g (st_gsess (s_store (fst (run_from w (init_state dyn) 0 ops)))) ->
  forall d, In d (g_active_details g) ->
    In (ad_type d) (cf_auth_detail_types (w_cfg w)) \/ In d (g_granted_details g).
Proof. exact details_supported_or_granted_all. Qed.
Print Assumptions details_supported_or_granted.

(* With the subset-by-equality compare function (the one the documentation of CompareAuthDetailsFunc
   describes, installed by the harness by default): in every reachable state the active details of every
   stored grant are among its granted ones. *)
Theorem details_within_grant : forall w dyn ops g,
  cf_details_cmp (w_cfg w) = CmpSubset ->
  In g (st_gsess (s_store (fst (run_from w (init_state dyn) 0 ops)))) ->
  forall d, In d (g_active_details g) -> In d (g_granted_details g).
Proof. exact details_within_grant_all. Qed.
Print Assumptions details_within_grant.

(* For every store and token request: authorization_code and CIBA yield tokens only if - with rich
   authorization requests enabled and an authorization_details parameter present - EVERY requested detail
   has a type the server supports AND the embedder's compare function accepted the list against the
   details granted to the session; the grant written records the session's granted details and, as the
   token's details, the requested ones (all granted ones when the parameter is absent).  A refresh: the
   same against the grant's granted details, which it leaves untouched; the response reports the stored
   active details.  client_credentials (no resource owner): only if every requested type is supported,
   granted = active = requested.  jwt-bearer: the same type check, and no detail is recorded.  With the
   feature off the parameter is ignored and nothing is recorded. *)
Theorem details_decision : forall w n now r st,
  (is_tokens (snd (run_seq (code_grant w n now r) st)) = true ->
   exists s g,
     find (fun s => ideq (a_code s) (t_code r)) (st_asess st) = Some s /\
     st_gsess (fst (run_seq (code_grant w n now r) st)) = put_gsess g (st_gsess st) /\
     (cf_auth_details_enabled (w_cfg w) = true ->
        (forall l, t_auth_details r = Some l ->
           (forall d, In d l -> In (ad_type d) (cf_auth_detail_types (w_cfg w))) /\
           compare_details (cf_details_cmp (w_cfg w)) (a_granted_details s) l = true) /\
        g_granted_details g = a_granted_details s /\
        g_active_details g = (match t_auth_details r with Some l => l | None => a_granted_details s end)) /\
     (cf_auth_details_enabled (w_cfg w) = false -> g_granted_details g = [] /\ g_active_details g = [])) /\
  (is_tokens (snd (run_seq (ciba_grant w n now r) st)) = true ->
   exists s g,
     find (fun s => ideq (a_ciba s) (t_auth_req r)) (st_asess st) = Some s /\
     st_gsess (fst (run_seq (ciba_grant w n now r) st)) = put_gsess g (st_gsess st) /\
     (cf_auth_details_enabled (w_cfg w) = true ->
        (forall l, t_auth_details r = Some l ->
           (forall d, In d l -> In (ad_type d) (cf_auth_detail_types (w_cfg w))) /\
           compare_details (cf_details_cmp (w_cfg w)) (a_granted_details s) l = true) /\
        g_granted_details g = a_granted_details s /\
        g_active_details g = (match t_auth_details r with Some l => l | None => a_granted_details s end)) /\
     (cf_auth_details_enabled (w_cfg w) = false -> g_granted_details g = [] /\ g_active_details g = [])) /\
  (forall t, snd (run_seq (refresh_grant w n now r) st) = OTokens t ->
   exists g g',
     find (fun g => ideq (g_refresh g) (t_refresh r)) (st_gsess st) = Some g /\
     st_gsess (fst (run_seq (refresh_grant w n now r) st)) = put_gsess g' (st_gsess st) /\
     g_id g' = g_id g /\ g_granted_details g' = g_granted_details g /\
     (cf_auth_details_enabled (w_cfg w) = true ->
        (forall l, t_auth_details r = Some l ->
           (forall d, In d l -> In (ad_type d) (cf_auth_detail_types (w_cfg w))) /\
           compare_details (cf_details_cmp (w_cfg w)) (g_granted_details g) l = true) /\
        g_active_details g' = (match t_auth_details r with Some l => l | None => g_granted_details g end)) /\
     (cf_auth_details_enabled (w_cfg w) = false -> g_active_details g' = g_active_details g) /\
     tr_details t = g_active_details g' /\ (forall d, In d (tr_jwt_details t) -> In d (g_active_details g'))) /\
  (is_tokens (snd (run_seq (cc_grant w n now r) st)) = true ->
   exists g,
     st_gsess (fst (run_seq (cc_grant w n now r) st)) = put_gsess g (st_gsess st) /\
     g_active_details g = g_granted_details g /\
     (cf_auth_details_enabled (w_cfg w) = true ->
        (forall l, t_auth_details r = Some l -> forall d, In d l -> In (ad_type d) (cf_auth_detail_types (w_cfg w))) /\
        g_granted_details g = (match t_auth_details r with Some l => l | None => [] end)) /\
     (cf_auth_details_enabled (w_cfg w) = false -> g_granted_details g = [])) /\
  (is_tokens (snd (run_seq (jwt_bearer_grant w n now r) st)) = true ->
   exists g,
     st_gsess (fst (run_seq (jwt_bearer_grant w n now r) st)) = put_gsess g (st_gsess st) /\
     g_active_details g = [] /\ g_granted_details g = [] /\
     (cf_auth_details_enabled (w_cfg w) = true ->
        forall l, t_auth_details r = Some l -> forall d, In d l -> In (ad_type d) (cf_auth_detail_types (w_cfg w)))).
Proof. exact details_decision_all. Qed.
Print Assumptions details_decision.

(* the authorization endpoint (and /par, /bc-authorize, which run the same validator): accepted
   parameters name only authorization-detail types the server supports and the client registered
   (a client that registered none may use any supported type) *)
Theorem authorize_details_supported : forall cfg p c,
  validate_params cfg p c = None ->
  cf_auth_details_enabled cfg = true -> forall l, p_auth_details p = Some l -> forall x, In x l ->
    In (ad_type x) (cf_auth_detail_types cfg) /\ client_detail_type_allowed c (ad_type x) = true.
Proof. exact authorize_details_supported_all. Qed.
Print Assumptions authorize_details_supported.

(* what introspection / TokenInfo report as authorization_details is the stored grant's: the active
   details for an access token, the granted ones for a refresh token *)
Theorem introspection_details_truthful : forall now p st i,
  snd (run_seq (introspection_info now p) st) = i -> in_active i = true ->
  exists g, In g (st_gsess st) /\ g_id g = in_grant i /\
            in_details i = (if in_refresh i then g_granted_details g else g_active_details g).
Proof. exact introspection_details_of_grant. Qed.
Print Assumptions introspection_details_truthful.

(* non-vacuity (Proofs/C04Details.v details_flow_exists): with two supported types and the subset compare
   function, a code exchange / client_credentials request mixing a supported with an unsupported type is
   refused whatever the order, a refresh naming an ungranted detail of a supported type is refused, a refresh
   naming nothing returns to the full grant, /authorize refuses a mixed list *)
Example details_flow : ex_det_ops <> [] /\ embedder_grants_supported
    (mkWorld (match build POpenID [WithAuthorizationDetails CmpSubset "payment_initiation" ["account_information"]]
              with Some c => c | None => base_config POpenID end) [])
    (OpAuthorize (mkAReq 1 empty_params true (PolSuccess "alice" "openid" [] [ex_d1; ex_d2]))).
Proof.
  split; [discriminate|]. intros d Hd. cbn in Hd. destruct Hd as [<-|[<-|[]]]; vm_compute; auto.
Qed.

(* The grant is fixed when the user approves.  The embedder's ValidateBackAuthFunc may approve a backchannel
   request AND narrow the session at that moment (verdict BaNarrow of the model: the granted scopes become
   narrowed_scopes).  Whatever the store and the request: such a poll yields tokens only if the scopes it
   names lie inside the NARROWED grant, and the grant it stores has the narrowed scopes as its granted scopes
   and, as active scopes, the request's (or the narrowed grant when the request names none) - the request is
   validated against the session as the callback left it, not as it was before. *)
Theorem ciba_grant_fixed_at_approval : forall w n now r st st' t,
  t_ba r = BaNarrow ->
  run_seq (ciba_grant w n now r) st = (st', OTokens t) ->
  contains_all_scopes narrowed_scopes (t_scope r) = true /\
  exists g, In g (st_gsess st') /\ g_granted g = narrowed_scopes /\
            g_active g = (if is_empty (t_scope r) then narrowed_scopes else t_scope r).
Proof. exact ciba_narrowed_request_within. Qed.
Print Assumptions ciba_grant_fixed_at_approval.

(* satisfiable, and it is the narrowing that refuses: of three requests granted `openid email`, the poll
   (narrow, scope email) gets nothing, (narrow, no scope) and (approve, scope email) get tokens *)
Example ciba_narrowing_example : nx_run = Some [true; false; true; true; true; true].
Proof. exact narrowing_refuses_the_dropped_scope. Qed.
