(* C04 — issued tokens never exceed what was granted or what the client may ask for.
   Statements only; proofs are in Proofs/ScopeProofs.v and Proofs/C04Proofs.v. *)
From Verif Require Import Base Scope Types Prog Pop Token Authorize System Config Run Monitors OneShot ScopeProofs Hoare C04Proofs C04More.
Local Open Scope N_scope.

(* A requested scope string is allowed for a client iff it is empty or every space-separated
   entry is matched by a server scope whose id is a WHOLE space-delimited entry of the client's
   registration (for every registration string, server scope list and request string). *)
Theorem scope_whole_entry : forall cs avail req,
  are_scopes_allowed cs avail req = true <->
  (req = "" \/ forall r, In r (split_sp req) ->
     exists sc, In sc avail /\ sc_matches sc r = true /\ In (sc_id sc) (split_with_spaces cs)).
Proof. exact are_scopes_allowed_iff. Qed.
Print Assumptions scope_whole_entry.

(* In every state reachable by any history of operations (any configuration, any clients, refresh
   chains of any length), the scopes of the current token of every stored grant are contained in
   the scopes that were granted. *)
Theorem issued_within_grant : forall w dyn ops g,
  In g (st_gsess (s_store (fst (run_from w (init_state dyn) 0 ops)))) ->
  contains_all_scopes (g_granted g) (g_active g) = true.
Proof. exact active_within_granted_all_histories. Qed.
Print Assumptions issued_within_grant.

(* Grants without a resource owner (client_credentials): tokens only to a client registered for the
   grant type on a server that enabled it; what is granted is exactly what was requested, which the
   whole-entry rule allows for that client; the grant names the client itself as subject. *)
Theorem ownerless_within_client : forall w n now r st,
  is_tokens (snd (run_seq (cc_grant w n now r) st)) = true ->
  exists c g,
    snd (run_seq (authenticated w (t_cred r)) st) = Some c /\
    has_grant GClientCredentials (cf_grants (w_cfg w)) = true /\
    has_grant GClientCredentials (c_grants c) = true /\
    are_scopes_allowed (c_scopes c) (cf_scopes (w_cfg w)) (t_scope r) = true /\
    st_gsess (fst (run_seq (cc_grant w n now r) st)) = put_gsess g (st_gsess st) /\
    g_granted g = t_scope r /\ g_active g = t_scope r /\ g_client g = c_id c /\ g_subject g = cname (c_id c) /\
    g_type g = GClientCredentials /\ g_refresh g = 0.
Proof. exact cc_grant_post. Qed.
Print Assumptions ownerless_within_client.

(* authorization_code: only to a client registered for the grant type; the grant written carries the
   subject, client and granted scopes of the session the code indexed (identity is truthful), and the
   active scopes are the requested subset of the granted ones *)
Theorem code_grant_within_session : forall w n now r st,
  is_tokens (snd (run_seq (code_grant w n now r) st)) = true ->
  exists s c g,
    find (fun s => ideq (a_code s) (t_code r)) (st_asess st) = Some s /\
    snd (run_seq (authenticated w (t_cred r)) st) = Some c /\
    has_grant GAuthorizationCode (cf_grants (w_cfg w)) = true /\
    has_grant GAuthorizationCode (c_grants c) = true /\
    contains_all_scopes (a_granted s) (t_scope r) = true /\
    st_gsess (fst (run_seq (code_grant w n now r) st)) = put_gsess g (st_gsess st) /\
    g_granted g = a_granted s /\ g_subject g = a_subject s /\ g_client g = a_client s /\ g_code g = a_code s /\
    g_active g = (if is_empty (t_scope r) then a_granted s else t_scope r).
Proof. exact code_grant_types. Qed.
Print Assumptions code_grant_within_session.

(* the authorization endpoint accepts parameters only if the response type is one the client
   registered, the grant types it implies (code / implicit) are registered for the client, and the
   requested scopes pass the whole-entry rule *)
Theorem authorize_types_registered : forall cfg p c,
  validate_params cfg p c = None ->
  mem (p_resp_type p) (c_resp_types c) = true /\
  (rt_contains (p_resp_type p) "code" = true -> has_grant GAuthorizationCode (c_grants c) = true) /\
  (rt_is_implicit (p_resp_type p) = true -> has_grant GImplicit (c_grants c) = true) /\
  (is_empty (p_scopes p) = false -> are_scopes_allowed (c_scopes c) (cf_scopes cfg) (p_scopes p) = true).
Proof. exact validate_params_types. Qed.
Print Assumptions authorize_types_registered.
