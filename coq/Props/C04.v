(* C04 — issued tokens never exceed what was granted or what the client may ask for.
   Statements only; proofs are in Proofs/ScopeProofs.v and Proofs/C04Proofs.v. *)
From Verif Require Import Base Scope Types Prog Pop Token Authorize System Config ScopeProofs Hoare C04Proofs.

(* A requested scope string is allowed for a client iff it is empty or every space-separated
   entry is matched by a server scope whose id is a WHOLE space-delimited entry of the client's
   registration (for every registration string, server scope list and request string). *)
Theorem scope_whole_entry : forall cs avail req,
  are_scopes_allowed cs avail req = true <->
  (req = "" \/ forall r, In r (split_sp req) ->
     exists sc, In sc avail /\ sc_matches sc r = true /\ In (sc_id sc) (split_with_spaces cs)).
Proof. exact are_scopes_allowed_iff. Qed.
Print Assumptions scope_whole_entry.

(* In every state reachable by any history of operations (any configuration, any clients, refresh
   chains of any length), the scopes of the current token of every stored grant are contained in
   the scopes that were granted. *)
Theorem issued_within_grant : forall w dyn ops g,
  In g (st_gsess (s_store (fst (run_from w (init_state dyn) 0 ops)))) ->
  contains_all_scopes (g_granted g) (g_active g) = true.
Proof. exact active_within_granted_all_histories. Qed.
Print Assumptions issued_within_grant.
