(* C04 — issued tokens never exceed what was granted or what the client may ask for.
   Statements only; proofs are in Proofs/ScopeProofs.v and Proofs/C04Proofs.v. *)
From Verif Require Import Base Scope Types Prog Pop Token Authorize System Config Run Monitors OneShot ScopeProofs Hoare C04Proofs C04More C04Resources C02Proofs C04Artifacts.
Local Open Scope N_scope.

(* A requested scope string is allowed for a client iff it is empty or every space-separated
   entry is matched by a server scope whose id is a WHOLE space-delimited entry of the client's
   registration (for every registration string, server scope list and request string). *)
Theorem scope_whole_entry : forall cs avail req,
  are_scopes_allowed cs avail req = true <->
  (req = "" \/ forall r, In r (split_sp req) ->
     exists sc, In sc avail /\ sc_matches sc r = true /\ In (sc_id sc) (split_with_spaces cs)).
Proof. exact are_scopes_allowed_iff. Qed.
Print Assumptions scope_whole_entry.

(* In every state reachable by any history of operations (any configuration, any clients, refresh
   chains of any length), the scopes of the current token of every stored grant are contained in
   the scopes that were granted. *)
Theorem issued_within_grant : forall w dyn ops g,
  In g (st_gsess (s_store (fst (run_from w (init_state dyn) 0 ops)))) ->
  contains_all_scopes (g_granted g) (g_active g) = true.
Proof. exact active_within_granted_all_histories. Qed.
Print Assumptions issued_within_grant.

(* Grants without a resource owner (client_credentials): tokens only to a client registered for the
   grant type on a server that enabled it; what is granted is exactly what was requested, which the
   whole-entry rule allows for that client; the grant names the client itself as subject. *)
Theorem ownerless_within_client : forall w n now r st,
  is_tokens (snd (run_seq (cc_grant w n now r) st)) = true ->
  exists c g,
    snd (run_seq (authenticated w (t_cred r)) st) = Some c /\
    has_grant GClientCredentials (cf_grants (w_cfg w)) = true /\
    has_grant GClientCredentials (c_grants c) = true /\
    are_scopes_allowed (c_scopes c) (cf_scopes (w_cfg w)) (t_scope r) = true /\
    st_gsess (fst (run_seq (cc_grant w n now r) st)) = put_gsess g (st_gsess st) /\
    g_granted g = t_scope r /\ g_active g = t_scope r /\ g_client g = c_id c /\ g_subject g = cname (c_id c) /\
    g_type g = GClientCredentials /\ g_refresh g = 0.
Proof. exact cc_grant_post. Qed.
Print Assumptions ownerless_within_client.

(* authorization_code: only to a client registered for the grant type; the grant written carries the
   subject, client and granted scopes of the session the code indexed (identity is truthful), and the
   active scopes are the requested subset of the granted ones *)
Theorem code_grant_within_session : forall w n now r st,
  is_tokens (snd (run_seq (code_grant w n now r) st)) = true ->
  exists s c g,
    find (fun s => ideq (a_code s) (t_code r)) (st_asess st) = Some s /\
    snd (run_seq (authenticated w (t_cred r)) st) = Some c /\
    has_grant GAuthorizationCode (cf_grants (w_cfg w)) = true /\
    has_grant GAuthorizationCode (c_grants c) = true /\
    contains_all_scopes (a_granted s) (t_scope r) = true /\
    st_gsess (fst (run_seq (code_grant w n now r) st)) = put_gsess g (st_gsess st) /\
    g_granted g = a_granted s /\ g_subject g = a_subject s /\ g_client g = a_client s /\ g_code g = a_code s /\
    g_active g = (if is_empty (t_scope r) then a_granted s else t_scope r).
Proof. exact code_grant_types. Qed.
Print Assumptions code_grant_within_session.

(* the authorization endpoint accepts parameters only if the response type is one the client
   registered, the grant types it implies (code / implicit) are registered for the client, and the
   requested scopes pass the whole-entry rule *)
Theorem authorize_types_registered : forall cfg p c,
  validate_params cfg p c = None ->
  mem (p_resp_type p) (c_resp_types c) = true /\
  (rt_contains (p_resp_type p) "code" = true -> has_grant GAuthorizationCode (c_grants c) = true) /\
  (rt_is_implicit (p_resp_type p) = true -> has_grant GImplicit (c_grants c) = true) /\
  (is_empty (p_scopes p) = false -> are_scopes_allowed (c_scopes c) (cf_scopes cfg) (p_scopes p) = true).
Proof. exact validate_params_types. Qed.
Print Assumptions authorize_types_registered.

(* ... and what the authorization endpoint HANDS OUT follows that validation, for every response type -
   code, implicit and the hybrid ones (`code token`, `code id_token`, `code id_token token`), whose
   `token` / `id_token` halves are implicit-grant artifacts: in every reachable state of every history
   (any configuration, clients - also clients whose response_types list values their grant_types do not
   cover - and interleaving; request direct or redeeming a pushed request), a navigation of GET/POST
   /authorize carries a code only for a client registered for authorization_code, and an access token or
   an ID token only for a client registered for implicit *)
Theorem authorize_artifacts_registered : forall w dyn ops n now r m u nv,
  let st := s_store (fst (run_from w (init_state dyn) 0 ops)) in
  snd (run_seq (init_auth w n now r) st) = ONav m u nv ->
  exists c, snd (run_seq (get_client w (ar_client r)) st) = Some c /\
    (is_nil (n_code nv) = false -> has_grant GAuthorizationCode (c_grants c) = true) /\
    (is_nil (n_at nv) = false \/ n_idt nv = true -> has_grant GImplicit (c_grants c) = true).
Proof. exact authorize_artifacts_registered_all. Qed.
Print Assumptions authorize_artifacts_registered.

(* the same at the end of a multi-step interaction: in every reachable state the response type recorded
   in a stored session is aligned with the grant types of the session's client (invariant over all
   histories), so /authorize/{callback} hands a code / access token / ID token only to a client
   registered for the grant type behind it *)
Theorem callback_artifacts_registered : forall w dyn ops n now r m u nv,
  let st := s_store (fst (run_from w (init_state dyn) 0 ops)) in
  snd (run_seq (continue_auth w n now r) st) = ONav m u nv ->
  exists s, find (fun s => ideq (a_cb s) (cb_id r)) (st_asess st) = Some s /\
    forall c, client_of w dyn (a_client s) = Some c ->
      (is_nil (n_code nv) = false -> has_grant GAuthorizationCode (c_grants c) = true) /\
      (is_nil (n_at nv) = false \/ n_idt nv = true -> has_grant GImplicit (c_grants c) = true).
Proof. exact callback_artifacts_registered_all. Qed.
Print Assumptions callback_artifacts_registered.

(* non-vacuity: a static client registered for authorization_code only whose response_types list a hybrid
   value gets a code for `code` and no access token for `code token` *)
Example hybrid_without_implicit_refused :
  let c1 := mkClient 1 false [GAuthorizationCode] ["code"; "code token"] ["https://c/cb"] "openid" CibaNone false false false false false false false 0 false in
  let w := mkWorld (match build POpenID [WithAuthorizationCodeGrant; WithImplicitGrant] with Some c => c | None => base_config POpenID end) [c1] in
  let p rt := mkParams 0 "https://c/cb" "" rt "openid" "s" "" PkEmpty "" 0 "" 0 "" [] in
  let a rt := OpAuthorize (mkAReq 1 (p rt) true (PolSuccess "alice" "openid" [])) in
  match run w [] [a "code"; a "code token"] with
  | [Out (ONav _ _ n1); Out (ONav _ _ n2)] => is_nil (n_code n1) = false /\ n_at n2 = 0 /\ n_code n2 = 0 /\ n_err n2 = Some EInvalidRequest
  | _ => False end.
Proof. vm_compute. auto. Qed.

(* ---- resource indicators (RFC 8707) ---- *)

(* In every state reachable by any history of operations (any configuration, any clients, any
   interleaving of authorization_code, implicit, CIBA, client_credentials, jwt-bearer and refresh chains of any
   length), the resources the current token of every stored grant is for - the `aud` of a JWT access
   token, the `aud` introspection reports - are among the resources the grant was given. *)
Theorem resources_within_grant : forall w dyn ops g,
  In g (st_gsess (s_store (fst (run_from w (init_state dyn) 0 ops)))) ->
  forall x, In x (g_active_res g) -> In x (g_granted_res g).
Proof. exact resources_within_grant_in. Qed.
Print Assumptions resources_within_grant.

(* For every store and token request: authorization_code and CIBA yield tokens only if every requested
   resource is among those the resource owner granted to the session (an empty grant allows nothing),
   the grant written records exactly the session's granted resources and, as the token's resources,
   the requested ones (all granted ones when none is named); a refresh only if the requested
   resources are among the grant's granted ones, which it leaves untouched; client_credentials and
   jwt-bearer (no resource owner behind the request) only if they are among the server's configured
   resources.  With the feature off
   the `resource` parameter is ignored and nothing is recorded. *)
Theorem resources_decision : forall w n now r st,
  (is_tokens (snd (run_seq (code_grant w n now r) st)) = true ->
   exists s g,
     find (fun s => ideq (a_code s) (t_code r)) (st_asess st) = Some s /\
     st_gsess (fst (run_seq (code_grant w n now r) st)) = put_gsess g (st_gsess st) /\
     (cf_resource_enabled (w_cfg w) = true ->
        (forall x, In x (t_resources r) -> In x (a_granted_res s)) /\ g_granted_res g = a_granted_res s /\
        g_active_res g = (if no_res (t_resources r) then a_granted_res s else t_resources r)) /\
     (cf_resource_enabled (w_cfg w) = false -> g_granted_res g = [] /\ g_active_res g = [])) /\
  (is_tokens (snd (run_seq (ciba_grant w n now r) st)) = true ->
   exists s g,
     find (fun s => ideq (a_ciba s) (t_auth_req r)) (st_asess st) = Some s /\
     st_gsess (fst (run_seq (ciba_grant w n now r) st)) = put_gsess g (st_gsess st) /\
     (cf_resource_enabled (w_cfg w) = true ->
        (forall x, In x (t_resources r) -> In x (a_granted_res s)) /\ g_granted_res g = a_granted_res s /\
        g_active_res g = (if no_res (t_resources r) then a_granted_res s else t_resources r)) /\
     (cf_resource_enabled (w_cfg w) = false -> g_granted_res g = [] /\ g_active_res g = [])) /\
  (forall t, snd (run_seq (refresh_grant w n now r) st) = OTokens t ->
   exists g g',
     find (fun g => ideq (g_refresh g) (t_refresh r)) (st_gsess st) = Some g /\
     st_gsess (fst (run_seq (refresh_grant w n now r) st)) = put_gsess g' (st_gsess st) /\
     g_id g' = g_id g /\ g_granted_res g' = g_granted_res g /\
     (cf_resource_enabled (w_cfg w) = true ->
        (forall x, In x (t_resources r) -> In x (g_granted_res g)) /\
        g_active_res g' = (if no_res (t_resources r) then g_granted_res g else t_resources r)) /\
     (cf_resource_enabled (w_cfg w) = false -> g_active_res g' = g_active_res g)) /\
  (is_tokens (snd (run_seq (cc_grant w n now r) st)) = true ->
   exists g,
     st_gsess (fst (run_seq (cc_grant w n now r) st)) = put_gsess g (st_gsess st) /\
     g_active_res g = g_granted_res g /\
     (cf_resource_enabled (w_cfg w) = true ->
        (forall x, In x (t_resources r) -> In x (cf_resources (w_cfg w))) /\ g_granted_res g = t_resources r) /\
     (cf_resource_enabled (w_cfg w) = false -> g_granted_res g = [])) /\
  (is_tokens (snd (run_seq (jwt_bearer_grant w n now r) st)) = true ->
   exists g,
     st_gsess (fst (run_seq (jwt_bearer_grant w n now r) st)) = put_gsess g (st_gsess st) /\
     g_active_res g = g_granted_res g /\
     (cf_resource_enabled (w_cfg w) = true ->
        (forall x, In x (t_resources r) -> In x (cf_resources (w_cfg w))) /\ g_granted_res g = t_resources r) /\
     (cf_resource_enabled (w_cfg w) = false -> g_granted_res g = [])).
Proof. exact resources_decision_all. Qed.
Print Assumptions resources_decision.

(* what introspection reports as `aud` is the stored grant's: the token's resources for an access
   token, the granted ones for a refresh token (hence, by resources_within_grant, never outside the grant) *)
Theorem introspection_aud_truthful : forall now p st i,
  snd (run_seq (introspection_info now p) st) = i -> in_active i = true ->
  exists g, In g (st_gsess st) /\ g_id g = in_grant i /\
            in_aud i = (if in_refresh i then g_granted_res g else g_active_res g).
Proof. exact introspection_aud_of_grant. Qed.
Print Assumptions introspection_aud_truthful.
