(* C11 — mechanisms configured as required cannot be bypassed.
   Statements only; proofs in Proofs/ConfigProofs.v, Proofs/Rets.v, Proofs/C11Proofs.v; the
   "same request carrying the mechanism succeeds" halves are the Examples of Proofs/C11Examples.v.

   Every theorem is about `step_g` (Model/Required.v), the step function the c11 correspondence
   suite evaluates: Authorize.v/Token.v handlers with the request-object decisions of
   jar.go/ciba.go in front.  `xrefused x` = the answer x carries no code, access token, id token,
   callback page, request_uri or auth_req_id.  Configurations are exactly those the option API
   builds: `build p opts = Some cfg`, for ALL option lists; `st` ranges over all states. *)
From Verif Require Import Base Scope Types Prog Pop Token Authorize System Config Required Rets ConfigProofs C11Proofs.
Local Open Scope N_scope.

(* "required" options set the required flag AND enable the mechanism, whatever else is in the list
   and in whatever order (no option clears a flag); validate guarantees a mechanism for
   WithTokenBindingRequired.  Includes the flags whose run-time decision is only partly modelled
   (JAR, CIBA JAR: requests without request object; jwt-bearer client authentication: flag only). *)
Theorem required_options_set_flags : forall p opts cfg, build p opts = Some cfg ->
  (forall l, In (WithPARRequired l) opts -> cf_par_required cfg = true /\ cf_par_enabled cfg = true) /\
  (In WithJARRequired opts -> cf_jar_required cfg = true /\ cf_jar_enabled cfg = true) /\
  (In WithCIBAJARRequired opts -> cf_ciba_jar_required cfg = true /\ cf_ciba_jar_enabled cfg = true) /\
  (forall d ms, In (WithPKCERequired d ms) opts -> cf_pkce_required cfg = true /\ cf_pkce_enabled cfg = true) /\
  (In WithDPoPRequired opts -> cf_dpop_required cfg = true /\ cf_dpop_enabled cfg = true) /\
  (In WithTLSCertTokenBindingRequired opts -> cf_tls_binding_required cfg = true /\ cf_tls_binding_enabled cfg = true) /\
  (In WithTokenBindingRequired opts ->
     cf_binding_required cfg = true /\ (cf_dpop_enabled cfg = true \/ cf_tls_binding_enabled cfg = true)) /\
  (In WithOpenIDScopeRequired opts -> cf_openid_required cfg = true) /\
  (forall r l, In (WithResourceIndicatorsRequired r l) opts -> cf_resource_required cfg = true /\ cf_resource_enabled cfg = true) /\
  (In WithJWTBearerGrantClientAuthnRequired opts -> cf_jwt_bearer_authn_required cfg = true) /\
  cf_profile cfg = p.
Proof. exact all_required_flags. Qed.
Print Assumptions required_options_set_flags.

(* ---- pushed authorization requests ---- *)
Theorem par_required_enforced : forall p opts cfg statics, build p opts = Some cfg ->
  forall st n l r, In (WithPARRequired l) opts -> p_request_uri (ar_params r) = 0 ->
  xrefused (snd (step_g (mkWorld cfg statics) st n (OpAuthorize r))).
Proof. exact C11Proofs.par_required_enforced. Qed.
Print Assumptions par_required_enforced.

Theorem client_par_required_enforced : forall cfg statics st n r, cf_par_enabled cfg = true ->
  (forall c, registered (mkWorld cfg statics) st c -> c_id c = ar_client r -> c_par_required c = true) ->
  p_request_uri (ar_params r) = 0 ->
  xrefused (snd (step_g (mkWorld cfg statics) st n (OpAuthorize r))).
Proof. exact C11Proofs.client_par_required_enforced. Qed.
Print Assumptions client_par_required_enforced.

(* ---- request objects (requests without one; a valid request object is not modelled) ---- *)
Theorem jar_required_enforced : forall p opts cfg statics, build p opts = Some cfg ->
  forall st n r, In WithJARRequired opts -> p_request_uri (ar_params r) = 0 ->
  xrefused (snd (step_g (mkWorld cfg statics) st n (OpAuthorize r))).
Proof. exact C11Proofs.jar_required_enforced. Qed.
Print Assumptions jar_required_enforced.

Theorem client_jar_required_enforced : forall cfg statics st n r, cf_jar_enabled cfg = true ->
  (forall c, registered (mkWorld cfg statics) st c -> c_id c = ar_client r -> c_jar_required c = true) ->
  p_request_uri (ar_params r) = 0 ->
  xrefused (snd (step_g (mkWorld cfg statics) st n (OpAuthorize r))).
Proof. exact C11Proofs.client_jar_required_enforced. Qed.
Print Assumptions client_jar_required_enforced.

Theorem jar_required_enforced_par : forall p opts cfg statics, build p opts = Some cfg ->
  forall st n r, In WithJARRequired opts -> xrefused (snd (step_g (mkWorld cfg statics) st n (OpPar r))).
Proof. exact C11Proofs.jar_required_enforced_par. Qed.
Print Assumptions jar_required_enforced_par.

Theorem ciba_jar_required_enforced : forall p opts cfg statics, build p opts = Some cfg ->
  forall st n r, In WithCIBAJARRequired opts -> xrefused (snd (step_g (mkWorld cfg statics) st n (OpBcAuthorize r))).
Proof. exact C11Proofs.ciba_jar_required_enforced. Qed.
Print Assumptions ciba_jar_required_enforced.

(* ---- PKCE ---- *)
Theorem pkce_required_enforced : forall p opts cfg statics, build p opts = Some cfg ->
  forall st n d ms r, In (WithPKCERequired d ms) opts ->
  p_request_uri (ar_params r) = 0 -> pk_is_empty (p_challenge (ar_params r)) = true ->
  xrefused (snd (step_g (mkWorld cfg statics) st n (OpAuthorize r))).
Proof. exact C11Proofs.pkce_required_enforced. Qed.
Print Assumptions pkce_required_enforced.

Theorem pkce_public_client_enforced : forall cfg statics st n r, cf_pkce_enabled cfg = true ->
  (forall c, registered (mkWorld cfg statics) st c -> c_id c = ar_client r -> c_public c = true) ->
  p_request_uri (ar_params r) = 0 -> pk_is_empty (p_challenge (ar_params r)) = true ->
  xrefused (snd (step_g (mkWorld cfg statics) st n (OpAuthorize r))).
Proof. exact C11Proofs.pkce_public_client_enforced. Qed.
Print Assumptions pkce_public_client_enforced.

(* ---- openid scope, resource indicators ---- *)
Theorem openid_required_enforced : forall p opts cfg statics, build p opts = Some cfg ->
  forall st n r, In WithOpenIDScopeRequired opts ->
  p_request_uri (ar_params r) = 0 -> contains_openid (p_scopes (ar_params r)) = false ->
  xrefused (snd (step_g (mkWorld cfg statics) st n (OpAuthorize r))).
Proof. exact C11Proofs.openid_required_enforced. Qed.
Print Assumptions openid_required_enforced.

Theorem openid_required_enforced_ciba : forall p opts cfg statics, build p opts = Some cfg ->
  forall st n r, In WithOpenIDScopeRequired opts ->
  contains_openid (p_scopes (br_params r)) = false -> cf_ciba_jar_enabled cfg = false ->
  xrefused (snd (step_g (mkWorld cfg statics) st n (OpBcAuthorize r))).
Proof. exact C11Proofs.openid_required_enforced_ciba. Qed.
Print Assumptions openid_required_enforced_ciba.

(* under the switch an authorization request without a `resource` parameter is never served *)
Theorem resource_required_enforced : forall p opts cfg statics, build p opts = Some cfg ->
  forall st n r res l, In (WithResourceIndicatorsRequired res l) opts -> p_request_uri (ar_params r) = 0 ->
  p_resources (ar_params r) = [] ->
  xrefused (snd (step_g (mkWorld cfg statics) st n (OpAuthorize r))).
Proof. exact C11Proofs.resource_required_enforced. Qed.
Print Assumptions resource_required_enforced.

(* ---- the profiles' restrictions ---- *)
Theorem fapi1_enforced : forall p opts cfg statics, build p opts = Some cfg ->
  forall st n r, p = PFapi1 -> p_request_uri (ar_params r) = 0 ->
  (seqb (p_resp_type (ar_params r)) "code" = false /\ seqb (p_resp_type (ar_params r)) "code id_token" = false) \/
  (seqb (p_resp_type (ar_params r)) "code" = true /\ seqb (p_resp_mode (ar_params r)) "jwt" = false) \/
  (contains_openid (p_scopes (ar_params r)) = true /\ is_empty (p_nonce (ar_params r)) = true) ->
  xrefused (snd (step_g (mkWorld cfg statics) st n (OpAuthorize r))).
Proof. exact C11Proofs.fapi1_enforced. Qed.
Print Assumptions fapi1_enforced.

Theorem fapi2_enforced : forall p opts cfg statics, build p opts = Some cfg ->
  forall st n r, p = PFapi2 -> p_request_uri (ar_params r) = 0 ->
  seqb (p_resp_type (ar_params r)) "code" = false ->
  xrefused (snd (step_g (mkWorld cfg statics) st n (OpAuthorize r))).
Proof. exact C11Proofs.fapi2_enforced. Qed.
Print Assumptions fapi2_enforced.

(* ---- sender constraining: the grants that write a new grant session (client_credentials,
        authorization_code, CIBA; the model answers unsupported_grant_type for the others) ---- *)
Theorem dpop_required_enforced : forall p opts cfg statics, build p opts = Some cfg ->
  forall st n g r, In WithDPoPRequired opts -> g <> GRefreshToken -> b_dpop (t_bind r) = None ->
  xrefused (snd (step_g (mkWorld cfg statics) st n (OpToken g r))).
Proof. exact C11Proofs.dpop_required_enforced. Qed.
Print Assumptions dpop_required_enforced.

Theorem client_dpop_required_enforced : forall cfg statics st n g r, cf_dpop_enabled cfg = true -> g <> GRefreshToken ->
  (forall c, registered (mkWorld cfg statics) st c -> c_id c = cr_id (t_cred r) -> c_dpop_required c = true) ->
  b_dpop (t_bind r) = None ->
  xrefused (snd (step_g (mkWorld cfg statics) st n (OpToken g r))).
Proof. exact C11Proofs.client_dpop_required_enforced. Qed.
Print Assumptions client_dpop_required_enforced.

Theorem tls_binding_required_enforced : forall p opts cfg statics, build p opts = Some cfg ->
  forall st n g r, In WithTLSCertTokenBindingRequired opts -> g <> GRefreshToken -> b_cert (t_bind r) = 0 ->
  xrefused (snd (step_g (mkWorld cfg statics) st n (OpToken g r))).
Proof. exact C11Proofs.tls_binding_required_enforced. Qed.
Print Assumptions tls_binding_required_enforced.

Theorem client_tls_required_enforced : forall cfg statics st n g r, cf_tls_binding_enabled cfg = true -> g <> GRefreshToken ->
  (forall c, registered (mkWorld cfg statics) st c -> c_id c = cr_id (t_cred r) -> c_tls_required c = true) ->
  b_cert (t_bind r) = 0 ->
  xrefused (snd (step_g (mkWorld cfg statics) st n (OpToken g r))).
Proof. exact C11Proofs.client_tls_required_enforced. Qed.
Print Assumptions client_tls_required_enforced.

Theorem binding_required_enforced : forall p opts cfg statics, build p opts = Some cfg ->
  forall st n g r, In WithTokenBindingRequired opts -> g <> GRefreshToken ->
  b_dpop (t_bind r) = None -> b_cert (t_bind r) = 0 ->
  xrefused (snd (step_g (mkWorld cfg statics) st n (OpToken g r))).
Proof. exact C11Proofs.binding_required_enforced. Qed.
Print Assumptions binding_required_enforced.

(* the implicit flow (fix 6551f83): a token from /authorize can only be bound through dpop_jkt *)
Theorem implicit_binding_enforced : forall p opts cfg statics, build p opts = Some cfg ->
  forall st n r, In WithDPoPRequired opts \/ In WithTokenBindingRequired opts ->
  p_request_uri (ar_params r) = 0 -> rt_contains (p_resp_type (ar_params r)) "token" = true ->
  is_nil (p_dpop_jkt (ar_params r)) = true ->
  xrefused (snd (step_g (mkWorld cfg statics) st n (OpAuthorize r))).
Proof. exact C11Proofs.implicit_binding_enforced. Qed.
Print Assumptions implicit_binding_enforced.

(* refresh (as the code does: the requirement follows the grant): a grant bound to a key /
   certificate is not refreshed without a proof / certificate, for public and confidential clients *)
Theorem refresh_bound_needs_proof : forall cfg c b g,
  cf_dpop_enabled cfg = true -> is_nil (g_jkt g) = false -> b_dpop b = None -> refresh_binding cfg c b g <> None.
Proof. exact refresh_needs_proof. Qed.
Print Assumptions refresh_bound_needs_proof.
Theorem refresh_bound_needs_cert : forall cfg c b g,
  cf_tls_binding_enabled cfg = true -> is_nil (g_x5t g) = false -> b_cert b = 0 -> refresh_binding cfg c b g <> None.
Proof. exact refresh_needs_cert. Qed.
Print Assumptions refresh_bound_needs_cert.
