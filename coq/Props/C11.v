(* C11 — mechanisms configured as required cannot be bypassed.
   Statements only; proofs in Proofs/ConfigProofs.v, Proofs/Rets.v, Proofs/C11Proofs.v; the
   "same request carrying the mechanism succeeds" halves are the Examples of Proofs/C11Examples.v.

   Every theorem is about `step_g` (Model/Required.v), the step function the c11 correspondence
   suite evaluates: Authorize.v/Token.v handlers with the request-object decisions of
   jar.go/ciba.go in front.  `xrefused x` = the answer x carries no code, access token, id token,
   callback page, request_uri or auth_req_id.  Configurations are exactly those the option API
   builds: `build p opts = Some cfg`, for ALL option lists; `st` ranges over all states.

   The last section is about `step_gj` (Model/RequiredJar.v), the step function the c11jar suite
   evaluates: requests that CARRY a request object (by value or by reference at /authorize, by
   value at /par), through Model/Jar.v's init_auth_jar / push_auth_jar.  `session_source` is the
   parameter set the session is built from: the object's alone under a FAPI profile, the object's
   with the outer parameters filling the gaps otherwise. *)
From Verif Require Import Base Scope Types Prog Pop Token Authorize System Config Required Rets ConfigProofs C11Proofs.
From Verif Require Import Jar RequiredJar C11JarProofs C11JarPar.
From Verif Require Import Run Monitors PkceProofs.
From Verif.Corr Require C11Eff.
Local Open Scope N_scope.

(* "required" options set the required flag AND enable the mechanism, whatever else is in the list
   and in whatever order (no option clears a flag); validate guarantees a mechanism for
   WithTokenBindingRequired.  Includes the flags whose run-time decision is only partly modelled
   (JAR, CIBA JAR: requests without request object; jwt-bearer client authentication: flag only). *)
Theorem required_options_set_flags : forall p opts cfg, build p opts = Some cfg ->
  (forall l, In (WithPARRequired l) opts -> cf_par_required cfg = true /\ cf_par_enabled cfg = true) /\
  (In WithJARRequired opts -> cf_jar_required cfg = true /\ cf_jar_enabled cfg = true) /\
  (In WithCIBAJARRequired opts -> cf_ciba_jar_required cfg = true /\ cf_ciba_jar_enabled cfg = true) /\
  (forall d ms, In (WithPKCERequired d ms) opts -> cf_pkce_required cfg = true /\ cf_pkce_enabled cfg = true) /\
  (In WithDPoPRequired opts -> cf_dpop_required cfg = true /\ cf_dpop_enabled cfg = true) /\
  (In WithTLSCertTokenBindingRequired opts -> cf_tls_binding_required cfg = true /\ cf_tls_binding_enabled cfg = true) /\
  (In WithTokenBindingRequired opts ->
     cf_binding_required cfg = true /\ (cf_dpop_enabled cfg = true \/ cf_tls_binding_enabled cfg = true)) /\
  (In WithOpenIDScopeRequired opts -> cf_openid_required cfg = true) /\
  (forall r l, In (WithResourceIndicatorsRequired r l) opts -> cf_resource_required cfg = true /\ cf_resource_enabled cfg = true) /\
  (In WithJWTBearerGrantClientAuthnRequired opts -> cf_jwt_bearer_authn_required cfg = true) /\
  cf_profile cfg = p.
Proof. exact all_required_flags. Qed.
Print Assumptions required_options_set_flags.

(* ---- pushed authorization requests ---- *)
Theorem par_required_enforced : forall p opts cfg statics, build p opts = Some cfg ->
  forall st n l r, In (WithPARRequired l) opts -> p_request_uri (ar_params r) = 0 ->
  xrefused (snd (step_g (mkWorld cfg statics) st n (OpAuthorize r))).
Proof. exact C11Proofs.par_required_enforced. Qed.
Print Assumptions par_required_enforced.

Theorem client_par_required_enforced : forall cfg statics st n r, cf_par_enabled cfg = true ->
  (forall c, registered (mkWorld cfg statics) st c -> c_id c = ar_client r -> c_par_required c = true) ->
  p_request_uri (ar_params r) = 0 ->
  xrefused (snd (step_g (mkWorld cfg statics) st n (OpAuthorize r))).
Proof. exact C11Proofs.client_par_required_enforced. Qed.
Print Assumptions client_par_required_enforced.

(* ---- request objects (requests without one; a valid request object is not modelled) ---- *)
Theorem jar_required_enforced : forall p opts cfg statics, build p opts = Some cfg ->
  forall st n r, In WithJARRequired opts -> p_request_uri (ar_params r) = 0 ->
  xrefused (snd (step_g (mkWorld cfg statics) st n (OpAuthorize r))).
Proof. exact C11Proofs.jar_required_enforced. Qed.
Print Assumptions jar_required_enforced.

Theorem client_jar_required_enforced : forall cfg statics st n r, cf_jar_enabled cfg = true ->
  (forall c, registered (mkWorld cfg statics) st c -> c_id c = ar_client r -> c_jar_required c = true) ->
  p_request_uri (ar_params r) = 0 ->
  xrefused (snd (step_g (mkWorld cfg statics) st n (OpAuthorize r))).
Proof. exact C11Proofs.client_jar_required_enforced. Qed.
Print Assumptions client_jar_required_enforced.

Theorem jar_required_enforced_par : forall p opts cfg statics, build p opts = Some cfg ->
  forall st n r, In WithJARRequired opts -> xrefused (snd (step_g (mkWorld cfg statics) st n (OpPar r))).
Proof. exact C11Proofs.jar_required_enforced_par. Qed.
Print Assumptions jar_required_enforced_par.

Theorem ciba_jar_required_enforced : forall p opts cfg statics, build p opts = Some cfg ->
  forall st n r, In WithCIBAJARRequired opts -> xrefused (snd (step_g (mkWorld cfg statics) st n (OpBcAuthorize r))).
Proof. exact C11Proofs.ciba_jar_required_enforced. Qed.
Print Assumptions ciba_jar_required_enforced.

(* ---- PKCE ---- *)
Theorem pkce_required_enforced : forall p opts cfg statics, build p opts = Some cfg ->
  forall st n d ms r, In (WithPKCERequired d ms) opts ->
  p_request_uri (ar_params r) = 0 -> pk_is_empty (p_challenge (ar_params r)) = true ->
  xrefused (snd (step_g (mkWorld cfg statics) st n (OpAuthorize r))).
Proof. exact C11Proofs.pkce_required_enforced. Qed.
Print Assumptions pkce_required_enforced.

Theorem pkce_public_client_enforced : forall cfg statics st n r, cf_pkce_enabled cfg = true ->
  (forall c, registered (mkWorld cfg statics) st c -> c_id c = ar_client r -> c_public c = true) ->
  p_request_uri (ar_params r) = 0 -> pk_is_empty (p_challenge (ar_params r)) = true ->
  xrefused (snd (step_g (mkWorld cfg statics) st n (OpAuthorize r))).
Proof. exact C11Proofs.pkce_public_client_enforced. Qed.
Print Assumptions pkce_public_client_enforced.

(* PKCE cannot be downgraded at the token endpoint either ("supplied with a disabled method"): over ALL
   histories of every built configuration, a code whose session recorded a challenge is redeemed only with
   a verifier that matches the challenge under an ENABLED method - the one the authorization request
   named, else the server's default, which is itself an enabled method.  In particular, with S256 the only
   enabled method, a challenge sent WITHOUT code_challenge_method cannot be redeemed by presenting the
   challenge string as the verifier.  pkce_enabled_match is the predicate of the monitor's clause 12. *)
Theorem pkce_no_downgrade_at_token_endpoint : forall iss mtls p opts cfg statics, build p opts = Some cfg ->
  forall dyn ops n now r,
  let st := s_store (fst (run_from (mkWorld cfg statics) (init_state dyn) 0 ops)) in
  is_tokens (snd (run_seq (code_grant (mkWorld cfg statics) n now r) st)) = true ->
  exists s, find (fun s => ideq (a_code s) (t_code r)) (st_asess st) = Some s /\
    (cf_pkce_enabled cfg = true -> pk_is_empty (p_challenge (a_params s)) = false ->
       exists m, Discovery.advertised_in iss mtls cfg Discovery.MCodeChallengeMethods m = true /\ mem m (cf_pkce_methods cfg) = true /\
                 is_pkce_valid (t_verifier r) (p_challenge (a_params s)) m = true /\
                 C11Eff.pkce_enabled_match cfg (a_params s) (t_verifier r) = true).
Proof. exact exchange_under_advertised_method_all. Qed.
Print Assumptions pkce_no_downgrade_at_token_endpoint.

(* the default method of every built configuration with PKCE on is one of its enabled methods *)
Theorem pkce_default_is_enabled : forall p opts cfg, build p opts = Some cfg -> cf_pkce_enabled cfg = true ->
  mem (cf_pkce_default cfg) (cf_pkce_methods cfg) = true.
Proof. exact build_pkce_default_listed. Qed.
Print Assumptions pkce_default_is_enabled.

(* ---- openid scope, resource indicators ---- *)
Theorem openid_required_enforced : forall p opts cfg statics, build p opts = Some cfg ->
  forall st n r, In WithOpenIDScopeRequired opts ->
  p_request_uri (ar_params r) = 0 -> contains_openid (p_scopes (ar_params r)) = false ->
  xrefused (snd (step_g (mkWorld cfg statics) st n (OpAuthorize r))).
Proof. exact C11Proofs.openid_required_enforced. Qed.
Print Assumptions openid_required_enforced.

Theorem openid_required_enforced_ciba : forall p opts cfg statics, build p opts = Some cfg ->
  forall st n r, In WithOpenIDScopeRequired opts ->
  contains_openid (p_scopes (br_params r)) = false -> cf_ciba_jar_enabled cfg = false ->
  xrefused (snd (step_g (mkWorld cfg statics) st n (OpBcAuthorize r))).
Proof. exact C11Proofs.openid_required_enforced_ciba. Qed.
Print Assumptions openid_required_enforced_ciba.

(* under the switch an authorization request without a `resource` parameter is never served *)
Theorem resource_required_enforced : forall p opts cfg statics, build p opts = Some cfg ->
  forall st n r res l, In (WithResourceIndicatorsRequired res l) opts -> p_request_uri (ar_params r) = 0 ->
  p_resources (ar_params r) = [] ->
  xrefused (snd (step_g (mkWorld cfg statics) st n (OpAuthorize r))).
Proof. exact C11Proofs.resource_required_enforced. Qed.
Print Assumptions resource_required_enforced.

(* ---- the profiles' restrictions ---- *)
Theorem fapi1_enforced : forall p opts cfg statics, build p opts = Some cfg ->
  forall st n r, p = PFapi1 -> p_request_uri (ar_params r) = 0 ->
  (seqb (p_resp_type (ar_params r)) "code" = false /\ seqb (p_resp_type (ar_params r)) "code id_token" = false) \/
  (seqb (p_resp_type (ar_params r)) "code" = true /\ seqb (p_resp_mode (ar_params r)) "jwt" = false) \/
  (contains_openid (p_scopes (ar_params r)) = true /\ is_empty (p_nonce (ar_params r)) = true) ->
  xrefused (snd (step_g (mkWorld cfg statics) st n (OpAuthorize r))).
Proof. exact C11Proofs.fapi1_enforced. Qed.
Print Assumptions fapi1_enforced.

Theorem fapi2_enforced : forall p opts cfg statics, build p opts = Some cfg ->
  forall st n r, p = PFapi2 -> p_request_uri (ar_params r) = 0 ->
  seqb (p_resp_type (ar_params r)) "code" = false ->
  xrefused (snd (step_g (mkWorld cfg statics) st n (OpAuthorize r))).
Proof. exact C11Proofs.fapi2_enforced. Qed.
Print Assumptions fapi2_enforced.

(* ---- sender constraining: the grants that write a new grant session (client_credentials,
        authorization_code, jwt-bearer, CIBA; the model answers unsupported_grant_type for implicit).
        A requirement of the server binds every request, the anonymous jwt-bearer request included; a
        requirement registered for a client binds the requests that name this client - a jwt-bearer
        request that names nobody is served on behalf of the anonymous client (where the embedder did
        not set WithJWTBearerGrantClientAuthnRequired), which has no registration. ---- *)
Theorem dpop_required_enforced : forall p opts cfg statics, build p opts = Some cfg ->
  forall st n g r, In WithDPoPRequired opts -> g <> GRefreshToken -> b_dpop (t_bind r) = None ->
  xrefused (snd (step_g (mkWorld cfg statics) st n (OpToken g r))).
Proof. exact C11Proofs.dpop_required_enforced. Qed.
Print Assumptions dpop_required_enforced.

Theorem client_dpop_required_enforced : forall cfg statics st n g r, cf_dpop_enabled cfg = true -> g <> GRefreshToken ->
  (forall c, registered (mkWorld cfg statics) st c -> c_id c = cr_id (t_cred r) -> c_dpop_required c = true) ->
  (g = GJwtBearer -> cr_id (t_cred r) <> 0 \/ cf_jwt_bearer_authn_required cfg = true) ->
  b_dpop (t_bind r) = None ->
  xrefused (snd (step_g (mkWorld cfg statics) st n (OpToken g r))).
Proof. exact C11Proofs.client_dpop_required_enforced. Qed.
Print Assumptions client_dpop_required_enforced.

Theorem tls_binding_required_enforced : forall p opts cfg statics, build p opts = Some cfg ->
  forall st n g r, In WithTLSCertTokenBindingRequired opts -> g <> GRefreshToken -> b_cert (t_bind r) = 0 ->
  xrefused (snd (step_g (mkWorld cfg statics) st n (OpToken g r))).
Proof. exact C11Proofs.tls_binding_required_enforced. Qed.
Print Assumptions tls_binding_required_enforced.

Theorem client_tls_required_enforced : forall cfg statics st n g r, cf_tls_binding_enabled cfg = true -> g <> GRefreshToken ->
  (forall c, registered (mkWorld cfg statics) st c -> c_id c = cr_id (t_cred r) -> c_tls_required c = true) ->
  (g = GJwtBearer -> cr_id (t_cred r) <> 0 \/ cf_jwt_bearer_authn_required cfg = true) ->
  b_cert (t_bind r) = 0 ->
  xrefused (snd (step_g (mkWorld cfg statics) st n (OpToken g r))).
Proof. exact C11Proofs.client_tls_required_enforced. Qed.
Print Assumptions client_tls_required_enforced.

Theorem binding_required_enforced : forall p opts cfg statics, build p opts = Some cfg ->
  forall st n g r, In WithTokenBindingRequired opts -> g <> GRefreshToken ->
  b_dpop (t_bind r) = None -> b_cert (t_bind r) = 0 ->
  xrefused (snd (step_g (mkWorld cfg statics) st n (OpToken g r))).
Proof. exact C11Proofs.binding_required_enforced. Qed.
Print Assumptions binding_required_enforced.

(* the implicit flow (fix 6551f83): a token from /authorize can only be bound through dpop_jkt *)
Theorem implicit_binding_enforced : forall p opts cfg statics, build p opts = Some cfg ->
  forall st n r, In WithDPoPRequired opts \/ In WithTokenBindingRequired opts ->
  p_request_uri (ar_params r) = 0 -> rt_contains (p_resp_type (ar_params r)) "token" = true ->
  is_nil (p_dpop_jkt (ar_params r)) = true ->
  xrefused (snd (step_g (mkWorld cfg statics) st n (OpAuthorize r))).
Proof. exact C11Proofs.implicit_binding_enforced. Qed.
Print Assumptions implicit_binding_enforced.

(* refresh (as the code does: the requirement follows the grant): a grant bound to a key /
   certificate is not refreshed without a proof / certificate, for public and confidential clients *)
Theorem refresh_bound_needs_proof : forall cfg c b g,
  cf_dpop_enabled cfg = true -> is_nil (g_jkt g) = false -> b_dpop b = None -> refresh_binding cfg c b g <> None.
Proof. exact refresh_needs_proof. Qed.
Print Assumptions refresh_bound_needs_proof.
Theorem refresh_bound_needs_cert : forall cfg c b g,
  cf_tls_binding_enabled cfg = true -> is_nil (g_x5t g) = false -> b_cert b = 0 -> refresh_binding cfg c b g <> None.
Proof. exact refresh_needs_cert. Qed.
Print Assumptions refresh_bound_needs_cert.

(* ---- requests that carry a request object (Model/RequiredJar.v, Model/Jar.v) ----
   Which parameter set must carry the required mechanisms, and which one the session gets. *)

(* validateRequestWithJAR + authnSessionWithJAR: the parameters handed to the session are exactly
   session_source, and they passed validate_params (PKCE, openid scope, resource switch, profile rules) *)
Theorem jar_session_built_from_validated_source : forall cfg c outer jin j p,
  jar_session cfg c outer jin j = inr p ->
  p = session_source cfg outer j /\ validate_params cfg p c = None.
Proof. exact jar_session_source. Qed.
Print Assumptions jar_session_built_from_validated_source.

(* under a FAPI profile a session obtained through a request object carries the OBJECT's
   parameters: its code_challenge and nonce are the object's, whatever is sent outside, and the
   object's parameters alone passed validate_params *)
Theorem fapi_session_from_object : forall cfg jc c jcl outer jin o p,
  is_fapi (cf_profile cfg) = true -> carries jin o ->
  jar_decision cfg jc c jcl outer jin = inr p ->
  p = inside o /\ p_challenge p = p_challenge (ro_params o) /\ p_nonce p = p_nonce (ro_params o) /\
  validate_params cfg (inside o) c = None.
Proof. exact C11JarProofs.fapi_session_from_object. Qed.
Print Assumptions fapi_session_from_object.

(* ... and that decision is the only way into a session: the program run for an accepted object *)
Theorem object_session_is_decision : forall w jx n now c q p,
  should_use_par (w_cfg w) (ar_params (jq_req q)) c = false ->
  should_use_jar (w_cfg w) (ar_params (jq_req q)) c (jq_jar q) = true ->
  jar_decision (w_cfg w) (jx_cfg jx) c (jclient_of (jx_clients jx) (c_id c)) (ar_params (jq_req q)) (jq_jar q) = inr p ->
  auth_jar_client w jx n now c q =
  bind (start_session w n now c (new_session n c p) (jq_req q)) (fun a => Ret (finish_ares (w_cfg w) c a)).
Proof. exact auth_jar_client_session. Qed.
Print Assumptions object_session_is_decision.

(* handler level, every state: a request with an object that obtains an artifact had
   session_source pass validate_params for a registered client of that id *)
Theorem object_request_validated : forall w jx st n q o,
  cf_jar_enabled (w_cfg w) = true -> carries (jq_jar q) o -> p_request_uri (ar_params (jq_req q)) = 0 ->
  obs_obtains (snd (step_gj w jx st n (GAuthorize q))) = true ->
  exists c, registered w st c /\ c_id c = ar_client (jq_req q) /\
    validate_params (w_cfg w) (session_source (w_cfg w) (ar_params (jq_req q)) (contents o)) c = None.
Proof. exact authorize_object_validated. Qed.
Print Assumptions object_request_validated.

Theorem pushed_object_validated : forall w jx st n r o,
  is_fapi (cf_profile (w_cfg w)) = true -> cf_jar_enabled (w_cfg w) = true ->
  obs_obtains (snd (step_gj w jx st n (GPar r (Some o)))) = true ->
  exists c, registered w st c /\ c_id c = cr_id (pr_cred r) /\
    validate_params (w_cfg w) (inside o) (client_for_par (w_cfg w) c (p_redirect (inside o))) = None.
Proof. exact par_object_validated. Qed.
Print Assumptions pushed_object_validated.

(* hence pkce_required_enforced also holds for requests with objects: the challenge must be in the
   parameter set the session is built from - INSIDE the object under FAPI (a challenge sent only
   outside does not help), inside or outside under the OpenID profile *)
Theorem pkce_required_enforced_jar : forall p opts cfg statics, build p opts = Some cfg ->
  forall jx st n d ms q o, In (WithPKCERequired d ms) opts ->
  cf_jar_enabled cfg = true -> carries (jq_jar q) o -> p_request_uri (ar_params (jq_req q)) = 0 ->
  pk_is_empty (p_challenge (ro_params o)) = true ->
  (is_fapi p = true \/ pk_is_empty (p_challenge (ar_params (jq_req q))) = true) ->
  xrefused (snd (step_gj (mkWorld cfg statics) jx st n (GAuthorize q))).
Proof. exact C11JarProofs.pkce_required_enforced_jar. Qed.
Print Assumptions pkce_required_enforced_jar.

Theorem pkce_required_enforced_par_jar : forall p opts cfg statics, build p opts = Some cfg ->
  forall jx st n d ms r o, In (WithPKCERequired d ms) opts ->
  is_fapi p = true -> cf_jar_enabled cfg = true -> pk_is_empty (p_challenge (ro_params o)) = true ->
  xrefused (snd (step_gj (mkWorld cfg statics) jx st n (GPar r (Some o)))).
Proof. exact C11JarProofs.pkce_required_enforced_par_jar. Qed.
Print Assumptions pkce_required_enforced_par_jar.

Theorem openid_required_enforced_jar : forall p opts cfg statics, build p opts = Some cfg ->
  forall jx st n q o, In WithOpenIDScopeRequired opts ->
  is_fapi p = true -> cf_jar_enabled cfg = true -> carries (jq_jar q) o -> p_request_uri (ar_params (jq_req q)) = 0 ->
  contains_openid (p_scopes (ro_params o)) = false ->
  xrefused (snd (step_gj (mkWorld cfg statics) jx st n (GAuthorize q))).
Proof. exact C11JarProofs.openid_required_enforced_jar. Qed.
Print Assumptions openid_required_enforced_jar.

(* the profiles' rules are read on the object *)
Theorem fapi1_enforced_jar : forall p opts cfg statics, build p opts = Some cfg ->
  forall jx st n q o, p = PFapi1 ->
  cf_jar_enabled cfg = true -> carries (jq_jar q) o -> p_request_uri (ar_params (jq_req q)) = 0 ->
  (seqb (p_resp_type (ro_params o)) "code" = false /\ seqb (p_resp_type (ro_params o)) "code id_token" = false) \/
  (seqb (p_resp_type (ro_params o)) "code" = true /\ seqb (p_resp_mode (ro_params o)) "jwt" = false) \/
  (contains_openid (p_scopes (ro_params o)) = true /\ is_empty (p_nonce (ro_params o)) = true) ->
  xrefused (snd (step_gj (mkWorld cfg statics) jx st n (GAuthorize q))).
Proof. exact C11JarProofs.fapi1_enforced_jar. Qed.
Print Assumptions fapi1_enforced_jar.

Theorem fapi2_enforced_jar : forall p opts cfg statics, build p opts = Some cfg ->
  forall jx st n q o, p = PFapi2 ->
  cf_jar_enabled cfg = true -> carries (jq_jar q) o -> p_request_uri (ar_params (jq_req q)) = 0 ->
  seqb (p_resp_type (ro_params o)) "code" = false ->
  xrefused (snd (step_gj (mkWorld cfg statics) jx st n (GAuthorize q))).
Proof. exact C11JarProofs.fapi2_enforced_jar. Qed.
Print Assumptions fapi2_enforced_jar.

(* the monitor of the c11jar suite (Corr/C11Jar.v, clause 11) reads "a required mechanism is
   missing from a parameter set" as mech_missing <> 0; validate_params accepts only sets where it
   is 0, and under a FAPI profile a request served through an object has it 0 on the OBJECT *)
Theorem mech_missing_reading_sound : forall cfg c p, validate_params cfg p c = None -> mech_missing cfg c p = 0.
Proof. exact mech_missing_sound. Qed.
Print Assumptions mech_missing_reading_sound.

Theorem fapi_object_carries_required_mechanisms : forall w jx st n q o,
  is_fapi (cf_profile (w_cfg w)) = true ->
  cf_jar_enabled (w_cfg w) = true -> carries (jq_jar q) o -> p_request_uri (ar_params (jq_req q)) = 0 ->
  obs_obtains (snd (step_gj w jx st n (GAuthorize q))) = true ->
  exists c, registered w st c /\ c_id c = ar_client (jq_req q) /\ mech_missing (w_cfg w) c (inside o) = 0.
Proof. exact fapi_object_carries_mechanisms. Qed.
Print Assumptions fapi_object_carries_required_mechanisms.

(* ---- pushed requests REQUIRED, in the presence of request objects (Model/RequiredJar.v step_gj) ----
   par_required_enforced above speaks about requests without request_uri on the handlers of Required.v.
   Here, for the JAR-aware authorization endpoint: for every state, every request - plain, with a request
   object by value, with an https request_uri that REFERENCES a signed request object (JAR by reference;
   Model/Jar.v JRef, which is not a pushed request_uri), with a urn - and every JAR configuration (enabled
   or not, required or not, by reference or not): under PAR required, by the server or by every
   registration of the client, an answer that hands out anything (page, code, token, id token) implies
   that the request_uri names a STORED pushed session of that very client that has not expired. *)
Theorem par_required_enforced_jar : forall w jx st n q,
  cf_par_enabled (w_cfg w) = true ->
  (cf_par_required (w_cfg w) = true \/
   forall c, registered w st c -> c_id c = ar_client (jq_req q) -> c_par_required c = true) ->
  obs_obtains (snd (step_gj w jx st n (GAuthorize q))) = true ->
  p_request_uri (ar_params (jq_req q)) <> 0 /\
  exists s, find (fun s => ideq (a_par s) (p_request_uri (ar_params (jq_req q)))) (st_asess (s_store st)) = Some s /\
            a_client s = ar_client (jq_req q) /\ geb (s_now st) (a_expires s) = false.
Proof. exact par_required_step. Qed.
Print Assumptions par_required_enforced_jar.

(* the same for configurations built by the option API *)
Theorem par_required_option_enforced_jar : forall p opts cfg statics, build p opts = Some cfg ->
  forall jx st n l q, In (WithPARRequired l) opts ->
  obs_obtains (snd (step_gj (mkWorld cfg statics) jx st n (GAuthorize q))) = true ->
  p_request_uri (ar_params (jq_req q)) <> 0 /\
  exists s, find (fun s => ideq (a_par s) (p_request_uri (ar_params (jq_req q)))) (st_asess (s_store st)) = Some s /\
            a_client s = ar_client (jq_req q) /\ geb (s_now st) (a_expires s) = false.
Proof. exact par_required_option. Qed.
Print Assumptions par_required_option_enforced_jar.

(* hence a request without a (pushed) request_uri, or with one that names no stored pushed session, is
   refused - whether or not it carries a request object, by value or by reference *)
Theorem par_required_blocks_unpushed : forall w jx st n q,
  cf_par_enabled (w_cfg w) = true ->
  (cf_par_required (w_cfg w) = true \/
   forall c, registered w st c -> c_id c = ar_client (jq_req q) -> c_par_required c = true) ->
  (p_request_uri (ar_params (jq_req q)) = 0 \/
   find (fun s => ideq (a_par s) (p_request_uri (ar_params (jq_req q)))) (st_asess (s_store st)) = None) ->
  xrefused (snd (step_gj w jx st n (GAuthorize q))).
Proof. exact par_required_blocks. Qed.
Print Assumptions par_required_blocks_unpushed.

(* ---- signed backchannel requests required BY THE CLIENT ----
   A client registered with backchannel_authentication_request_signing_alg (jc_ciba_alg) must sign its
   backchannel requests wherever the server has CIBA JAR enabled (shouldUseJARDuringCIBA): a request
   without request object obtains no auth_req_id, in every state.  The front-channel registration
   request_object_signing_alg (jc_jar_alg) is NOT that switch (ciba_jar_switch_is_the_ciba_alg). *)
Theorem client_ciba_jar_required_enforced : forall w jx st n r,
  cf_ciba_jar_enabled (w_cfg w) = true ->
  jc_ciba_alg (jclient_of (jx_clients jx) (cr_id (br_cred r))) <> None ->
  xrefused (snd (step_gj w jx st n (GBc r None))).
Proof. exact client_ciba_jar_required_step. Qed.
Print Assumptions client_ciba_jar_required_enforced.

(* the server switch on the same handler *)
Theorem ciba_jar_required_enforced_jar : forall p opts cfg statics, build p opts = Some cfg ->
  forall jx st n r, In WithCIBAJARRequired opts ->
  xrefused (snd (step_gj (mkWorld cfg statics) jx st n (GBc r None))).
Proof. exact ciba_jar_required_option. Qed.
Print Assumptions ciba_jar_required_enforced_jar.

Theorem ciba_jar_switch_is_the_ciba_alg : forall cfg keys a1 a2 cb obj,
  should_use_jar_ciba cfg (mkJClient keys a1 cb) obj = should_use_jar_ciba cfg (mkJClient keys a2 cb) obj.
Proof. exact ciba_decision_ignores_jar_alg. Qed.
Print Assumptions ciba_jar_switch_is_the_ciba_alg.
