(* C19 — discovery metadata matches what the provider serves and accepts.
   Statements only; proofs in Proofs/C19Proofs.v (and ConfigProofs.v, C11Proofs.v).
   `member_value iss mtls cfg m` is the value of metadata member m (None = absent from the JSON
   document), `serve cfg meth path` the ServeMux dispatch of the route table of Provider.Handler(),
   `step_g` the handlers (Model/Discovery.v, Model/Required.v).  The theorems that are about the
   document and the routes hold for EVERY configuration record; those that relate to options are for
   `build p opts = Some cfg`, for all option lists. *)
From Verif Require Import Base Scope Types Prog Pop Token Authorize System Config Discovery Required Rets ConfigProofs C11Proofs C19Proofs.
From Verif Require Import Run Monitors PkceProofs.
From Verif Require Import Config2 Discovery2 C19ListsProofs.
Local Open Scope N_scope.

(* every endpoint URL in the document is issuer ++ prefix ++ path of a route that is registered for
   every method the endpoint has to answer *)
Theorem advertised_served : forall iss mtls cfg m e url,
  member_endpoint m = Some e -> member_value iss mtls cfg m = Some (DStr url) ->
  url = iss ++ cf_prefix cfg ++ ep_path e /\
  forall mt, In mt (ep_methods e) -> serve cfg mt (cf_prefix cfg ++ ep_path e) = Some e.
Proof. exact C19Proofs.advertised_served. Qed.
Print Assumptions advertised_served.

Theorem mtls_aliases_served : forall mtls cfg name url, In (name, url) (mtls_aliases mtls cfg) ->
  exists e, url = mtls ++ cf_prefix cfg ++ ep_path e /\
            forall mt, In mt (ep_methods e) -> serve cfg mt (cf_prefix cfg ++ ep_path e) = Some e.
Proof. exact C19Proofs.mtls_aliases_served. Qed.
Print Assumptions mtls_aliases_served.

(* conversely every registered route is the document itself or (a sub-resource of) an advertised endpoint *)
Theorem served_advertised : forall iss mtls cfg r, In r (routes cfg) ->
  match endpoint_member (r_ep r) with
  | Some m => member_value iss mtls cfg m <> None
  | None => r_ep r = EpWellKnown end.
Proof. exact C19Proofs.served_advertised. Qed.
Print Assumptions served_advertised.

(* ---- optional endpoints: enabled <-> some option of the list enables it ---- *)
Theorem endpoint_flags_from_options : forall p opts cfg, build p opts = Some cfg ->
  cf_par_enabled cfg = existsb sets_par opts /\ cf_ciba_enabled cfg = existsb sets_ciba opts /\
  cf_introspection cfg = existsb sets_introspection opts /\ cf_revocation cfg = existsb sets_revocation opts /\
  cf_dcr cfg = existsb sets_dcr opts /\ cf_dpop_enabled cfg = existsb sets_dpop opts /\
  cf_pkce_enabled cfg = existsb sets_pkce opts /\ cf_jarm_enabled cfg = existsb sets_jarm opts.
Proof.
  exact (fun p opts cfg H => conj (par_enabled_eq p opts cfg H) (conj (ciba_enabled_eq p opts cfg H)
    (conj (introspection_eq p opts cfg H) (conj (revocation_eq p opts cfg H) (conj (dcr_eq p opts cfg H)
    (conj (dpop_enabled_eq p opts cfg H) (conj (pkce_enabled_eq p opts cfg H) (jarm_enabled_eq p opts cfg H)))))))).
Qed.
Print Assumptions endpoint_flags_from_options.

(* advertised_accepted, endpoints: enabled -> in the document with its URL, and routed *)
Theorem endpoint_enabled_advertised_and_served : forall iss mtls cfg m e,
  member_endpoint m = Some e -> ep_flag cfg e = true ->
  member_value iss mtls cfg m = Some (DStr (iss ++ cf_prefix cfg ++ ep_path e)) /\
  forall mt, In mt (ep_methods e) -> serve cfg mt (cf_prefix cfg ++ ep_path e) = Some e.
Proof. exact C19Proofs.endpoint_enabled. Qed.
Print Assumptions endpoint_enabled_advertised_and_served.

(* disabled_absent_and_refused, one per optional endpoint *)
Theorem par_disabled_absent_and_refused : forall iss mtls cfg statics, cf_par_enabled cfg = false ->
  member_value iss mtls cfg MParEndpoint = None /\ member_value iss mtls cfg MRequirePar = None /\
  (forall m, serve cfg m (cf_prefix cfg ++ ep_path EpPar) = None) /\
  forall n now r st, snd (run_seq (push_auth_g (mkWorld cfg statics) n now r) st) = OErr EOther.
Proof. exact C19Proofs.par_disabled. Qed.
Print Assumptions par_disabled_absent_and_refused.

Theorem ciba_disabled_absent_and_refused : forall iss mtls cfg statics, cf_ciba_enabled cfg = false ->
  member_value iss mtls cfg MCibaEndpoint = None /\ member_value iss mtls cfg MCibaModes = None /\
  member_value iss mtls cfg MCibaUserCode = None /\ member_value iss mtls cfg MCibaJarSigAlgs = None /\
  (forall m, serve cfg m (cf_prefix cfg ++ ep_path EpCiba) = None) /\
  forall n now r st, snd (run_seq (init_back_auth_g (mkWorld cfg statics) n now r) st) = OErr EOther.
Proof. exact C19Proofs.ciba_disabled. Qed.
Print Assumptions ciba_disabled_absent_and_refused.

Theorem introspection_disabled_absent_and_refused : forall iss mtls cfg statics, cf_introspection cfg = false ->
  member_value iss mtls cfg MIntrospectionEndpoint = None /\ member_value iss mtls cfg MIntrospectionAuthMethods = None /\
  (forall m, serve cfg m (cf_prefix cfg ++ ep_path EpIntrospect) = None) /\
  forall now r st, snd (run_seq (introspect (mkWorld cfg statics) now r) st) = OErr EOther.
Proof. exact C19Proofs.introspection_disabled. Qed.
Print Assumptions introspection_disabled_absent_and_refused.

Theorem revocation_disabled_absent_and_refused : forall iss mtls cfg statics, cf_revocation cfg = false ->
  member_value iss mtls cfg MRevocationEndpoint = None /\ member_value iss mtls cfg MRevocationAuthMethods = None /\
  (forall m, serve cfg m (cf_prefix cfg ++ ep_path EpRevoke) = None) /\
  forall now r st, snd (run_seq (revoke (mkWorld cfg statics) now r) st) = OErr EOther.
Proof. exact C19Proofs.revocation_disabled. Qed.
Print Assumptions revocation_disabled_absent_and_refused.

(* dynamic registration has no handler model: absent and not routed (collection and sub-resources) *)
Theorem dcr_disabled_absent_and_not_served : forall iss mtls cfg, cf_dcr cfg = false ->
  member_value iss mtls cfg MRegistrationEndpoint = None /\
  (forall m, serve cfg m (cf_prefix cfg ++ ep_path EpDcr) = None) /\
  (forall m x, serve cfg m (cf_prefix cfg ++ ep_path EpDcr ++ "/" ++ x) = None).
Proof. exact C19Proofs.dcr_disabled. Qed.
Print Assumptions dcr_disabled_absent_and_not_served.

(* ---- grant types ---- *)
Theorem grant_type_advertised_iff_enabled : forall iss mtls cfg g,
  advertised_in iss mtls cfg MGrantTypes (grant_name g) = has_grant g (cf_grants cfg).
Proof. exact grant_advertised. Qed.
Print Assumptions grant_type_advertised_iff_enabled.

Theorem grant_type_disabled_refused : forall cfg statics g st n r, has_grant g (cf_grants cfg) = false ->
  snd (step_g (mkWorld cfg statics) st n (OpToken g r)) = Out (OErr EUnsupportedGrantType).
Proof. exact grant_disabled_refused. Qed.
Print Assumptions grant_type_disabled_refused.

Theorem client_credentials_advertised_accepted : forall cfg statics st n now r cl,
  has_grant GClientCredentials (cf_grants cfg) = true ->
  auth_of (mkWorld cfg statics) st (t_cred r) = Some cl ->
  has_grant GClientCredentials (c_grants cl) = true ->
  validate_binding cfg cl (t_bind r) no_opts = None ->
  are_scopes_allowed (c_scopes cl) (cf_scopes cfg) (t_scope r) = true ->
  validate_resources cfg (cf_resources cfg) (t_resources r) = true ->
  validate_details_types cfg (t_auth_details r) = true -> t_hg r = HgOk ->
  exists t, snd (run_seq (cc_grant (mkWorld cfg statics) n now r) st) = OTokens t.
Proof. exact cc_advertised_accepted. Qed.
Print Assumptions client_credentials_advertised_accepted.

(* ---- response types, response modes, PKCE methods: the advertised list is the list the gate consults;
        a value that is not advertised is refused at the authorization endpoint ---- *)
Theorem response_types_follow_grants : forall iss mtls p opts cfg, build p opts = Some cfg -> forall x,
  advertised_in iss mtls cfg MResponseTypes x =
  mem x ((if has_grant GAuthorizationCode (cf_grants cfg) then ["code"] else []) ++
         (if has_grant GImplicit (cf_grants cfg) then ["token"; "id_token"; "id_token token"] else []) ++
         (if andb (has_grant GAuthorizationCode (cf_grants cfg)) (has_grant GImplicit (cf_grants cfg))
          then ["code id_token"; "code token"; "code id_token token"] else []))%list.
Proof. exact C19Proofs.resp_types_follow_grants. Qed.
Print Assumptions response_types_follow_grants.

Theorem response_modes_follow_jarm : forall iss mtls p opts cfg, build p opts = Some cfg -> forall x,
  advertised_in iss mtls cfg MResponseModes x =
  mem x (["query"; "fragment"; "form_post"] ++
         (if cf_jarm_enabled cfg then ["jwt"; "query.jwt"; "fragment.jwt"; "form_post.jwt"] else []))%list.
Proof. exact C19Proofs.resp_modes_follow_jarm. Qed.
Print Assumptions response_modes_follow_jarm.

Theorem response_type_not_advertised_refused : forall iss mtls cfg statics st n r,
  advertised_in iss mtls cfg MResponseTypes (p_resp_type (ar_params r)) = false ->
  (forall c, registered (mkWorld cfg statics) st c -> c_id c = ar_client r -> client_within cfg c) ->
  p_request_uri (ar_params r) = 0 -> xrefused (snd (step_g (mkWorld cfg statics) st n (OpAuthorize r))).
Proof. exact C19Proofs.resp_type_not_advertised_refused. Qed.
Print Assumptions response_type_not_advertised_refused.

Theorem response_mode_not_advertised_refused : forall iss mtls cfg statics st n r,
  is_empty (p_resp_mode (ar_params r)) = false ->
  advertised_in iss mtls cfg MResponseModes (p_resp_mode (ar_params r)) = false ->
  p_request_uri (ar_params r) = 0 -> xrefused (snd (step_g (mkWorld cfg statics) st n (OpAuthorize r))).
Proof. exact C19Proofs.resp_mode_not_advertised_refused. Qed.
Print Assumptions response_mode_not_advertised_refused.

Theorem pkce_method_not_advertised_refused : forall iss mtls p opts cfg statics, build p opts = Some cfg ->
  forall st n r, is_empty (p_method (ar_params r)) = false ->
  advertised_in iss mtls cfg MCodeChallengeMethods (p_method (ar_params r)) = false ->
  p_request_uri (ar_params r) = 0 -> xrefused (snd (step_g (mkWorld cfg statics) st n (OpAuthorize r))).
Proof. exact C19Proofs.pkce_method_not_advertised_refused. Qed.
Print Assumptions pkce_method_not_advertised_refused.

(* PKCE methods end to end.  In every reachable state of every history the code_challenge_method recorded
   in a stored session is absent or advertised ... *)
Theorem stored_pkce_methods_advertised : forall iss mtls p opts cfg statics, build p opts = Some cfg ->
  forall dyn ops s, In s (st_asess (s_store (fst (run_from (mkWorld cfg statics) (init_state dyn) 0 ops)))) ->
  is_empty (p_method (a_params s)) = true \/
  advertised_in iss mtls cfg MCodeChallengeMethods (p_method (a_params s)) = true.
Proof.
  intros iss mtls p opts cfg statics Hb dyn ops s IN.
  destruct (stored_methods_listed (mkWorld cfg statics) dyn ops s IN) as [E|M]; [left; exact E|right].
  rewrite (pkce_method_advertised iss mtls _ _ _ _ Hb). exact M.
Qed.
Print Assumptions stored_pkce_methods_advertised.

(* ... and a PKCE method that is not enabled (= not advertised) never completes a code exchange: over ALL
   histories, whenever the token endpoint hands out tokens for a code whose session recorded a challenge,
   the verifier matches the challenge under an ADVERTISED method (the method named in the authorization
   request, or - when it left the method out - the configured default, which is advertised) *)
Theorem pkce_exchange_only_under_advertised_method : forall iss mtls p opts cfg statics, build p opts = Some cfg ->
  forall dyn ops n now r,
  let st := s_store (fst (run_from (mkWorld cfg statics) (init_state dyn) 0 ops)) in
  is_tokens (snd (run_seq (code_grant (mkWorld cfg statics) n now r) st)) = true ->
  exists s, find (fun s => ideq (a_code s) (t_code r)) (st_asess st) = Some s /\
    (cf_pkce_enabled cfg = true -> pk_is_empty (p_challenge (a_params s)) = false ->
       exists m, advertised_in iss mtls cfg MCodeChallengeMethods m = true /\
                 is_pkce_valid (t_verifier r) (p_challenge (a_params s)) m = true).
Proof.
  intros iss mtls p opts cfg statics Hb dyn ops n now r st H.
  destruct (exchange_under_advertised_method_all iss mtls p opts cfg statics Hb dyn ops n now r H) as [s [EF K]].
  exists s. split; [exact EF|]. intros EN EC. destruct (K EN EC) as [m [A [_ [V _]]]]. exists m. auto.
Qed.
Print Assumptions pkce_exchange_only_under_advertised_method.

(* contrapositive, for every store: if the verifier fits the recorded challenge under no advertised method,
   the token request is refused *)
Theorem unadvertised_pkce_method_completes_no_exchange : forall iss mtls p opts cfg statics, build p opts = Some cfg ->
  forall n now r st s,
  find (fun s => ideq (a_code s) (t_code r)) (st_asess st) = Some s ->
  cf_pkce_enabled cfg = true -> pk_is_empty (p_challenge (a_params s)) = false ->
  (is_empty (p_method (a_params s)) = true \/ mem (p_method (a_params s)) (cf_pkce_methods cfg) = true) ->
  (forall m, advertised_in iss mtls cfg MCodeChallengeMethods m = true ->
             is_pkce_valid (t_verifier r) (p_challenge (a_params s)) m = false) ->
  is_tokens (snd (run_seq (code_grant (mkWorld cfg statics) n now r) st)) = false.
Proof. intros iss mtls p opts cfg statics Hb n now r st s. exact (unadvertised_method_completes_no_exchange p opts cfg statics Hb iss mtls n now r st s). Qed.
Print Assumptions unadvertised_pkce_method_completes_no_exchange.

(* the gates let an advertised value through: validateParamsAsOptionals accepts only values of the three lists *)
Theorem accepted_values_are_listed : forall cfg p c, validate_optionals cfg p c = None ->
  (is_empty (p_resp_type p) = true \/ mem (p_resp_type p) (c_resp_types c) = true) /\
  (is_empty (p_resp_mode p) = true \/ mem (p_resp_mode p) (cf_resp_modes cfg) = true) /\
  (is_empty (p_method p) = true \/ mem (p_method p) (cf_pkce_methods cfg) = true).
Proof. exact vo_none. Qed.
Print Assumptions accepted_values_are_listed.

(* ---- flags ---- *)
Theorem binding_flags_match_behaviour : forall iss mtls cfg cl b o,
  advertised iss mtls cfg MDpopSigAlgs = cf_dpop_enabled cfg /\
  (cf_dpop_enabled cfg = false -> validate_binding_dpop cfg cl b o = None /\ set_pop_jkt cfg b = 0) /\
  advertised iss mtls cfg MTlsBoundTokens = andb (cf_mtls_enabled cfg) (cf_tls_binding_enabled cfg) /\
  (cf_tls_binding_enabled cfg = false -> validate_binding_tls cfg cl b o = None /\ set_pop_x5t cfg b = 0).
Proof.
  exact (fun iss mtls cfg cl b o => conj (dpop_metadata iss mtls cfg) (conj (dpop_disabled_ignored cfg cl b o)
    (conj (tls_metadata iss mtls cfg) (tls_disabled_ignored cfg cl b o)))).
Qed.
Print Assumptions binding_flags_match_behaviour.

Theorem require_pushed_requests_enforced : forall iss mtls cfg statics st n r,
  advertised iss mtls cfg MRequirePar = true -> p_request_uri (ar_params r) = 0 ->
  xrefused (snd (step_g (mkWorld cfg statics) st n (OpAuthorize r))).
Proof. exact require_par_enforced. Qed.
Print Assumptions require_pushed_requests_enforced.

(* ============================================================================================== *)
(* Client-authentication METHOD lists and signing / encryption ALGORITHM lists as inputs          *)
(* (Model/Config2.v: `build2 p opts` over opt2 = the list-taking options of pkg/provider/option.go *)
(*  with their real arguments, wrapping Config.build; Model/Discovery2.v: the 20 list members of   *)
(*  the document - `l_flag` the guard under which oidcConfig assigns the member, `l_value` the     *)
(*  configuration list, `lmember_value` with the omitempty rule - and the run-time gates           *)
(*  `assertion_accepted`, `artifact_encryption`, `artifact_expected` reading the same lists).      *)
(*  Proofs in Proofs/C19ListsProofs.v.                                                             *)
(* ============================================================================================== *)

(* for EVERY configuration record and every list member: it is in the document iff its guard holds
   and its list is non-empty (id_token_signing_alg_values_supported has no omitempty), and an element
   is advertised iff the guard holds and it is in the list *)
Theorem list_member_present_iff : forall c2 m,
  l_advertised c2 m = orb (l_always m) (andb (l_flag c2 m) (negb (is_nil (l_value c2 m)))) /\
  (forall x, l_advertised_in c2 m x = andb (l_flag c2 m) (mem x (l_value c2 m))) /\
  (forall iss mtls v, lmember_value c2 m = Some v -> In (lmember_name m, v) (document2 c2 iss mtls)).
Proof.
  exact (fun c2 m => conj (l_advertised_eq c2 m) (conj (l_advertised_in_eq c2 m)
           (fun iss mtls v => document2_list_member c2 iss mtls m v))).
Qed.
Print Assumptions list_member_present_iff.

(* for all option lists: every guard is set exactly by its enabling option(s) ... *)
Theorem list_flags_from_options : forall p opts c2, build2 p opts = Some c2 ->
  (forall e, eflag_get e (c2_lists c2) = existsb (sets_enc e) opts) /\
  cf_introspection (c2_base c2) = existsb (enables sets_introspection) opts /\
  cf_revocation (c2_base c2) = existsb (enables sets_revocation) opts /\
  cf_jar_enabled (c2_base c2) = existsb (enables sets_jar) opts /\
  cf_jarm_enabled (c2_base c2) = existsb (enables sets_jarm) opts /\
  cf_dpop_enabled (c2_base c2) = existsb (enables sets_dpop) opts /\
  cf_ciba_enabled (c2_base c2) = existsb (enables sets_ciba) opts /\
  cf_ciba_jar_enabled (c2_base c2) = existsb (enables sets_ciba_jar) opts.
Proof.
  exact (fun p opts c2 H => conj (enc_flag_eq p opts c2 H) (conj (introspection2_eq p opts c2 H)
    (conj (revocation2_eq p opts c2 H) (conj (jar2_eq p opts c2 H) (conj (jarm2_eq p opts c2 H)
    (conj (dpop2_eq p opts c2 H) (conj (ciba2_eq p opts c2 H) (ciba_jar2_eq p opts c2 H)))))))).
Qed.
Print Assumptions list_flags_from_options.

(* ... and every list is appendIfNotIn(rest, first) of the LAST option that writes it, or the default
   of setDefaults: none for the lists setDefaults leaves alone, RS256 for the ID token, A128CBC-HS256
   for a content-encryption list whose Enc flag is set (and only then) *)
Theorem list_values_from_options : forall p opts c2, build2 p opts = Some c2 ->
  (forall f, stable f = true ->
     field_get f (c2_lists c2) = match last_some (setter f) opts with Some v => v | None => [] end) /\
  l_idt_sig_algs (c2_lists c2) = match last_some (setter FIdtSig) opts with Some v => v | None => ["RS256"] end /\
  (forall e, field_get (content_field e) (c2_lists c2) =
     match last_some (setter (content_field e)) opts with
     | Some v => v
     | None => if existsb (sets_enc e) opts then ["A128CBC-HS256"] else [] end).
Proof.
  exact (fun p opts c2 H => conj (stable_field_value p opts c2 H) (conj (idt_sig_value p opts c2 H) (content_value p opts c2 H))).
Qed.
Print Assumptions list_values_from_options.

(* for all option lists an enabled list is never empty, hence: the member is present iff its guard
   holds.  (What seeded change (B) violates: *_encryption_enc_values_supported present with the Enc
   flag unset.)  `guarded` = every list member but the five below. *)
Theorem enabled_list_members_present : forall p opts c2, build2 p opts = Some c2 -> forall m, guarded m = true ->
  l_advertised c2 m = l_flag c2 m /\ (l_flag c2 m = true -> l_value c2 m <> []).
Proof.
  exact (fun p opts c2 H m Hg => conj (guarded_present_iff_flag p opts c2 H m Hg) (guarded_nonempty p opts c2 H m Hg)).
Qed.
Print Assumptions enabled_list_members_present.

(* the two members written only by an option of their own, without a flag *)
Theorem unguarded_list_members_present : forall p opts c2, build2 p opts = Some c2 ->
  l_advertised c2 LTokenMethods = existsb (writes FTokenMethods) opts /\
  l_advertised c2 LUiSig = existsb (writes FUiSig) opts.
Proof. exact unguarded_present. Qed.
Print Assumptions unguarded_list_members_present.

(* advertised auth method at endpoint E => the allowed-algorithm list for E is non-empty, an algorithm
   is advertised for E, and an assertion signed with it authenticates a client registered with that
   method (what seeded change (A) violates) *)
Theorem advertised_jwt_method_has_algorithms : forall p opts c2 e m, build2 p opts = Some c2 ->
  is_jwt_method m = true -> l_advertised_in c2 (aep_methods e) m = true ->
  authn_sig_algs c2 "" m <> [] /\
  exists a, l_advertised_in c2 (aep_sig_algs e) a = true /\ assertion_accepted c2 e m "" a = true.
Proof. exact jwt_method_has_algs. Qed.
Print Assumptions advertised_jwt_method_has_algorithms.

(* every algorithm of <endpoint>_auth_signing_alg_values_supported is accepted there for an advertised
   method, and an algorithm accepted for an advertised method is advertised (every config2) *)
Theorem advertised_auth_algorithm_accepted : forall c2 e a, l_advertised_in c2 (aep_sig_algs e) a = true ->
  exists m, is_jwt_method m = true /\ l_advertised_in c2 (aep_methods e) m = true /\
            assertion_accepted c2 e m "" a = true.
Proof. exact advertised_alg_accepted. Qed.
Print Assumptions advertised_auth_algorithm_accepted.

Theorem accepted_auth_algorithm_advertised : forall c2 e m a, l_advertised_in c2 (aep_methods e) m = true ->
  assertion_accepted c2 e m "" a = true -> l_advertised_in c2 (aep_sig_algs e) a = true.
Proof. exact accepted_alg_advertised. Qed.
Print Assumptions accepted_auth_algorithm_advertised.

(* a client asking for an advertised key-encryption algorithm gets its artifact encrypted with it and
   with the content algorithm it asked for (the server's default if it asked for none) *)
Theorem advertised_encryption_is_applied : forall c2 a k c, is_empty k = false ->
  l_advertised_in c2 (art_key_member a) k = true ->
  artifact_encryption c2 a k c = Some (k, if is_empty c then art_default_cenc c2 a else c).
Proof. exact advertised_encryption_applied. Qed.
Print Assumptions advertised_encryption_is_applied.

(* no <artifact>_encryption_alg_values_supported => whatever the client registered, the artifact is not
   encrypted (or, for the JWT-secured authorization response, not issued) *)
Theorem unadvertised_encryption_absent : forall p opts c2 a, build2 p opts = Some c2 ->
  l_advertised c2 (art_key_member a) = false ->
  forall sig k c, match artifact_expected c2 a sig k c with Some (Some _, _) => False | _ => True end.
Proof. exact unadvertised_not_encrypted. Qed.
Print Assumptions unadvertised_encryption_absent.

(* arguments the options refuse make provider.New fail; WithSecretJWTSignatureAlgs refuses every
   non-empty first argument (it ranges over the runes of `alg`) *)
Theorem refused_list_arguments : forall p opts,
  (forall o, In o opts -> opt2_ok o = false -> build2 p opts = None) /\
  (forall a l, In (WithSecretJWTSignatureAlgs a l) opts -> is_empty a = false -> build2 p opts = None).
Proof. exact (fun p opts => conj (refused_option p opts) (secret_jwt_algs_always_refused p opts)). Qed.
Print Assumptions refused_list_arguments.

(* ==== endpoint path overrides (Model/Routes.v, Proofs/C19PathsProofs.v) ====
   `popt` = an option of Config.v (`PO o`) or one of the nine With…Endpoint options with its path;
   `build3 p opts` = provider.New on the list in order (option.go: a With…Endpoint option assigns its
   field unconditionally and touches nothing else; setDefaults: the default path where the field is
   empty — for dcr / par / introspection / revocation / ciba only under the feature flag);
   `routes3` / `serve3` = the route table of Provider.Handler() and its dispatch, `member3` the
   members of the document, `last_override e opts` the argument of the LAST option of the list that
   writes the path of e ("" if none).  For ALL option lists, paths and prefixes. *)
From Verif Require Import Routes C19PathsProofs.

(* (1) a route with the handler of endpoint e is registered iff the flag that guards e is set, and
   that flag is set iff one of the ENABLING options of e is in the list — whatever With…Endpoint
   options the list carries (`enables_ep e` is false on every path option) *)
Theorem route_served_iff_feature_enabled : forall p opts pc, build3 p opts = Some pc -> forall e,
  existsb (fun r => ep_eqb (r_ep r) e) (routes3 pc) = ep_guard (pc_cfg pc) e /\
  ep_guard (pc_cfg pc) e = (if optional_ep e then existsb (enables_ep e) opts else true).
Proof. exact C19PathsProofs.route_served_iff_feature_enabled. Qed.
Print Assumptions route_served_iff_feature_enabled.

Theorem path_options_enable_nothing : forall e o, (forall b, o <> PO b) -> enables_ep e o = false.
Proof. exact C19PathsProofs.path_options_enable_nothing. Qed.
Print Assumptions path_options_enable_nothing.

(* the path an endpoint ends up with: the last override — or the default when there is none or it is
   empty — but ONLY where setDefaults fills it in, i.e. when the endpoint is enabled *)
Theorem endpoint_path_from_options : forall p opts pc e, build3 p opts = Some pc ->
  path3 (pc_paths pc) e =
  if ep_guard (pc_cfg pc) e then non_zero_path (last_override e opts) (ep_path e) else last_override e opts.
Proof. exact build3_path. Qed.
Print Assumptions endpoint_path_from_options.

(* (2) enabled: the member is exactly issuer ++ prefix ++ that path; a route is registered there under
   every method of the endpoint and — the patterns of different endpoints not overlapping,
   `routes_ok` — answers there; and the handler of e answers NOWHERE else (in particular not at the
   default path once it is overridden) *)
Theorem enabled_advertised_and_served_at_override : forall iss mtls p opts pc m e, build3 p opts = Some pc ->
  member_endpoint m = Some e -> ep_guard (pc_cfg pc) e = true ->
  let path := non_zero_path (last_override e opts) (ep_path e) in
  member3 iss mtls pc m = Some (DStr (iss ++ cf_prefix (pc_cfg pc) ++ path)) /\
  (forall mt, In mt (ep_methods e) -> In (mkRoute mt path false e) (routes3 pc)) /\
  (routes_ok pc = true -> forall mt, In mt (ep_methods e) -> serve3 pc mt (cf_prefix (pc_cfg pc) ++ path) = Some e) /\
  (forall mt x, serve3 pc mt x = Some e -> x = (cf_prefix (pc_cfg pc) ++ path)%string).
Proof. exact enabled_at_override. Qed.
Print Assumptions enabled_advertised_and_served_at_override.

(* (2') not enabled (every configuration record, so whatever the With…Endpoint options wrote): the
   member is absent, no route carries the handler, no request reaches it, and a path that collides
   with no OTHER endpoint's pattern (`free_of_others`: the overridden path, the default path) gets
   the mux's own 404 / 405 *)
Theorem disabled_absent_and_not_routed_under_overrides : forall iss mtls pc e, ep_guard (pc_cfg pc) e = false ->
  (forall m, member_endpoint m = Some e -> member3 iss mtls pc m = None) /\
  (forall r, In r (routes3 pc) -> r_ep r <> e) /\
  (forall mt x, serve3 pc mt x <> Some e) /\
  (forall mt rel, free_of_others pc e mt rel = true -> serve3 pc mt (cf_prefix (pc_cfg pc) ++ rel) = None).
Proof. exact disabled_absent_and_not_routed. Qed.
Print Assumptions disabled_absent_and_not_routed_under_overrides.

(* (3) advertised -> served: every endpoint URL of the document is issuer ++ prefix ++ the configured
   path of a route registered under every method of the endpoint (every configuration record) ... *)
Theorem advertised_served_under_overrides : forall iss mtls pc m e url,
  member_endpoint m = Some e -> member3 iss mtls pc m = Some (DStr url) ->
  url = (iss ++ cf_prefix (pc_cfg pc) ++ path3 (pc_paths pc) e)%string /\
  (forall mt, In mt (ep_methods e) -> In (mkRoute mt (path3 (pc_paths pc) e) false e) (routes3 pc)) /\
  (routes_ok pc = true -> forall mt, In mt (ep_methods e) ->
     serve3 pc mt (cf_prefix (pc_cfg pc) ++ path3 (pc_paths pc) e) = Some e).
Proof. exact advertised_served3. Qed.
Print Assumptions advertised_served_under_overrides.

(* ... the aliases carry the same paths under the mTLS host, for enabled endpoints only ... *)
Theorem mtls_aliases_follow_overrides : forall mtls pc name url, In (name, url) (mtls_aliases3 mtls pc) ->
  exists m e, name = member_name m /\ member_endpoint m = Some e /\ ep_guard (pc_cfg pc) e = true /\
    url = (mtls ++ cf_prefix (pc_cfg pc) ++ path3 (pc_paths pc) e)%string /\
    (forall mt, In mt (ep_methods e) -> In (mkRoute mt (path3 (pc_paths pc) e) false e) (routes3 pc)).
Proof. exact mtls_aliases_served3. Qed.
Print Assumptions mtls_aliases_follow_overrides.

(* ... served -> advertised: every registered route is the document itself or (a sub-resource of) an
   endpoint whose member is exactly issuer ++ prefix ++ the path of that route; and whatever handler
   a request is dispatched to is advertised at the requested URL *)
Theorem served_advertised_under_overrides : forall iss mtls p opts pc r, build3 p opts = Some pc -> In r (routes3 pc) ->
  match endpoint_member (r_ep r) with
  | Some m => member3 iss mtls pc m = Some (DStr (iss ++ cf_prefix (pc_cfg pc) ++ r_path r))
  | None => r_ep r = EpWellKnown end.
Proof. exact served_advertised3. Qed.
Print Assumptions served_advertised_under_overrides.

Theorem dispatched_request_is_advertised : forall iss mtls p opts pc mt x e, build3 p opts = Some pc ->
  serve3 pc mt x = Some e ->
  match endpoint_member e with
  | Some m => exists url, member3 iss mtls pc m = Some (DStr url) /\
                if is_sub e then exists rest, (iss ++ x = (url ++ "/") ++ rest)%string /\ is_empty rest = false
                else (iss ++ x)%string = url
  | None => e = EpWellKnown end.
Proof. exact dispatched_is_advertised. Qed.
Print Assumptions dispatched_request_is_advertised.

(* ==== dynamic client registration: the run-time gate of internal/dcr/validation.go against the lists
   the document publishes (Model/DcrGate.v, Proofs/C19DcrProofs.v) ====
   `reg` = the members of goidc.ClientMetaInfo the 35 validators read; `dcr_validate c2 r` = `validate`
   (the conjunction of the validators, each transcribed guard by guard, reading the SAME fields of
   config2 that Discovery2's document members read); `dmember` = the 21 string-valued metadata members
   that are checked against a list (the three <endpoint>_endpoint_auth_method and _auth_signing_alg,
   the five signing, four key-encryption, four content-encryption algorithm members, subject_type,
   backchannel_token_delivery_mode), `set_member m v r` = r with member m set to v, `side_ok m r` =
   what else validation.go reads once m is set (a JWKS next to a JWT-based method, a key algorithm
   next to a content algorithm ...).  For EVERY config2, every member, every value and every
   otherwise valid registration: *)
From Verif Require Import DcrGate C19DcrProofs.

(* the registration is accepted whatever the value where the validator's own guard is off
   (`if !ctx.XIsEnabled { return nil }`), accepted iff the value is ADVERTISED for that member where
   the document publishes the member's list, and accepted iff it is in the configured list where the
   validator is active under a wider guard than the document's *)
Theorem dcr_alg_accepted_iff_advertised : forall c2 m v r,
  is_empty v = false -> side_ok m r = true -> dcr_validate c2 (set_member m "" r) = true ->
  dcr_validate c2 (set_member m v r) =
  (if negb (dcr_checked c2 m r) then true
   else if doc_publishes c2 m then dcr_advertised c2 m r v
   else dcr_configured c2 m r v).
Proof. exact accepted_iff_expected. Qed.
Print Assumptions dcr_alg_accepted_iff_advertised.

Theorem dcr_alg_accepted_iff_advertised_when_published : forall c2 m v r,
  is_empty v = false -> side_ok m r = true -> dcr_validate c2 (set_member m "" r) = true ->
  dcr_checked c2 m r = true -> doc_publishes c2 m = true ->
  dcr_validate c2 (set_member m v r) = dcr_advertised c2 m r v.
Proof. exact published_accepted_iff_advertised. Qed.
Print Assumptions dcr_alg_accepted_iff_advertised_when_published.

(* id_token_signed_response_alg, userinfo_signed_response_alg, token_endpoint_auth_method: no guard in
   the validator, the list always in the document - accepted iff in the list of THAT member (what
   checking userinfo_signed_response_alg against the ID token list violates) *)
Theorem dcr_alg_accepted_iff_advertised_unguarded : forall c2 v r, is_empty v = false ->
  (dcr_validate c2 (set_member DIdtSig "" r) = true ->
   dcr_validate c2 (set_member DIdtSig v r) = l_advertised_in c2 LIdtSig v) /\
  (dcr_validate c2 (set_member DUiSig "" r) = true ->
   dcr_validate c2 (set_member DUiSig v r) = l_advertised_in c2 LUiSig v) /\
  (side_ok (DMethod AToken) r = true -> dcr_validate c2 (set_member (DMethod AToken) "" r) = true ->
   dcr_validate c2 (set_member (DMethod AToken) v r) = l_advertised_in c2 LTokenMethods v).
Proof. exact unguarded_accepted_iff_advertised. Qed.
Print Assumptions dcr_alg_accepted_iff_advertised_unguarded.

(* a disabled feature: the member is accepted whatever its value (and the document publishes no list) *)
Theorem dcr_alg_of_disabled_feature_accepted : forall c2 m v r,
  is_empty v = false -> side_ok m r = true -> dcr_validate c2 (set_member m "" r) = true ->
  dcr_checked c2 m r = false -> dcr_validate c2 (set_member m v r) = true.
Proof. exact unchecked_accepted. Qed.
Print Assumptions dcr_alg_of_disabled_feature_accepted.

(* for ALL option lists: a registration is accepted for a value of a list the document does not
   publish, the validator being active, ONLY for the JAR encryption members when JAR itself is off
   (WithJAREncryption without WithJAR) and for the CIBA request-object algorithm when CIBA is off
   (WithCIBAJAR without WithCIBAGrant) *)
Theorem dcr_unpublished_acceptance : forall p opts c2 m v r, build2 p opts = Some c2 ->
  is_empty v = false -> side_ok m r = true -> dcr_validate c2 (set_member m "" r) = true ->
  dcr_checked c2 m r = true -> doc_publishes c2 m = false ->
  dcr_validate c2 (set_member m v r) = true ->
  ((m = DJarKey \/ m = DJarCenc) /\ cf_jar_enabled (c2_base c2) = false /\ l_jar_enc (c2_lists c2) = true) \/
  (m = DCibaJarSig /\ cf_ciba_enabled (c2_base c2) = false /\ cf_ciba_jar_enabled (c2_base c2) = true).
Proof. exact unpublished_acceptance. Qed.
Print Assumptions dcr_unpublished_acceptance.

(* the list-valued members: adding a grant type / response type / scope to a valid registration is
   accepted iff grant_types_supported / response_types_supported / scopes_supported lists it *)
Theorem dcr_listed_value_accepted_iff_advertised : forall c2 l v r,
  dcr_validate c2 r = true -> lside_ok l v r = true ->
  dcr_validate c2 (add_value l v r) = dlist_advertised c2 l v.
Proof. exact listed_value_accepted. Qed.
Print Assumptions dcr_listed_value_accepted_iff_advertised.
