(* C18 — behaviour does not depend on storage aliasing or on which instance serves.

   The same handler text is interpreted twice (Model/Prog.v): run_seq, where the storage hands out
   copies and an in-place write (Touch) stays local to the request, and run_alias, where the storage
   holds the very object and a Touch rewrites the stored entry with that id.  The theorems below say
   that no history can tell the two apart - neither by what is answered nor by what is stored - and
   why: every in-place write is written through the storage interface (Save of the same id, or its
   deletion) before the response and before the table is consulted again.  Statements only; proofs
   in Proofs/C18Proofs.v, definitions of no_touch / written_through / run_from_inst in Model/Alias.v. *)
From Verif Require Import Base Scope Types Prog Pop Token Authorize System Config Run Alias ReadOnly C17Proofs C18Proofs C18ReadOnlyProofs.
From Verif Require Import Jar Hoare C18Json.
Local Open Scope N_scope.

(* ---- the generic half: a program that never writes in place runs the same on both stores ---- *)
Theorem touch_free_equiv : forall (A : Type) (p : prog A) (st : store),
  no_touch p -> run_alias p st = run_seq p st.
Proof. exact @no_touch_run. Qed.
Print Assumptions touch_free_equiv.

(* ---- the discipline is sufficient: a program whose in-place writes are all written through
        (along its run from st) gives the same answer and the same store on both ---- *)
Theorem written_through_equiv : forall (A : Type) (p : prog A) (st : store),
  written_through p st -> run_alias p st = run_seq p st.
Proof. exact @written_through_sound. Qed.
Print Assumptions written_through_equiv.

(* ---- the property's last sentence, for every handler, every request, every configuration and
        every store whose sessions have exactly one index (C17.one_index: all reachable stores):
        every state change made on a loaded object is written through the storage interface before
        the response is produced ---- *)
Theorem every_touch_written_through : forall w n now o st,
  (forall s, In s (st_asess st) -> n_indexes s = 1%nat) ->
  written_through (handler w n now o) st.
Proof. exact handler_wt. Qed.
Print Assumptions every_touch_written_through.

(* ---- one request, from any such state (in particular from states no modelled history reaches,
        e.g. a session whose client has been deleted by the embedder): same answer, same store ---- *)
Theorem step_alias_copy_equiv : forall w st n o,
  (forall s, In s (st_asess (s_store st)) -> n_indexes s = 1%nat) ->
  step_alias w st n o = step w st n o.
Proof. exact step_alias_eq. Qed.
Print Assumptions step_alias_copy_equiv.

(* ---- all histories: the observations are equal ... ---- *)
Theorem alias_copy_equiv : forall w dyn ops, run_alias_trace w dyn ops = run w dyn ops.
Proof. intros w dyn ops. unfold run_alias_trace, run. rewrite alias_copy_equiv_all. reflexivity. Qed.
Print Assumptions alias_copy_equiv.

(* ---- ... and so are the final states (storage contents and clock) ---- *)
Theorem alias_copy_equiv_state : forall w dyn ops,
  run_from_alias w (init_state dyn) 0 ops = run_from w (init_state dyn) 0 ops.
Proof. exact alias_copy_equiv_all. Qed.
Print Assumptions alias_copy_equiv_state.

(* ---- instances.  `step_with interp w st n o` takes the configuration (world), the state and the
        request and nothing else: whatever instance serves request n, if it was built from the same
        configuration the history is the same.  (The Go code's per-process state - the anonymous
        jwt-bearer client and the JWKS cached on client objects - is outside the model; the harness
        compares one instance with a fresh provider.New per request on every generated history.) ---- *)
Theorem instance_independent : forall interp (inst : nat -> world) (w : world),
  (forall k, inst k = w) ->
  forall ops st n, run_from_inst interp inst st n ops = run_from_with interp w st n ops.
Proof. exact run_from_inst_eq. Qed.
Print Assumptions instance_independent.

(* a history can be cut at any request and continued by whoever holds the configuration and the state *)
Theorem history_changes_hands : forall interp w ops1 ops2 st n,
  run_from_with interp w st n (ops1 ++ ops2) =
  let '(st1, tr1) := run_from_with interp w st n ops1 in
  let '(st2, tr2) := run_from_with interp w st1 (n + List.length ops1) ops2 in
  (st2, (tr1 ++ tr2)%list).
Proof. exact run_from_app. Qed.
Print Assumptions history_changes_hands.

(* ---- the four executions the harness performs on the real provider, in the model ---- *)
Theorem four_executions_agree : forall (inst : nat -> world) w dyn ops,
  (forall k, inst k = w) ->
  let s0 := init_state dyn in
  let reference := run_from w s0 0 ops in                              (* copying store, one instance *)
  run_from_alias w s0 0 ops = reference /\                              (* aliasing store, one instance *)
  run_from_inst (@run_seq obs) inst s0 0 ops = reference /\            (* copying store, instance per request *)
  run_from_inst (@run_alias obs) inst s0 0 ops = reference.            (* aliasing store, instance per request *)
Proof.
  intros inst w dyn ops H s0 reference. unfold reference, s0. repeat split.
  - apply alias_copy_equiv_all.
  - apply (run_from_inst_eq (@run_seq obs) inst w H).
  - rewrite (run_from_inst_eq (@run_alias obs) inst w H). apply alias_copy_equiv_all.
Qed.
Print Assumptions four_executions_agree.

(* ---- not vacuous: the two interpreters do differ on a program that does not write through ---- *)
Theorem aliasing_is_observable_without_write_through :
  exists (p : prog unit) st, fst (run_alias p st) <> fst (run_seq p st).
Proof. exists c18_bad, (mkStore [] [] [c18_g0]). exact alias_differs_without_write_through. Qed.
Print Assumptions aliasing_is_observable_without_write_through.

(* ---- a concrete history that exercises every Touch site: pushed request redeemed with outer
        parameters (session loaded, touched, saved), multi-step policy (touched and saved twice), code
        redemption, refresh with narrowed scopes (grant touched and saved), a refresh refused by the
        embedder, introspection ---- *)
Definition ex_opts : list opt :=
  [WithScopes [ScExact "openid"; ScExact "email"]; WithAuthorizationCodeGrant; WithRefreshTokenGrant 1000%Z;
   WithRefreshTokenRotation; WithPAR 60%Z; WithTokenIntrospection; WithTokenLifetime 300%Z].
Definition ex_client : client :=
  mkClient 1 false [GAuthorizationCode; GRefreshToken] ["code"] ["https://c1.example/cb"] "openid email"
           CibaNone false false false false false false false 0 false None.
Definition ex_ops : list op :=
  [OpPar (mkPReq (mkCred 1 true) (mkParams 0 "https://c1.example/cb" "" "code" "openid email" "st-1" "" PkEmpty "" 0 "" 0 "" [] None) (mkBind None 0));
   OpAuthorize (mkAReq 1 (mkParams 38 "" "" "code" "openid email" "outer" "" PkEmpty "" 0 "" 0 "" [] None) true PolInProgress);
   OpCallback (mkCbReq 69 PolInProgress);
   OpCallback (mkCbReq 69 (PolSuccess "alice" "openid email" [] []));
   OpToken GAuthorizationCode (mkTReq (mkCred 1 true) (mkBind None 0) "" 132 "https://c1.example/cb" 0 PkEmpty 0 HgOk BaApprove [] AsNone None);
   OpToken GRefreshToken (mkTReq (mkCred 1 true) (mkBind None 0) "openid" 0 "" 163 PkEmpty 0 HgDeny BaApprove [] AsNone None);
   OpToken GRefreshToken (mkTReq (mkCred 1 true) (mkBind None 0) "openid" 0 "" 163 PkEmpty 0 HgOk BaApprove [] AsNone None);
   OpIntrospect (mkQReq (mkCred 1 true) (PExact 225) true)].
Definition ex_world : option world :=
  match build POpenID ex_opts with Some cfg => Some (mkWorld cfg []) | None => None end.
Definition is_tokens (x : obs) : bool := match x with Out (OTokens _) => true | _ => false end.
Example history_with_touches :
  match ex_world with
  | Some w => run_alias_trace w [ex_client] ex_ops = run w [ex_client] ex_ops /\
              map is_tokens (run w [ex_client] ex_ops) = [false; false; false; false; true; false; true; false] /\
              ~ no_touch (refresh_grant w 6 0%Z (mkTReq (mkCred 1 true) (mkBind None 0) "openid" 0 "" 163 PkEmpty 0 HgOk BaApprove [] AsNone None))
  | None => False
  end.
Proof. vm_compute. repeat split. intros H. exact (H (RClient ex_client) (RGSess c18_g0)). Qed.

(* ---- read-only endpoints.  The handlers of token introspection, userinfo and the provider's two
        TokenInfo helpers (read_only_op, Model/ReadOnly.v) perform lookups only - no Save, no Delete,
        no DeleteByAuthorizationCode - and never write in place to a loaded object (reads_only): for
        every configuration, request and storage contents ... ---- *)
Theorem read_only_handlers_only_read : forall w n now o,
  read_only_op o = true -> reads_only (handler w n now o).
Proof. exact read_only_handler_reads_only. Qed.
Print Assumptions read_only_handlers_only_read.

(* ... hence the storage after such a request is the storage before it, under the copying
   interpreter and under the aliasing one ... *)
Theorem read_only_endpoints_keep_the_store : forall w n now o st,
  read_only_op o = true ->
  fst (run_seq (handler w n now o) st) = st /\ fst (run_alias (handler w n now o) st) = st.
Proof. exact read_only_handler_keeps_store. Qed.
Print Assumptions read_only_endpoints_keep_the_store.

(* ... and so is the whole state (storage contents and clock) after the step the correspondence runs
   (step for the copying store, step_alias for the aliasing store), from ANY state.  The harness checks
   the same on the real provider with a deep snapshot of everything stored before and after each such
   request (finding C18:read-only-endpoint-wrote:<endpoint>); what the model does not have - the claim
   maps of grants, serialisation of the answer, discovery, jwks - is covered there only. *)
Theorem read_only_requests_keep_the_state : forall w st n o,
  read_only_op o = true ->
  fst (step w st n o) = st /\ fst (step_alias w st n o) = st.
Proof. exact read_only_step_keeps_state. Qed.
Print Assumptions read_only_requests_keep_the_state.

(* the hypothesis is satisfiable (the last request of ex_ops is one), and revocation - which deletes
   the grant - is not among them *)
Example read_only_ops_exist :
  read_only_op (OpIntrospect (mkQReq (mkCred 1 true) (PExact 225) true)) = true /\
  read_only_op (OpUserInfo (mkUReq (PExact 225) true (mkBind None 0))) = true /\
  read_only_op (OpRevoke (mkQReq (mkCred 1 true) (PExact 225) true)) = false /\
  match ex_world with
  | Some w => forall st, fst (step_alias w st 7 (OpIntrospect (mkQReq (mkCred 1 true) (PExact 225) true))) = st
  | None => False
  end.
Proof.
  repeat split. destruct ex_world as [w|] eqn:E; [|vm_compute in E; discriminate E].
  intros st. apply read_only_requests_keep_the_state. reflexivity.
Qed.

(* ---- list-valued members and the JSON form of stored objects (defects D27, D28; Proofs/C18Json.v) ----
   A storage that serialises (encoding/json, members tagged omitempty) reads an empty list back as an absent
   one.  json_params / json_client are that round trip on the members of the model it can change: the
   authorization_details of the parameters of a stored session and the authorization_data_types of a stored
   client.  Every session POST /par saves - plain or through a request object, on every path, whatever the
   storage answers - carries parameters that are a FIXED POINT of the round trip ... *)
Theorem pushed_session_is_json_fixed_point : forall w jx n now r obj,
  saves_ok any_grant stable_session (push_auth w n now r) /\
  saves_ok any_grant stable_session (push_auth_jar w jx n now r obj).
Proof. exact pushed_sessions_stable. Qed.
Print Assumptions pushed_session_is_json_fixed_point.

(* ... so the parameters /authorize merges with the outer ones of the redeeming request are the same under
   both flavours ... *)
Theorem pushed_merge_flavour_independent : forall i o,
  merge_params (json_params (par_stored_params i)) o = merge_params (par_stored_params i) o.
Proof. exact merge_of_pushed_flavour_independent. Qed.
Print Assumptions pushed_merge_flavour_independent.

(* ... which is NOT so for the parameters as they arrive (the defect D27 as found: `authorization_details=[]`
   pushed, an outer list on the redeeming request). *)
Theorem raw_merge_flavour_dependent : exists i o,
  p_auth_details (merge_params (json_params i) o) <> p_auth_details (merge_params i o).
Proof. exact (ex_intro _ d27_inner (ex_intro _ d27_outer merge_raw_flavour_dependent)). Qed.
Print Assumptions raw_merge_flavour_dependent.

(* The validation of requested authorization-detail types - the only reader of a client's registered list -
   does not tell a client from its JSON round trip (D28). *)
Theorem registered_detail_types_json_invariant : forall cfg c d,
  details_param_ok cfg (json_client c) d = details_param_ok cfg c d.
Proof. exact details_param_ok_json. Qed.
Print Assumptions registered_detail_types_json_invariant.

(* the round trip is not the identity on the examples (so the statements above say something) *)
Example json_round_trip_changes_something :
  json_params d27_inner <> d27_inner /\
  (forall c, c_auth_detail_types c = Some [] -> c_auth_detail_types (json_client c) = None).
Proof. split; [vm_compute; discriminate|]. intros c H. unfold json_client. cbn. rewrite H. reflexivity. Qed.
