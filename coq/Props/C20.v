(* C20 — concurrent requests on the default storage are free of data races.
   Level "other" (partial): a lockset theorem over the access summaries of the handler programs
   plus dynamic detection (suite c20, Go race detector).  The property is REFUTED for the object
   fields (the default managers publish pointers that handlers mutate) and holds for the maps.
   Statements only; proofs in Proofs/C20Proofs.v, model in Model/Access.v. *)
From Verif Require Import Base Scope Types Prog Pop Token Authorize Access C20Proofs.
Local Open Scope N_scope.

(* Every access a handler program performs (any program over the storage calls, any store, any
   set of jwks_uri clients) obeys the discipline: a map is written only under its manager's write
   lock and read under at least its read lock; object fields are never under a write lock. *)
Theorem accesses_disciplined : forall has A (p : prog A) s,
  Forall (fun a => disciplined a = true) (trace has p s).
Proof. intros. apply trace_disc. Qed.
Print Assumptions accesses_disciplined.

(* maps_race_free: no two requests, whatever they are, ever conflict on the maps themselves *)
Theorem maps_race_free : forall has A B (p : prog A) (q : prog B) s1 s2 a b,
  In a (trace has p s1) -> In b (trace has q s2) -> is_map (ac_loc a) = true -> races a b = false.
Proof.
  intros has A B p q s1 s2 a b Ha Hb M.
  pose proof (proj1 (Forall_forall _ _) (trace_disc has p s1) a Ha).
  pose proof (proj1 (Forall_forall _ _) (trace_disc has q s2) b Hb).
  apply maps_no_race; assumption.
Qed.
Print Assumptions maps_race_free.

(* object_races_characterised: two accesses of two requests race iff they hit the same field of
   the same stored object and one of them is an unsynchronised write (a Touch of a handler, or
   the store's own Client() clearing PublicJWKS under the read lock) - in particular via the index
   scans, which read a field of EVERY stored object *)
Theorem object_races_characterised : forall has A B (p : prog A) (q : prog B) s1 s2 a b,
  In a (trace has p s1) -> In b (trace has q s2) ->
  (races a b = true <->
   exists k i f, ac_loc a = LField k i f /\ ac_loc b = LField k i f /\
                 (unsync_write a = true \/ unsync_write b = true)).
Proof.
  intros has A B p q s1 s2 a b Ha Hb.
  apply object_races.
  - exact (proj1 (Forall_forall _ _) (trace_disc has p s1) a Ha).
  - exact (proj1 (Forall_forall _ _) (trace_disc has q s2) b Hb).
Qed.
Print Assumptions object_races_characterised.

(* C20_refuted: there are two handler instances whose access summaries race: a refresh and any
   introspection; the callback finishing a session and any code lookup; two lookups of one client
   registered with jwks_uri.  (Witnesses by vm_compute; replayed by suite c20.) *)
Theorem C20_refuted :
  some_race (trace no_jwks_uri c20_refresh c20_store) (trace no_jwks_uri c20_introspect c20_store) = true /\
  some_race (trace no_jwks_uri c20_callback c20_store) (trace no_jwks_uri c20_code c20_store) = true /\
  some_race (call_accesses (fun _ => true) (CGet 1) c20_store_c) (call_accesses (fun _ => true) (CGet 1) c20_store_c) = true.
Proof. exact (conj refuted_grant (conj refuted_session refuted_client)). Qed.
Print Assumptions C20_refuted.

(* the signatures these witnesses produce, in the vocabulary of the dynamic check *)
Example predicted_examples :
  predicted_signature "internal/storage.(*GrantSessionManager).SessionByTokenID.func1:read" "internal/token.updateRefreshTokenGrantSession:write" = true /\
  predicted_signature "internal/storage.(*ClientManager).Client:write" "internal/storage.(*ClientManager).Client:write" = true /\
  predicted_signature "internal/storage.(*ClientManager).Save:write:map" "internal/storage.(*ClientManager).Client:read:map" = false /\
  predicted_signature "internal/token.generateToken:write" "internal/token.generateToken:read" = false /\
  (* a client updated through PUT /register/{id} while a token request reads it *)
  predicted_signature "internal/dcr.update:write" "internal/token.*:read" = true /\
  (* nothing is predicted for a map operation inside internal/storage, whatever the lock story of its caller,
     nor for a write site the model does not list (a per-request copy of the client must not reach shared memory) *)
  predicted_signature "internal/storage.(*GrantSessionManager).DeleteByAuthorizationCode:write:map" "internal/storage.(*GrantSessionManager).firstSession:read:map" = false /\
  predicted_signature "internal/authorize.clientWithRedirectURI:write" "internal/authorize.clientWithRedirectURI:write" = false /\
  predicted_signature "internal/authorize.*:read" "internal/authorize.clientWithRedirectURI:write" = false.
Proof. vm_compute. repeat split. Qed.
Eval vm_compute in race_pairs (trace no_jwks_uri c20_refresh c20_store) (trace no_jwks_uri c20_introspect c20_store).
Eval vm_compute in race_pairs (trace no_jwks_uri c20_callback c20_store) (trace no_jwks_uri c20_code c20_store).
