(* C20 — concurrent requests on the default storage are free of data races.
   Level "other" (partial): a lockset theorem over the access summaries of the handler programs
   plus dynamic detection (suite c20, Go race detector).  The property is REFUTED for the object
   fields (the default managers publish pointers that handlers mutate) and holds for the maps.
   Statements only; proofs in Proofs/C20Proofs.v, model in Model/Access.v. *)
From Verif Require Import Base Scope Types Prog Pop Token Authorize System Config Access AccessOwn AccessCfg C20Proofs C20OwnProofs C20OwnGeneral C20CfgProofs Race.
Local Open Scope N_scope.

(* Every access a handler program performs (any program over the storage calls, any store, any
   set of jwks_uri clients) obeys the discipline: a map is written only under its manager's write
   lock and read under at least its read lock; object fields are never under a write lock. *)
Theorem accesses_disciplined : forall has A (p : prog A) s,
  Forall (fun a => disciplined a = true) (trace has p s).
Proof. intros. apply trace_disc. Qed.
Print Assumptions accesses_disciplined.

(* maps_race_free: no two requests, whatever they are, ever conflict on the maps themselves *)
Theorem maps_race_free : forall has A B (p : prog A) (q : prog B) s1 s2 a b,
  In a (trace has p s1) -> In b (trace has q s2) -> is_map (ac_loc a) = true -> races a b = false.
Proof.
  intros has A B p q s1 s2 a b Ha Hb M.
  pose proof (proj1 (Forall_forall _ _) (trace_disc has p s1) a Ha).
  pose proof (proj1 (Forall_forall _ _) (trace_disc has q s2) b Hb).
  apply maps_no_race; assumption.
Qed.
Print Assumptions maps_race_free.

(* object_races_characterised: two accesses of two requests race iff they hit the same field of
   the same stored object and one of them is an unsynchronised write (a Touch of a handler, or
   the store's own Client() clearing PublicJWKS under the read lock) - in particular via the index
   scans, which read a field of EVERY stored object *)
Theorem object_races_characterised : forall has A B (p : prog A) (q : prog B) s1 s2 a b,
  In a (trace has p s1) -> In b (trace has q s2) ->
  (races a b = true <->
   exists k i f, ac_loc a = LField k i f /\ ac_loc b = LField k i f /\
                 (unsync_write a = true \/ unsync_write b = true)).
Proof.
  intros has A B p q s1 s2 a b Ha Hb.
  apply object_races.
  - exact (proj1 (Forall_forall _ _) (trace_disc has p s1) a Ha).
  - exact (proj1 (Forall_forall _ _) (trace_disc has q s2) b Hb).
Qed.
Print Assumptions object_races_characterised.

(* C20_refuted: there are two handler instances whose access summaries race: a refresh and any
   introspection; the callback finishing a session and any code lookup; two lookups of one client
   registered with jwks_uri.  (Witnesses by vm_compute; replayed by suite c20.) *)
Theorem C20_refuted :
  some_race (trace no_jwks_uri c20_refresh c20_store) (trace no_jwks_uri c20_introspect c20_store) = true /\
  some_race (trace no_jwks_uri c20_callback c20_store) (trace no_jwks_uri c20_code c20_store) = true /\
  some_race (call_accesses (fun _ => true) (CGet 1) c20_store_c) (call_accesses (fun _ => true) (CGet 1) c20_store_c) = true.
Proof. exact (conj refuted_grant (conj refuted_session refuted_client)). Qed.
Print Assumptions C20_refuted.

(* ---- which object an in-place write hits (Model/AccessOwn.v) ----
   trace_own refines trace by the sessions a request holds PRIVATELY (a lookup the handler follows with a
   copy; cp says which; deep says whether the copy clones the map-valued members too - the tree with fix
   e2b7ce4 does).  The refined summaries obey the same discipline, so the two theorems above hold of
   them verbatim; with a handler that copies nothing trace_own IS trace. *)
Theorem own_accesses_disciplined : forall has deep cp A (p : prog A) priv s,
  Forall (fun a => disciplined a = true) (trace_own has deep cp priv p s).
Proof. intros. apply trace_own_disc. Qed.
Print Assumptions own_accesses_disciplined.

Theorem own_object_races_characterised : forall has d1 d2 cp cq A B (p : prog A) (q : prog B) pp pq s1 s2 a b,
  In a (trace_own has d1 cp pp p s1) -> In b (trace_own has d2 cq pq q s2) ->
  (is_map (ac_loc a) = true -> races a b = false) /\
  (races a b = true <->
   exists k i f, ac_loc a = LField k i f /\ ac_loc b = LField k i f /\
                 (unsync_write a = true \/ unsync_write b = true)).
Proof.
  intros has d1 d2 cp cq A B p q pp pq s1 s2 a b Ha Hb.
  pose proof (proj1 (Forall_forall _ _) (trace_own_disc has d1 cp p pp s1) a Ha) as Da.
  pose proof (proj1 (Forall_forall _ _) (trace_own_disc has d2 cq q pq s2) b Hb) as Db.
  split; [intros M; apply maps_no_race; assumption|apply object_races; assumption].
Qed.
Print Assumptions own_object_races_characterised.

Theorem trace_own_without_copies : forall has deep A (p : prog A) s, trace_own has deep nothing_copied [] p s = trace has p s.
Proof. intros. apply trace_own_nothing. Qed.
Print Assumptions trace_own_without_copies.

(* first_request_writes_no_shared_session - for EVERY world (profile, options, static clients), request (with or
   without request_uri, any policy verdict), clock, set of jwks_uri clients and store in which the id a new session
   would get is not yet taken (ids are minted per operation: Proofs/Fresh.v): the first request of an authorization
   (GET/POST /authorize, Authorize.init_auth) performs NO unsynchronised write to ANY member - scalar or map - of a
   session in shared memory.  It works on a new session (stored only by its final Save) or on a copy of the pushed
   one whose maps are cloned (authnSessionWithPAR after fix e2b7ce4, defect D24). *)
Theorem first_request_writes_no_shared_session : forall has w n now r st,
  (forall x, In x (st_asess st) -> a_id x <> mint n KSessId) ->
  session_writes (trace_own has true par_copied [] (init_auth w n now r) st) = [].
Proof. intros. apply first_request_writes_nothing_lemma. apply not_stored_of_fresh. assumption. Qed.
Print Assumptions first_request_writes_no_shared_session.

(* whatever the copy does with the maps (deep or shallow), no SCALAR member is written *)
Theorem first_request_scalars_private : forall has deep w n now r st,
  (forall x, In x (st_asess st) -> a_id x <> mint n KSessId) ->
  scalar_session_writes (trace_own has deep par_copied [] (init_auth w n now r) st) = [].
Proof. intros. apply first_request_scalars_private_lemma. apply not_stored_of_fresh. assumption. Qed.
Print Assumptions first_request_scalars_private.

(* the hypothesis is satisfiable and the statement not vacuous: the FAPI 2.0 scenario below - the id of request 1 is
   free in the store the push left, and the request does change its session (a handler that copied nothing would
   write the stored one) *)
Example first_request_applies :
  let su := setup_of (own_scn PFapi2 "code" own_ok) in
  stored (mint (su_base su) KSessId) (su_store su) = false /\
  session_writes (own_trace true nothing_copied (own_scn PFapi2 "code" own_ok)) <> [].
Proof. vm_compute. split; [reflexivity|discriminate]. Qed.

(* pushed_session_maps_private: the FIRST request of an authorization that presents a pushed request_uri
   (internal/authorize.initAuth -> authnSessionWithPAR, which continues with a DEEP copy of the stored session),
   for every profile x response type the profiles admit (own_cells: OpenID code / code id_token / id_token /
   token / code token, FAPI 1.0 code id_token, FAPI 2.0 code) and every verdict of the policy (success, login
   page, failure): the request is served (page or redirect), NO member of a stored / shared session - scalar or
   map - is written outside a lock, the summary does not race with the index scans of other requests, and TWO
   such requests (the same request_uri, inside the K3 window) do not race with each other. *)
Theorem pushed_session_maps_private : forall prof rt pol, In (prof, rt) own_cells -> In pol own_pols ->
  let s := own_scn prof rt pol in
  own_live s = true /\
  session_writes (own_trace true par_copied s) = [] /\
  some_race (own_trace true par_copied s) (other_scan s) = false /\
  some_race (own_trace true par_copied s) (own_trace true par_copied s) = false.
Proof.
  intros prof rt pol Hc Hp s.
  pose proof (for_cells_spec _ own_cells_live _ _ _ Hc Hp) as H1.
  pose proof (for_cells_spec _ own_private _ _ _ Hc Hp) as H2.
  pose proof (for_cells_spec _ copy_no_race_with_scans _ _ _ Hc Hp) as H3.
  pose proof (for_cells_spec _ deep_copy_no_self_race _ _ _ Hc Hp) as H4.
  cbv beta in H2, H3, H4. fold s in H1, H2, H3, H4.
  split; [exact H1|]. split; [destruct (session_writes _); [reflexivity|discriminate]|].
  split; apply negb_true_iff; assumption.
Qed.
Print Assumptions pushed_session_maps_private.

(* pushed_session_without_map_copy_races (the code BEFORE fix e2b7ce4, defect D24; a regression is predicted as a
   race): the same requests served by a handler whose copy is shallow (deep = false: sessionCopy := *session
   alone) write no scalar member, but the maps the copy shares with the stored session: every such request writes
   the nonce claim into AdditionalIDTokenClaims (site SetIDTokenClaim[initAuth]; the policy: StoreParameter[initAuth]),
   nothing else, and two requests presenting the same request_uri race with each other (write/write on a Go map).
   The dynamic check names these writes <site>[initAuth]; they are not known findings any more. *)
Theorem pushed_session_without_map_copy_races : forall prof rt pol, In (prof, rt) own_cells -> In pol own_pols ->
  let s := own_scn prof rt pol in
  scalar_session_writes (own_trace false par_copied s) = [] /\
  (forall site f, In (site, f) (session_writes (own_trace false par_copied s)) -> In site map_sites /\ is_map_member f = true) /\
  In (gapi ++ "SetIDTokenClaim[initAuth]")%string (map fst (session_writes (own_trace false par_copied s))) /\
  some_race (own_trace false par_copied s) (own_trace false par_copied s) = true.
Proof.
  intros prof rt pol Hc Hp s.
  pose proof (for_cells_spec _ shallow_scalar_private _ _ _ Hc Hp) as H2.
  pose proof (for_cells_spec _ shallow_map_writes _ _ _ Hc Hp) as H3.
  pose proof (for_cells_spec _ shallow_nonce_written _ _ _ Hc Hp) as A.
  pose proof (for_cells_spec _ shallow_copy_races _ _ _ Hc Hp) as B.
  cbv beta in H2, H3, A, B. fold s in H2, H3, A, B.
  split; [destruct (scalar_session_writes _); [reflexivity|discriminate]|].
  split; [|split; [|exact B]].
  - intros site f Hin. rewrite forallb_forall in H3. specialize (H3 _ Hin). cbn [fst snd] in H3.
    apply andb_true_iff in H3 as [X Y]. split; [apply mem_In; exact X|exact Y].
  - apply existsb_exists in A as [x [Hx E]]. apply seqb_eq in E. rewrite <- E. apply in_map. exact Hx.
Qed.
Print Assumptions pushed_session_without_map_copy_races.

(* pushed_session_without_copy_races: the same requests served by a handler that keeps the stored session
   (cp = nothing_copied; under a FAPI profile: returning the looked-up session before the copy is made):
   internal/authorize.initAuthnSession (and authorizeAuthnSession, SetUserID, GrantScopes) write scalar
   members of the STORED session with no lock, and these writes race with the scans SessionByPushedAuthReqID /
   SessionByAuthCode / SessionByCallbackID of ANY other request.  The dynamic check names these writes
   <site>[initAuth]; none of them is a known finding. *)
Theorem pushed_session_without_copy_races : forall prof rt pol, In (prof, rt) own_cells -> In pol own_pols ->
  let s := own_scn prof rt pol in
  In "internal/authorize.initAuthnSession" (map fst (scalar_session_writes (own_trace true nothing_copied s))) /\
  some_race (own_trace true nothing_copied s) (other_scan s) = true.
Proof.
  intros prof rt pol Hc Hp s.
  pose proof (for_cells_spec _ no_copy_writes_stored _ _ _ Hc Hp) as H. cbv beta in H. fold s in H.
  apply andb_true_iff in H as [A B]. split; [|exact B].
  apply existsb_exists in A as [x [Hx E]]. apply seqb_eq in E. rewrite <- E. apply in_map. exact Hx.
Qed.
Print Assumptions pushed_session_without_copy_races.

(* static_client_never_written: the client object held by the configuration (WithStaticClient) is never
   written by client authentication, with or without a jwks_uri (Context.Client hands out a copy when there is
   one), so two requests authenticating one static client never race on it; a client held by the client
   STORAGE that has a jwks_uri is written (known finding K5: FetchPublicJWKS caches on the stored object);
   and a Context.Client that hands out the shared static object would make FetchPublicJWKS / fetchJWKS race
   with themselves - the dynamic check names these writes <site>[static-client]; not known. *)
Theorem static_client_never_written : forall has_uri i,
  Forall (fun a => ac_write a = false) (authn_accesses CStatic has_uri i) /\
  some_race (authn_accesses CStatic has_uri i) (authn_accesses CStatic has_uri i) = false.
Proof. intros. split; [apply static_never_written|apply static_no_race]. Qed.
Print Assumptions static_client_never_written.

Theorem client_cache_races : forall i,
  some_race (authn_accesses CStored true i) (authn_accesses CStored true i) = true /\
  some_race (authn_accesses_no_copy CStatic true i) (authn_accesses_no_copy CStatic true i) = true /\
  map ac_site (filter ac_write (authn_accesses_no_copy CStatic true i)) =
    ["pkg/goidc.(*Client).FetchPublicJWKS[static-client]"; "pkg/goidc.(*Client).fetchJWKS[static-client]"]%string.
Proof. intros. split; [apply stored_uri_races|split; [apply static_no_copy_races|apply static_no_copy_sites]]. Qed.
Print Assumptions client_cache_races.

(* ---- the configuration (Model/AccessCfg.v) ----
   provider.New builds one *oidc.Configuration that every request reaches through its oidc.Context: the lists of
   algorithms, methods, scopes ..., the optional functions and the static clients are shared memory with no lock.
   request_summary puts the configuration reads of an endpoint (transcribed from the Go handlers; discovery and
   dynamic registration included) next to the storage accesses Access.trace derives from the handler program.

   config_never_written: for EVERY set of jwks_uri clients, world, operation index, clock, endpoint / request and
   store, every access of the request's summary to a configuration object is a read - no handler writes a
   configuration object.  This is a statement about the access SUMMARY (in the model the configuration is the world
   parameter: no constructor of prog can change it, System.step_with hands the same world to every step); that the
   compiled code makes no other access - an append into the spare capacity of a shared slice
   (oidc.Context.ClientAuthnSigAlgs), a default assigned through the embedded pointer (ctx.HTTPClientFunc = ...) - is
   sampled by the race detector: suite c20, phases "wide configuration" and "bare cold start", where such a write is
   named <site>[config]. *)
Theorem config_never_written : forall has w n now e st,
  Forall (fun a => is_cfg (sa_loc a) = true -> sa_write a = false) (request_summary has w n now e st).
Proof. exact config_never_written_lemma. Qed.
Print Assumptions config_never_written.

(* hence no two requests - whatever their endpoints, worlds, clocks and stores - race on a configuration object *)
Theorem config_race_free : forall h1 h2 w1 w2 n1 n2 now1 now2 e1 e2 s1 s2 a b,
  In a (request_summary h1 w1 n1 now1 e1 s1) -> In b (request_summary h2 w2 n2 now2 e2 s2) ->
  is_cfg (sa_loc a) = true -> sraces a b = false.
Proof. exact config_race_free_lemma. Qed.
Print Assumptions config_race_free.

(* not vacuous: every request to the token endpoint reads both client-assertion algorithm lists
   (clientutil.extractID -> Context.ClientAuthnSigAlgs), and the storage half of a summary is Access.trace itself *)
Example config_is_read : forall has w n now g r st,
  In (cfg_read "internal/token.*" cfg_private_key_jwt_sig_algs) (request_summary has w n now (EpOp (OpToken g r)) st) /\
  In (cfg_read "internal/token.*" cfg_client_secret_jwt_sig_algs) (request_summary has w n now (EpOp (OpToken g r)) st).
Proof. exact token_reads_sig_algs. Qed.
Example config_summary_keeps_the_storage_accesses :
  map sa_site (filter (fun a => negb (is_cfg (sa_loc a))) (request_summary no_jwks_uri c20_world 5%nat 0%Z (EpOp c20_refresh_op) c20_store))
  = map ac_site (trace no_jwks_uri (handler c20_world 5%nat 0%Z c20_refresh_op) c20_store) /\
  existsb ac_write (trace no_jwks_uri (handler c20_world 5%nat 0%Z c20_refresh_op) c20_store) = true.
Proof. vm_compute. split; reflexivity. Qed.

(* config_signatures_not_predicted: the comparison the case file of suite c20 evaluates (predicted_signature_cfg)
   predicts NO signature one element of which is qualified [config] (or [wide-burst]), whatever the other element
   is; on every other signature it is Access.predicted_signature. *)
Theorem config_signatures_not_predicted : forall a b,
  (qualified_unpredicted a = true \/ qualified_unpredicted b = true -> predicted_signature_cfg a b = false) /\
  (qualified_unpredicted a = false -> qualified_unpredicted b = false -> predicted_signature_cfg a b = predicted_signature a b).
Proof. exact (fun a b => conj (qualified_never_predicted a b) (unqualified_as_before a b)). Qed.
Print Assumptions config_signatures_not_predicted.
Example config_signature_examples :
  (* the two request-time writes the phases were built for *)
  predicted_signature_cfg "internal/clientutil.*:read" "internal/oidc.Context.ClientAuthnSigAlgs[config]:write" = false /\
  predicted_signature_cfg "internal/oidc.Context.ClientAuthnSigAlgs[config]:write" "internal/oidc.Context.ClientAuthnSigAlgs[config]:write" = false /\
  predicted_signature_cfg "internal/oidc.*:read" "internal/oidc.Context.HTTPClient[config]:write" = false /\
  (* not even against a known writer (Access.predicted_signature would count the reader side of that pair) *)
  predicted_signature "internal/authorize.authorizeAuthnSession:write" "internal/oidc.Context.HTTPClient[config]:write" = true /\
  predicted_signature_cfg "internal/authorize.authorizeAuthnSession:write" "internal/oidc.Context.HTTPClient[config]:write" = false /\
  predicted_signature_cfg "internal/token.*:read" "internal/token.generateRefreshTokenGrant[wide-burst]:write" = false /\
  (* the known pairs are predicted as before *)
  predicted_signature_cfg "internal/storage.(*GrantSessionManager).SessionByTokenID.func1:read" "internal/token.updateRefreshTokenGrantSession:write" = true /\
  predicted_signature_cfg "internal/dcr.update:write" "internal/token.*:read" = true.
Proof. vm_compute. repeat split. Qed.

(* the signatures these witnesses produce, in the vocabulary of the dynamic check *)
Example predicted_examples :
  predicted_signature "internal/storage.(*GrantSessionManager).SessionByTokenID.func1:read" "internal/token.updateRefreshTokenGrantSession:write" = true /\
  predicted_signature "internal/storage.(*ClientManager).Client:write" "internal/storage.(*ClientManager).Client:write" = true /\
  predicted_signature "internal/storage.(*ClientManager).Save:write:map" "internal/storage.(*ClientManager).Client:read:map" = false /\
  predicted_signature "internal/token.generateToken:write" "internal/token.generateToken:read" = false /\
  (* a client updated through PUT /register/{id} while a token request reads it *)
  predicted_signature "internal/dcr.update:write" "internal/token.*:read" = true /\
  (* nothing is predicted for a map operation inside internal/storage, whatever the lock story of its caller,
     nor for a write site the model does not list (a per-request copy of the client must not reach shared memory) *)
  predicted_signature "internal/storage.(*GrantSessionManager).DeleteByAuthorizationCode:write:map" "internal/storage.(*GrantSessionManager).firstSession:read:map" = false /\
  predicted_signature "internal/authorize.clientWithRedirectURI:write" "internal/authorize.clientWithRedirectURI:write" = false /\
  predicted_signature "internal/authorize.*:read" "internal/authorize.clientWithRedirectURI:write" = false /\
  (* writers below internal/authorize.initAuth (private session) and writers of static clients are not predicted ... *)
  predicted_signature "internal/authorize.initAuthnSession[initAuth]:write" "internal/storage.(*AuthnSessionManager).SessionByCallbackID.func1:read" = false /\
  predicted_signature "internal/authorize.authorizeAuthnSession[initAuth]:write" "internal/storage.(*AuthnSessionManager).SessionByAuthCode.func1:read" = false /\
  predicted_signature "pkg/goidc.(*AuthnSession).SetUserID:write" "pkg/goidc.(*AuthnSession).SetUserID[initAuth]:write" = true /\
  predicted_signature "pkg/goidc.(*AuthnSession).SetUserID[initAuth]:write" "pkg/goidc.(*AuthnSession).SetUserID[initAuth]:write" = false /\
  predicted_signature "internal/oidc.*:read" "pkg/goidc.(*Client).FetchPublicJWKS[static-client]:write" = false /\
  predicted_signature "pkg/goidc.(*Client).FetchPublicJWKS[static-client]:write" "pkg/goidc.(*Client).FetchPublicJWKS[static-client]:write" = false /\
  (* ... nor, since fix e2b7ce4 (D24: the copy of the pushed session clones its maps), the writers of those maps *)
  predicted_signature "pkg/goidc.(*AuthnSession).SetIDTokenClaim[initAuth]:write" "pkg/goidc.(*AuthnSession).SetIDTokenClaim[initAuth]:write" = false /\
  predicted_signature "pkg/goidc.(*AuthnSession).*:read" "pkg/goidc.(*AuthnSession).StoreParameter[initAuth]:write" = false /\
  (* the code's bytes, published by the callback's in-place write; the reader in internal/oidc of a session being saved *)
  predicted_signature "internal/authorize.*:read" "internal/strutil.Random:write" = true /\
  predicted_signature "internal/authorize.authorizeAuthnSession:write" "internal/oidc.*:read" = true.
Proof. vm_compute. repeat split. Qed.
Eval vm_compute in race_pairs (trace no_jwks_uri c20_refresh c20_store) (trace no_jwks_uri c20_introspect c20_store).
Eval vm_compute in race_pairs (trace no_jwks_uri c20_callback c20_store) (trace no_jwks_uri c20_code c20_store).
