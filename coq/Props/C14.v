(* C14 — storage failures and crashes fail closed.
   Statements only; proofs are in Proofs/C14{Base,Fault,Back,Ack,Seq,Crash,Proofs}.v.
   Vocabulary (negative answers, artifacts, backing state, flow expressions): Model/FaultSpec.v.
   Interpreters: Model/Prog.v (run_fault, run_prefix, run_log), Model/FaultLog.v (run_fault_log: the
   same faulty run with the log of calls, faults applied and replies), Model/DcrFault.v (/register).

   Every theorem is for ALL worlds (configuration, static clients), ALL requests, ALL stores and
   ALL fault plans `plan : nat -> fault` — any number of faults at any positions, not only
   single faults and pairs. *)
From Verif Require Import Base Scope Types Prog Pop Token Authorize System Config FaultLog DcrFault FaultSpec
  Fresh C14Base C14Proofs C14Pairs.
Local Open Scope N_scope.
Local Open Scope list_scope.

(* ===================== 1. no artifact without backing state ===================== *)
(* Whatever fails, every access token / refresh token / code / request_uri / auth_req_id /
   callback id carried by the answer of ANY operation (token endpoint with its four modelled
   grants, /par, /bc-authorize, /authorize and its callback with code and implicit token,
   NotifyCIBASuccess, and trivially the others) names a grant / session that IS in the final store.
   The only hypothesis is the one-index discipline that ctx.SaveAuthnSession enforces on every
   stored session; it holds in every reachable state (C13: one_index_reachable) and is kept by
   faulty runs and crashed prefixes (below). *)
Theorem fault_no_unbacked_artifact : forall w n now o plan st, one_index_store st ->
  all_backed n (fst (fst (run_fault plan 0 (handler w n now o) st)))
               (snd (fst (run_fault plan 0 (handler w n now o) st))).
Proof. exact fault_no_unbacked_artifact_thm. Qed.
Print Assumptions fault_no_unbacked_artifact.

(* ... because the GSave / ASave of that very object was executed in this run with a reply other
   than RFail *)
Theorem fault_artifact_saved_in_run : forall w n now o plan st, one_index_store st ->
  let l := snd (run_fault_log plan 0 (handler w n now o) st) in
  let x := snd (fst (run_fault_log plan 0 (handler w n now o) st)) in
  (forall p, In p (obs_tokens x) -> exists g c gt, saved_in_run l (GSave g) /\ make_token n c gt = (fst p, g_token g) /\
                                                    (snd p = 0 \/ g_refresh g = snd p)) /\
  (forall c, In c (lift_out out_codes x) -> exists s, saved_in_run l (ASave s) /\ a_code s = c) /\
  (forall u, In u (lift_out out_request_uris x) -> exists s, saved_in_run l (ASave s) /\ a_par s = u) /\
  (forall a, In a (lift_out out_auth_req_ids x) -> exists s, saved_in_run l (ASave s) /\ a_ciba s = a) /\
  (forall cb, In cb (lift_out out_callbacks x) -> exists s, saved_in_run l (ASave s) /\ a_cb s = cb).
Proof. exact fault_artifact_saved_in_run_thm. Qed.
Print Assumptions fault_artifact_saved_in_run.

Theorem one_index_kept_by_faults : forall w n now o plan st, one_index_store st ->
  one_index_store (fst (fst (run_fault plan 0 (handler w n now o) st))).
Proof. exact one_index_kept_by_faults_thm. Qed.
Print Assumptions one_index_kept_by_faults.
Theorem one_index_kept_by_crashes : forall w n now o k st, one_index_store st ->
  one_index_store (fst (run_prefix k (handler w n now o) st)).
Proof. exact one_index_kept_by_crashes_thm. Qed.
Print Assumptions one_index_kept_by_crashes.

(* ===================== 2. a failed storage call yields a negative answer ===================== *)
(* If the plan hit (some call of the run got an error, or a not-found on a read), the answer is an
   error, an inactive introspection, an error redirect without artifacts, or (false, []) for a
   notification — with ONE exception, which is what the Go code does: /revoke reads a failed grant
   lookup as "no such token" and answers 200 (RFC 7009) without attempting a delete.  The dropped
   results the code has elsewhere (DeleteGrantSessionByAuthorizationCode after a code miss,
   DeleteGrantSession of an expired refresh token, DeleteAuthnSession when the client of a session
   is gone) all sit on paths that answer an error anyway, so they need no exception. *)
Theorem fault_negative_answer : forall w n now o plan st,
  let x := snd (fst (run_fault_log plan 0 (handler w n now o) st)) in
  let l := snd (run_fault_log plan 0 (handler w n now o) st) in
  plan_hit l = true -> negative x = true \/ revoke_exception o x l.
Proof. exact fault_negative_answer_thm. Qed.
Print Assumptions fault_negative_answer.

(* ---- a concrete world for the examples ---- *)
Definition ex_cfg : config :=
  set_defaults (base_config POpenID <| cf_grants := [GClientCredentials; GAuthorizationCode; GImplicit] |>
                  <| cf_revocation := true |> <| cf_introspection := true |>).
Definition ex_client : client :=
  mkClient 1 false [GClientCredentials; GAuthorizationCode; GImplicit] ["code"; "id_token"] ["https://c1.example/cb"] "openid"
           CibaNone false false false false false false false 0 false None.
Definition ex_w : world := mkWorld ex_cfg [ex_client].
Definition ex_bind : bind_in := mkBind None 0.
Definition ex_treq : treq := mkTReq (mkCred 1 true) ex_bind "openid" 0 "" 0 PkEmpty 0 HgOk BaApprove [] AsNone None.
Definition plan_at (k : nat) (f : fault) : nat -> fault := plan_of [(k, f)].

(* non-vacuity: a plan that hits and yields an error; a fault-free run that yields a token whose
   grant is in the store *)
Example ex_cc_fault_hits :
  let r := run_fault_log (plan_at 0 FErr) 0 (handler ex_w 0 0%Z (OpToken GClientCredentials ex_treq)) empty_store in
  plan_hit (snd r) = true /\ snd (fst r) = Out (OErr EInternalError) /\ st_gsess (fst (fst r)) = [].
Proof. vm_compute. auto. Qed.
Example ex_cc_backed :
  let r := run_fault (fun _ => FNone) 0 (handler ex_w 0 0%Z (OpToken GClientCredentials ex_treq)) empty_store in
  obs_tokens (snd (fst r)) = [(mint 0 KAtOpaque, 0)] /\
  exists g, st_gsess (fst (fst r)) = [g] /\ g_token g = mint 0 KAtOpaque.
Proof. vm_compute. split; [reflexivity|]. eexists; split; reflexivity. Qed.
Example ex_one_index_empty : one_index_store empty_store.
Proof. intros s []. Qed.

(* the exception is real: the faithful model (hence the code) answers 200 to a revocation whose
   grant lookup failed, and the token stays active.  Recorded as a known finding (the storage
   API has no way to tell "not found" from "failed": internal/storage returns a plain error). *)
Definition ex_grant : gsession :=
  mkGSession (mint 0 KGrantId) (mint 0 KAtOpaque) 0 300%Z 300%Z 0 GClientCredentials "c1" 1 "openid" "openid" 0 0 [] [] [] [].
Definition ex_store_g : store := mkStore [] [] [ex_grant].
Definition ex_qreq : qreq := mkQReq (mkCred 1 true) (PExact (mint 0 KAtOpaque)) true.
Theorem fault_negative_answer_everywhere_refuted : exists w n now o plan st,
  let r := run_fault_log plan 0 (handler w n now o) st in
  plan_hit (snd r) = true /\ negative (snd (fst r)) = false /\ snd (fst r) = Out OOk /\
  (* ... while the token is still active in the store the request leaves behind *)
  in_active (snd (run_seq (introspection_info now (PExact (mint 0 KAtOpaque))) (fst (fst r)))) = true.
Proof.
  exists ex_w, 1%nat, 10%Z, (OpRevoke ex_qreq), (plan_at 0 FErr), ex_store_g. vm_compute. auto.
Qed.
Print Assumptions fault_negative_answer_everywhere_refuted.
Example ex_revoke_fault_free :   (* the same request without the fault removes the grant *)
  let r := run_fault_log (fun _ => FNone) 0 (handler ex_w 1 10%Z (OpRevoke ex_qreq)) ex_store_g in
  snd (fst r) = Out OOk /\ st_gsess (fst (fst r)) = [].
Proof. vm_compute. auto. Qed.

(* ===================== 3. no false acknowledgement ===================== *)
(* /revoke answers 200 only if the grant delete, when one was attempted, did not fail, and then the
   grant is gone from the store (fix 9684578) *)
Theorem fault_no_false_ack : forall w now r plan st,
  let st' := fst (fst (run_fault_log plan 0 (revoke w now r) st)) in
  let x := snd (fst (run_fault_log plan 0 (revoke w now r) st)) in
  let l := snd (run_fault_log plan 0 (revoke w now r) st) in
  x = OOk ->
  forall e i, In e l -> fe_call e = GDel i ->
    fe_reply e <> RFail /\ forall g, In g (st_gsess st') -> g_id g <> i.
Proof. exact fault_no_false_ack_revoke_thm. Qed.
Print Assumptions fault_no_false_ack.
Example ex_revoke_delete_fails :   (* static client: call 0 is the lookup, call 1 the delete *)
  let r := run_fault_log (plan_at 1 FErr) 0 (handler ex_w 1 10%Z (OpRevoke ex_qreq)) ex_store_g in
  plan_hit (snd r) = true /\ snd (fst r) = Out (OErr EInternalError) /\ st_gsess (fst (fst r)) = [ex_grant].
Proof. vm_compute. auto. Qed.

(* /register (Model/Dcr.v has no notion of a failing storage; Model/DcrFault.v keeps the storage
   skeleton of internal/dcr/util.go): 204 only after a CDel of the addressed client that did not
   fail, the client being gone; a document (with or without fresh credentials) for a create or an
   update only if the client it names is in the store; any failed call yields an error. *)
Theorem dcr_no_false_ack : forall w n o plan st,
  let st' := fst (fst (run_fault_log plan 0 (dcr_handler w n o) st)) in
  match snd (fst (run_fault_log plan 0 (dcr_handler w n o) st)) with
  | DfDeleted => exists r, o = DfDelete r /\ forall c, In c (st_clients st') -> c_id c <> df_cid r
  | DfDoc _ cid secret tok =>
      (exists r, o = DfRead r /\ secret = 0 /\ tok = 0) \/ (exists c, In c (st_clients st') /\ c_id c = cid)
  | DfErr => True
  end.
Proof. exact dcr_no_false_ack_thm. Qed.
Print Assumptions dcr_no_false_ack.
Theorem dcr_fault_negative : forall w n o plan st,
  plan_hit (snd (run_fault_log plan 0 (dcr_handler w n o) st)) = true ->
  snd (fst (run_fault_log plan 0 (dcr_handler w n o) st)) = DfErr.
Proof. exact dcr_fault_negative_thm. Qed.
Print Assumptions dcr_fault_negative.
Example ex_dcr_delete_fails :
  let st := mkStore [blank_client 99] [] [] in
  let r := run_fault_log (plan_at 1 FErr) 0 (dcr_handler (mkWorld ex_cfg []) 3 (DfDelete (mkDfReq 99 true true false false))) st in
  plan_hit (snd r) = true /\ snd (fst r) = DfErr /\ st_clients (fst (fst r)) = [blank_client 99].
Proof. vm_compute. auto. Qed.

(* DELETE /register, exactly: a 204 means that the storage delete of the addressed client was the LAST storage call
   of the request (at most one call precedes it, the lookup; nothing is read again after the delete, so there is
   no second read whose failure could be taken for "the client is already gone"), that it did not fail, and that
   NO fault of the plan took effect.  A remove() that re-reads the client after a failed delete and acknowledges
   when that read fails too is outside this: suite c14 plans fault PAIRS (the delete and the call after it). *)
Theorem dcr_delete_ack_exact : forall w n o plan st,
  let res := run_fault_log plan 0 (dcr_handler w n o) st in
  snd (fst res) = DfDeleted ->
  exists r tr0 rd, o = DfDelete r /\ evs (snd res) = tr0 ++ [(CDel (df_cid r), rd)] /\ rd <> RFail /\
                   (List.length tr0 <= 1)%nat /\ (forall e, In e tr0 -> exists i rc, e = (CGet i, rc)) /\
                   plan_hit (snd res) = false.
Proof. exact dcr_delete_ack_exact_thm. Qed.
Print Assumptions dcr_delete_ack_exact.

(* the theorems above are for every plan; in particular for the plans suite c14 enumerates: two faults at two
   positions p1, p2 of one request (any positions - one beyond the calls the request performs is inert) *)
Theorem fault_pairs_negative_answer : forall w n now o st p1 f1 p2 f2,
  let res := run_fault_log (plan_of [(p1, f1); (p2, f2)]) 0 (handler w n now o) st in
  plan_hit (snd res) = true -> negative (snd (fst res)) = true \/ revoke_exception o (snd (fst res)) (snd res).
Proof. exact fault_pairs_negative_thm. Qed.
Print Assumptions fault_pairs_negative_answer.
Theorem dcr_fault_pairs_negative : forall w n o st p1 f1 p2 f2,
  let res := run_fault_log (plan_of [(p1, f1); (p2, f2)]) 0 (dcr_handler w n o) st in
  plan_hit (snd res) = true -> snd (fst res) = DfErr.
Proof. exact dcr_fault_pairs_negative_thm. Qed.
Print Assumptions dcr_fault_pairs_negative.
(* a pair of which BOTH faults take effect in one request: the code lookup answers not-found, the clean-up
   DeleteGrantSessionByAuthorizationCode that only this error path performs fails; and the DCR delete whose
   delete fails: the plan's second fault (call 2) names a call the request does not make *)
Example ex_dcr_delete_pair :
  let st := mkStore [blank_client 99] [] [] in
  let res := run_fault_log (plan_of [(1%nat, FErr); (2%nat, FMiss)]) 0 (dcr_handler (mkWorld ex_cfg []) 3 (DfDelete (mkDfReq 99 true true false false))) st in
  snd (fst res) = DfErr /\ log_kinds (snd res) = [KCGet; KCDel] /\ st_clients (fst (fst res)) = [blank_client 99].
Proof. vm_compute. auto. Qed.

(* ===================== 4. call sequences ===================== *)
(* In every run (any store, any plan) the storage calls performed are a prefix of a word of the
   flow's expression (DESIGN.md Appendix A as regular expressions, FaultSpec.flow_re): in
   particular ADel precedes GSave in the code and CIBA grants and in the push notification, and a
   refresh rotation replaces the grant by ONE GSave. *)
Theorem call_sequence_conforms : forall w n now o plan st,
  is_prefix_of (flow_re o) (log_kinds (snd (run_fault_log plan 0 (handler w n now o) st))) = true.
Proof. exact call_sequence_thm. Qed.
Print Assumptions call_sequence_conforms.
Theorem run_log_sequence_conforms : forall w n now o st,
  is_prefix_of (flow_re o) (snd (run_log (handler w n now o) st [])) = true.
Proof. exact run_log_sequence_thm. Qed.
Print Assumptions run_log_sequence_conforms.
Theorem dcr_call_sequence_conforms : forall w n o plan st,
  is_prefix_of (dcr_flow_re o) (log_kinds (snd (run_fault_log plan 0 (dcr_handler w n o) st))) = true.
Proof. exact dcr_call_sequence_thm. Qed.
Print Assumptions dcr_call_sequence_conforms.

(* consume before issue, with the arguments and replies: every GSave of the flows that redeem a
   one-time credential comes immediately after an ADel that did not fail, of the id of a session
   that a lookup of the same run returned; and the authorization code grant records the code of
   that session in the grant (what DeleteGrantSessionByAuthorizationCode later finds) *)
Theorem consume_before_issue : forall w n now plan st,
  (forall r, consume_then_issue [] None (evs (snd (run_fault_log plan 0 (code_grant w n now r) st))) = true) /\
  (forall r, code_recorded [] (evs (snd (run_fault_log plan 0 (code_grant w n now r) st))) = true) /\
  (forall r, consume_then_issue [] None (evs (snd (run_fault_log plan 0 (ciba_grant w n now r) st))) = true) /\
  (forall a hg, consume_then_issue [] None (evs (snd (run_fault_log plan 0 (notify_success w n now a hg) st))) = true).
Proof. exact consume_before_issue_thm. Qed.
Print Assumptions consume_before_issue.
(* the predicates are not trivially true: a save before the delete is rejected *)
Example ex_reordered_rejected : forall s g,
  consume_then_issue [] None [(AByCode 36, RASess s); (GSave g, ROk); (ADel (a_id s), ROk)] = false /\
  is_prefix_of (flow_re (OpToken GAuthorizationCode ex_treq)) [KAGet; KGSave; KADel] = false /\
  is_prefix_of (flow_re (OpToken GAuthorizationCode ex_treq)) [KCGet; KAGet; KADel; KGSave] = true.
Proof. intros. vm_compute. auto. Qed.

(* ===================== 5. crashes ===================== *)
(* (a) In the store left by EVERY prefix of EVERY handler, no grant exists whose originating
   authorization code still indexes a session — provided this held before and the store obeys the
   index discipline (codes identify sessions, recorded codes were minted earlier), which every
   reachable state does, also across crashes (crash_histories_safe). *)
Theorem crash_prefix_safe : forall w n now o k st, fresh n st -> gcodes_old n st -> no_code_twice st ->
  no_code_twice (fst (run_prefix k (handler w n now o) st)).
Proof. exact crash_prefix_safe_thm. Qed.
Print Assumptions crash_prefix_safe.
(* (b) no response before the last storage call *)
Theorem crash_no_response : forall w n now o k st,
  (k < count_calls (handler w n now o) st)%nat -> snd (run_prefix k (handler w n now o) st) = None.
Proof. exact crash_no_response_thm. Qed.
Print Assumptions crash_no_response.
Theorem crash_response_only_after_all_calls : forall w n now o k st x,
  snd (run_prefix k (handler w n now o) st) = Some x ->
  (count_calls (handler w n now o) st <= k)%nat /\
  run_prefix k (handler w n now o) st = (fst (run_seq (handler w n now o) st), Some (snd (run_seq (handler w n now o) st))).
Proof. exact crash_response_only_after_all_calls_thm. Qed.
Print Assumptions crash_response_only_after_all_calls.
(* over all histories in which any request may be cut short after any number of its storage calls
   and a restarted instance serves the rest over the same store *)
Theorem crash_histories_safe : forall w dyn ops,
  no_code_twice (s_store (run_crashy w (init_state dyn) 0 ops)).
Proof. exact crash_histories_thm. Qed.
Print Assumptions crash_histories_safe.

(* the same with storage faults before the crash: any plan, any crash point ... *)
Theorem fault_crash_prefix_safe : forall w n now o plan k st, fresh n st -> gcodes_old n st -> no_code_twice st ->
  no_code_twice (fst (fst (run_fault_prefix_log plan 0 k (handler w n now o) st))).
Proof. exact fault_crash_prefix_safe_thm. Qed.
Print Assumptions fault_crash_prefix_safe.
(* ... and over all histories in which every request runs under its own fault plan and may be cut short *)
Theorem faulty_histories_safe : forall w dyn ops,
  no_code_twice (s_store (run_faulty w (init_state dyn) 0 ops)).
Proof. exact faulty_histories_thm. Qed.
Print Assumptions faulty_histories_safe.

(* a crash between the delete of the code session and the save of the grant: the code is gone, no
   grant exists, nothing was answered; the restarted instance refuses the code *)
Definition ex_sess : asession :=
  mkASession (mint 0 KSessId) 1 "alice" 0 0 0 (mint 0 KCode) "openid" 0 0 60%Z 0 ""
             (empty_params <| p_redirect := "https://c1.example/cb" |> <| p_resp_type := "code" |> <| p_scopes := "openid" |>) [] [].
Definition ex_store_s : store := mkStore [] [ex_sess] [].
Definition ex_code_req : treq := mkTReq (mkCred 1 true) ex_bind "" (mint 0 KCode) "https://c1.example/cb" 0 PkEmpty 0 HgOk BaApprove [] AsNone None.
Example ex_crash_between :
  let h := handler ex_w 1 10%Z (OpToken GAuthorizationCode ex_code_req) in
  count_calls h ex_store_s = 3%nat /\
  run_prefix 2 h ex_store_s = (mkStore [] [] [], None) /\
  snd (run_seq h (fst (run_prefix 2 h ex_store_s))) = Out (OErr EInvalidGrant) /\
  (exists t, snd (run_seq h ex_store_s) = Out (OTokens t)).
Proof. vm_compute. repeat split; auto. eexists; reflexivity. Qed.

(* the hypotheses are needed.  Without the index discipline (two sessions of different ids carrying
   the same code) the full run of the code grant leaves a grant whose code still indexes a session *)
Theorem crash_prefix_without_discipline_refuted : exists w n now o k st,
  no_code_twice st /\ ~ no_code_twice (fst (run_prefix k (handler w n now o) st)).
Proof.
  exists ex_w, 1%nat, 10%Z, (OpToken GAuthorizationCode ex_code_req), 3%nat,
         (mkStore [] [ex_sess; ex_sess <| a_id := mint 5 KSessId |>] []).
  split.
  - intros g s [].
  - intros H. vm_compute in H.
    match type of H with forall g s, ?a = g \/ False -> ?b = s \/ False -> _ => specialize (H a b (or_introl eq_refl) (or_introl eq_refl) eq_refl) end.
    discriminate.
Qed.
Print Assumptions crash_prefix_without_discipline_refuted.
(* ... and without the one-index discipline (a session reachable through its callback id that also
   carries a code) the no-code tail answers with that code after deleting the session *)
Definition ex_sess_two : asession :=
  mkASession (mint 0 KSessId) 1 "" 0 (mint 0 KCallback) 0 (mint 0 KCode) "" 0 0 600%Z 0 "n"
             (empty_params <| p_redirect := "https://c1.example/cb" |> <| p_resp_type := "id_token" |>
                <| p_scopes := "openid" |> <| p_nonce := "n" |>) [] [].
Theorem unbacked_without_one_index_refuted : exists w n now o plan st,
  ~ all_backed n (fst (fst (run_fault plan 0 (handler w n now o) st))) (snd (fst (run_fault plan 0 (handler w n now o) st))).
Proof.
  exists ex_w, 1%nat, 10%Z, (OpCallback (mkCbReq (mint 0 KCallback) (PolSuccess "alice" "openid" [] []))), (fun _ => FNone),
         (mkStore [] [ex_sess_two] []).
  intros (_ & C & _). vm_compute in C. destruct (C _ (or_introl eq_refl)) as [s [[] _]].
Qed.
Print Assumptions unbacked_without_one_index_refuted.

(* a pair of faults of which BOTH take effect in one request (announced in section 3) *)
Example ex_pair_both_hit :
  let res := run_fault_log (plan_of [(0%nat, FMiss); (1%nat, FErr)]) 0 (handler ex_w 1 10%Z (OpToken GAuthorizationCode ex_code_req)) ex_store_s in
  List.length (filter (fun e => fault_effective (fe_fault e) (fe_call e)) (snd res)) = 2%nat /\
  snd (fst res) = Out (OErr EInvalidGrant) /\ fst (fst res) = ex_store_s.
Proof. vm_compute. auto. Qed.
