(* C13 — every request gets a well-formed answer; handlers never panic.
   Statements only; proofs are in Proofs/C13Proofs.v; the operations with explicit partiality
   are in Model/Partial.v (one per panic site of DESIGN.md Appendix C). *)
From Verif Require Import Base Scope Types Prog Pop Token Authorize System Config Partial C13Proofs.
From Verif Require Dcr DcrFault DcrFrame C13DcrProofs.
Local Open Scope N_scope.

(* ================= no_panic_<site>: for ALL inputs, guard passed => no Panic ================= *)

(* authorize.urlWithQueryParams, as it is now: total on every string and parameter count *)
Theorem no_panic_url_with_query_params : forall u n, panics (url_with_query_params u n) = false.
Proof. exact url_fixed_total. Qed.
Print Assumptions no_panic_url_with_query_params.

(* ... and the guard added to validateRedirectURIAsOptional alone already protects the old body
   (nil dereference of the parse result): any non-empty redirect URI that passed it parses *)
Theorem no_panic_url_guarded : forall allowed u n,
  ru_str u <> "" -> validate_redirect_uri_as_optional allowed u = None ->
  panics (url_with_query_params_unguarded u n) = false.
Proof. exact url_guarded. Qed.
Print Assumptions no_panic_url_guarded.
Example url_guard_satisfiable :
  validate_redirect_uri_as_optional ["https://c.example/cb"] (mkRuri "https://c.example/cb" true) = None.
Proof. reflexivity. Qed.
(* what D6 was: the membership test alone (the guard before fix 8ab461c) lets "%" through *)
Theorem url_membership_alone_refuted : exists allowed u n,
  ru_str u <> "" /\ validate_redirect_uri_as_optional_prefix allowed u = None /\
  panics (url_with_query_params_unguarded u n) = true.
Proof. exact url_prefix_refuted. Qed.
Print Assumptions url_membership_alone_refuted.

(* dpop.JWKThumbprint *)
(* inside ValidateJWT: the explicit-partiality version never panics and is the validator *)
Theorem no_panic_jwk_thumbprint_in_validate_jwt : forall l lw p t j,
  validate_jwt_p l lw p t j = Val (validate_jwt l lw p t j).
Proof. exact validate_jwt_p_total. Qed.
Print Assumptions no_panic_jwk_thumbprint_in_validate_jwt.
(* any proof ValidateJWT accepted (same header, same algorithm list) has a thumbprint *)
Theorem no_panic_jwk_thumbprint : forall l lw p t j,
  validate_jwt l lw p t j = None -> jwk_thumbprint p = Val (jwk_thumb (dp_jwk p)).
Proof. exact jwk_thumbprint_validated. Qed.
Print Assumptions no_panic_jwk_thumbprint.
(* setPoP / setPoPForCIBAPushMode after ValidateBinding (authorization_code, client_credentials,
   jwt-bearer, CIBA, bc-authorize in push mode), for every option record *)
Theorem no_panic_set_pop : forall cfg c b o,
  validate_binding cfg c b o = None -> set_pop_jkt_p cfg b = Val (set_pop_jkt cfg b).
Proof. exact set_pop_guarded. Qed.
Print Assumptions no_panic_set_pop.
(* setPoPForPAR after validateCodeBindingDPoP *)
Theorem no_panic_set_pop_par : forall cfg b jkt,
  validate_code_binding_dpop cfg b jkt = None -> panics (set_pop_par_p cfg b jkt) = false.
Proof. exact set_pop_par_guarded. Qed.
Print Assumptions no_panic_set_pop_par.
(* updatePoPForRefreshedToken after validateRefreshTokenBinding / validateRefreshTokenPoP.
   The function consults the grant, not the configuration, so the guard covers it when DPoP is
   enabled (or the client is public and PoP is verified instead). *)
Theorem no_panic_update_pop_refresh : forall cfg c b g,
  cf_dpop_enabled cfg = true \/ c_public c = true ->
  refresh_binding cfg c b g = None -> panics (update_pop_refresh_p b g) = false.
Proof. exact update_pop_refresh_guarded. Qed.
Print Assumptions no_panic_update_pop_refresh.
(* the hypothesis is needed: residual recorded in conf/C13.py (a store written under DPoP, served
   by a provider reconfigured without DPoP).  Under one fixed configuration no grant carries a
   jkt without DPoP: every grant constructor of the model takes it from set_pop_jkt. *)
Theorem update_pop_refresh_needs_dpop : exists cfg c b g,
  cf_dpop_enabled cfg = false /\ c_public c = false /\
  refresh_binding cfg c b g = None /\ panics (update_pop_refresh_p b g) = true.
Proof. exact update_pop_refresh_needs_dpop_enabled. Qed.
Print Assumptions update_pop_refresh_needs_dpop.
Theorem no_jkt_without_dpop : forall cfg b, cf_dpop_enabled cfg = false -> set_pop_jkt cfg b = 0.
Proof. exact set_pop_jkt_disabled. Qed.
Print Assumptions no_jkt_without_dpop.

(* token.ExtractID / jwtTokenInfo: the jti of a server-made JWT is a string unless the embedder's
   HandleGrantFunc put a non-string "jti" into AdditionalTokenClaims *)
Theorem no_panic_extract_id : forall uuid additional,
  additional <> JtiOther -> panics (extract_jti (make_jwt_jti uuid additional)) = false.
Proof. exact extract_jti_total. Qed.
Print Assumptions no_panic_extract_id.

(* token.validateBindingTLS: for every caller's option record (a thumbprint to compare comes
   with tlsIsRequired) the explicit version never panics and is the validator *)
Theorem no_panic_validate_binding_tls : forall cfg c b o,
  caller_opts_ok o = true -> validate_binding_tls_p cfg c b o = Val (validate_binding_tls cfg c b o).
Proof. exact validate_binding_tls_p_total. Qed.
Print Assumptions no_panic_validate_binding_tls.
Theorem validate_binding_tls_callers : forall s g,
  caller_opts_ok (code_bind_opts s) = true /\ caller_opts_ok (refresh_tls_opts g) = true /\
  caller_opts_ok no_opts = true.
Proof. intros s g. exact (conj (caller_opts_code s) (conj (caller_opts_refresh g) caller_opts_none)). Qed.
Print Assumptions validate_binding_tls_callers.

(* token.sendClientNotification: an endpoint DCR accepted (same parser) *)
Theorem no_panic_send_client_notification : forall e,
  dcr_validate_url e = None -> panics (send_client_notification e) = false.
Proof. exact send_client_notification_guarded. Qed.
Print Assumptions no_panic_send_client_notification.

(* initAuthnSession / cibaAuthnSession: an id_token_hint validateIDTokenHintAsOptional accepted
   (same string, same algorithm list) *)
Theorem no_panic_id_token_hint : forall h,
  validate_id_token_hint_as_optional h = None -> panics (id_token_hint_claims h) = false.
Proof. exact id_token_hint_guarded. Qed.
Print Assumptions no_panic_id_token_hint.
Example id_token_hint_satisfiable : validate_id_token_hint_as_optional (mkHint true true true true true) = None.
Proof. reflexivity. Qed.

(* authorize.authenticate: a policy id that came from AvailablePolicy of the same configuration *)
Theorem no_panic_authenticate : forall policies setup p,
  available_policy policies setup = Some p -> panics (policy_authenticate policies p) = false.
Proof. exact policy_authenticate_guarded. Qed.
Print Assumptions no_panic_authenticate.

(* no handler of the model answers OPanic: under the sequential, the aliasing and every faulty
   interpretation, for every world, store and request *)
Theorem handlers_never_panic : forall w n now o st plan,
  np_obs (snd (run_seq (handler w n now o) st)) /\
  np_obs (snd (run_alias (handler w n now o) st)) /\
  np_obs (snd (fst (run_fault plan 0 (handler w n now o) st))).
Proof.
  intros. exact (conj (handlers_never_panic_seq w n now o st)
                (conj (handlers_never_panic_alias w n now o st) (handlers_never_panic_fault w n now o plan st))).
Qed.
Print Assumptions handlers_never_panic.

(* ================= status codes ================= *)
(* exhaustive over ErrorCode: everything but internal_error is a 4xx *)
Theorem oauth_errors_4xx : forall e, e <> EInternalError -> 400 <= error_status e /\ error_status e <= 499.
Proof. exact error_status_4xx. Qed.
Print Assumptions oauth_errors_4xx.
Theorem five_xx_iff_internal_error : forall e, 500 <= error_status e <-> e = EInternalError.
Proof. exact error_status_5xx_iff. Qed.
Print Assumptions five_xx_iff_internal_error.
(* the error writer: always a JSON object with an "error" member; a goidc.Error other than
   internal_error gets a 4xx *)
Theorem write_error_well_formed : forall h,
  ae_json_with_error_member (write_error h) = true /\
  (match h with HGoidc e => e <> EInternalError | HForeign => False end ->
   400 <= ae_status (write_error h) <= 499).
Proof. exact write_error_shape. Qed.
Print Assumptions write_error_well_formed.

(* ================= 5xx only when the embedder (or the storage) failed ================= *)
(* With run_seq the storage never fails; the faulty interpreter with a fault-free plan is run_seq,
   so an internal_error under a plan without faults is covered by the theorems below. *)
Theorem five_xx_storage_half : forall A plan (p : prog A), (forall k, plan k = FNone) ->
  forall st, fst (run_fault plan 0 p st) = run_seq p st.
Proof. intros A plan p H st. exact (run_fault_none plan p H st 0%nat). Qed.
Print Assumptions five_xx_storage_half.

(* token endpoint, introspection, revocation, userinfo: for every world, store and request *)
Theorem five_xx_only_embedder_token : forall w n now r st,
  (is_internal (snd (run_seq (code_grant w n now r) st)) = true -> t_hg r = HgFail) /\
  (is_internal (snd (run_seq (refresh_grant w n now r) st)) = true -> t_hg r = HgFail) /\
  (is_internal (snd (run_seq (cc_grant w n now r) st)) = true -> t_hg r = HgFail) /\
  (is_internal (snd (run_seq (ciba_grant w n now r) st)) = true -> t_hg r = HgFail \/ t_ba r = BaFail) /\
  (is_internal (snd (run_seq (jwt_bearer_grant w n now r) st)) = true -> t_hg r = HgFail).
Proof.
  intros. exact (conj (code_grant_5xx w n now r st) (conj (refresh_grant_5xx w n now r st)
                (conj (cc_grant_5xx w n now r st) (conj (ciba_grant_5xx w n now r st) (jwt_bearer_grant_5xx w n now r st))))).
Qed.
Print Assumptions five_xx_only_embedder_token.
Theorem five_xx_never_query : forall w now q u st,
  is_internal (snd (run_seq (introspect w now q) st)) = false /\
  is_internal (snd (run_seq (revoke w now q) st)) = false /\
  is_internal (snd (run_seq (userinfo w now u) st)) = false.
Proof. intros. exact (conj (introspect_5xx w now q st) (conj (revoke_5xx w now q st) (userinfo_5xx w now u st))). Qed.
Print Assumptions five_xx_never_query.
Example five_xx_token_antecedent :
  let w := mkWorld (mkConfig POpenID [GClientCredentials] [] [] [] false 0 300 IssueNever false 0 false false "" [] false false 0 false
                 false false false false false 0 false false false false false false false false false
                 false false false false false false false "" false [] false [] CmpNone)
                   [mkClient 1 false [GClientCredentials] [] [] "" CibaNone false false false false false false false 0 false None] in
  snd (run_seq (cc_grant w 0 0%Z (mkTReq (mkCred 1 true) no_bind "" 0 "" 0 PkEmpty 0 HgFail BaApprove [] AsNone None)) empty_store)
  = OErr EInternalError.
Proof. vm_compute. reflexivity. Qed.

(* authorization endpoint (internal_error shown locally or carried by the redirect), its callback,
   /par and /bc-authorize, from every store that obeys the one-index discipline *)
Theorem five_xx_only_embedder_authorize : forall w n now st,
  one_index st ->
  (forall r, is_internal (snd (run_seq (init_auth w n now r) st)) = true -> ar_pol r = PolFailWith EInternalError) /\
  (forall r, is_internal (snd (run_seq (continue_auth w n now r) st)) = true -> cb_pol r = PolFailWith EInternalError) /\
  (forall r, is_internal (snd (run_seq (push_auth w n now r) st)) = false) /\
  (forall r, is_internal (snd (run_seq (init_back_auth w n now r) st)) = false).
Proof.
  intros w n now st H. split; [|split; [|split]].
  - intros r. exact (init_auth_5xx w n now r st H).
  - intros r. exact (continue_auth_5xx w n now r st H).
  - intros r. exact (push_auth_5xx w n now r st).
  - intros r. exact (init_back_auth_5xx w n now r st).
Qed.
Print Assumptions five_xx_only_embedder_authorize.
(* ... and that discipline holds in every state any history reaches *)
Theorem one_index_every_reachable_state : forall w dyn ops,
  one_index (s_store (fst (run_from w (init_state dyn) 0 ops))).
Proof. exact one_index_reachable. Qed.
Print Assumptions one_index_every_reachable_state.

(* ================= refused_frame ================= *)
(* A refused token request leaves the store as it was, except for the deletion of the session
   indexed by the presented code / auth_req_id, of the grant created from a replayed code (the
   effect of GDelByCode) and of the expired grant of the presented refresh token; for ALL stores
   and requests. *)
Theorem refused_frame_code : forall w n now r st e,
  snd (run_seq (code_grant w n now r) st) = OErr e ->
  let st' := fst (run_seq (code_grant w n now r) st) in
  st' = st
  \/ (exists g, find (fun g => ideq (g_code g) (t_code r)) (st_gsess st) = Some g /\
                st' = st <| st_gsess := del_gsess (g_id g) (st_gsess st) |>)
  \/ (exists s, find (fun s => ideq (a_code s) (t_code r)) (st_asess st) = Some s /\
                st' = st <| st_asess := del_asess (a_id s) (st_asess st) |>).
Proof. exact code_grant_frame. Qed.
Print Assumptions refused_frame_code.
Theorem refused_frame_refresh : forall w n now r st e,
  snd (run_seq (refresh_grant w n now r) st) = OErr e ->
  let st' := fst (run_seq (refresh_grant w n now r) st) in
  st' = st
  \/ (exists g, find (fun g => ideq (g_refresh g) (t_refresh r)) (st_gsess st) = Some g /\
                st' = st <| st_gsess := del_gsess (g_id g) (st_gsess st) |>).
Proof. exact refresh_grant_frame. Qed.
Print Assumptions refused_frame_refresh.
Theorem refused_frame_client_credentials : forall w n now r st e,
  snd (run_seq (cc_grant w n now r) st) = OErr e -> fst (run_seq (cc_grant w n now r) st) = st.
Proof. exact cc_grant_frame. Qed.
Print Assumptions refused_frame_client_credentials.
(* jwt-bearer (authenticated or anonymous client; a refused assertion included): nothing is touched *)
Theorem refused_frame_jwt_bearer : forall w n now r st e,
  snd (run_seq (jwt_bearer_grant w n now r) st) = OErr e -> fst (run_seq (jwt_bearer_grant w n now r) st) = st.
Proof. exact jwt_bearer_grant_frame. Qed.
Print Assumptions refused_frame_jwt_bearer.
Theorem refused_frame_ciba : forall w n now r st e,
  snd (run_seq (ciba_grant w n now r) st) = OErr e ->
  let st' := fst (run_seq (ciba_grant w n now r) st) in
  st' = st
  \/ (exists s, find (fun s => ideq (a_ciba s) (t_auth_req r)) (st_asess st) = Some s /\
                st' = st <| st_asess := del_asess (a_id s) (st_asess st) |>).
Proof. exact ciba_grant_frame. Qed.
Print Assumptions refused_frame_ciba.
Theorem frame_introspect : forall w now r st, fst (run_seq (introspect w now r) st) = st.
Proof. exact introspect_frame. Qed.
Print Assumptions frame_introspect.

(* The authorization callback: a callback refused because the client of the session no longer
   exists invalidates the session it presented (fix 104fb04; found by suite c13 on the tree before
   it: the refused request left the session behind, modified in place by the policy under the
   default storage).  Both interpreters end in the same store. *)
Definition orphan_world : world :=
  mkWorld (mkConfig POpenID [GAuthorizationCode] [] ["code"] [] false 600 300 IssueNever false 0 false false "" [] false false 0 false
             false false false false false 0 false false false false false false false false false
             false false false false false false false "" false [] false [] CmpNone) [].
Definition orphan_session : asession :=
  mkASession 41 7 "" 0 37 0 0 "" 0 0 1000%Z 0 "" (mkParams 0 "https://c.example/cb" "" "code" "openid" "" "" PkEmpty "" 0 "" 0 "" [] None) [] [].
Definition orphan_store : store := mkStore [] [orphan_session] [].
Theorem refused_callback_client_deleted :
  let r := mkCbReq 37 (PolSuccess "user" "openid" [] []) in
  snd (run_alias (continue_auth orphan_world 3 0%Z r) orphan_store) = OErr EInvalidRequest /\
  fst (run_alias (continue_auth orphan_world 3 0%Z r) orphan_store) = mkStore [] (del_asess 41 [orphan_session]) [] /\
  fst (run_seq (continue_auth orphan_world 3 0%Z r) orphan_store) = mkStore [] (del_asess 41 [orphan_session]) [].
Proof. vm_compute. repeat split. Qed.
Print Assumptions refused_callback_client_deleted.

(* ================= the frame clause at the dynamic-registration endpoints ================= *)

(* On the metadata model of POST /register and GET/PUT/DELETE /register/{id} (Model/Dcr.v, the model
   suites c12 and c13dcr run against the provider): for EVERY server feature set, store, operation
   index, request document, presented token and embedder hook, a request that is not accepted (any
   error answer; a /token request answered without a token) returns the store it was given. *)
Theorem dcr_refused_frame : forall cfg s n o,
  Dcr.dcr_accepted (snd (Dcr.dstep cfg s n o)) = false -> fst (Dcr.dstep cfg s n o) = s.
Proof. exact C13DcrProofs.dcr_refused_frame. Qed.
Print Assumptions dcr_refused_frame.

(* On the storage-call skeleton with the in-place write of util.go update made explicit
   (Model/DcrFrame.v: client.ClientMetaInfo = *meta and the minted token / secret are written into
   the object the storage handed out, then CSave): for every world, store, request and every
   content f the update would write, a refused request leaves the store identical under the
   aliasing interpretation (the default in-memory storage, any cache sharing pointers) and under
   the copying one. *)
Theorem dcr_refused_frame_alias : forall w n o st,
  DcrFrame.df_refused (snd (run_alias (DcrFrame.dx_handler w n o) st)) = true ->
  fst (run_alias (DcrFrame.dx_handler w n o) st) = st.
Proof. exact C13DcrProofs.dx_refused_frame_alias. Qed.
Print Assumptions dcr_refused_frame_alias.
Theorem dcr_refused_frame_copy : forall w n o st,
  DcrFrame.df_refused (snd (run_seq (DcrFrame.dx_handler w n o) st)) = true ->
  fst (run_seq (DcrFrame.dx_handler w n o) st) = st.
Proof. exact C13DcrProofs.dx_refused_frame_seq. Qed.
Print Assumptions dcr_refused_frame_copy.

(* The order of util.go update is what the theorem rests on: with the in-place write moved before
   the validations (dx_update_early) a refused update replaces the registered client in the aliasing
   store - and only there, which is why suite c13dcr compares the stored clients under both flavours. *)
Theorem dcr_early_write_breaks_frame :
  DcrFrame.df_refused (snd (run_alias (DcrFrame.dx_update_early DcrFrame.dxe_world 1 DcrFrame.dxe_req DcrFrame.dxe_rename) DcrFrame.dxe_store)) = true /\
  fst (run_alias (DcrFrame.dx_update_early DcrFrame.dxe_world 1 DcrFrame.dxe_req DcrFrame.dxe_rename) DcrFrame.dxe_store) <> DcrFrame.dxe_store /\
  fst (run_seq (DcrFrame.dx_update_early DcrFrame.dxe_world 1 DcrFrame.dxe_req DcrFrame.dxe_rename) DcrFrame.dxe_store) = DcrFrame.dxe_store /\
  fst (run_alias (DcrFrame.dx_update DcrFrame.dxe_world 1 DcrFrame.dxe_req DcrFrame.dxe_rename) DcrFrame.dxe_store) = DcrFrame.dxe_store.
Proof. exact C13DcrProofs.dx_early_breaks_frame. Qed.
Print Assumptions dcr_early_write_breaks_frame.
