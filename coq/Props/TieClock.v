(* TieClock — not one of the twenty properties: a theorem about the TIE between model and code.

   The Go code reads the real clock and offers no way to inject one, so the correspondence harness makes
   "d seconds pass" by rewriting every stored timestamp d seconds into the past (harness/stores.go) while
   the real clock stays where it is; the model advances its own clock (System.step, OpTick).  These two
   theorems show that the model cannot tell the difference: it is invariant under translation of time, so
   comparing the implementation driven that way with the model run on its own clock is sound. *)
From Coq Require Import List ZArith. Import ListNotations.
From Verif Require Import Base Scope Types Prog Pop Token Authorize System TimeShift TimeShiftHist.
Local Open Scope Z_scope.

(* one operation, any state: shifting the clock and every stored timestamp (authentication-session expiry,
   access-token expiry, grant expiry) by d shifts the resulting state by d and changes nothing in the answer
   except the absolute expiry an introspection reports (sh_obs) *)
Theorem time_translation : forall d w s n o,
  step w (sh_state d s) n o = (sh_state d (fst (step w s n o)), sh_obs d (snd (step w s n o))).
Proof. exact step_shift. Qed.
Print Assumptions time_translation.

(* whole histories: the harness's semantics (ticks rewrite the store, the clock stays at T) started from
   the store as the harness holds it observes exactly the model's answers, up to the offset between the
   two clocks in reported absolute times (harness_view) *)
Theorem harness_clock_equivalent : forall ops w st now T n,
  snd (run_from_harness w (mkState (sh_store (T - now) st) T) n ops)
  = harness_view T now ops (snd (run_from w (mkState st now) n ops)).
Proof. exact TimeShiftHist.harness_clock_equivalent. Qed.
Print Assumptions harness_clock_equivalent.

(* the shift is not the identity: a stored session that is live at time 10 is expired once 100 s passed *)
Example shift_moves_expiry :
  let s := mkASession 1%N 1%N "" 0%N 0%N 0%N 0%N "" 0%N 0%N 50 0%N "" empty_params [] [] in
  a_expires (sh_a (-100) s) = -50 /\ geb 10 (a_expires s) = false /\ geb 10 (a_expires (sh_a (-100) s)) = true.
Proof. repeat split; reflexivity. Qed.
