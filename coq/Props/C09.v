(* C09 — no response discloses private keys, secret hashes or another party's secrets.
   Statements only; proofs are in Proofs/C09Proofs.v.  What is modelled: the public projection of the
   server key set (Model/Artifacts.v public_jwks, symbolic keys), the token-format switch
   (Model/Token.v token_is_jwt / make_token, used by every grant handler of the flow model), and the
   secret atoms a DCR response or an error body may carry (Model/Disclosure.v).  That real bytes carry
   nothing else is the job of the scanner of suite c09. *)
From Verif Require Import Base Scope Types Prog Pop Token Authorize System Config Artifacts ArtifactsX Disclosure C08Proofs C09Proofs C09History C08XProofs C09DcrProofs.
Local Open Scope N_scope.

(* PublicJWKS, for every key set and every key type (RSA, EC of any curve, symmetric; given with or
   without private parts; sig or enc use): no published key carries private members, and a symmetric
   key is published without its material. *)
Theorem jwks_public_only : forall cfg k,
  In k (public_jwks cfg) -> k_priv k = false /\ (k_kty k = KtyOct -> k_pair k = 0).
Proof. exact public_jwks_public_only. Qed.
Print Assumptions jwks_public_only.

(* For every client with the pairwise subject type and every grant type other than client_credentials,
   the token made is opaque: token_is_jwt is false and make_token never yields a KAtJwt handle. *)
Theorem pairwise_never_jwt : forall n c gt,
  c_pairwise c = true -> gt <> GClientCredentials ->
  token_is_jwt c gt = false /\ is_kind KAtJwt (fst (make_token n c gt)) = false.
Proof. exact make_token_pairwise. Qed.
Print Assumptions pairwise_never_jwt.

(* Over all histories (any world, any stored clients, any operations): every access token carried by a
   token response, an authorization response or a CIBA push notification that is a JWT was made for a
   client that is not pairwise, or by the client_credentials grant.  The client is the one the
   response belongs to: the authenticated client of a token request, the client of an authorization
   request, the client of the session a callback or a notification resumes. *)
Theorem pairwise_never_jwt_all_histories : forall w dyn ops,
  trace_pw_ok w (init_state dyn) 0 ops = true.
Proof. exact trace_pw_ok_init. Qed.
Print Assumptions pairwise_never_jwt_all_histories.

(* the flow model's switch is the artifact model's shouldSwitchToOpaque *)
Theorem token_format_switch_agrees : forall acf cfg c gt,
  ac_pairwise_fn acf = true ->
  token_is_jwt c gt = to_jwt (token_options acf gt (aclient_of c) (harness_tokopts cfg c)).
Proof. exact token_is_jwt_agrees. Qed.
Print Assumptions token_format_switch_agrees.

(* DCR: a registration response carries only plain values minted by that very operation (a secret, a
   registration token), and only on create / update; never a hash, never key material.  Read and delete
   responses and every error body carry no secret atom. *)
Theorem no_secret_in_response : forall o n rotation save_ok c c' b,
  dcr_handle o n rotation save_ok c = (c', b) ->
  forall a, In a (body_atoms b) -> minted_now n a /\ (o = DCreate \/ o = DUpdate).
Proof. exact dcr_no_secret. Qed.
Print Assumptions no_secret_in_response.

Theorem registration_token_only_when_rotating : forall n save_ok c c' r,
  is_nil (dc_hreg c) = false -> modify_and_save n false save_ok c = (c', Some r) -> dr_regtoken r = 0.
Proof. exact update_without_rotation_no_token. Qed.
Print Assumptions registration_token_only_when_rotating.

Theorem error_bodies_carry_no_secret : forall e, body_atoms (BError e) = [].
Proof. exact error_bodies_carry_nothing. Qed.
Print Assumptions error_bodies_carry_no_secret.

(* The one secret the provider keeps in clear: after the registration or update (at index n) of a client
   one of whose methods in force - token, introspection or revocation endpoint - is client_secret_jwt,
   the stored object holds the secret itself (and its hash too when a client_secret_basic / _post method
   is in force as well: the same string).  A later READ of that registration (any index, any rotation
   setting) answers with no secret atom at all and leaves the stored object as it is: the clear secret
   is disclosed by the response that minted it and by no other. *)
Theorem read_after_jwt_registration_discloses_nothing : forall o n rot c m rot' ok,
  (o = DCreate \/ o = DUpdate) -> dc_jwt_method c = true ->
  let c' := fst (dcr_handle o n rot true c) in
  In (SPlain (mint n KSecret)) (stored_atoms c') /\
  (dc_hashed_methods c = true -> dc_hsecret c' = mint n KSecret) /\
  body_atoms (snd (dcr_handle DRead m rot' ok c')) = [] /\
  fst (dcr_handle DRead m rot' ok c') = c'.
Proof.
  intros o n rot c m rot' ok O J c'.
  destruct (jwt_registration_keeps_plain_secret o n rot c O J) as [_ [I [_ H]]].
  destruct (read_body_no_atoms m rot' ok c') as [B F]. auto.
Qed.
Print Assumptions read_after_jwt_registration_discloses_nothing.

(* ---- widened inputs (Model/ArtifactsX.v): key handling options, pairwise subjects of every origin ---- *)

(* PublicJWKS under every way of handling keys - signing delegated to a SignerFunc or not, decryption
   delegated to a DecrypterFunc or not, any path prefix: every published key is the public projection
   of a key of the set (sig or enc, used by the provider itself or not) and carries no private member. *)
Theorem jwks_public_only_any_key_handling : forall cfg kh k,
  In k (public_jwks_x cfg kh) ->
  (exists k0, In k0 (ac_keys cfg) /\ k = jwk_public k0) /\ k_priv k = false /\ (k_kty k = KtyOct -> k_pair k = 0).
Proof. exact public_jwks_x_spec. Qed.
Print Assumptions jwks_public_only_any_key_handling.

(* A client whose subject is pairwise for ANY reason - subject_type = pairwise, or no subject_type
   under a provider whose default subject type is pairwise (the sector identifier never decides
   it) - gets an opaque access token from every grant other than client_credentials, whatever the
   token options ask for. *)
Theorem pairwise_never_jwt_any_origin : forall cfg c fo n now g,
  pw_origin_of cfg c <> PwNot -> gi_type g <> GClientCredentials ->
  to_jwt (token_options cfg (gi_type g) c fo) = false /\
  forall t, make cfg n now g c fo = Some t -> exists h, tk_value t = TokOpaque h.
Proof. exact pairwise_any_origin_opaque. Qed.
Print Assumptions pairwise_never_jwt_any_origin.

Theorem pairwise_by_default_never_jwt : forall cfg c fo n now g,
  acl_sub_type c = None -> ac_default_pairwise cfg = true -> gi_type g <> GClientCredentials ->
  to_jwt (token_options cfg (gi_type g) c fo) = false /\
  forall t, make cfg n now g c fo = Some t -> exists h, tk_value t = TokOpaque h.
Proof. exact pairwise_by_default_opaque. Qed.
Print Assumptions pairwise_by_default_never_jwt.

(* the flow model's c_pairwise is the EFFECTIVE subject type: for a registration of any subject_type
   whose effective type it is, the flow model's switch is the artifact model's shouldSwitchToOpaque
   (so pairwise_never_jwt_all_histories covers clients that are pairwise by default as well) *)
Theorem token_format_switch_agrees_any_origin : forall acf cfg c st gt,
  c_pairwise c = should_generate_pairwise acf (aclient_of_reg c st) ->
  token_is_jwt c gt = to_jwt (token_options acf gt (aclient_of_reg c st) (harness_tokopts cfg c)).
Proof. exact token_is_jwt_agrees_reg. Qed.
Print Assumptions token_format_switch_agrees_any_origin.
