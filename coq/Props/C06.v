(* C06 — sender-constrained tokens need proof of the bound key or certificate.
   Statements only; definitions and proofs are in Proofs/C06Proofs.v.

   Vocabulary (model, Model/Pop.v and Model/Token.v):
     validate_jwt lifetime leeway p tok jkt = None   dpop.ValidateJWT accepts proof p presented with
                                                     access token tok (0: none) where key jkt is expected (0: any)
     b_dpop b / b_cert b                             the single usable DPoP header / the client certificate of a request
     g_jkt g / g_x5t g                               JWKThumbprint / ClientCertThumbprint of a stored grant session
     a_jkt s, p_dpop_jkt (a_params s), a_x5t s       key / certificate announced at PAR or /authorize
     tr_jkt t / tr_x5t t / tr_dpop t                 cnf of the grant a token response belongs to; token_type = DPoP
     authn w st cr                                   the client a request authenticates as (static clients first)
   Thumbprints are ideal: the thumbprint of key k is k, that of certificate n is n; 0 is "". *)
From Verif Require Import Base Scope Types Prog Pop Token Authorize System Config C06Proofs Htu C06HtuProofs.
Local Open Scope N_scope.

(* (1) A DPoP proof is accepted iff it (1) parses with an enabled algorithm and is typed dpop+jwt,
   (2) embeds a PUBLIC key, (3) is signed by that very key — which is the expected key where one is
   expected —, (4) carries an iat that is at most `lifetime` old and not more than `leeway` in the
   future, (5) carries a jti, (6) matches the request's method and — up to NormalizeURL — URL, and
   (7) matches the hash of the access token where one is presented.
   For all proofs (records), lifetimes, leeways, tokens and expected keys. *)
Theorem dpop_accept_iff : forall lifetime leeway p tok jkt,
  validate_jwt lifetime leeway p tok jkt = None <->
  ( dp_parses p = true /\ dp_typ_ok p = true /\
    (exists k, dp_jwk p = JwkPublic k /\ dp_signer p = k /\ (jkt = 0 \/ k = jkt)) /\
    (exists age, dp_iat_age p = Some age /\ (age <= lifetime)%Z /\ (- leeway <= age)%Z) /\
    dp_jti p = true /\
    dp_htm_ok p = true /\ htu_ok (dp_htu p) = true /\
    (tok = 0 \/ dp_ath p = tok) ).
Proof. exact validate_jwt_iff. Qed.
Print Assumptions dpop_accept_iff.

(* the URL variants NormalizeURL identifies with the request URL: case of scheme and host, the
   default port, one trailing slash, query and fragment — and nothing else *)
Theorem htu_equivalences : forall v,
  htu_ok v = true <->
  In v [HtuExact; HtuHostCase; HtuSchemeCase; HtuDefaultPort; HtuTrailingSlash; HtuWithQuery; HtuWithFragment].
Proof. exact htu_ok_iff. Qed.
Print Assumptions htu_equivalences.

(* (1b) The URL comparison itself, on the strings the code compares (Model/Htu.v: normalize_url =
   strutil.NormalizeURL, htu_match hosts uri htu = "NormalizeURL(htu) succeeds and is one of
   host ++ RequestURI", hosts = [Host] or [Host; MTLSHost]).  The comparison is exact equality, never
   a prefix test: for ALL hosts, request URIs and htu strings, an htu that is a strict string prefix of
   the request URL - the bare issuer, a truncated path or host, the URL without the query string the
   request carries - is refused; so is the empty htu, which is also what an absent htu claim reads as. *)
Theorem htu_prefix_refused : forall host uri htu,
  strict_prefix htu (host ++ uri) -> htu_match [host] uri htu = false.
Proof. exact htu_prefix_refused_one. Qed.
Print Assumptions htu_prefix_refused.

Theorem htu_prefix_refused_all_hosts : forall hosts uri htu,
  (forall h, In h hosts -> strict_prefix htu (h ++ uri)) -> htu_match hosts uri htu = false.
Proof. exact htu_prefix_refused_lemma. Qed.
Print Assumptions htu_prefix_refused_all_hosts.

Theorem htu_empty_refused : forall hosts uri,
  (forall h, In h hosts -> h ++ uri <> "") -> htu_match hosts uri "" = false.
Proof. exact htu_empty_refused_lemma. Qed.
Print Assumptions htu_empty_refused.

(* an accepted htu normalises to exactly one of the request's URLs, and is no strict prefix of it *)
Theorem htu_accepted_is_request_url : forall hosts uri htu,
  htu_match hosts uri htu = true ->
  exists h, In h hosts /\ normalize_url htu = Some (h ++ uri) /\ ~ strict_prefix htu (h ++ uri).
Proof. exact htu_match_sound. Qed.
Print Assumptions htu_accepted_is_request_url.

(* through the abstraction of Model/Pop.v (htu_class: the variant a concrete htu stands for at a
   request): dpop.ValidateJWT refuses every proof whose htu is a strict prefix of the request URL,
   whatever its other members, the lifetime, the leeway, the presented token and the expected key *)
Theorem dpop_prefix_htu_refused : forall lifetime leeway p tok jkt hosts uri htu,
  (forall h, In h hosts -> strict_prefix htu (h ++ uri)) ->
  dp_htu p = htu_class hosts uri htu ->
  validate_jwt lifetime leeway p tok jkt <> None.
Proof. exact dpop_prefix_htu_refused_lemma. Qed.
Print Assumptions dpop_prefix_htu_refused.

Example htu_prefix_examples :
  let hosts := ["https://as.example"; "https://mtls.as.example"] in
  (* accepted spellings *)
  map (htu_match hosts "/auth/token")
      ["https://as.example/auth/token"; "HTTPS://AS.Example:443/auth/token/?x=1#f"; "https://mtls.as.example/auth/token"]
    = [true; true; true] /\
  (* strict prefixes of the request URL, the empty htu, the URL without the request's query *)
  map (htu_match ["https://as.example"] "/auth/token")
      ["https://as.example"; "https://as.example/"; "https://as.example/auth"; "https://as.example/auth/tok";
       "https://as.exampl"; "https://"; ""]
    = [false; false; false; false; false; false; false] /\
  htu_match ["https://as.example"] "/userinfo?x=1" "https://as.example/userinfo" = false /\
  strict_prefix "https://as.example/auth/tok" ("https://as.example" ++ "/auth/token").
Proof. vm_compute. repeat split; try reflexivity. exists "en". split; [discriminate|reflexivity]. Qed.

Example dpop_accept_example :
  validate_jwt jwt_lifetime jwt_leeway (ex_proof ex_key ex_at) ex_at ex_key = None /\
  validate_jwt jwt_lifetime jwt_leeway (ex_proof ex_key ex_at) ex_at ex_key2 <> None.
Proof. vm_compute. split; [reflexivity|discriminate]. Qed.

(* (2) Use of a bound token.  For every store, configuration and request:
   /userinfo, Provider.TokenInfoFromRequest and a refresh by a PUBLIC client succeed on a grant
   with a key / certificate thumbprint only if the request carries a DPoP proof that validate_jwt
   accepts for that very key (and, at the resource endpoints, for the presented token) / presents
   that very certificate.  A confidential client refreshing a bound grant must present the same
   certificate and a valid proof for some key (the code allows re-binding to another key). *)
Theorem bound_use_needs_proof :
  (forall w now r st st' sub,
     run_seq (userinfo w now r) st = (st', OUserInfo sub) ->
     exists tid g, extract_id (u_tok r) = Some tid /\
       find (fun g => ideq (g_token g) tid) (st_gsess st) = Some g /\
       (g_jkt g <> 0 -> exists p, b_dpop (u_bind r) = Some p /\
                          validate_jwt jwt_lifetime jwt_leeway p (ptok_id (u_tok r)) (g_jkt g) = None) /\
       (g_x5t g <> 0 -> b_cert (u_bind r) = g_x5t g)) /\
  (forall now r st st' i,
     run_seq (token_info_from_request now r) st = (st', OIntro i) -> in_active i = true ->
     exists g, In g (st_gsess st) /\ in_grant i = g_id g /\ in_jkt i = g_jkt g /\ in_x5t i = g_x5t g /\
       (g_jkt g <> 0 -> exists p, b_dpop (u_bind r) = Some p /\
                          validate_jwt jwt_lifetime jwt_leeway p (ptok_id (u_tok r)) (g_jkt g) = None) /\
       (g_x5t g <> 0 -> b_cert (u_bind r) = g_x5t g)) /\
  (forall w n now r st st' t,
     run_seq (refresh_grant w n now r) st = (st', OTokens t) ->
     exists c g, authn w st (t_cred r) = Some c /\
       find (fun g => ideq (g_refresh g) (t_refresh r)) (st_gsess st) = Some g /\
       (c_public c = true ->
          (g_jkt g <> 0 -> exists p, b_dpop (t_bind r) = Some p /\
                             validate_jwt jwt_lifetime jwt_leeway p 0 (g_jkt g) = None) /\
          (g_x5t g <> 0 -> b_cert (t_bind r) = g_x5t g)) /\
       (c_public c = false ->
          (cf_dpop_enabled (w_cfg w) = true -> g_jkt g <> 0 ->
             exists p, b_dpop (t_bind r) = Some p /\ validate_jwt jwt_lifetime jwt_leeway p 0 0 = None) /\
          (cf_tls_binding_enabled (w_cfg w) = true -> g_x5t g <> 0 -> b_cert (t_bind r) = g_x5t g))).
Proof. exact (conj userinfo_needs_proof (conj token_info_req_needs_proof refresh_needs_proof)). Qed.
Print Assumptions bound_use_needs_proof.

(* the hypotheses are satisfiable: a grant bound to a key and a certificate is used with both;
   with another key, without certificate, or with the hash of another token it is refused *)
Example bound_use_example :
  let ok := mkBind (Some (ex_proof ex_key ex_at)) ex_cert in
  snd (run_seq (userinfo ex_world 0%Z (mkUReq (PExact ex_at) true ok)) ex_store) = OUserInfo "alice" /\
  (exists i, snd (run_seq (token_info_from_request 0%Z (mkUReq (PExact ex_at) true ok)) ex_store) = OIntro i /\ in_active i = true) /\
  (exists t, snd (run_seq (refresh_grant ex_world 5 0%Z (ex_treq (mkCred 3 true) (mkBind (Some (ex_proof ex_key 0)) ex_cert))) ex_store) = OTokens t) /\
  snd (run_seq (userinfo ex_world 0%Z (mkUReq (PExact ex_at) true (mkBind (Some (ex_proof ex_key2 ex_at)) ex_cert))) ex_store) = OErr EInvalidRequest /\
  snd (run_seq (userinfo ex_world 0%Z (mkUReq (PExact ex_at) true (mkBind (Some (ex_proof ex_key ex_at)) 0))) ex_store) = OErr EInvalidToken /\
  snd (run_seq (userinfo ex_world 0%Z (mkUReq (PExact ex_at) true (mkBind (Some (ex_proof ex_key ex_rt)) ex_cert))) ex_store) = OErr EInvalidRequest /\
  snd (run_seq (refresh_grant ex_world 5 0%Z (ex_treq (mkCred 3 true) (mkBind None ex_cert))) ex_store) = OErr EUnauthorizedClient.
Proof. vm_compute. repeat split; try reflexivity; eexists; repeat split; reflexivity. Qed.

(* (3) A binding announced earlier in the flow is enforced at redemption.  For every store,
   configuration and request: if the code's session carries a key thumbprint (recorded at PAR from
   the proof or from dpop_jkt — a_jkt — or sent as dpop_jkt to /authorize — p_dpop_jkt) and DPoP is
   enabled, the authorization_code grant succeeds only with an accepted proof whose embedded and
   signing key is that key, and the token is bound to it; if the session carries a certificate
   thumbprint (PAR) and certificate binding is enabled, only with that certificate, and the token is
   bound to it. *)
Theorem announced_binding_enforced : forall w n now r st st' t,
  run_seq (code_grant w n now r) st = (st', OTokens t) ->
  exists s, find (fun s => ideq (a_code s) (t_code r)) (st_asess st) = Some s /\
    (cf_dpop_enabled (w_cfg w) = true ->
     forall jkt, jkt = (if is_nil (a_jkt s) then p_dpop_jkt (a_params s) else a_jkt s) -> jkt <> 0 ->
       exists p, b_dpop (t_bind r) = Some p /\ dp_jwk p = JwkPublic jkt /\ dp_signer p = jkt /\
                 validate_jwt jwt_lifetime jwt_leeway p 0 jkt = None /\ tr_jkt t = jkt) /\
    (cf_tls_binding_enabled (w_cfg w) = true -> a_x5t s <> 0 ->
       b_cert (t_bind r) = a_x5t s /\ tr_x5t t = a_x5t s).
Proof. exact announced_binding_lemma. Qed.
Print Assumptions announced_binding_enforced.

Example announced_binding_example :
  (exists t, snd (run_seq (code_grant ex_world 5 0%Z (ex_treq (mkCred 3 true) (mkBind (Some (ex_proof ex_key 0)) ex_cert))) ex_store) = OTokens t
             /\ tr_jkt t = ex_key /\ tr_x5t t = ex_cert) /\
  snd (run_seq (code_grant ex_world 5 0%Z (ex_treq (mkCred 3 true) (mkBind (Some (ex_proof ex_key2 0)) ex_cert))) ex_store) = OErr EInvalidRequest /\
  snd (run_seq (code_grant ex_world 5 0%Z (ex_treq (mkCred 3 true) (mkBind None ex_cert))) ex_store) = OErr EInvalidRequest.
Proof. vm_compute. split; [eexists; repeat split; reflexivity|split; reflexivity]. Qed.

(* (4) The confirmation is truthful.  For each of the four grants that write a new grant session
   (client_credentials, authorization_code, CIBA, jwt-bearer - for an authenticated or the anonymous
   client), every store, configuration and request: the cnf of a token response
   is that of the grant session the operation wrote; a non-empty jkt is the thumbprint of the key
   that is embedded in, and signed, the accepted proof of this very request; a non-empty x5t is the
   thumbprint of the certificate this request presented; token_type is DPoP iff jkt is non-empty. *)
Theorem cnf_truthful : forall h, h = cc_grant \/ h = code_grant \/ h = ciba_grant \/ h = jwt_bearer_grant ->
  forall w n now r st st' t,
  run_seq (h w n now r) st = (st', OTokens t) ->
  (tr_jkt t <> 0 ->
     exists p k, b_dpop (t_bind r) = Some p /\ dp_jwk p = JwkPublic k /\ dp_signer p = k /\
                 validate_jwt jwt_lifetime jwt_leeway p 0 0 = None /\ tr_jkt t = k) /\
  (tr_x5t t <> 0 -> tr_x5t t = b_cert (t_bind r)) /\
  tr_dpop t = negb (is_nil (tr_jkt t)) /\
  exists g, In g (st_gsess st') /\ g_id g = mint n KGrantId /\ g_jkt g = tr_jkt t /\ g_x5t g = tr_x5t t.
Proof. intros h Hh w n now r st st' t. exact (cnf_truthful_lemma h w n now r st st' t Hh). Qed.
Print Assumptions cnf_truthful.

(* (4b) Refresh keeps the binding.  For every store, configuration and request of the refresh_token
   grant (public or confidential client): on a grant found under the presented refresh token, the
   refreshed token is bound to a key iff the grant was (given that a key-bound grant exists only
   where DPoP is enabled), bound to a certificate iff the grant was; a new jkt is the thumbprint of
   the key that is embedded in, and signed, this request's accepted proof, a new x5t that of the
   certificate this request presented; and the response's cnf is that of the grant session written. *)
Theorem refresh_keeps_binding : forall w n now r st st' t,
  (forall p k, b_dpop (t_bind r) = Some p -> dp_jwk p = JwkPublic k -> k <> 0) ->
  run_seq (refresh_grant w n now r) st = (st', OTokens t) ->
  exists g, find (fun g => ideq (g_refresh g) (t_refresh r)) (st_gsess st) = Some g /\
    ((g_jkt g <> 0 -> cf_dpop_enabled (w_cfg w) = true) ->
       (g_jkt g <> 0 <-> tr_jkt t <> 0) /\
       (tr_jkt t <> 0 -> tr_jkt t = g_jkt g \/
          exists p k, b_dpop (t_bind r) = Some p /\ dp_jwk p = JwkPublic k /\ dp_signer p = k /\
                      validate_jwt jwt_lifetime jwt_leeway p 0 0 = None /\ tr_jkt t = k)) /\
    (g_x5t g <> 0 <-> tr_x5t t <> 0) /\
    (tr_x5t t <> 0 -> tr_x5t t = g_x5t g \/ tr_x5t t = b_cert (t_bind r)) /\
    tr_dpop t = negb (is_nil (tr_jkt t)) /\
    exists g', In g' (st_gsess st') /\ g_id g' = g_id g /\ g_jkt g' = tr_jkt t /\ g_x5t g' = tr_x5t t.
Proof. exact refresh_cnf_lemma. Qed.
Print Assumptions refresh_keeps_binding.

(* (5) Where binding is required, no unbound token.  For every configuration the option API builds,
   each issuing grant, every store and request whose proof (if any) embeds a key with a non-empty
   thumbprint: if DPoP is required by the server, or enabled and required by the authenticated
   client's registration, a token response is bound to a key (and typed DPoP); likewise for
   certificate binding; and if some binding is required the token is bound to a key or a certificate. *)
Theorem required_binding_never_unbound : forall h, h = cc_grant \/ h = code_grant \/ h = ciba_grant ->
  forall prof opts w n now r st st' t,
  build prof opts = Some (w_cfg w) ->
  (forall p k, b_dpop (t_bind r) = Some p -> dp_jwk p = JwkPublic k -> k <> 0) ->
  run_seq (h w n now r) st = (st', OTokens t) ->
  exists c, authn w st (t_cred r) = Some c /\
    (cf_dpop_required (w_cfg w) = true \/ (cf_dpop_enabled (w_cfg w) = true /\ c_dpop_required c = true) ->
       tr_jkt t <> 0 /\ tr_dpop t = true) /\
    (cf_tls_binding_required (w_cfg w) = true \/ (cf_tls_binding_enabled (w_cfg w) = true /\ c_tls_required c = true) ->
       tr_x5t t <> 0) /\
    (cf_binding_required (w_cfg w) = true -> tr_jkt t <> 0 \/ tr_x5t t <> 0).
Proof.
  intros h Hh prof opts w n now r st st' t Hb Hwf.
  exact (required_binding_lemma h w n now r st st' t Hh (build_req_en prof opts (w_cfg w) Hb) Hwf).
Qed.
Print Assumptions required_binding_never_unbound.

(* (5b) The same for the jwt-bearer grant, whose client is the authenticated one or - for a request with
   no client identification at all, where the embedder allows anonymous use - the anonymous client
   (which requires nothing itself: such a request is bound by the server's requirements alone). *)
Theorem required_binding_never_unbound_jwt_bearer : forall prof opts w n now r st st' t,
  build prof opts = Some (w_cfg w) ->
  (forall p k, b_dpop (t_bind r) = Some p -> dp_jwk p = JwkPublic k -> k <> 0) ->
  run_seq (jwt_bearer_grant w n now r) st = (st', OTokens t) ->
  exists c, (authn w st (t_cred r) = Some c \/
             (authn w st (t_cred r) = None /\ c = anonymous_client (w_cfg w) /\
              cr_id (t_cred r) = 0 /\ cf_jwt_bearer_authn_required (w_cfg w) = false)) /\
    (cf_dpop_required (w_cfg w) = true \/ (cf_dpop_enabled (w_cfg w) = true /\ c_dpop_required c = true) ->
       tr_jkt t <> 0 /\ tr_dpop t = true) /\
    (cf_tls_binding_required (w_cfg w) = true \/ (cf_tls_binding_enabled (w_cfg w) = true /\ c_tls_required c = true) ->
       tr_x5t t <> 0) /\
    (cf_binding_required (w_cfg w) = true -> tr_jkt t <> 0 \/ tr_x5t t <> 0).
Proof.
  intros prof opts w n now r st st' t Hb Hwf.
  exact (required_binding_jwt_bearer w n now r st st' t (build_req_en prof opts (w_cfg w) Hb) Hwf).
Qed.
Print Assumptions required_binding_never_unbound_jwt_bearer.

(* non-vacuity for jwt-bearer: under WithDPoPRequired a request without any client identification gets a
   token bound to the key of its proof, and nothing without a proof *)
Example required_binding_jwt_bearer_example :
  let cfg := match build POpenID [WithJWTBearerGrant; WithDPoPRequired] with Some c => c | None => base_config POpenID end in
  let w := mkWorld cfg [] in
  let rq b := mkTReq (mkCred 0 false) b "openid" 0 "" 0 PkEmpty 0 HgOk BaApprove [] (AsOk "alice") None in
  cf_dpop_required cfg = true /\
  (exists t, snd (run_seq (jwt_bearer_grant w 5 0%Z (rq (mkBind (Some (ex_proof ex_key2 0)) 0))) empty_store) = OTokens t
             /\ tr_jkt t = ex_key2 /\ tr_dpop t = true) /\
  snd (run_seq (jwt_bearer_grant w 5 0%Z (rq (mkBind None 0))) empty_store) = OErr EInvalidRequest.
Proof. vm_compute. repeat split; try reflexivity. eexists; repeat split; reflexivity. Qed.

(* the hypotheses are satisfiable: under WithDPoPRequired + WithTokenBindingRequired a confidential
   client obtains a client_credentials token with a proof, and none without *)
Example required_binding_example :
  cf_dpop_required ex_cfg = true /\ cf_binding_required ex_cfg = true /\
  (exists t, snd (run_seq (cc_grant ex_world 5 0%Z (ex_treq (mkCred 1 true) (mkBind (Some (ex_proof ex_key2 0)) 0))) ex_store) = OTokens t
             /\ tr_jkt t = ex_key2 /\ tr_dpop t = true) /\
  snd (run_seq (cc_grant ex_world 5 0%Z (ex_treq (mkCred 1 true) (mkBind None ex_cert))) ex_store) = OErr EInvalidRequest.
Proof. vm_compute. repeat split; try reflexivity. eexists; repeat split; reflexivity. Qed.
