(* C03 — authorization codes are single-use, client-bound, redirect-bound and short-lived.
   Statements only; proofs in Proofs/OneShot.v, Proofs/HistProps.v, Proofs/FreshHandlers.v. *)
From Verif Require Import Base Scope Types Prog Pop Token Authorize System Config Run Monitors Fresh FreshHandlers OneShot HistProps Replay PkceProofs.
Local Open Scope N_scope.

(* Over every history (any configuration, clients, interleaving of operations, clock advances): no
   token request succeeds on a code through which an earlier token request has succeeded.
   once_from ... = 0 <-> no operation was accepted on a consumed credential (Corr/Monitors.v);
   the same executable predicate is run on the implementation's traces. *)
Theorem code_at_most_once : forall w dyn ops,
  once_from cons_code cons_code (w_cfg w) [] 0 ops (run w dyn ops) = 0.
Proof. exact code_at_most_once_all. Qed.
Print Assumptions code_at_most_once.

(* For every store and every token request: tokens are issued for a code only if the code indexes a
   stored session, that session belongs to the authenticated client, it has not expired, the
   redirect_uri equals the one of the authorization request, the PKCE check passed - and the
   session is deleted (the code is consumed). *)
Theorem code_redemption_bound : forall w n now r st,
  is_tokens (snd (run_seq (code_grant w n now r) st)) = true ->
  exists s c,
    is_nil (t_code r) = false /\
    find (fun s => ideq (a_code s) (t_code r)) (st_asess st) = Some s /\
    st_asess (fst (run_seq (code_grant w n now r) st)) = del_asess (a_id s) (st_asess st) /\
    snd (run_seq (authenticated w (t_cred r)) st) = Some c /\
    a_client s = c_id c /\
    geb now (a_expires s) = false /\
    p_redirect (a_params s) = t_redirect r /\
    validate_pkce (w_cfg w) (t_verifier r) s = None.
Proof. exact code_grant_post. Qed.
Print Assumptions code_redemption_bound.

(* ... and `authenticated` answers Some c only for the client the request identifies, whose
   credential is valid (or which is public) *)
Theorem code_client_authenticated : forall w cr st c,
  snd (run_seq (authenticated w cr) st) = Some c ->
  c_id c = cr_id cr /\ is_nil (cr_id cr) = false /\ (c_public c = true \/ cr_ok cr = true).
Proof. exact authenticated_spec. Qed.
Print Assumptions code_client_authenticated.

(* with PKCE enabled and a challenge recorded, passing the PKCE check means a verifier of
   admissible length was sent that matches the challenge under the recorded or default method *)
Theorem code_pkce : forall cfg v s,
  validate_pkce cfg v s = None -> cf_pkce_enabled cfg = true -> pk_is_empty (p_challenge (a_params s)) = false ->
  pk_is_empty v = false /\ pk_len_ok v = true /\
  is_pkce_valid v (p_challenge (a_params s))
    (if is_empty (p_method (a_params s)) then cf_pkce_default cfg else p_method (a_params s)) = true.
Proof. exact validate_pkce_sound. Qed.
Print Assumptions code_pkce.

(* ... at the token endpoint, for every store and request: a code whose session recorded a challenge
   yields tokens only with a verifier matching it under the EFFECTIVE method - the one the authorization
   request named, else (code_challenge sent without code_challenge_method) the server's default
   (pkce_matches is the predicate the monitor's clause 5 evaluates on the implementation's traces); with
   the method left out the verifier is checked under the configured default, and when that default is S256
   the challenge string itself is never an acceptable verifier (no fallback to plain) *)
Theorem code_pkce_effective_method : forall w n now r st,
  is_tokens (snd (run_seq (code_grant w n now r) st)) = true ->
  exists s, find (fun s => ideq (a_code s) (t_code r)) (st_asess st) = Some s /\
    (cf_pkce_enabled (w_cfg w) = true -> pk_is_empty (p_challenge (a_params s)) = false ->
       pkce_matches (w_cfg w) (a_params s) (t_verifier r) = true /\
       (is_empty (p_method (a_params s)) = true ->
          is_pkce_valid (t_verifier r) (p_challenge (a_params s)) (cf_pkce_default (w_cfg w)) = true /\
          (cf_pkce_default (w_cfg w) = "S256" -> pk_eqb (p_challenge (a_params s)) (t_verifier r) = false))).
Proof. exact code_pkce_effective. Qed.
Print Assumptions code_pkce_effective_method.

(* in every reachable state a code is empty or was minted by an earlier operation, and identifies
   at most one stored session (likewise the other indexes) *)
Theorem code_index_unique : forall w dyn (ops : list op) s1 s2,
  let st := s_store (fst (run_from w (init_state dyn) 0 ops)) in
  In s1 (st_asess st) -> In s2 (st_asess st) -> a_code s1 = a_code s2 -> a_code s1 <> 0 -> a_id s1 = a_id s2.
Proof.
  intros w dyn ops s1 s2 st H1 H2 E NZ.
  destruct (fresh_all_histories w dyn ops) as [[_ U] _]. exact (U s1 s2 FCode H1 H2 E NZ).
Qed.
Print Assumptions code_index_unique.

(* "Every later presentation of the same code fails, and invalidates the tokens that were obtained from
   it": in every reachable state of every history, an authenticated token request whose code indexes no
   session (it was redeemed, or never issued) is answered invalid_grant, leaves the sessions alone, and
   afterwards NO stored grant carries that code - the access and refresh tokens obtained from it are
   found only through their grant (C05 live_access_iff, C10 refresh_bound), so they are dead. *)
Theorem replay_kills_issue : forall w dyn (ops : list op) n now r c,
  let st := s_store (fst (run_from w (init_state dyn) 0 ops)) in
  has_grant GAuthorizationCode (cf_grants (w_cfg w)) = true -> is_nil (t_code r) = false ->
  snd (run_seq (authenticated w (t_cred r)) st) = Some c ->
  find (fun s => ideq (a_code s) (t_code r)) (st_asess st) = None ->
  snd (run_seq (code_grant w n now r) st) = OErr EInvalidGrant /\
  st_asess (fst (run_seq (code_grant w n now r) st)) = st_asess st /\
  (forall g, In g (st_gsess (fst (run_seq (code_grant w n now r) st))) -> In g (st_gsess st) /\ g_code g <> t_code r).
Proof.
  intros w dyn ops n now r c st HG NN EA EF.
  apply (code_replay_revokes w n now r st c HG NN EA EF). exact (ci_uniq _ _ (cinv_all_histories w dyn ops)).
Qed.
Print Assumptions replay_kills_issue.

(* in every reachable state a code is carried by at most one grant, and by no grant while a session
   still holds it (so the grant found by a replay is THE grant obtained from the code) *)
Theorem code_carried_by_one_grant : forall w dyn (ops : list op),
  let st := s_store (fst (run_from w (init_state dyn) 0 ops)) in
  (forall g1 g2, In g1 (st_gsess st) -> In g2 (st_gsess st) -> g_code g1 = g_code g2 -> g_code g1 <> 0 -> g_id g1 = g_id g2) /\
  (forall s g, In s (st_asess st) -> In g (st_gsess st) -> a_code s <> 0 -> g_code g <> a_code s).
Proof.
  intros w dyn ops st. destruct (cinv_all_histories w dyn ops) as [_ U S]. split; [exact U|exact S].
Qed.
Print Assumptions code_carried_by_one_grant.

(* non-vacuity: a history in which a code is minted, redeemed once, and refused the second time *)
Example code_flow_exists :
  let c1 := mkClient 1 false [GAuthorizationCode] ["code"] ["https://c/cb"] "openid" CibaNone false false false false false false false 0 false None in
  let w := mkWorld (match build POpenID [WithAuthorizationCodeGrant] with Some c => c | None => base_config POpenID end) [c1] in
  let p := mkParams 0 "https://c/cb" "" "code" "openid" "s" "" PkEmpty "" 0 "" 0 "" [] None in
  let tr code := mkTReq (mkCred 1 true) no_bind "" code "https://c/cb" 0 PkEmpty 0 HgOk BaApprove [] AsNone None in
  let ops := [OpAuthorize (mkAReq 1 p true (PolSuccess "alice" "openid" [] [])); OpToken GAuthorizationCode (tr (mint 0 KCode)); OpToken GAuthorizationCode (tr (mint 0 KCode))] in
  match run w [] ops with
  | [Out (ONav _ _ nv); Out (OTokens _); Out (OErr EInvalidGrant)] => n_code nv = mint 0 KCode
  | _ => False end.
Proof. vm_compute. reflexivity. Qed.

(* non-vacuity of the omitted-method case: S256 is the default, the request carries the thumbprint of the
   verifier and no code_challenge_method - the pre-image redeems the code, the challenge string does not *)
Example code_flow_method_omitted :
  let c1 := mkClient 1 false [GAuthorizationCode] ["code"] ["https://c/cb"] "openid" CibaNone false false false false false false false 0 false None in
  let w := mkWorld (match build POpenID [WithAuthorizationCodeGrant; WithPKCE "S256" []] with Some c => c | None => base_config POpenID end) [c1] in
  let v := PkRaw 1 true in
  let p := mkParams 0 "https://c/cb" "" "code" "openid" "s" "" (PkHash v) "" 0 "" 0 "" [] None in
  let tr code vf := mkTReq (mkCred 1 true) no_bind "" code "https://c/cb" 0 vf 0 HgOk BaApprove [] AsNone None in
  let a := OpAuthorize (mkAReq 1 p true (PolSuccess "alice" "openid" [] [])) in
  match run w [] [a; OpToken GAuthorizationCode (tr (mint 0 KCode) v); a; OpToken GAuthorizationCode (tr (mint 2 KCode) (PkHash v))] with
  | [Out (ONav _ _ _); Out (OTokens _); Out (ONav _ _ _); Out (OErr EInvalidGrant)] => True
  | _ => False end.
Proof. vm_compute. exact I. Qed.
