(* C16 — CIBA hands tokens once, to the initiating client, only after approval. *)
From Verif Require Import Base Scope Types Prog Pop Token Authorize System Config Run Monitors Fresh FreshHandlers OneShot HistProps.
Local Open Scope N_scope.

(* For every store and poll: tokens only if the auth_req_id indexes a stored session of the
   authenticated (initiating) client, unexpired, the embedder's validation APPROVED in this very
   request (plainly, or fixing a narrower grant at that moment: ba_approves), the client is not a push client; the session is then deleted. *)
Theorem ciba_poll_bound : forall w n now r st,
  is_tokens (snd (run_seq (ciba_grant w n now r) st)) = true ->
  exists s c,
    is_nil (t_auth_req r) = false /\
    find (fun s => ideq (a_ciba s) (t_auth_req r)) (st_asess st) = Some s /\
    st_asess (fst (run_seq (ciba_grant w n now r) st)) = del_asess (a_id s) (st_asess st) /\
    snd (run_seq (authenticated w (t_cred r)) st) = Some c /\
    a_client s = c_id c /\
    geb now (a_expires s) = false /\
    ba_approves (t_ba r) = true /\
    c_ciba_mode c <> CibaPush.
Proof. exact ciba_grant_post. Qed.
Print Assumptions ciba_poll_bound.

(* Over every history (the embedder calls the Notify API with non-empty ids): an auth_req_id that
   yielded tokens - by polling or by push delivery - never yields tokens again. *)
Theorem ciba_once : forall w dyn ops, Forall wf_op ops ->
  once_from cons_ciba cons_ciba (w_cfg w) [] 0 ops (run w dyn ops) = 0.
Proof. exact ciba_once_all. Qed.
Print Assumptions ciba_once.

(* authorization_pending / slow_down leave the stored state exactly as it was *)
Theorem ciba_pending_keeps : forall w n now r st,
  t_ba r = BaPending \/ t_ba r = BaSlowDown ->
  fst (run_seq (ciba_grant w n now r) st) = st /\ is_tokens (snd (run_seq (ciba_grant w n now r) st)) = false.
Proof. exact HistProps.ciba_pending_keeps. Qed.
Print Assumptions ciba_pending_keeps.

(* a denial or any other terminal answer of the embedder's validation deletes the session *)
Theorem ciba_terminal_ends : forall w n now r st s c,
  has_grant GCiba (cf_grants (w_cfg w)) = true -> is_nil (t_auth_req r) = false ->
  snd (run_seq (authenticated w (t_cred r)) st) = Some c ->
  find (fun s => ideq (a_ciba s) (t_auth_req r)) (st_asess st) = Some s ->
  has_grant GCiba (c_grants c) = true -> c_ciba_mode c <> CibaPush -> c_id c = a_client s ->
  geb now (a_expires s) = false -> validate_binding (w_cfg w) c (t_bind r) no_opts = None ->
  t_ba r = BaDeny \/ t_ba r = BaFail ->
  st_asess (fst (run_seq (ciba_grant w n now r) st)) = del_asess (a_id s) (st_asess st) /\
  is_tokens (snd (run_seq (ciba_grant w n now r) st)) = false.
Proof. exact HistProps.ciba_terminal_ends. Qed.
Print Assumptions ciba_terminal_ends.

(* every ping / push notification goes to the notification endpoint registered for the client of the
   session the auth_req_id indexes, with that session's client_notification_token *)
Theorem ciba_notify_addressing : forall w n now a hg st nf,
  (In nf (snd (snd (run_seq (notify_success w n now a hg) st))) \/ In nf (snd (snd (run_seq (notify_failure w a) st)))) ->
  exists s c, find (fun s => ideq (a_ciba s) a) (st_asess st) = Some s /\
              snd (run_seq (get_client w (a_client s)) st) = Some c /\
              nf_ep nf = c_notif_ep c /\ nf_bearer nf = p_notif_token (a_params s) /\ nf_auth_req nf = a_ciba s.
Proof.
  intros w n now a hg st nf [H|H]; [eapply notify_success_addressing|eapply notify_failure_addressing]; eauto.
Qed.
Print Assumptions ciba_notify_addressing.

(* push delivery only before the request expires (fix 3cd6607) *)
Theorem ciba_push_before_expiry : forall w n now a hg st,
  has_tokens_notif (snd (snd (run_seq (notify_success w n now a hg) st))) = true ->
  exists s, find (fun s => ideq (a_ciba s) a) (st_asess st) = Some s /\
            st_asess (fst (run_seq (notify_success w n now a hg) st)) = del_asess (a_id s) (st_asess st) /\
            geb now (a_expires s) = false.
Proof. exact notify_success_post. Qed.
Print Assumptions ciba_push_before_expiry.
