(* C05 — only live, server-issued access tokens are ever accepted as access tokens. *)
From Verif Require Import Base Scope Types Prog Pop Token Authorize System Config Run Monitors Fresh FreshHandlers OneShot C17Proofs C05Proofs AtClaims C05ForgeProofs.
From Verif.Corr Require Import C05Forge.
Local Open Scope N_scope.

(* For every reachable state of every history shorter than 2^34 operations (handles of never-issued
   values live above 2^40 in the model's encoding) and every presented term p: token.IntrospectionInfo
   - which /introspect, Provider.TokenInfo and TokenInfoFromRequest answer from - reports an active
   ACCESS token if and only if p is exactly an access-token string this server issued (the opaque
   string, or the JWT whose jti the grant records), the token index finds its grant - i.e. the
   grant has not been revoked, removed on expiry, superseded by a refresh (which renames the token)
   or deleted by code replay - and the token's lifetime has not elapsed. *)
Theorem live_access_iff : forall w dyn (ops : list op) now p,
  N.of_nat (List.length ops) < 2 ^ 34 ->
  let st := s_store (fst (run_from w (init_state dyn) 0 ops)) in
  let i := snd (run_seq (introspection_info now p) st) in
  (in_active i = true /\ in_refresh i = false) <->
  exists h g k, p = PExact h /\ classify p = LByToken k /\
    find (fun g => ideq (g_token g) k) (st_gsess st) = Some g /\
    access_token_of g h /\ geb now (g_last_exp g) = false.
Proof.
  intros w dyn ops now p B. cbn zeta.
  apply (live_access_iff_l (List.length ops) now p _ B (tokens_minted_reachable w dyn ops)).
Qed.
Print Assumptions live_access_iff.

(* never accepted where an access token is required: forged presentations (truncated / extended
   strings, re-signed JWTs, alg none, edited payloads, foreign issuer, non-canonical signature) ... *)
Theorem forged_never_live : forall w dyn (ops : list op) now h f,
  N.of_nat (List.length ops) < 2 ^ 34 ->
  in_active (snd (run_seq (introspection_info now (PForged h f)) (s_store (fst (run_from w (init_state dyn) 0 ops))))) = false.
Proof. intros w dyn ops now h f B. eapply not_live_forged; eauto using tokens_minted_reachable. Qed.
Print Assumptions forged_never_live.
(* ... the jti of a JWT access token, on any store ... *)
Theorem jti_never_live : forall now h st, snd (run_seq (introspection_info now (PJti h)) st) = inactive.
Proof. exact not_live_jti. Qed.
Print Assumptions jti_never_live.
(* ... and a refresh token is only ever reported as a refresh token *)
Theorem refresh_token_is_not_access : forall now h st, is_kind KAtJwt h = false -> is_kind KRefresh h = true ->
  let i := snd (run_seq (introspection_info now (PExact h)) st) in in_active i = true -> in_refresh i = true.
Proof. exact refresh_is_not_access. Qed.
Print Assumptions refresh_token_is_not_access.

(* /userinfo answers only for a token id that ExtractID accepts (the UUID-shaped jti is refused), whose
   grant is stored, unexpired, carries the openid scope, and for which proof of possession passed *)
Theorem userinfo_needs_live_token : forall w now r st sub,
  snd (run_seq (userinfo w now r) st) = OUserInfo sub ->
  exists tid g, u_has_header r = true /\ extract_id (u_tok r) = Some tid /\
    find (fun g => ideq (g_token g) tid) (st_gsess st) = Some g /\
    geb now (g_last_exp g) = false /\ contains_openid (g_active g) = true /\
    validate_pop (u_bind r) (ptok_id (u_tok r)) (g_jkt g) (g_x5t g) = None.
Proof. exact userinfo_post. Qed.
Print Assumptions userinfo_needs_live_token.
Theorem userinfo_token_id_is_classified : forall p tid, extract_id p = Some tid -> p <> PEmpty ->
  classify p = LByToken tid \/ (exists h, p = PExact h /\ is_kind KRefresh h = true /\ tid = h).
Proof. exact extract_id_classify. Qed.
Print Assumptions userinfo_token_id_is_classified.

(* a successful revocation either found nothing live (store untouched) or was made by the owning
   client and deleted the grant - with it both the access and the refresh token, since every index
   value identifies one grant (refresh_index_unique, C10; token ids likewise) *)
Theorem revoked_dead : forall w now r st,
  snd (run_seq (revoke w now r) st) = OOk ->
  let i := snd (run_seq (introspection_info now (q_tok r)) st) in
  (in_active i = false /\ fst (run_seq (revoke w now r) st) = st) \/
  (in_active i = true /\ exists c, snd (run_seq (authenticated w (q_cred r)) st) = Some c /\ c_id c = in_client i /\
     st_gsess (fst (run_seq (revoke w now r) st)) = del_gsess (in_grant i) (st_gsess st)).
Proof. exact revoke_post. Qed.
Print Assumptions revoked_dead.
Theorem other_client_cannot_revoke : forall w now r st c,
  cf_revocation (w_cfg w) = true -> q_allowed r = true ->
  snd (run_seq (authenticated w (q_cred r)) st) = Some c ->
  let i := snd (run_seq (introspection_info now (q_tok r)) st) in
  in_active i = true -> c_id c <> in_client i ->
  run_seq (revoke w now r) st = (st, OErr EAccessDenied).
Proof. exact revoke_other_client. Qed.
Print Assumptions other_client_cannot_revoke.
Theorem token_index_unique : forall w dyn (ops : list op) g1 g2,
  let st := s_store (fst (run_from w (init_state dyn) 0 ops)) in
  In g1 (st_gsess st) -> In g2 (st_gsess st) -> g_token g1 = g_token g2 -> g_id g1 = g_id g2.
Proof.
  intros w dyn ops g1 g2 st H1 H2 E.
  destruct (fresh_all_histories w dyn ops) as [_ [_ U]]. apply (U g1 g2 FToken H1 H2 E).
  exact (proj1 (one_index_all_histories w dyn ops) g1 H1).
Qed.
Print Assumptions token_index_unique.

(* KNOWN FINDING K0 (known_findings.json): the last sentence of the property - "after a successful
   revocation by the owning client neither the access token nor the refresh token of that grant works
   again" - is FALSE when the revoked access token's lifetime had already elapsed: /revoke answers 200
   (revoked_dead's first disjunct: nothing live was found, the store is untouched) and the refresh token
   of the same grant still yields tokens.  Witness, evaluated in the model and replayed on the real
   provider by the c05 suite on every run: *)
Definition k0_world : world :=
  let c2 := mkClient 2 false [GAuthorizationCode; GRefreshToken] ["code"] ["https://c2.example/cb"] "openid" CibaNone false false false false false false false 0 false None in
  mkWorld (match build POpenID [WithAuthorizationCodeGrant; WithRefreshTokenGrant 1000%Z; WithTokenRevocation; WithTokenLifetime 40%Z] with Some c => c | None => base_config POpenID end) [c2].
Definition k0_ops : list op :=
  let p := mkParams 0 "https://c2.example/cb" "" "code" "openid" "st" "" PkEmpty "" 0 "" 0 "" [] None in
  let tr code rt := mkTReq (mkCred 2 true) no_bind "" code "https://c2.example/cb" rt PkEmpty 0 HgOk BaApprove [] AsNone None in
  [OpAuthorize (mkAReq 2 p true (PolSuccess "alice" "openid" [] []));
   OpToken GAuthorizationCode (tr (mint 0 KCode) 0);
   OpTick 45%Z;
   OpRevoke (mkQReq (mkCred 2 true) (PExact (mint 1 KAtOpaque)) true);
   OpToken GRefreshToken (tr 0 (mint 1 KRefresh))].
Theorem revoke_of_expired_access_token_refuted :
  match run k0_world [] k0_ops with
  | [Out (ONav _ _ _); Out (OTokens t); Out OOk; Out OOk; Out (OTokens _)] =>
      tr_at t = mint 1 KAtOpaque /\ tr_rt t = mint 1 KRefresh
  | _ => False
  end.
Proof. vm_compute. split; reflexivity. Qed.
Print Assumptions revoke_of_expired_access_token_refuted.

(* ---- JWT access tokens: what ties the string to THIS server (Model/AtClaims.v: token.go validClaims guard
   by guard - jwt.ParseSigned with the algorithms of the server's signature keys, canonical signature
   encoding, key lookup by kid, use = sig, signature verification, claims.ValidateWithLeeway(Expected{Issuer:
   ctx.Host}) - followed by the jti extraction of ExtractID / jwtTokenInfo; run on every string the suite
   c05forge presents to the real provider, Corr/C05Forge.v) ---- *)
Local Open Scope N_scope.

(* For every configuration with a non-empty issuer and every JWT: validClaims yields a token id ONLY IF the
   signature verifies under a signature key of the server (the key its JWKS lists under the kid of the
   header), AND the iss claim is a single string equal to the configured issuer - not absent, not an
   array containing it, not a string that differs by a trailing slash, letter case or scheme (those are other
   numbers) - AND every time claim present is inside its window, AND the id is the jti of the token. *)
Theorem at_claims_issuer_bound : forall (c : at_cfg) (j : jwt) (t : N),
  ac_host c <> 0 ->
  valid_claims c j = Some t ->
  (exists k, In k (ac_keys c) /\ k_use k = UseSig /\ j_kid j = Some (k_kid k) /\
             key_by_kid c (k_kid k) = Some k /\ j_signer j = Some (k_ident k)) /\
  j_iss j = IssOne (ac_host c) /\
  ((forall d, j_nbf j = Some d -> (d <= ac_leeway c)%Z) /\
   (forall d, j_exp j = Some d -> (- ac_leeway c <= d)%Z) /\
   (forall d, j_iat j = Some d -> (d <= ac_leeway c)%Z)) /\
  j_jti j = Some t.
Proof. exact at_claims_issuer_bound_l. Qed.
Print Assumptions at_claims_issuer_bound.

(* In the direction the suite checks: every forgery kind of c05forge (the inductive `forgery` mirrors
   harness/suite_c05_forge.go c05fKinds: iss another string - foreign, trailing slash, letter case, scheme,
   path suffix, empty, the other tenant's - / absent / an array, whatever it contains / not a string; exp,
   nbf, iat outside the window; kid absent / unknown / naming a key that did not sign / naming the
   encryption key; no verifying key - alg none, edited payload -; non-canonical signature; jti absent),
   applied to ANY JWT record - whatever its other fields, a genuine live token included - is refused by
   validClaims and hence by all four acceptors, whatever the grant storage holds. *)
Theorem forged_issuer_refused : forall (c : at_cfg) (live : N -> bool) (f : forgery) (j : jwt),
  ac_host c <> 0 -> forgery_side c f j ->
  valid_claims c (apply_forgery f j) = None /\ at_accepts c live (apply_forgery f j) = false.
Proof. exact forged_issuer_refused_l. Qed.
Print Assumptions forged_issuer_refused.

(* the remaining judged kinds keep every field valid and die on the grant storage: lifetime elapsed with exp
   pushed into the future or removed, an unknown jti *)
Theorem dead_jti_refused : forall (c : at_cfg) (live : N -> bool) (j : jwt),
  (forall t, j_jti j = Some t -> live t = false) -> at_accepts c live j = false.
Proof. exact dead_jti_not_accepted. Qed.
Print Assumptions dead_jti_refused.

(* The limit of the property, stated rather than hidden: validClaims cannot tell the server from another
   holder of its signing key.  Claims signed by a signature key of the server under the configured issuer,
   inside the time window, with a jti that is live (the same claims re-signed, the jti of another live
   token, exp pushed on a live token) ARE accepted - by the model and, as the suite observes on every run
   (kinds mint:*, listed in its meta.extra), by the unchanged code. *)
Theorem at_claims_key_holder_mints : forall (c : at_cfg) (j : jwt) (k : skey) (t : N),
  j_wf j = true -> In (j_alg j) (sig_algs c) -> j_sig_canon j = true ->
  j_kid j = Some (k_kid k) -> key_by_kid c (k_kid k) = Some k -> k_use k = UseSig ->
  j_signer j = Some (k_ident k) ->
  j_iss j = IssOne (ac_host c) -> j_typed j = true ->
  time_in_window (ac_leeway c) j ->
  j_jti j = Some t ->
  valid_claims c j = Some t.
Proof. exact valid_claims_complete. Qed.
Print Assumptions at_claims_key_holder_mints.

(* what the model accepts never trips the monitor of the suite (mon_C05F decides the clauses of
   at_claims_issuer_bound on the record alone) *)
Theorem at_claims_accepted_passes_monitor_clauses : forall (c : at_cfg) (j : jwt) (t : N),
  ac_host c <> 0 -> valid_claims c j = Some t ->
  sig_okb c j = true /\ iss_okb c j = true /\ time_okb c j = true.
Proof. exact accepted_passes_clauses. Qed.
Print Assumptions at_claims_accepted_passes_monitor_clauses.

(* the hypotheses are satisfiable: a genuine token of a two-key server (issuer 1, ES256 = 1, kid 7, key
   material 3, issued 5 s ago for 600 s, jti 42) is accepted, and live => accepted by the acceptors; the same
   claims under the issuer with a trailing slash (another string: 2), or as the array [1], are refused *)
Definition ex_cfg : at_cfg := mkAtCfg 1 [mkSKey 8 4 5 UseEnc; mkSKey 7 3 1 UseSig] 0%Z.
Definition ex_jwt : jwt := mkJwt true 1 (Some 7) (Some 3) true (IssOne 1) (Some 595%Z) None (Some (-5)%Z) true (Some 42).
Example genuine_token_accepted :
  valid_claims ex_cfg ex_jwt = Some 42 /\ at_accepts ex_cfg (fun t => N.eqb t 42) ex_jwt = true /\
  valid_claims ex_cfg (apply_forgery (FIssOtherString 2) ex_jwt) = None /\
  valid_claims ex_cfg (apply_forgery (FIssArray [1]) ex_jwt) = None /\
  valid_claims ex_cfg (apply_forgery (FKidNamesEncKey 8) ex_jwt) = None.
Proof. vm_compute. repeat split; reflexivity. Qed.
