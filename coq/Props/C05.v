(* C05 — only live, server-issued access tokens are ever accepted as access tokens. *)
From Verif Require Import Base Scope Types Prog Pop Token Authorize System Config Run Monitors Fresh FreshHandlers OneShot C17Proofs C05Proofs.
Local Open Scope N_scope.

(* For every reachable state of every history shorter than 2^34 operations (handles of never-issued
   values live above 2^40 in the model's encoding) and every presented term p: token.IntrospectionInfo
   - which /introspect, Provider.TokenInfo and TokenInfoFromRequest answer from - reports an active
   ACCESS token if and only if p is exactly an access-token string this server issued (the opaque
   string, or the JWT whose jti the grant records), the token index finds its grant - i.e. the
   grant has not been revoked, removed on expiry, superseded by a refresh (which renames the token)
   or deleted by code replay - and the token's lifetime has not elapsed. *)
Theorem live_access_iff : forall w dyn (ops : list op) now p,
  N.of_nat (List.length ops) < 2 ^ 34 ->
  let st := s_store (fst (run_from w (init_state dyn) 0 ops)) in
  let i := snd (run_seq (introspection_info now p) st) in
  (in_active i = true /\ in_refresh i = false) <->
  exists h g k, p = PExact h /\ classify p = LByToken k /\
    find (fun g => ideq (g_token g) k) (st_gsess st) = Some g /\
    access_token_of g h /\ geb now (g_last_exp g) = false.
Proof.
  intros w dyn ops now p B. cbn zeta.
  apply (live_access_iff_l (List.length ops) now p _ B (tokens_minted_reachable w dyn ops)).
Qed.
Print Assumptions live_access_iff.

(* never accepted where an access token is required: forged presentations (truncated / extended
   strings, re-signed JWTs, alg none, edited payloads, foreign issuer, non-canonical signature) ... *)
Theorem forged_never_live : forall w dyn (ops : list op) now h f,
  N.of_nat (List.length ops) < 2 ^ 34 ->
  in_active (snd (run_seq (introspection_info now (PForged h f)) (s_store (fst (run_from w (init_state dyn) 0 ops))))) = false.
Proof. intros w dyn ops now h f B. eapply not_live_forged; eauto using tokens_minted_reachable. Qed.
Print Assumptions forged_never_live.
(* ... the jti of a JWT access token, on any store ... *)
Theorem jti_never_live : forall now h st, snd (run_seq (introspection_info now (PJti h)) st) = inactive.
Proof. exact not_live_jti. Qed.
Print Assumptions jti_never_live.
(* ... and a refresh token is only ever reported as a refresh token *)
Theorem refresh_token_is_not_access : forall now h st, is_kind KAtJwt h = false -> is_kind KRefresh h = true ->
  let i := snd (run_seq (introspection_info now (PExact h)) st) in in_active i = true -> in_refresh i = true.
Proof. exact refresh_is_not_access. Qed.
Print Assumptions refresh_token_is_not_access.

(* /userinfo answers only for a token id that ExtractID accepts (the UUID-shaped jti is refused), whose
   grant is stored, unexpired, carries the openid scope, and for which proof of possession passed *)
Theorem userinfo_needs_live_token : forall w now r st sub,
  snd (run_seq (userinfo w now r) st) = OUserInfo sub ->
  exists tid g, u_has_header r = true /\ extract_id (u_tok r) = Some tid /\
    find (fun g => ideq (g_token g) tid) (st_gsess st) = Some g /\
    geb now (g_last_exp g) = false /\ contains_openid (g_active g) = true /\
    validate_pop (u_bind r) (ptok_id (u_tok r)) (g_jkt g) (g_x5t g) = None.
Proof. exact userinfo_post. Qed.
Print Assumptions userinfo_needs_live_token.
Theorem userinfo_token_id_is_classified : forall p tid, extract_id p = Some tid -> p <> PEmpty ->
  classify p = LByToken tid \/ (exists h, p = PExact h /\ is_kind KRefresh h = true /\ tid = h).
Proof. exact extract_id_classify. Qed.
Print Assumptions userinfo_token_id_is_classified.

(* a successful revocation either found nothing live (store untouched) or was made by the owning
   client and deleted the grant - with it both the access and the refresh token, since every index
   value identifies one grant (refresh_index_unique, C10; token ids likewise) *)
Theorem revoked_dead : forall w now r st,
  snd (run_seq (revoke w now r) st) = OOk ->
  let i := snd (run_seq (introspection_info now (q_tok r)) st) in
  (in_active i = false /\ fst (run_seq (revoke w now r) st) = st) \/
  (in_active i = true /\ exists c, snd (run_seq (authenticated w (q_cred r)) st) = Some c /\ c_id c = in_client i /\
     st_gsess (fst (run_seq (revoke w now r) st)) = del_gsess (in_grant i) (st_gsess st)).
Proof. exact revoke_post. Qed.
Print Assumptions revoked_dead.
Theorem other_client_cannot_revoke : forall w now r st c,
  cf_revocation (w_cfg w) = true -> q_allowed r = true ->
  snd (run_seq (authenticated w (q_cred r)) st) = Some c ->
  let i := snd (run_seq (introspection_info now (q_tok r)) st) in
  in_active i = true -> c_id c <> in_client i ->
  run_seq (revoke w now r) st = (st, OErr EAccessDenied).
Proof. exact revoke_other_client. Qed.
Print Assumptions other_client_cannot_revoke.
Theorem token_index_unique : forall w dyn (ops : list op) g1 g2,
  let st := s_store (fst (run_from w (init_state dyn) 0 ops)) in
  In g1 (st_gsess st) -> In g2 (st_gsess st) -> g_token g1 = g_token g2 -> g_id g1 = g_id g2.
Proof.
  intros w dyn ops g1 g2 st H1 H2 E.
  destruct (fresh_all_histories w dyn ops) as [_ [_ U]]. apply (U g1 g2 FToken H1 H2 E).
  exact (proj1 (one_index_all_histories w dyn ops) g1 H1).
Qed.
Print Assumptions token_index_unique.

(* KNOWN FINDING K0 (known_findings.json): the last sentence of the property - "after a successful
   revocation by the owning client neither the access token nor the refresh token of that grant works
   again" - is FALSE when the revoked access token's lifetime had already elapsed: /revoke answers 200
   (revoked_dead's first disjunct: nothing live was found, the store is untouched) and the refresh token
   of the same grant still yields tokens.  Witness, evaluated in the model and replayed on the real
   provider by the c05 suite on every run: *)
Definition k0_world : world :=
  let c2 := mkClient 2 false [GAuthorizationCode; GRefreshToken] ["code"] ["https://c2.example/cb"] "openid" CibaNone false false false false false false false 0 false None in
  mkWorld (match build POpenID [WithAuthorizationCodeGrant; WithRefreshTokenGrant 1000%Z; WithTokenRevocation; WithTokenLifetime 40%Z] with Some c => c | None => base_config POpenID end) [c2].
Definition k0_ops : list op :=
  let p := mkParams 0 "https://c2.example/cb" "" "code" "openid" "st" "" PkEmpty "" 0 "" 0 "" [] None in
  let tr code rt := mkTReq (mkCred 2 true) no_bind "" code "https://c2.example/cb" rt PkEmpty 0 HgOk BaApprove [] AsNone None in
  [OpAuthorize (mkAReq 2 p true (PolSuccess "alice" "openid" [] []));
   OpToken GAuthorizationCode (tr (mint 0 KCode) 0);
   OpTick 45%Z;
   OpRevoke (mkQReq (mkCred 2 true) (PExact (mint 1 KAtOpaque)) true);
   OpToken GRefreshToken (tr 0 (mint 1 KRefresh))].
Theorem revoke_of_expired_access_token_refuted :
  match run k0_world [] k0_ops with
  | [Out (ONav _ _ _); Out (OTokens t); Out OOk; Out OOk; Out (OTokens _)] =>
      tr_at t = mint 1 KAtOpaque /\ tr_rt t = mint 1 KRefresh
  | _ => False
  end.
Proof. vm_compute. split; reflexivity. Qed.
Print Assumptions revoke_of_expired_access_token_refuted.
