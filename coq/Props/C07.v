(* C07 — request objects and pushed requests are authentic, client-bound and one-shot.
   Statements only; proofs are in Proofs/C07Proofs.v.  The model functions are those of
   Model/Jar.v (request objects at /authorize, /par, /bc-authorize) and Model/Authorize.v
   (pushed requests); the predicates jar_ok, ciba_jar_ok, out_ok are the executable ones of
   Model/JarSpec.v, which the monitor of Corr/C07.v evaluates on the implementation's answers. *)
From Verif Require Import Base Scope Types Prog Pop Token Authorize System Config Jar JarSpec C07Proofs C02Handlers C07Nav C07Aud.
Local Open Scope N_scope.

(* ---- jar_authentic ----
   For every request object, client registration (JWKS, algorithm pin), configuration and profile:
   jarFromRequestObject hands out parameters only if they are exactly the object's and the object is
   (signed by a key of the client's JWKS, with an algorithm allowed for that client, names the client
   as issuer and this server as audience, and is inside its validity window) or (unsigned, declares
   'none', and 'none' is among the algorithms allowed for that client). *)
Theorem jar_authentic : forall prof jc cid c o j,
  cid <> 0 -> resolve_jar prof jc cid c o = inr j ->
  j = contents o /\ (authentic prof jc cid c o = true \/ unsigned_enabled jc c o = true).
Proof. exact resolve_jar_authentic_or. Qed.
Print Assumptions jar_authentic.

(* what the executable predicate `authentic` says *)
Theorem authentic_means : forall prof jc cid c o, authentic prof jc cid c o = true ->
  (exists k j, ro_sig o = SigBy k /\ In j (jc_keys c) /\ jk_key j = k) /\
  (match jc_jar_alg c with Some a => ro_alg o = a | None => exists a, In a (jw_algs jc) /\ ro_alg o = a end) /\
  ro_alg o <> ANone /\ ro_iss o = cid /\ ro_aud_ok o = true /\ in_window prof (jw_leeway jc) o = true.
Proof. exact authentic_meaning. Qed.
Print Assumptions authentic_means.

Theorem unsigned_means : forall jc c o, unsigned_enabled jc c o = true ->
  ro_sig o = SigEmpty /\ ro_alg o = ANone /\ mem_alg ANone (jar_algs jc c) = true.
Proof. exact unsigned_meaning. Qed.
Print Assumptions unsigned_means.

(* the same for the request object of /bc-authorize (always signed; iat, nbf, exp, jti required) *)
Theorem ciba_jar_authentic : forall jc cid c o j,
  cid <> 0 -> resolve_ciba_jar jc cid c o = inr j -> j = contents o /\ ciba_jar_ok jc cid c o = true.
Proof. exact resolve_ciba_jar_authentic. Qed.
Print Assumptions ciba_jar_authentic.

(* ---- handler level, for every world, store, operation index and clock ----
   With JAR enabled, a request that carries a request object (by value or by reference) and is
   answered with a page, a code/token redirect, a request_uri or an auth_req_id was authentic for
   the client named in the request, and (jar_client_bound) its client_id claim names that client. *)
Theorem jar_authentic_authorize : forall w jx n now q st st' x o,
  cf_jar_enabled (w_cfg w) = true -> carries (jq_jar q) o ->
  p_request_uri (ar_params (jq_req q)) = 0 ->
  run_seq (init_auth_jar w jx n now q) st = (st', x) -> out_ok x = true ->
  let cid := ar_client (jq_req q) in
  jar_ok (cf_profile (w_cfg w)) (jx_cfg jx) cid (jclient_of (jx_clients jx) cid) o = true /\ ro_client_id o = cid.
Proof. exact init_auth_jar_authentic. Qed.
Print Assumptions jar_authentic_authorize.

Theorem jar_authentic_par : forall w jx n now r st st' x o,
  cf_jar_enabled (w_cfg w) = true ->
  run_seq (push_auth_jar w jx n now r (Some o)) st = (st', x) -> out_ok x = true ->
  let cid := cr_id (pr_cred r) in
  jar_ok (cf_profile (w_cfg w)) (jx_cfg jx) cid (jclient_of (jx_clients jx) cid) o = true /\ ro_client_id o = cid.
Proof. exact push_auth_jar_authentic. Qed.
Print Assumptions jar_authentic_par.

Theorem jar_authentic_ciba : forall w jx n now r st st' x o,
  cf_ciba_jar_enabled (w_cfg w) = true ->
  run_seq (init_back_auth_jar w jx n now r (Some o)) st = (st', x) -> out_ok x = true ->
  let cid := cr_id (br_cred r) in
  ciba_jar_ok (jx_cfg jx) cid (jclient_of (jx_clients jx) cid) o = true.
Proof. exact init_back_auth_jar_authentic. Qed.
Print Assumptions jar_authentic_ciba.

(* ---- jar_audience_is_issuer ----
   "names ... this server as audience": the `aud` claim is a LIST of values (Model/Jar.v `audience`:
   the issuer itself, the issuer written with a trailing slash or in another case, the token /
   authorization / pushed-authorization / backchannel endpoint URLs, the URL of the very request, the
   mTLS aliases of issuer, token endpoint and requested URL, the client's own identifier, anything
   else).  For every world, store, clock and request: a request that carries a SIGNED request object
   and is answered with a page, a code / token redirect, a request_uri or an auth_req_id had the
   issuer ITSELF among the object's audiences - at /authorize (by value or by reference), at /par and
   at /bc-authorize (always signed).  In particular an object whose audience is what a
   private_key_jwt client assertion carries (the token endpoint, the requested URL) is never used. *)
Theorem jar_audience_is_issuer :
  (forall w jx n now q st st' x o,
     cf_jar_enabled (w_cfg w) = true -> carries (jq_jar q) o ->
     p_request_uri (ar_params (jq_req q)) = 0 ->
     run_seq (init_auth_jar w jx n now q) st = (st', x) -> out_ok x = true ->
     ro_sig o <> SigEmpty -> In AudIssuer (ro_aud o)) /\
  (forall w jx n now r st st' x o,
     cf_jar_enabled (w_cfg w) = true ->
     run_seq (push_auth_jar w jx n now r (Some o)) st = (st', x) -> out_ok x = true ->
     ro_sig o <> SigEmpty -> In AudIssuer (ro_aud o)) /\
  (forall w jx n now r st st' x o,
     cf_ciba_jar_enabled (w_cfg w) = true ->
     run_seq (init_back_auth_jar w jx n now r (Some o)) st = (st', x) -> out_ok x = true ->
     In AudIssuer (ro_aud o)).
Proof. exact jar_audience_handlers. Qed.
Print Assumptions jar_audience_is_issuer.

(* the same at the level of the two resolvers (jarFromRequestObject, cibaJARFromRequestObject), for every
   profile, configuration, client registration and expected client (even the empty one) *)
Theorem jar_audience_resolver :
  (forall prof jc cid c o j, resolve_jar prof jc cid c o = inr j -> ro_sig o <> SigEmpty -> In AudIssuer (ro_aud o)) /\
  (forall jc cid c o j, resolve_ciba_jar jc cid c o = inr j -> In AudIssuer (ro_aud o)).
Proof. exact jar_audience_resolvers. Qed.
Print Assumptions jar_audience_resolver.

(* the direction the deviation catalogue of suite c07obj exercises: a signed object none of whose
   audiences is the issuer itself - however near the miss - is refused by both resolvers *)
Theorem jar_audience_near_miss_refused : forall prof jc cid c o,
  (forall a, In a (ro_aud o) -> a <> AudIssuer) -> ro_sig o <> SigEmpty ->
  (exists e, resolve_jar prof jc cid c o = inl e) /\ (exists e, resolve_ciba_jar jc cid c o = inl e).
Proof. exact near_miss_refused. Qed.
Print Assumptions jar_audience_near_miss_refused.

(* ---- jar_client_bound (decision level): the client_id inside must be the client's ---- *)
Theorem jar_client_bound : forall cfg c outer jin j p,
  jar_session cfg c outer jin j = inr p -> jr_client j = c_id c.
Proof. exact jar_session_bound. Qed.
Print Assumptions jar_client_bound.

(* ---- jar_required_enforced ----
   JAR required by the server, or by every registration of the client: a request without a request
   object (and without request_uri) starts nothing: refused, store unchanged. *)
Theorem jar_required_enforced_authorize : forall w jx n now q st,
  cf_jar_enabled (w_cfg w) = true ->
  (cf_jar_required (w_cfg w) = true \/
   every_registration w st (ar_client (jq_req q)) (fun c => c_jar_required c = true)) ->
  jq_jar q = JNone -> p_request_uri (ar_params (jq_req q)) = 0 ->
  exists x, run_seq (init_auth_jar w jx n now q) st = (st, x) /\ out_ok x = false.
Proof. exact init_auth_jar_required. Qed.
Print Assumptions jar_required_enforced_authorize.

Theorem jar_required_enforced_par : forall w jx n now r st,
  cf_jar_enabled (w_cfg w) = true ->
  (cf_jar_required (w_cfg w) = true \/
   every_registration w st (cr_id (pr_cred r)) (fun c => c_jar_required c = true)) ->
  exists x, run_seq (push_auth_jar w jx n now r None) st = (st, x) /\ out_ok x = false.
Proof. exact push_auth_jar_required. Qed.
Print Assumptions jar_required_enforced_par.

Theorem jar_required_enforced_ciba : forall w jx n now r st,
  cf_ciba_jar_enabled (w_cfg w) = true ->
  (cf_ciba_jar_required (w_cfg w) = true \/ jc_ciba_alg (jclient_of (jx_clients jx) (cr_id (br_cred r))) <> None) ->
  exists x, run_seq (init_back_auth_jar w jx n now r None) st = (st, x) /\ out_ok x = false.
Proof. exact init_back_auth_jar_required. Qed.
Print Assumptions jar_required_enforced_ciba.

(* ---- fapi_outer_inert ----
   Under FAPI 1.0 / 2.0: two authorization requests by the same client that present the same
   request_uri / request object and differ only in the parameters outside it, run from the same
   state with the same policy script — if both are accepted, the resulting states (hence sessions)
   and answers are equal. *)
Theorem fapi_outer_inert : forall w jx n now q1 q2 st s1 x1 s2 x2,
  is_fapi (cf_profile (w_cfg w)) = true ->
  same_outside (jq_req q1) (jq_req q2) -> jq_jar q1 = jq_jar q2 -> inner_in_effect (w_cfg w) q1 = true ->
  run_seq (init_auth_jar w jx n now q1) st = (s1, x1) ->
  run_seq (init_auth_jar w jx n now q2) st = (s2, x2) ->
  out_ok x1 = true -> out_ok x2 = true -> s1 = s2 /\ x1 = x2.
Proof. exact init_auth_jar_inert. Qed.
Print Assumptions fapi_outer_inert.

(* the same, stated on the handler of Model/Authorize.v (pushed requests, no request objects):
   under FAPI the merge of outer parameters is skipped *)
Theorem fapi_outer_inert_par : forall w n now r1 r2 st s1 x1 s2 x2,
  is_fapi (cf_profile (w_cfg w)) = true -> same_outside r1 r2 ->
  cf_par_enabled (w_cfg w) = true -> p_request_uri (ar_params r1) <> 0 ->
  run_seq (init_auth w n now r1) st = (s1, x1) ->
  run_seq (init_auth w n now r2) st = (s2, x2) ->
  out_ok x1 = true -> out_ok x2 = true -> s1 = s2 /\ x1 = x2.
Proof. exact init_auth_par_inert. Qed.
Print Assumptions fapi_outer_inert_par.

(* ---- the JAR-aware handlers extend those of Model/Authorize.v conservatively ----
   With JAR (resp. CIBA JAR) disabled and no object sent they answer, and change the store,
   exactly like init_auth / push_auth / init_back_auth, for every request and state: the
   theorems about pushed requests proved on Model/Authorize.v carry over to them. *)
Theorem jar_handlers_conservative_authorize : forall w jx n now r st,
  cf_jar_enabled (w_cfg w) = false ->
  run_seq (init_auth_jar w jx n now (mkJAReq r JNone)) st = run_seq (init_auth w n now r) st.
Proof. exact init_auth_jar_plain. Qed.
Print Assumptions jar_handlers_conservative_authorize.

Theorem jar_handlers_conservative_par : forall w jx n now r st,
  cf_jar_enabled (w_cfg w) = false ->
  run_seq (push_auth_jar w jx n now r None) st = run_seq (push_auth w n now r) st.
Proof. exact push_auth_jar_plain. Qed.
Print Assumptions jar_handlers_conservative_par.

Theorem jar_handlers_conservative_ciba : forall w jx n now r st,
  cf_ciba_jar_enabled (w_cfg w) = false ->
  run_seq (init_back_auth_jar w jx n now r None) st = run_seq (init_back_auth w n now r) st.
Proof. exact init_back_auth_jar_plain. Qed.
Print Assumptions jar_handlers_conservative_ciba.

(* ---- where a request that carries a request object may navigate (property C02 for the JAR-aware
   authorization endpoint; monitor clause 8 and the "redirected error" half of clauses 1/2) ----
   jar_navigation_validated: validateRequestWithJAR (after fetching / resolving the object) redirects an
   error only with parameters whose redirect_uri is present and registered for the client, and the
   parameters it settles on for the session have such a redirect_uri too - wherever the redirect_uri
   came from (object or query), whatever else the object carries (nested request / request_uri, bad
   scope, response_type ...). *)
Theorem jar_navigation_validated : forall cfg jc c jcl outer jin,
  (forall e p, jar_decision cfg jc c jcl outer jin = inl (ARedirect e p) ->
     is_empty (p_redirect p) = false /\ redirect_allowed c (p_redirect p) = true) /\
  (forall p, jar_decision cfg jc c jcl outer jin = inr p ->
     is_empty (p_redirect p) = false /\ redirect_allowed c (p_redirect p) = true).
Proof. exact jar_decision_valid. Qed.
Print Assumptions jar_navigation_validated.

(* an object that is not authentic for the client (not signed by a key of its JWKS with a permitted
   algorithm ..., nor unsigned with 'none' allowed for the client - the JWE layer, if any, removed
   first) is answered with a LOCAL error: nothing it carries reaches a navigation *)
Theorem unauthentic_object_never_navigates : forall cfg jc c jcl outer jin o,
  c_id c <> 0 -> carries jin o -> jar_ok (cf_profile cfg) jc (c_id c) jcl o = false ->
  exists x, jar_decision cfg jc c jcl outer jin = inl (ALocal x).
Proof. exact jar_decision_unauthentic_local. Qed.
Print Assumptions unauthentic_object_never_navigates.

(* handler level, every world, store, clock and request (plain, with an object by value or by reference,
   or redeeming a pushed request): every navigation - code, tokens, policy failure, validation error -
   targets a URI registered for the requesting client, or the redirect_uri of the pushed session this
   very request redeems (same statement as C02's nav_target_authorize, for the JAR-aware handler) *)
Theorem nav_target_authorize_jar : forall w jx n now q st u,
  nav_target (snd (run_seq (init_auth_jar w jx n now q) st)) = Some u ->
  exists c, snd (run_seq (get_client w (ar_client (jq_req q))) st) = Some c /\
    (redirect_allowed c u = true \/
     exists s, find (fun s => ideq (a_par s) (p_request_uri (ar_params (jq_req q)))) (st_asess st) = Some s /\
               a_client s = ar_client (jq_req q) /\ u = p_redirect (a_params s) /\
               (is_fapi (cf_profile (w_cfg w)) = true \/ cf_par_unregistered (w_cfg w) = true)).
Proof. exact init_auth_jar_target. Qed.
Print Assumptions nav_target_authorize_jar.

(* ---- SLOT (main developer): request_uri_bound / request_uri_one_shot -------------------------
   Theorems over all histories of Model/Authorize.v (push_auth, init_auth):
     request_uri_bound    : a request_uri resolves only for the pushing client, only before expiry;
     request_uri_one_shot : at most one authorization per request_uri over any history; wrong-client
                            or invalid use deletes it.
   To be added here, each closed by `Proof. exact <lemma>. Qed.` + `Print Assumptions`.
   ------------------------------------------------------------------------------------------- *)
